import Cppcheck.Proofs.ErrorIds
import Cppcheck.Gen.ErrorIds
/-
C28 — Every built-in finding id is discoverable through `--errorlist`.

The tables `Gen.ErrorIds.*` are extracted from /repo's working tree and from the built binary on every run
(vlib/props/c28.py); each theorem below is decided over the WHOLE table (a complete finite domain) by evaluating a
linear Boolean walk in the kernel and lifted to the quantified statement by the generic soundness lemmas of
Cppcheck/Proofs/ErrorIds.lean.  Ids are `enc id` (base-256 codes), see Model/ErrorIds.lean.

Full-strength statement: `IdsSubset` (every emitter's id is printed by --errorlist or exempt).  It is FALSE for the current
code (`ids_subset_counterexample`); `ids_subset_partial` carries the excluded ids as an explicit hypothesis-list.
-/
namespace Cppcheck.ErrorIds
open Cppcheck.Gen.ErrorIds

/-- ids exempt for a stated reason (docs/C28.md §Exemptions):
    ""           message object built only to probe the suppression list, never reported (CppCheck::check);
    "<UNKNOWN>"  placeholder when a cached analyzer-info XML entry has no id attribute (replay, not an emission) -/
def exemptIds : List (String × Nat) := [
  ("", 0x0),
  ("<UNKNOWN>", 0x3c554e4b4e4f574e3e)
]

/-- ids the emitter table contains only because the translator's string evaluation over-approximates
    (each one justified by reading the code, docs/C28.md §Exemptions): no execution produces them.
    Not a theorem: every entry has a structural guard in the translator (obligation `T:infeasible-ids-guards`, the code shape the
    argument relies on) and a negative witness in corpus/C28 (`T:infeasible-ids-stay-unreported`). -/
def infeasibleIds : List (String × Nat) := [
  ("constVariableCallback", 0x636f6e73745661726961626c6543616c6c6261636b),
  ("iterateByValueCallback", 0x69746572617465427956616c756543616c6c6261636b),
  ("uninitDerivedMemberVarNoCtor", 0x756e696e6974446572697665644d656d6265725661724e6f43746f72),
  ("uninitDerivedMemberVarPrivateNoCtor", 0x756e696e6974446572697665644d656d626572566172507269766174654e6f43746f72),
  ("uninitMemberVarPrivateNoCtor", 0x756e696e69744d656d626572566172507269766174654e6f43746f72)
]

/-- F28a–F28q: ids that analysed code makes cppcheck report (witness per id in corpus/C28/) but that --errorlist does not print.
    This list is the explicit exclusion of the partial theorems; any further unlisted id breaks them. -/
def knownUnlisted : List (String × Nat) := [
  ("allocaCalled", 0x616c6c6f636143616c6c6564),
  ("checkLevelNormal", 0x636865636b4c6576656c4e6f726d616c),
  ("checkLibraryCheckType", 0x636865636b4c696272617279436865636b54797065),
  ("checkLibraryFunction", 0x636865636b4c69627261727946756e6374696f6e),
  ("checkLibraryNoReturn", 0x636865636b4c6962726172794e6f52657475726e),
  ("checkLibraryUseIgnore", 0x636865636b4c69627261727955736549676e6f7265),
  ("ctuArrayIndex", 0x6374754172726179496e646578),
  ("ctuOneDefinitionRuleViolation", 0x6374754f6e65446566696e6974696f6e52756c6556696f6c6174696f6e),
  ("ctuPointerArith", 0x637475506f696e7465724172697468),
  ("ctunullpointer", 0x6374756e756c6c706f696e746572),
  ("ctunullpointerOutOfMemory", 0x6374756e756c6c706f696e7465724f75744f664d656d6f7279),
  ("ctunullpointerOutOfResources", 0x6374756e756c6c706f696e7465724f75744f665265736f7572636573),
  ("ctuuninitvar", 0x637475756e696e6974766172),
  ("derefInvalidIteratorRedundantCheck", 0x6465726566496e76616c69644974657261746f72526564756e64616e74436865636b),
  ("funcArgNamesDifferentUnnamed", 0x66756e634172674e616d6573446966666572656e74556e6e616d6564),
  ("integerOverflowCond", 0x696e74656765724f766572666c6f77436f6e64),
  ("noValidConfiguration", 0x6e6f56616c6964436f6e66696775726174696f6e),
  ("normalCheckLevelMaxBranches", 0x6e6f726d616c436865636b4c6576656c4d61784272616e63686573),
  ("passedByValueCallback", 0x706173736564427956616c756543616c6c6261636b),
  ("returnImplicitInt", 0x72657475726e496d706c69636974496e74),
  ("signConversionCond", 0x7369676e436f6e76657273696f6e436f6e64),
  ("subtractPointers", 0x7375627472616374506f696e74657273),
  ("templateRecursion", 0x74656d706c617465526563757273696f6e),
  ("tooLargeBitField", 0x746f6f4c617267654269744669656c64)
]

def exemptCodes : List Nat := exemptIds.map (·.2)
def infeasibleCodes : List Nat := infeasibleIds.map (·.2)
def knownCodes : List Nat := knownUnlisted.map (·.2)

/-- exempt by severity: only shown with --debug-warnings (`debug`) or never shown (`internal`) -/
def sevExempt (e : Emitter) : Bool :=
  match e.sev with
  | .debug | .internal => true
  | _ => false

/-- exempt by origin: emitted by the command-line front end (cli/, frontend/), not by a built-in check, the preprocessor,
    the tokenizer or the symbol database (unmatchedSuppression, checkersReport, cppcheckError …) -/
def originExempt (e : Emitter) : Bool :=
  match e.origin with
  | .cli => true
  | .lib => false

/-- exempt for one of the stated reasons -/
def exempt (e : Emitter) : Bool :=
  sevExempt e || originExempt e || memb e.id exemptCodes || memb e.id infeasibleCodes

/-- dynamic id rules the property exempts (library configuration, addons) or that re-emit / stand for ids of other emitters -/
def exemptKinds : List RuleKind :=
  [.libraryFunction, .addon, .clangTidy, .ruleFile, .replayXml, .replayPipe, .internalErrorId]

/-- number of passes of the reachability computation (any number is sound; the translator orders the edges by breadth-first
    level of the caller, so the first pass already reaches everything reachable) -/
def passes : Nat := 2

/-- functions reached from CppCheck::getErrorMessages in the extracted call graph (bit set): the numeral the translator
    computed; `reached_eq` re-computes it in the kernel.  The graph is STATIC: a call under a condition counts, so `reached`
    over-approximates what an execution of getErrorMessages calls; the dynamic fact is `ids_subset_partial`, which compares
    with what the built binary really prints. -/
def reached : Nat := reachedLit

/-- ids of the emitters whose function is reached -/
def reachedIds : List Nat := idsOfReached reached emitters

/-- the full-strength property over the emitter table -/
def IdsSubset : Prop := ∀ e ∈ emitters, exempt e = true ∨ e.id ∈ errorlistIds

/-! ### the theorems -/

/-- every function in `reached` has a call path from CppCheck::getErrorMessages in the extracted call graph -/
theorem reached_eq : reachBits calls roots passes = reached := by decide +kernel

theorem reach_sound : ∀ f, reached.testBit f = true → Reach calls roots f := by
  rw [← reached_eq]
  exact reachBits_sound calls roots passes

/-- PARTIAL (hypothesis: the id is not one of `knownUnlisted`): every emitter's id is printed by the built binary's
    --errorlist, or the emitter is exempt -/
theorem ids_subset_partial :
    ∀ e ∈ emitters, e.id ∉ knownCodes → exempt e = true ∨ e.id ∈ errorlistIds := by
  have h : coveredBy Emitter.id (fun e => exempt e || memb e.id knownCodes) emitters errorlistIds = true := by decide +kernel
  intro e he hk
  rcases coveredBy_sound _ _ _ _ h e he with hs | hm
  · simp only [Bool.or_eq_true, memb_iff] at hs
    rcases hs with hs | hs
    · exact Or.inl hs
    · exact absurd hs hk
  · exact Or.inr hm

example : ∃ e ∈ emitters, e.id ∉ knownCodes ∧ exempt e = false := by decide +kernel

/-- the check the translator's witness has to pass: it is the id of a non-exempt emitter and is not printed -/
def witnessOk : Bool :=
  match witnessUnlisted with
  | none => true
  | some w => (emitters.any fun e => Nat.beq e.id w && !exempt e) && !memb w errorlistIds

/-- COUNTEREXAMPLE: whenever the translator found an unlisted non-exempt id in the current tree (it does on the
    unchanged tree, see the `example` below), the full-strength statement is false -/
theorem ids_subset_counterexample : witnessUnlisted.isSome = true → ¬ IdsSubset := by
  have h : witnessOk = true := by decide +kernel
  intro hsome hall
  unfold witnessOk at h
  cases hw : witnessUnlisted with
  | none => simp [hw] at hsome
  | some w =>
    simp only [hw, Bool.and_eq_true, List.any_eq_true, Bool.not_eq_true', nat_beq_iff] at h
    obtain ⟨⟨e, he, hid, hex⟩, hnm⟩ := h
    rcases hall e he with hx | hm
    · simp [hex] at hx
    · have : memb w errorlistIds = true := (memb_iff _ _).mpr (hid ▸ hm)
      simp [hnm] at this

example : witnessUnlisted.isSome = true := by decide

/-- PARTIAL: every emitter is reached from CppCheck::getErrorMessages in the extracted call graph, or its id is also emitted
    by a function that is, or it is exempt / one of `knownUnlisted` -/
theorem emitters_listed_partial :
    ∀ e ∈ emitters, e.id ∉ knownCodes →
      reached.testBit e.fn = true ∨ (∃ e' ∈ emitters, reached.testBit e'.fn = true ∧ e'.id = e.id) ∨ exempt e = true := by
  have h : coveredBy Emitter.id (fun e => reached.testBit e.fn || exempt e || memb e.id knownCodes) emitters reachedIds = true := by
    decide +kernel
  intro e he hk
  rcases coveredBy_sound _ _ _ _ h e he with hs | hm
  · simp only [Bool.or_eq_true, memb_iff] at hs
    rcases hs with (hs | hs) | hs
    · exact Or.inl hs
    · exact Or.inr (Or.inr hs)
    · exact absurd hs hk
  · exact Or.inr (Or.inl ((mem_idsOfReached _ _ _).mp hm))

/-- every id the built binary prints is the id of an emitter whose function is reached from CppCheck::getErrorMessages:
    the extracted table explains the whole --errorlist output (translator completeness against the binary) -/
theorem errorlist_explained :
    ∀ i ∈ errorlistIds, ∃ e ∈ emitters, reached.testBit e.fn = true ∧ e.id = i := by
  have h : coveredBy (fun i : Nat => i) (fun _ => false) errorlistIds reachedIds = true := by decide +kernel
  intro i hi
  rcases coveredBy_sound _ _ _ _ h i hi with hs | hm
  · cases hs
  · exact (mem_idsOfReached _ _ _).mp hm

/-- every id expression that is dynamic by design belongs to an exempt class -/
theorem dynamic_rules_exempt : ∀ r ∈ dynRules, r.kind ∈ exemptKinds := by decide

example : dynRules ≠ [] := by decide

end Cppcheck.ErrorIds

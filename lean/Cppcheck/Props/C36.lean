import Cppcheck.Proofs.HtmlReport
/-
C36 — property theorems about the model of cppcheck-htmlreport (after fix b935e01).
-/
namespace Cppcheck.Html
open List

/-- escaped text carries no markup character: `<`, `>` and both quotes never survive -/
theorem escape_no_markup (s : Str) : ∀ c ∈ htmlEscape s, special c = false := by
  intro c hc
  simp only [htmlEscape, List.mem_flatMap] at hc
  obtain ⟨a, _, hca⟩ := hc
  unfold escChar at hca
  split at hca <;> simp at hca
  all_goals first
    | (rcases hca with h | h | h | h | h | h <;> subst h <;> decide)
    | (rcases hca with h | h | h | h | h <;> subst h <;> decide)
    | (rcases hca with h | h | h | h <;> subst h <;> decide)
    | (subst hca; simp_all [special])

/-- escaping loses nothing: an HTML parser reading the entities back recovers the original text -/
theorem unescape_escape (s : Str) : unescape (htmlEscape s) = s := by
  induction s with
  | nil => rfl
  | cons c r ih =>
    have hstep : htmlEscape (c :: r) = escChar c ++ htmlEscape r := by simp [htmlEscape]
    rw [hstep]
    unfold escChar
    split
    · simp [unescape, ih]
    · simp [unescape, ih]
    · simp [unescape, ih]
    · simp [unescape, ih]
    · simp [unescape, ih]
    · rename_i h1 h2 h3 h4 h5
      have hne : c ≠ '&' := by intro h; exact h1 h
      simp only [List.singleton_append]
      rw [unescape.eq_def]
      split <;> simp_all

/-- **every finding appears exactly once in the index**: the findings of the rows of index.html,
    in output order, are a permutation of the findings of the results file (any number of
    findings, files and locations; unreadable sources included — no hypothesis on the sources) -/
theorem index_rows_perm (es : List Err) : (indexRows es).map (·.err) ~ es := by
  have h1 : (indexRows es).map (·.err) = (sortedGroups es).flatMap sortedErrs := by
    simp [indexRows, List.map_flatMap, Function.comp_def]
  rw [h1]
  have h2 : (sortedGroups es).flatMap sortedErrs ~ (groups es).flatMap sortedErrs :=
    Perm.flatMap_right _ (stableSort_perm _ _)
  refine h2.trans ?_
  have h3 : (groups es).flatMap sortedErrs ~ (groups es).flatMap (·.errs) := by
    apply flatMap_perm_congr
    intro g _
    exact stableSort_perm _ _
  exact h3.trans (groups_perm es)

/-- each row sits under the file of its finding's first location -/
theorem row_file (es : List Err) : ∀ r ∈ indexRows es, r.err.file = r.group.file := by
  intro r hr
  simp only [indexRows, List.mem_flatMap, List.mem_map] at hr
  obtain ⟨g, hg, e, he, rfl⟩ := hr
  have hg' : g ∈ groups es := (stableSort_perm _ _).subset hg
  have he' : e ∈ g.errs := (stableSort_perm _ _).subset he
  exact groupsAux_file es [] (by simp) g hg' e he'

/-- the class attribute derived from the id is markup-free -/
theorem css_no_markup (s : Str) : ∀ c ∈ toCssSelector s, special c = false := by
  intro c hc
  have hv : ∀ c ∈ s.map (fun c => if cssOk c then c else '-'), special c = false := by
    intro c hc
    simp only [List.mem_map] at hc
    obtain ⟨a, _, rfl⟩ := hc
    split
    · rename_i h
      simp only [cssOk, Bool.or_eq_true, decide_eq_true_eq, Bool.and_eq_true] at h
      simp only [special, Bool.or_eq_false_iff, decide_eq_false_iff_not]
      refine ⟨⟨⟨?_, ?_⟩, ?_⟩, ?_⟩ <;> intro hh <;> subst hh <;> revert h <;> decide
    · decide
  dsimp only [toCssSelector] at hc
  rcases mem_ite_append hc with hc | hc
  · have h3 : "cpp".toList = ['c', 'p', 'p'] := by decide
    rw [h3] at hc
    simp only [List.mem_cons, List.not_mem_nil, or_false] at hc
    rcases hc with h | h | h <;> subst h <;> decide
  · exact hv c hc

/-! ### every column of an index row (M2) -/

/-- shape lemma: the message cell is the escaped message; nothing else in the row depends on the message -/
theorem row_message_cell (g : Group) (d rt : Bool) (ts : Str) (e : Err) :
    ∃ pre post, ∀ m, rowPieces g d rt ts { e with msg := m } = pre ++ [.esc m] ++ post := by
  refine ⟨[L "<tr class=\"", .css e.id, L " sev_", .esc (shownSeverity rt e), L " class_", .esc (shownCls rt e), L " issue\">"]
      ++ (rowCells g d rt e).flatMap tdP
      ++ msgOpen e,
   [L "</td>"] ++ (if ts = [] then [] else [L "<td>", .raw ts, L "</td>"]) ++ [L "</tr>"], ?_⟩
  intro m
  have h1 : rowCells g d rt { e with msg := m } = rowCells g d rt e := rfl
  have h2 : msgOpen { e with msg := m } = msgOpen e := rfl
  have h3 : shownSeverity rt { e with msg := m } = shownSeverity rt e := rfl
  have h4 : shownCls rt { e with msg := m } = shownCls rt e := rfl
  simp only [rowPieces, h1, h2, h3, h4, List.append_assoc, List.cons_append, List.nil_append]

/-- the second cell of every row is the escaped id -/
theorem row_id_cell (g : Group) (d rt : Bool) (e : Err) : (rowCells g d rt e)[1]? = some [.esc e.id] := by
  simp [rowCells]

/-- the third cell is the cwe link (escaped cwe, twice) or empty -/
theorem row_cwe_cell (g : Group) (d rt : Bool) (e : Err) : (rowCells g d rt e)[2]? = some (cweCell e) := by
  simp [rowCells]

/-- **line**: when the group is a file whose source could be decoded, the first cell is the line number of the
    finding's first location, linked to the anchor of that line on the file's page -/
theorem row_line_cell (g : Group) (d rt : Bool) (e : Err) (h : isFileGroup g d = true) :
    (rowCells g d rt e)[0]? =
      some [L "<a href=\"", .num g.no, L ".html#line-", .num e.line, L "\">", .num e.line, L "</a>"] := by
  simp [rowCells, h]

/-- … and it is EMPTY for a finding whose source file is undecodable, starred, or that has no location: the line
    number is nowhere in the row (finding F36c for the undecodable / starred case) -/
theorem row_line_cell_nofile (g : Group) (d rt : Bool) (e : Err) (h : isFileGroup g d = false) :
    (rowCells g d rt e)[0]? = some [] := by
  simp [rowCells, h]

theorem row_line_undecodable_counterexample :
    ¬ ∀ (g : Group) (d rt : Bool) (ts : Str) (e : Err), e ∈ g.errs → e.locs ≠ [] → .num e.line ∈ rowPieces g d rt ts e := by
  intro h
  have := h ⟨"bad.c".toList, 0, [⟨"i".toList, "style".toList, "m".toList, none, none, none, [], [], [⟨"bad.c".toList, 7, none⟩]⟩]⟩
    true false [] ⟨"i".toList, "style".toList, "m".toList, none, none, none, [], [], [⟨"bad.c".toList, 7, none⟩]⟩ (by simp) (by simp)
  exact absurd this (by decide)

/-- **severity**: in a report without classifications the fourth cell is the escaped severity (with `, inconcl.`
    appended for an inconclusive finding), provided the severity is not the empty string -/
theorem row_severity_cell (g : Group) (d : Bool) (e : Err) (h : sev0 e ≠ []) :
    (rowCells g d false e)[3]? = some [.esc (sev0 e)] := by
  simp [rowCells, shownSeverity, h]

/-- … and in a classification report (any finding of the file carries a classification) NO row shows its severity:
    the fourth and fifth cells are classification and guideline (finding F36b) -/
theorem row_classification_cells (g : Group) (d : Bool) (e : Err) :
    (rowCells g d true e)[3]? = some [.esc (shownCls true e)] ∧ (rowCells g d true e)[4]? = some [.esc (shownGuide true e)] ∧
    (rowCells g d true e).length = 5 := by
  have h : shownCls true e ≠ [] := by
    simp only [shownCls, if_true]; split <;> simp_all
  simp [rowCells, shownSeverity, h]

theorem row_severity_classification_counterexample :
    ¬ ∀ (g : Group) (d rt : Bool) (ts : Str) (e : Err), .esc (sev0 e) ∈ rowPieces g d rt ts e := by
  intro h
  have := h ⟨"a.c".toList, 0, []⟩ false true [] ⟨"i".toList, "style".toList, "m".toList, none, none, none, [], [], [⟨"a.c".toList, 7, none⟩]⟩
  exact absurd this (by decide)

/-- classification and guideline columns of a report without classifications: shown iff the finding has one -/
theorem row_cells_length (g : Group) (d rt : Bool) (e : Err) :
    (rowCells g d rt e).length = 3 + (if shownSeverity rt e ≠ [] then 1 else 0) + (if shownCls rt e ≠ [] then 2 else 0) := by
  simp only [rowCells, List.length_append, List.length_cons, List.length_nil]
  split <;> split <;> simp

/-! ### per-file pages (M1) -/

/-- **the entries of a per-file page**: every finding of the group is listed once PER LOCATION that lies in the
    file (in the order of the results file) — not once per finding -/
theorem page_entries (g : Group) :
    (pageLocs g).map (·.1) = g.errs.flatMap fun e => List.replicate (e.locs.filter (fun l => l.file = g.file)).length e := by
  simp only [pageLocs, List.map_flatMap, List.map_map]
  congr 1
  funext e
  induction (e.locs.filter fun l => l.file = g.file) with
  | nil => rfl
  | cons l r ih => simp [List.replicate_succ, ih]

/-- the menu of the page lists exactly these entries (sorted by line, stable) -/
theorem menu_entries_perm (g : Group) :
    stableSort (fun (a b : Err × Loc) => a.2.line < b.2.line) (pageLocs g) ~ pageLocs g := stableSort_perm _ _

/-- **no finding is missing from the page of its file**: every finding with a location is listed on the page of
    the file of its first location, at the line of that location -/
theorem page_lists_every_finding (es : List Err) (g : Group) (hg : g ∈ sortedGroups es) (e : Err) (he : e ∈ g.errs)
    (hl : e.locs ≠ []) : ∃ l, (e, l) ∈ pageLocs g ∧ l.line = e.line ∧ l.file = g.file := by
  have hg' : g ∈ groups es := (stableSort_perm _ _).subset hg
  have hf : e.file = g.file := groupsAux_file es [] (by simp) g hg' e he
  cases hloc : e.locs with
  | nil => exact absurd hloc hl
  | cons l r =>
    refine ⟨l, ?_, by simp [Err.line, hloc], by simpa [Err.file, hloc] using hf⟩
    simp only [pageLocs, List.mem_flatMap, List.mem_map, List.mem_filter, decide_eq_true_eq]
    refine ⟨e, he, l, ⟨by simp [hloc], by simpa [Err.file, hloc] using hf⟩, rfl⟩

/-- "every finding appears exactly once" is FALSE of the per-file pages: a finding with two locations in one file has
    two entries (menu and annotations) on that file's page (finding F36a) -/
theorem page_exactly_once_counterexample :
    ¬ ∀ (es : List Err) (g : Group), g ∈ sortedGroups es → (pageLocs g).length = g.errs.length := by
  intro h
  let e1 : Err := ⟨"idA".toList, "style".toList, "m".toList, none, none, none, [], [], [⟨"a.c".toList, 3, none⟩, ⟨"a.c".toList, 9, none⟩]⟩
  have := h [e1] ⟨"a.c".toList, 0, [e1]⟩ (by simp [sortedGroups, groups, groupsAux, addErr, stableSort, insertFront, e1, Err.file])
  exact absurd this (by decide)

/-- … and TRUE when every finding of the group has exactly one location in the group's file: the entries of the
    page are exactly the findings of the group, each once, in the order of the results file -/
theorem page_exactly_once_partial (g : Group)
    (h : ∀ e ∈ g.errs, (e.locs.filter (fun l => l.file = g.file)).length = 1) :
    (pageLocs g).map (·.1) = g.errs := by
  rw [page_entries]
  have : ∀ l : List Err, (∀ e ∈ l, (e.locs.filter (fun l => l.file = g.file)).length = 1) →
      (l.flatMap fun e => List.replicate (e.locs.filter (fun l => l.file = g.file)).length e) = l := by
    intro l
    induction l with
    | nil => intro _; rfl
    | cons e r ih =>
      intro hh
      simp only [List.flatMap_cons, hh e (by simp), List.replicate_one, List.singleton_append]
      rw [ih (fun x hx => hh x (by simp [hx]))]
  exact this _ h

/-- **the annotation of an entry carries its escaped message** (the `info` of the location when it has one):
    whenever the finding has no `inconclusive` attribute or it is `true` -/
theorem annot_shows_message (p : PageErr) (h : p.err.inconclusive = none ∨ p.err.inconclusive = some "true".toList) :
    ∃ b ps, annotPieces p = some (b, ps) ∧ .esc p.msg ∈ ps := by
  unfold annotPieces
  rcases h with h | h <;> rw [h] <;> cases p.expandable <;> simp

/-- … and there is NO annotation when the attribute is present with any other value (finding F36d; cppcheck itself
    only ever writes `inconclusive="true"`) -/
theorem annot_missing_counterexample :
    ¬ ∀ p : PageErr, (annotPieces p).isSome = true := by
  intro h
  have := h ⟨⟨"i".toList, "style".toList, "m".toList, none, some "false".toList, none, [], [], []⟩, 3, "m".toList, none⟩
  exact absurd this (by decide)

/-- a line with a single entry: what is written behind the line is exactly that entry's annotation -/
theorem lineAnnot_single (g : Group) (n : Nat) (p : PageErr) (b : Bool) (x : List Piece)
    (h1 : (pageErrs g).filter (fun q => q.line = n) = [p]) (h2 : annotPieces p = some (b, x)) :
    lineAnnot g n = render x := by
  simp only [lineAnnot, h1, annotateLine, List.foldl_cons, List.foldl_nil, h2]
  cases b
  · simp [replaceNl]
  · simp [replaceLastNl, List.idxOf?]

/-- only source lines exist on a page: an entry whose line is 0 or beyond the end of the file is in the menu but
    has no annotation (`lineAnnot` is consulted for the lines 1..N of the source only) -/
theorem lineAnnot_none (g : Group) (n : Nat) (h : ∀ p ∈ pageErrs g, p.line ≠ n) : lineAnnot g n = ['\n'] := by
  have : (pageErrs g).filter (fun q => q.line = n) = [] := by
    simp only [List.filter_eq_nil_iff, decide_eq_true_eq]; exact h
  simp [lineAnnot, this, annotateLine]

/-- **every entry of a source line is annotated exactly once, in page order**: when no annotation text has a
    newline of its own, what is written behind line `n` is the concatenation of the annotations of the page entries of
    that line (one per location of a finding in the file), each once, in the order of the results file -/
theorem page_annotations_in_order (g : Group) (n : Nat)
    (h : ∀ p ∈ (pageErrs g).filter (fun p => p.line = n), ∀ y, annotBody p = some y → '\n' ∉ y) :
    lineAnnot g n = (((pageErrs g).filter (fun p => p.line = n)).filterMap annotBody).flatten ++ ['\n'] := by
  have := annotateLine_concat _ [] (by simp) h
  simpa [lineAnnot] using this

/-- … and FALSE without that hypothesis: a verbose text containing `\012` (cppcheck's spelling of a newline in the
    XML) becomes a real newline inside the expandable annotation, and the NEXT plain annotation of the same line,
    which replaces every newline, is written twice — once inside the earlier finding's verbose text (finding F36e) -/
theorem page_annotations_counterexample :
    ¬ ∀ (g : Group) (n : Nat),
      lineAnnot g n = (((pageErrs g).filter (fun p => p.line = n)).filterMap annotBody).flatten ++ ['\n'] := by
  intro h
  have := h ⟨"a.c".toList, 0,
    [⟨"A".toList, "error".toList, "s".toList, some "l\\012t".toList, none, none, [], [], [⟨"a.c".toList, 4, none⟩]⟩,
     ⟨"B".toList, "error".toList, "x".toList, none, none, none, [], [], [⟨"a.c".toList, 4, none⟩]⟩]⟩ 4
  exact absurd this (by decide)

/-! ### whole-output injection freedom (M4) -/

/-- every literal the templates of the script contribute to rows, file rows, menus and annotations -/
def templateLits : List Str := [
  "<tr class=\"", " sev_", " class_", " issue\">", "<td>", "</td>", "<td class=\"", "\">", "error", "warning", "inconclusive",
  "</tr>", "<a href=\"", ".html#line-", "</a>", "<a href=\"https://cwe.mitre.org/data/definitions/", ".html\">",
  "<tr><td colspan=\"6\">", "</td></tr>", "\"> ", " ",
  "<div class=\"verbose expandable\"><span class=\"", "<span class=\"", "error2", "inconclusive2", "\">&lt;--- ",
  " <span class=\"marker\">[+]</span></span><div class=\"content\">", "</div></div>\n", "</span>\n"].map String.toList

/-- a piece is harmless: a literal of the templates, the time stamp of the results file (`time.ctime`, not a string
    of the results file), or an encoded string whose rendering is `wellEscaped` -/
def Piece.ok (ts : Str) : Piece → Bool
  | .lit s => templateLits.contains s
  | .raw s => s == ts
  | p => wellEscaped p.render

/-- the encoded pieces are harmless whatever string of the results file they carry -/
theorem dynamic_ok (ts : Str) : (∀ s, (Piece.esc s).ok ts = true) ∧ (∀ s, (Piece.css s).ok ts = true) ∧ (∀ n, (Piece.num n).ok ts = true) :=
  ⟨fun s => escape_wellEscaped s, fun s => plain_wellEscaped _ (css_plain s), fun n => plain_wellEscaped _ (natStr_plain n)⟩

macro "piece_ok" : tactic =>
  `(tactic| first | exact escape_wellEscaped _ | exact plain_wellEscaped _ (css_plain _) | exact plain_wellEscaped _ (natStr_plain _) | rfl)

macro "all_ok" : tactic =>
  `(tactic| (simp only [List.all_append, List.all_cons, List.all_nil, Bool.and_true, Bool.and_eq_true]
             <;> (repeat' constructor) <;> piece_ok))

/-- **no string of the results file reaches a finding row unencoded**: `rowHtml` is the rendering of pieces each of
    which is a fixed template literal, the time stamp, or an `html_escape`d / `to_css_selector`ed / decimal value —
    for every finding, group, flag and time stamp -/
theorem row_injection_free (g : Group) (d rt : Bool) (ts : Str) (e : Err) :
    rowHtml g d rt ts e = render (rowPieces g d rt ts e) ∧ (rowPieces g d rt ts e).all (Piece.ok ts) = true := by
  refine ⟨rfl, ?_⟩
  have hcell : ∀ c ∈ rowCells g d rt e, (tdP c).all (Piece.ok ts) = true := by
    intro c hc
    simp only [rowCells, List.mem_append, List.mem_cons, List.not_mem_nil, or_false] at hc
    rcases hc with ((rfl | rfl | rfl) | hc) | hc
    · split <;> simp only [tdP] <;> all_ok
    · simp only [tdP]; all_ok
    · unfold cweCell; split
      · split <;> simp only [tdP] <;> all_ok
      · simp only [tdP]; all_ok
    · split at hc
      · simp only [List.mem_cons, List.not_mem_nil, or_false] at hc; subst hc; simp only [tdP]; all_ok
      · simp at hc
    · split at hc
      · simp only [List.mem_cons, List.not_mem_nil, or_false] at hc
        rcases hc with rfl | rfl <;> simp only [tdP] <;> all_ok
      · simp at hc
  have hcells : ((rowCells g d rt e).flatMap tdP).all (Piece.ok ts) = true := by
    rw [List.all_flatMap, List.all_eq_true]; exact hcell
  have h1 : (msgOpen e).all (Piece.ok ts) = true := by
    unfold msgOpen
    cases messageClass e with
    | none => all_ok
    | some c => cases c <;> simp only [MsgClass.name] <;> all_ok
  have h2 : (if ts = [] then [] else [L "<td>", Piece.raw ts, L "</td>"]).all (Piece.ok ts) = true := by
    split
    · rfl
    · simp only [List.all_cons, List.all_nil, Bool.and_true, Bool.and_eq_true]
      refine ⟨rfl, ?_, rfl⟩
      simp [Piece.ok]
  simp only [rowPieces, List.all_append, hcells, h1, h2, Bool.and_true]
  all_ok

theorem fileRow_injection_free (g : Group) (d : Bool) (ts : Str) :
    fileRowHtml g d = render (fileRowPieces g d) ∧ (fileRowPieces g d).all (Piece.ok ts) = true := by
  refine ⟨rfl, ?_⟩
  simp only [fileRowPieces]
  split <;> all_ok

theorem menu_injection_free (g : Group) (ts : Str) :
    menuHtml g = render (menuPieces g) ∧ (menuPieces g).all (Piece.ok ts) = true := by
  refine ⟨rfl, ?_⟩
  simp only [menuPieces, List.all_flatMap, List.all_eq_true]
  intro p _
  have : (menuEntryPieces g p).all (Piece.ok ts) = true := by simp only [menuEntryPieces]; all_ok
  exact List.all_eq_true.mp this

/-- the annotation written into a per-file page (the place of F13): message, location info and verbose text only
    ever appear `html_escape`d inside fixed markup -/
theorem annot_injection_free (p : PageErr) (ts : Str) (b : Bool) (x : List Piece) (h : annotPieces p = some (b, x)) :
    x.all (Piece.ok ts) = true := by
  unfold annotPieces at h
  simp only at h
  split at h
  · simp at h
  · rename_i c hc
    have hcl : c = "error2" ∨ c = "inconclusive2" := by
      split at hc
      · split at hc <;> simp at hc; exact Or.inr hc.symm
      · simp at hc; exact Or.inl hc.symm
    split at h <;> simp only [Option.some.injEq, Prod.mk.injEq] at h <;> obtain ⟨_, rfl⟩ := h <;>
      rcases hcl with rfl | rfl <;> all_ok

/-- what `Piece.ok` buys: the rendering of an encoded piece contains none of `<`, `>`, `"`, `'` -/
theorem wellEscaped_no_markup : ∀ s : Str, wellEscaped s = true → ∀ c ∈ s, special c = false := by
  intro s
  induction s using wellEscaped.induct with
  | case1 r ih => intro h c hc; simp only [wellEscaped] at h; simp only [List.mem_cons] at hc; rcases hc with rfl | rfl | rfl | rfl | rfl | hc <;> first | decide | exact ih h c hc
  | case2 r ih => intro h c hc; simp only [wellEscaped] at h; simp only [List.mem_cons] at hc; rcases hc with rfl | rfl | rfl | rfl | hc <;> first | decide | exact ih h c hc
  | case3 r ih => intro h c hc; simp only [wellEscaped] at h; simp only [List.mem_cons] at hc; rcases hc with rfl | rfl | rfl | rfl | hc <;> first | decide | exact ih h c hc
  | case4 r ih => intro h c hc; simp only [wellEscaped] at h; simp only [List.mem_cons] at hc; rcases hc with rfl | rfl | rfl | rfl | rfl | rfl | hc <;> first | decide | exact ih h c hc
  | case5 r ih => intro h c hc; simp only [wellEscaped] at h; simp only [List.mem_cons] at hc; rcases hc with rfl | rfl | rfl | rfl | rfl | rfl | hc <;> first | decide | exact ih h c hc
  | case6 c0 r _ _ _ _ _ ih =>
    intro h c hc
    rw [wellEscaped.eq_def] at h
    split at h <;> simp_all [plain]
    all_goals (rcases hc with rfl | hc <;> simp_all)
  | case7 => intro _ c hc; simp at hc

/-! non-vacuity / concrete instances -/
example : htmlEscape "a<b>&\"c'".toList = "a&lt;b&gt;&amp;&quot;c&apos;".toList := by decide
example : unescape "x &amp;lt; y".toList = "x &lt; y".toList := by decide
-- a finding with two locations in a.c: two menu entries; classification report: no severity cell
example : (pageLocs ⟨"a.c".toList, 0, [⟨"idA".toList, "style".toList, "m".toList, none, none, none, [], [],
    [⟨"a.c".toList, 3, none⟩, ⟨"a.c".toList, 9, none⟩]⟩]⟩).length = 2 := by decide
example : isFileGroup ⟨"a.c".toList, 0, []⟩ false = true := by decide
example : sev0 ⟨"i".toList, "style".toList, "m".toList, none, some "true".toList, none, [], [], []⟩ = "style, inconcl.".toList := by decide

end Cppcheck.Html


import Cppcheck.Proofs.HtmlReport
/-
C36 — property theorems about the model of cppcheck-htmlreport (after fix b935e01).
-/
namespace Cppcheck.Html
open List

def special (c : Char) : Bool := c = '<' || c = '>' || c = '"' || c = '\''

/-- escaped text carries no markup character: `<`, `>` and both quotes never survive -/
theorem escape_no_markup (s : Str) : ∀ c ∈ htmlEscape s, special c = false := by
  intro c hc
  simp only [htmlEscape, List.mem_flatMap] at hc
  obtain ⟨a, _, hca⟩ := hc
  unfold escChar at hca
  split at hca <;> simp at hca
  all_goals first
    | (rcases hca with h | h | h | h | h | h <;> subst h <;> decide)
    | (rcases hca with h | h | h | h | h <;> subst h <;> decide)
    | (rcases hca with h | h | h | h <;> subst h <;> decide)
    | (subst hca; simp_all [special])

/-- escaping loses nothing: an HTML parser reading the entities back recovers the original text -/
theorem unescape_escape (s : Str) : unescape (htmlEscape s) = s := by
  induction s with
  | nil => rfl
  | cons c r ih =>
    have hstep : htmlEscape (c :: r) = escChar c ++ htmlEscape r := by simp [htmlEscape]
    rw [hstep]
    unfold escChar
    split
    · simp [unescape, ih]
    · simp [unescape, ih]
    · simp [unescape, ih]
    · simp [unescape, ih]
    · simp [unescape, ih]
    · rename_i h1 h2 h3 h4 h5
      have hne : c ≠ '&' := by intro h; exact h1 h
      simp only [List.singleton_append]
      rw [unescape.eq_def]
      split <;> simp_all

/-- **every finding appears exactly once in the index**: the findings of the rows of index.html,
    in output order, are a permutation of the findings of the results file (any number of
    findings, files and locations; unreadable sources included — no hypothesis on the sources) -/
theorem index_rows_perm (es : List Err) : (indexRows es).map (·.err) ~ es := by
  have h1 : (indexRows es).map (·.err) = (sortedGroups es).flatMap sortedErrs := by
    simp [indexRows, List.map_flatMap, Function.comp_def]
  rw [h1]
  have h2 : (sortedGroups es).flatMap sortedErrs ~ (groups es).flatMap sortedErrs :=
    Perm.flatMap_right _ (stableSort_perm _ _)
  refine h2.trans ?_
  have h3 : (groups es).flatMap sortedErrs ~ (groups es).flatMap (·.errs) := by
    apply flatMap_perm_congr
    intro g _
    exact stableSort_perm _ _
  exact h3.trans (groups_perm es)

/-- each row sits under the file of its finding's first location -/
theorem row_file (es : List Err) : ∀ r ∈ indexRows es, r.err.file = r.group.file := by
  intro r hr
  simp only [indexRows, List.mem_flatMap, List.mem_map] at hr
  obtain ⟨g, hg, e, he, rfl⟩ := hr
  have hg' : g ∈ groups es := (stableSort_perm _ _).subset hg
  have he' : e ∈ g.errs := (stableSort_perm _ _).subset he
  exact groupsAux_file es [] (by simp) g hg' e he'

/-- the message column is the escaped message; the markup around it does not depend on the message -/
theorem row_message_escaped (g : Group) (d rt : Bool) (ts : Str) (e : Err) (m : Str) :
    rowHtml g d rt ts { e with msg := m } = rowPre g d rt e ++ htmlEscape m ++ rowPost ts := rfl

theorem mem_ite_append {c : Char} {b : Bool} {a v : Str} (h : c ∈ (if b = true then a ++ v else v)) :
    c ∈ a ∨ c ∈ v := by
  cases b <;> simp_all

/-- the class attribute derived from the id is markup-free -/
theorem css_no_markup (s : Str) : ∀ c ∈ toCssSelector s, special c = false := by
  intro c hc
  have hv : ∀ c ∈ s.map (fun c => if cssOk c then c else '-'), special c = false := by
    intro c hc
    simp only [List.mem_map] at hc
    obtain ⟨a, _, rfl⟩ := hc
    split
    · rename_i h
      simp only [cssOk, Bool.or_eq_true, decide_eq_true_eq, Bool.and_eq_true] at h
      simp only [special, Bool.or_eq_false_iff, decide_eq_false_iff_not]
      refine ⟨⟨⟨?_, ?_⟩, ?_⟩, ?_⟩ <;> intro hh <;> subst hh <;> revert h <;> decide
    · decide
  dsimp only [toCssSelector] at hc
  rcases mem_ite_append hc with hc | hc
  · have h3 : "cpp".toList = ['c', 'p', 'p'] := by decide
    rw [h3] at hc
    simp only [List.mem_cons, List.not_mem_nil, or_false] at hc
    rcases hc with h | h | h <;> subst h <;> decide
  · exact hv c hc

/-! non-vacuity / concrete instances -/
example : htmlEscape "a<b>&\"c'".toList = "a&lt;b&gt;&amp;&quot;c&apos;".toList := by decide
example : unescape "x &amp;lt; y".toList = "x &lt; y".toList := by decide

end Cppcheck.Html

import Cppcheck.Proofs.MathLit
import Cppcheck.Proofs.CharLit
import Cppcheck.Proofs.Trunc
import Cppcheck.Model.Platforms
import Cppcheck.Gen.Platforms
/-
C10 — literal and constant values match the compiler on each platform: property theorems.

Objects (all executable, see Model/):
  `toBigNumber`, `toBigUNumber`, `isInt`, `isValidIntegerSuffix`  copies of lib/mathlib.cpp
  `characterLiteralToLL`                                          copy of externals/simplecpp/simplecpp.cpp
  `truncateIntValue`, `getMinMaxValues`, `constValue`, `charAdjust`   copies of lib/vf_common.cpp
  `Lit`/`render`/`Lit.value`, `CharLit`/`CharLit.render`/`CharLit.value`, `specSuffix`, `wrapC`   the specification side
  `Gen.Platforms.*`                                               extracted from lib/platform.cpp + platforms/*.xml on every run
-/
namespace Cppcheck.C10
open Cppcheck.Wire Cppcheck.MathLit Cppcheck.CharLit Cppcheck.Trunc Cppcheck.Platforms

/-! ## integer literals -/

/-- Every literal of the grammar (any base, any number of digits, any accepted suffix, optional sign) whose
    magnitude fits 64 bits is converted to the 64-bit two's-complement IMAGE of its value (`Int.bmod · 2^64`): values in
    [2^63, 2^64) come out as negative bigints.  (`Lit` carries an optional sign because the tokenizer may hand MathLib a
    merged `-5`; in C the sign is a unary operator, `value` is the value of that token text, not of a C literal.) -/
theorem toBig_render (l : Lit) (hwf : l.WF = true) (hc : l.canonical = true) (h : l.magnitude < 2 ^ 64) :
    toBigNumber (render l) = .ok (Int.bmod l.value (2 ^ 64)) :=
  toBigNumber_render hwf hc (Or.inr h)

/-- the unsigned converter yields the value modulo 2^64 -/
theorem toBigU_render (l : Lit) (hwf : l.WF = true) (hc : l.canonical = true) (h : l.magnitude < 2 ^ 64) :
    toBigUNumber (render l) = .ok (l.value % 2 ^ 64) :=
  toBigUNumber_render hwf hc (Or.inr h)

example : (⟨none, .hex, false, "fFfF".toList, "uLL".toList⟩ : Lit).WF = true ∧
    (⟨none, .hex, false, "fFfF".toList, "uLL".toList⟩ : Lit).canonical = true ∧
    (⟨none, .hex, false, "fFfF".toList, "uLL".toList⟩ : Lit).magnitude = 65535 := by decide
example : (⟨some true, .dec, false, "9223372036854775808".toList, "i64".toList⟩ : Lit).WF = true ∧
    (⟨some true, .dec, false, "9223372036854775808".toList, "i64".toList⟩ : Lit).value = -(2 ^ 63) := by decide

/-- Decimal, hexadecimal and octal literals that do not fit 64 bits are rejected (InternalError out_of_range, no value). -/
theorem toBig_rejects_overflow_partial (l : Lit) (hwf : l.WF = true) (hc : l.canonical = true) (hb : l.base ≠ .bin)
    (h : 2 ^ 64 ≤ l.magnitude) :
    toBigNumber (render l) = .err .outOfRange ∧ toBigUNumber (render l) = .err .outOfRange :=
  toBig_overflow hwf hc hb h

example : (⟨none, .dec, false, "18446744073709551616".toList, []⟩ : Lit).WF = true ∧
    (⟨none, .dec, false, "18446744073709551616".toList, []⟩ : Lit).base ≠ .bin ∧
    2 ^ 64 ≤ (⟨none, .dec, false, "18446744073709551616".toList, []⟩ : Lit).magnitude := by decide

/-- The statement without the base restriction is false of the code: the binary branch shifts without a range check. -/
theorem toBig_rejects_overflow_counterexample :
    ¬ ∀ l : Lit, l.WF = true → l.canonical = true → 2 ^ 64 ≤ l.magnitude → toBigNumber (render l) = .err .outOfRange := by
  intro h
  have := h ⟨none, .bin, false, '1' :: List.replicate 64 '0', []⟩ (by decide) (by decide) (by decide)
  revert this
  decide

/-- what the binary branch does instead: it wraps modulo 2^64, for every number of digits -/
theorem toBig_bin_wraps (l : Lit) (hwf : l.WF = true) (hb : l.base = .bin) :
    toBigNumber (render l) = .ok (Int.bmod l.value (2 ^ 64)) :=
  toBigNumber_render hwf (by simp [Lit.canonical, hb]) (Or.inl hb)

/-- `MathLib::isInt` accepts exactly the spellings of the grammar. -/
theorem isInt_iff_grammar (s : Str) : isInt s = true ↔ ∃ l : Lit, l.WF = true ∧ render l = s :=
  ⟨render_of_isInt, fun ⟨_, hwf, hr⟩ => hr ▸ isInt_of_render hwf⟩

/-- The 18-state suffix machine (Microsoft extensions on) accepts exactly the suffix table
    u l z | ul uz lu ll zu | ull llu i64 | ui64 (either case per letter) and `_` followed by at least one character. -/
theorem suffix_iff_spec (s : Str) : isValidIntegerSuffix s true = specSuffix s :=
  suffix_spec s

/-- the same machine with `supportMicrosoftExtensions = false`: the table without `i64` / `ui64` -/
theorem suffix_iff_spec_std (s : Str) : isValidIntegerSuffix s false = specSuffixStd s :=
  suffix_spec_std s

/-! ## spelling → type → reported value of an integer literal token

`toBigNumber` (this file), the type `setValueTypeInTokenList` gives the literal (C09's model `litTypeCore`, proved against
C17 6.4.4.1p5 in `Cppcheck.ValueTypeConv.literal_type_partial`) and the literal branch of `valueFlowSetConstantValue` +
`setTokenValue` guard (`constValue`) composed: the known value attached to the token of an unsigned-spelled (no sign)
literal is the VALUE OF THE LITERAL whenever bigint can hold it, and NO value otherwise — on every platform shape with
64-bit `long long`, whatever base, digits and suffix. -/
open Cppcheck.ValueTypeConv in
theorem literal_value (l : Lit) (hwf : l.WF = true) (hc : l.canonical = true) (hs : l.sign = none) (hm : l.magnitude < 2 ^ 64)
    (ib lb : Nat) (hib : ib ≤ 64) (hlb : lb ≤ 64) (dec us : Bool) (longs : Nat) (cs : Option Bool) (cb : Nat) :
    ∃ b, toBigNumber (render l) = .ok b ∧
      constValue b false cs cb
        ((litTypeCore (maxValue ib) (maxValue lb) (maxValue 64) dec us longs l.magnitude).sign == .unsigned)
        (litBits ib lb 64 (litTypeCore (maxValue ib) (maxValue lb) (maxValue 64) dec us longs l.magnitude).type / 8)
        (some (litBits ib lb 64 (litTypeCore (maxValue ib) (maxValue lb) (maxValue 64) dec us longs l.magnitude).type))
      = if l.magnitude < 2 ^ 63 then some (l.magnitude : Int) else none := by
  refine ⟨_, toBig_render l hwf hc hm, ?_⟩
  have hv : l.value = (l.magnitude : Int) := by simp [Lit.value, hs]
  rw [hv]
  by_cases hsmall : l.magnitude < 2 ^ 63
  · have hb : Int.bmod (l.magnitude : Int) (2 ^ 64) = (l.magnitude : Int) := bmod_of_range (by omega) (by omega)
    have hnn : ¬ ((l.magnitude : Int) < 0) := by omega
    simp [hb, constValue, charAdjust, hsmall, hnn]
  · obtain ⟨hsign, hbits⟩ := litType_large ib lb hib hlb dec us longs l.magnitude (by omega) hm
    have hb : Int.bmod (l.magnitude : Int) (2 ^ 64) = (l.magnitude : Int) - 2 ^ 64 := by
      rw [Int.bmod_def]
      have e : ((2 ^ 64 : Nat) : Int) = 2 ^ 64 := by norm_cast
      rw [e]
      split <;> omega
    have hneg : (l.magnitude : Int) - 2 ^ 64 < 0 := by omega
    simp [hb, hsign, hbits, constValue, charAdjust, hsmall, hneg]
    omega

-- `0x7fffFFFFu` on unix64 (int 32, long 64): value 2147483647; `18446744073709551615u`: no value
example : (⟨none, .hex, false, "7fffFFFF".toList, "u".toList⟩ : Lit).WF = true ∧
    (⟨none, .hex, false, "7fffFFFF".toList, "u".toList⟩ : Lit).magnitude = 2147483647 ∧
    (⟨none, .dec, false, "18446744073709551615".toList, "u".toList⟩ : Lit).magnitude = 2 ^ 64 - 1 := by decide

/-! ## character literals -/

/-- Every well-formed character literal (prefix none/u8/u/L; plain characters, simple, octal, hexadecimal and
    universal escapes; any number of c-chars for the unprefixed kind) gets the value of the specification. -/
theorem charlit_value (c : CharLit) (hwf : c.WF = true) : characterLiteralToLL c.render = .ok c.value :=
  charlit_value_of c hwf

example : (⟨.narrow, [.plain 'a', .simple 'n', .oct "17".toList, .hex "fF".toList]⟩ : CharLit).WF = true := by decide
example : (⟨.utf16, [.ucn4 "20aC".toList]⟩ : CharLit).WF = true := by decide
example : (⟨.narrow, [.hex ['0'], .plain 'x', .plain '4']⟩ : CharLit).WF = true ∧
    characterLiteralToLL (⟨.narrow, [.hex ['0'], .plain 'x', .plain '4']⟩ : CharLit).render = .ok 30772 := by decide

/-- The function before commit bed3bd1 (`pre := true`: the rest of the literal went to strtoull, which skips a `0x`
    prefix) did not satisfy the statement: `'\x0x4'` is the three c-chars `\x0`, `x`, `4` (gcc/clang: 30772), it returned 4. -/
theorem charlit_value_before_fix_counterexample :
    ¬ ∀ c : CharLit, c.WF = true → characterLiteralToLL c.render true = .ok c.value := by
  intro h
  have := h ⟨.narrow, [.hex ['0'], .plain 'x', .plain '4']⟩ (by decide)
  revert this
  decide

/-! ## truncation, ranges, the unsigned adjustment of literals -/

/-- `truncateIntValue` is the conversion to an integer type of 8·n bits (two's complement wrap), re-read as bigint. -/
theorem truncate_eq_wrap (v : Int) (n : Nat) (hn : 0 < n ∧ n ≤ 8) (signed : Bool) :
    truncateIntValue v n signed = some (Int.bmod (wrapC (8 * n) signed v) (2 ^ 64)) :=
  truncate_eq v n hn.1 hn.2 signed

example : (0 < 2 ∧ 2 ≤ 8) ∧ truncateIntValue 65535 2 true = some (-1) ∧ truncateIntValue (-1) 2 false = some 65535 := by decide

/-- signed destination: the balanced residue -/
theorem truncate_signed (v : Int) (n : Nat) (hn : 0 < n ∧ n ≤ 8) :
    truncateIntValue v n true = some (Int.bmod v (2 ^ (8 * n))) := by
  rw [truncate_eq_wrap v n hn]
  simp only [wrapC, if_true]
  have hp : 0 < 2 ^ (8 * n - 1) := Nat.two_pow_pos _
  have hP : 2 ^ (8 * n) = 2 * 2 ^ (8 * n - 1) := by
    have : 8 * n = 8 * n - 1 + 1 := by omega
    conv => lhs; rw [this, Nat.pow_succ]
    omega
  have hle : 2 ^ (8 * n - 1) ≤ 2 ^ 63 := Nat.pow_le_pow_right (by decide) (by omega)
  have h1 := @Int.bmod_lt v (2 ^ (8 * n)) (Nat.two_pow_pos _)
  have h2 := @Int.le_bmod v (2 ^ (8 * n)) (Nat.two_pow_pos _)
  congr 1
  apply bmod_of_range <;> omega

/-- unsigned destination narrower than bigint: the non-negative residue -/
theorem truncate_unsigned (v : Int) (n : Nat) (hn : 0 < n ∧ n < 8) :
    truncateIntValue v n false = some (v % ((2 ^ (8 * n) : Nat) : Int)) := by
  rw [truncate_eq_wrap v n ⟨hn.1, by omega⟩]
  simp only [wrapC, Bool.false_eq_true, if_false]
  have hle : 2 ^ (8 * n) ≤ 2 ^ 56 := Nat.pow_le_pow_right (by decide) (by omega)
  have hpos : 0 < 2 ^ (8 * n) := Nat.two_pow_pos _
  have h1 : 0 ≤ v % ((2 ^ (8 * n) : Nat) : Int) := Int.emod_nonneg _ (by omega)
  have h2 : v % ((2 ^ (8 * n) : Nat) : Int) < ((2 ^ (8 * n) : Nat) : Int) := Int.emod_lt_of_pos _ (by omega)
  congr 1
  apply bmod_of_range <;> omega

/-- `castValue` (what `setTokenValueCast` applies for a cast to char/short/int/long/long long of `8n` bits) is the C conversion
    to the target type, re-read as bigint -/
theorem cast_eq_wrap (v : Int) (hv : -(2 ^ 63) ≤ v ∧ v < 2 ^ 63) (n : Nat) (hn : 0 < n ∧ n ≤ 8) (signed : Bool) :
    castValue v signed (8 * n) = Int.bmod (wrapC (8 * n) signed v) (2 ^ 64) :=
  castValue_eq_wrap v hv n hn.1 hn.2 signed

example : (-(2 ^ 63 : Int) ≤ 300 ∧ (300 : Int) < 2 ^ 63) ∧ castValue 300 false (8 * 1) = 44 ∧ castValue 200 true (8 * 1) = -56 := by decide

/-- `getMinMaxValues` gives the range of the type for widths below 62 bits and for signed 64-bit types. -/
theorem minmax_eq_range_partial (bits : Nat) (unsigned : Bool)
    (h : (2 ≤ bits ∧ bits < 62) ∨ (bits = 64 ∧ unsigned = false)) :
    getMinMaxValues bits unsigned = some (cRange bits unsigned) := by
  rcases h with ⟨h1, h2⟩ | ⟨h1, h2⟩
  · have : ¬ bits = 1 := by omega
    simp only [getMinMaxValues, this, if_false, h2, if_true, cRange]
    cases unsigned <;> simp
  · subst h1 h2
    decide

example : (2 ≤ 32 ∧ 32 < 62) ∨ (32 = 64 ∧ true = false) := by decide

/-- for every width from 2 to 64 the statement is false of the code: unsigned 64-bit types get LLONG_MAX as
    maximum ("todo max unsigned value"), 62- and 63-bit types get no range -/
theorem minmax_counterexample :
    ¬ ∀ bits unsigned, 2 ≤ bits → bits ≤ 64 → getMinMaxValues bits unsigned = some (cRange bits unsigned) := by
  intro h
  have := h 64 true (by decide) (by decide)
  revert this
  decide

/-- a negative `toBigNumber` result on a (non-character) literal of unsigned type narrower than 8 bytes is replaced by its
    value in the type (`signedValue += maxValue + 1`), provided it is not below −2^bits -/
theorem const_unsigned_adjust (v : Int) (size bits : Nat) (cs : Option Bool) (cb : Nat) (hb : 2 ≤ bits ∧ bits < 62) (hs : size < 8)
    (hv : -(2 ^ bits : Int) ≤ v ∧ v < 0) :
    constValue v false cs cb true size (some bits) = some (wrapC bits false v) := by
  have h1 : ¬ bits = 1 := by omega
  have hposN : 0 < 2 ^ bits := Nat.two_pow_pos bits
  have hleN : 2 ^ bits ≤ 2 ^ 61 := Nat.pow_le_pow_right (by decide) (by omega)
  have hcast : (2 : Int) ^ bits = ((2 ^ bits : Nat) : Int) := by norm_cast
  rw [hcast] at hv
  have hw : wrapC bits false v = v + ((2 ^ bits : Nat) : Int) := by
    simp only [wrapC, Bool.false_eq_true, if_false]
    rw [← Int.add_emod_right v, Int.emod_eq_of_lt (by omega) (by omega)]
  have hm : getMinMaxValues bits true = some (0, 2 ^ bits - 1) := by
    simp [getMinMaxValues, h1, hb.2]
  have hr : toI64 (toU64 (v + ((2 : Int) ^ bits - 1 + 1))) = v + ((2 ^ bits : Nat) : Int) := by
    rw [hcast, toI64_toU64_of_range (by omega) (by omega)]; omega
  simp only [constValue, charAdjust, Bool.false_eq_true, if_false, Bool.true_and, decide_eq_true_eq, hv.2, hs, Option.bind_some, hm, hr, hw, if_true]
  have : ¬ (v + ((2 ^ bits : Nat) : Int) < 0) := by omega
  simp [this]
  intro _; exact hs

example : (2 ≤ 8 ∧ 8 < 62) ∧ (1 < 8) ∧ (-(2 ^ 8 : Int) ≤ -1 ∧ (-1 : Int) < 0) ∧ constValue (-1) false none 8 true 1 (some 8) = some 255 := by decide

/-! ## folding of the unary operators on a known operand (`setTokenValue`) -/

/-- `!x` is folded to the C value (int 0 / 1) for every operand -/
theorem fold_lnot (v : Int) (u : Bool) (ty : ITy) (s : IntShape) :
    foldUnary .lnot v u ty s.intBit s.longBit = some (cUnary .lnot v (s.bits ty) u s.intBit) := by
  simp [foldUnary, cUnary]

/-- `~x`: on every platform shape and for every operand type and value the folded value is the C value — integer promotion
    first, then `~` in the promoted type — represented as a 64-bit bigint.  Excluded (false of the code, see the
    counterexample): `unsigned short` as wide as `int`, `unsigned long long` narrower than 64 bits. -/
theorem fold_bnot_partial (s : IntShape) (hs : s.sane = true) (ty : ITy) (u : Bool) (v : Int)
    (hv : inOperand v s ty u = true) (hbig : -(2 ^ 63) ≤ v ∧ v < 2 ^ 63)
    (h1 : ¬ (u = true ∧ ty = .short ∧ s.shortBit = s.intBit)) (h2 : ¬ (u = true ∧ ty = .longlong ∧ s.llongBit < 64)) :
    foldUnary .bnot v u ty s.intBit s.longBit = some (Int.bmod (cUnary .bnot v (s.bits ty) u s.intBit) (2 ^ 64)) :=
  foldUnary_bnot_eq s hs ty u v hv hbig h1 h2

-- unix64, `~(unsigned char)0 = -1`, `~(unsigned short)1 = -2`, `~5u = 4294967290`
example : (⟨8, 16, 32, 64, 64⟩ : IntShape).sane = true ∧ inOperand 0 ⟨8, 16, 32, 64, 64⟩ .char true = true ∧
    foldUnary .bnot 0 true .char 32 64 = some (-1) ∧ cUnary .bnot 0 8 true 32 = -1 ∧
    foldUnary .bnot 1 true .short 32 64 = some (-2) ∧ foldUnary .bnot 5 true .int 32 64 = some 4294967290 := by decide

/-- without the two exclusions the statement is false of the code: `~(unsigned short)1` where short is as wide as int
    (avr8, pic8, msp430: C value 65534, folded −2) and `~0ull` where long long has 32 bits (pic8: 4294967295, folded −1) -/
theorem fold_bnot_counterexample :
    ¬ ∀ (s : IntShape) (ty : ITy) (u : Bool) (v : Int), s.sane = true → inOperand v s ty u = true → -(2 ^ 63) ≤ v ∧ v < 2 ^ 63 →
      foldUnary .bnot v u ty s.intBit s.longBit = some (Int.bmod (cUnary .bnot v (s.bits ty) u s.intBit) (2 ^ 64)) := by
  intro h
  have := h ⟨8, 16, 16, 32, 64⟩ .short true 1 (by decide) (by decide) (by decide)
  revert this
  decide

theorem fold_bnot_ulonglong_counterexample :
    foldUnary .bnot 0 true .longlong 16 32 ≠
      some (Int.bmod (cUnary .bnot 0 ((⟨8, 16, 16, 32, 32⟩ : IntShape).bits .longlong) true 16) (2 ^ 64)) := by decide

/-- unary minus on an operand whose promoted type is signed: the C value (−v); `LLONG_MIN` gets no value -/
theorem fold_neg_partial (s : IntShape) (ty : ITy) (u : Bool) (v : Int)
    (hp : (promote (s.bits ty) u s.intBit).2 = false) (hv : v ≠ -(2 ^ 63)) :
    foldUnary .neg v u ty s.intBit s.longBit = some (cUnary .neg v (s.bits ty) u s.intBit) := by
  simp only [foldUnary, hv, if_false, cUnary]
  cases hpp : promote (s.bits ty) u s.intBit with
  | mk b u' =>
    rw [hpp] at hp
    simp only at hp
    simp [hp]

example : (promote ((⟨8, 16, 32, 64, 64⟩ : IntShape).bits .short) true 32).2 = false ∧ (65535 : Int) ≠ -(2 ^ 63) ∧
    foldUnary .neg 65535 true .short 32 64 = some (-65535) := by decide

/-- for an operand whose promoted type is unsigned the statement is false of the code (finding F10b): `-1u` is folded to −1 -/
theorem fold_neg_unsigned_counterexample :
    ¬ ∀ (s : IntShape) (ty : ITy) (u : Bool) (v : Int), s.sane = true → inOperand v s ty u = true → v ≠ -(2 ^ 63) →
      foldUnary .neg v u ty s.intBit s.longBit = some (Int.bmod (cUnary .neg v (s.bits ty) u s.intBit) (2 ^ 64)) := by
  intro h
  have := h ⟨8, 16, 32, 64, 64⟩ .int true 1 (by decide) (by decide) (by decide)
  revert this
  decide

/-- 731a3b3: an ordinary one-character literal with code `b` is valued `(char)b` by the host-char converter; the adjustment
    turns it into the value of the analysed platform's `char` (0…255 if unsigned, −128…127 if signed) -/
theorem char_platform_sign (b : Nat) (hb : b < 256) (u : Bool) :
    charAdjust (Int.bmod b 256) true (some u) 8 = if u then (b : Int) else Int.bmod b 256 := by
  rw [Int.bmod_def]
  cases u <;> simp only [charAdjust, if_true, Bool.false_eq_true, if_false] <;> (repeat' split) <;> omega

example : (255 < 256) ∧ charAdjust (Int.bmod 255 256) true (some true) 8 = 255 ∧ charAdjust (Int.bmod 255 256) true (some false) 8 = -1 := by decide

/-- on a token whose type is not unsigned the reported value is the (adjusted) `toBigNumber` result -/
theorem const_signed_type (v : Int) (cc : Bool) (cs : Option Bool) (cb size : Nat) (bits : Option Nat) :
    constValue v cc cs cb false size bits = some (charAdjust v cc cs cb) := by
  simp [constValue]

/-! ## platform tables (re-proved over the table extracted on this run) -/

/-- the built-in platforms are the ILP32 / LP64 / LLP64 data models of the System V and Microsoft ABIs -/
theorem sizeof_table : ∀ p ∈ Cppcheck.Gen.Platforms.builtin, referenceModel p.name = some p.dataModel := by decide

/-- the model of `ValueType::getSizeOf` (scalar types) is the chain in the source -/
theorem sizeOf_eq_source (p : Platform) (t : CType) : sizeOf p t = Cppcheck.Gen.Platforms.sizeOfSrc p t := by
  cases t <;> rfl

/-- the type → bit-count selection of the model is the switch of `getMinMaxValues` in the source -/
theorem bitsOf_eq_source (p : Platform) (t : CType) : bitsOf p t = Cppcheck.Gen.Platforms.bitsOfSrc p t := by
  cases t <;> rfl

/-- every platform (built-in, native, every platforms/*.xml) has 8-bit bytes, power-of-two integer sizes up to 8 and
    non-decreasing ranks — what the truncation / range model assumes -/
theorem platforms_sane : ∀ p ∈ Cppcheck.Gen.Platforms.all, p.sane = true := by decide

/-- on every platform every standard integer type has a range (`getMinMaxValues` answers) and a defined truncation -/
theorem platform_ranges_defined : ∀ p ∈ Cppcheck.Gen.Platforms.all, ∀ t ∈ CType.ints, ∀ u : Bool,
    ((bitsOf p t).bind (getMinMaxValues · u)).isSome = true ∧ 0 < sizeOf p t ∧ sizeOf p t ≤ 8 := by decide

end Cppcheck.C10

import Cppcheck.Proofs.SevGate
import Cppcheck.Gen.SeverityGuards
/-
C27 — severity and certainty options gate findings monotonically.

`rows` (Gen/SeverityGuards.lean) is regenerated from the clang AST of the check classes on every run: one row per
(emission site, severity, certainty) with the guard formula the translator established for it.  The statements below are about
that whole table; `exemptGate` / `exemptInc` are the rows listed in corpus/C27/exempt.json (demonstrated findings and sites the
dominance analysis cannot resolve) — a site that loses its guard in the source is NOT in those lists and breaks `table_checks`.
-/
namespace Cppcheck.SevGate
open Cppcheck.Gen.SeverityGuards

set_option maxRecDepth 200000

/-- monotonicity holds for the POSITIVE fragment of the guard language (any such formula, any environment) … -/
theorem monotone_of_positive (f : Formula) (hp : f.positive = true) (o o' : Opts) (env : Env) (h : o ≤ o') :
    eval o env f = true → eval o' env f = true :=
  eval_mono h env f hp

/-- … and not for the language as a whole: a guard that tests an option for being disabled is not monotone -/
theorem monotone_needs_positive :
    ¬ (∀ (f : Formula) (o o' : Opts) (env : Env), o ≤ o' → eval o env f = true → eval o' env f = true) :=
  eval_not_mono_nopt

example : (Formula.and (en .style) (.or inc (.lit 3 false))).positive = true := by decide
example : (Formula.and (en .style) (nen .warning)).positive = false := by decide

example : (Opts.ofMask 0b0000000011) ≤ (Opts.ofMask 0b1000000111) := by
  constructor
  · intro s; cases s <;> decide
  · decide

/-- the four decisions over the WHOLE generated table.  The last one is the obligation "every row of the regenerated table is
in the positive fragment": the translator emits option tests with their real polarity, so an emission that the source puts
under `if (isEnabled(x)) return;` (or in the else branch of `if (isEnabled(x))`) makes it false. -/
theorem table_checks :
    rows.all (fun r => exemptGate.contains r.idx || r.gateOk nFlags) = true ∧
    rows.all (fun r => exemptGateCli.contains r.idx || r.gateOkCli nFlags) = true ∧
    rows.all (fun r => exemptInc.contains r.idx || r.incOk nFlags) = true ∧
    rows.all (fun r => exemptPos.contains r.idx || r.posOk nFlags) = true := by
  refine ⟨?_, ?_, ?_, ?_⟩ <;> decide +kernel

/-- every row of the table (outside `exemptPos`, empty on the current tree) has a guard without a live disabled-option test -/
theorem table_positive : ∀ r ∈ rows, r.idx ∉ exemptPos → r.posOk nFlags = true := by
  intro r hr hex
  have h := (List.all_eq_true.mp table_checks.2.2.2) r hr
  simp only [Bool.or_eq_true] at h
  cases h with
  | inl hc => exact absurd (by simpa using hc) hex
  | inr hok => exact hok

/-- … hence, per site and for a fixed environment (the analysed program and the state other checks leave behind, e.g. `diag()`,
are part of `env`): enabling further severities or `--inconclusive` never disables a site that may report.  Soundness of `rows`
(the guard is implied by the execution of the site) is the translator's claim, validated by the correspondence, not proved. -/
theorem table_monotone : ∀ r ∈ rows, r.idx ∉ exemptPos → ∀ (o o' : Opts) (env : Env), defaultsHold nFlags env → o ≤ o' →
    mayReport r o env = true → mayReport r o' env = true :=
  fun r hr hex _ _ _ hD hle hm => posOk_sound (table_positive r hr hex) hD hle hm

/-- a finding of a gated severity is reported only when that severity is enabled (all option sets, all environments in which
the Settings flags named in `litNames` have their default value).  PARTIAL: rows of `exemptGate` (corpus/C27/exempt.json) are
excluded — the unrestricted statement is `gated_counterexample`; `rows` covers the check classes of lib/check*.cpp, and its
soundness w.r.t. the C++ is the translator's claim. -/
theorem gated_partial : ∀ r ∈ rows, r.idx ∉ exemptGate → ∀ (o : Opts) (env : Env), defaultsHold nFlags env →
    mayReport r o env = true → gatedSev (r.sev.eval env) = true → o.sev (r.sev.eval env) = true := by
  intro r hr hex o env hD hm hg
  have h := (List.all_eq_true.mp table_checks.1) r hr
  simp only [Bool.or_eq_true] at h
  cases h with
  | inl hc => exact absurd (by simpa using hc) hex
  | inr hok => exact gateOk_sound hok hD o hm hg

/-- the same for option sets as the command line produces them from `--enable=` (style brings warning, performance and
portability with it): fewer rows are excluded -/
theorem gated_cli_partial : ∀ r ∈ rows, r.idx ∉ exemptGateCli → ∀ (o : Opts) (env : Env), o.cliClosed → defaultsHold nFlags env →
    mayReport r o env = true → gatedSev (r.sev.eval env) = true → o.sev (r.sev.eval env) = true := by
  intro r hr hex o env hcli hD hm hg
  have h := (List.all_eq_true.mp table_checks.2.1) r hr
  simp only [Bool.or_eq_true] at h
  cases h with
  | inl hc => exact absurd (by simpa using hc) hex
  | inr hok => exact gateOkCli_sound hok hD o hcli hm hg

example : (Opts.ofMask 0b0000011111).cliClosed := fun _ => ⟨by decide, by decide, by decide⟩
example : defaultsHold nFlags env0 := defaultsHold_env0 nFlags

/-- an inconclusive finding is reported only with `--inconclusive` -/
theorem inconclusive_gated_partial : ∀ r ∈ rows, r.idx ∉ exemptInc → r.cert = .inconclusive → ∀ (o : Opts) (env : Env),
    defaultsHold nFlags env → mayReport r o env = true → o.inconclusive = true := by
  intro r hr hex hc o env hD hm
  have h := (List.all_eq_true.mp table_checks.2.2.1) r hr
  simp only [Bool.or_eq_true] at h
  cases h with
  | inl hcn => exact absurd (by simpa using hcn) hex
  | inr hok => exact incOk_sound hok hD o hc hm

/-- the statement without the exclusion list is FALSE of the current code: some row may report although its severity is
disabled (all Settings flags at their nFlags) -/
theorem gated_counterexample : ¬ (∀ r ∈ rows, ∀ (o : Opts) (env : Env), defaultsHold nFlags env →
    mayReport r o env = true → gatedSev (r.sev.eval env) = true → o.sev (r.sev.eval env) = true) := by
  intro hall
  have hex : rows.any (fun r => r.refutesGate) = true := by decide +kernel
  obtain ⟨r, hr, hf⟩ := List.any_eq_true.mp hex
  simp only [Row.refutesGate, Bool.and_eq_true] at hf
  obtain ⟨⟨_, hg⟩, hm⟩ := hf
  have := hall r hr _ env0 (defaultsHold_env0 nFlags) hm hg
  simp [Opts.allBut] at this

theorem inconclusive_counterexample : ¬ (∀ r ∈ rows, r.cert = .inconclusive → ∀ (o : Opts) (env : Env),
    defaultsHold nFlags env → mayReport r o env = true → o.inconclusive = true) := by
  intro hall
  have hex : rows.any (fun r => r.refutesInc) = true := by decide +kernel
  obtain ⟨r, hr, hf⟩ := List.any_eq_true.mp hex
  simp only [Row.refutesInc, Bool.and_eq_true, beq_iff_eq] at hf
  have := hall r hr hf.1 _ env0 (defaultsHold_env0 nFlags) hf.2
  simp [Opts.allBut] at this

/-- tie used by the correspondence: whatever the environment, a row that reports under `o` is `possible` under `o`; a finding
of the real binary that is `possible` for no row of its id is a site the translator missed or mis-guarded -/
theorem possible_of_mayReport : ∀ r ∈ rows, ∀ (o : Opts) (env : Env), defaultsHold nFlags env →
    mayReport r o env = true → possible nFlags r.guard o = true :=
  fun r _ o _ hD hm => possible_complete hD r.guard o hm

/-! ### value selectors (ValueFlow::findValue): select-then-gate is monotone, filter-then-select is not -/
namespace Select

/-- findValue as it is in lib/valueflow.cpp (shape checked textually, behaviour compared in-process with the real function on
every run): the value it returns under an option set is returned, unchanged, under every larger one -/
theorem findValue_monotone {o o' : Opts} (h : o ≤ o') (vs : List Val) (v : Val) :
    findValue o vs = some v → findValue o' vs = some v :=
  select_then_gate_monotone select h vs v

/-- … and it is gated: an inconclusive value only with `--inconclusive`, a conditional one only with warning enabled -/
theorem findValue_gated {o : Opts} {vs : List Val} {v : Val} (h : findValue o vs = some v) :
    (v.inconclusive = true → o.inconclusive = true) ∧ (v.condition = true → o.sev .warning = true) := by
  have hg := filter_gated h
  simp only [gateVal, Bool.and_eq_true, Bool.or_eq_true, Bool.not_eq_true'] at hg
  constructor
  · intro hi; cases hg.1 with
    | inl h1 => rw [hi] at h1; cases h1
    | inr h1 => exact h1
  · intro hc; cases hg.2 with
    | inl h1 => rw [hc] at h1; cases h1
    | inr h1 => exact h1

example : findValue (Opts.ofMask 0b1000000001) (ofDigits [5, 6]) = none ∧
          findValue (Opts.ofMask 0b1000000011) (ofDigits [5, 6]) = some ⟨false, true, true, 1⟩ := by decide

/-- the same gate applied INSIDE the loop (values the settings disallow are skipped before the preference is applied) is still
gated but NOT monotone: an inconclusive and a conditional match on one token — with `--inconclusive` alone the inconclusive value
is selected, adding warning selects the conditional one instead, so the first finding disappears -/
theorem findValueFiltered_not_monotone :
    ¬ (∀ (o o' : Opts) (vs : List Val) (v : Val), o ≤ o' → findValueFiltered o vs = some v → findValueFiltered o' vs = some v) := by
  intro h
  have hle : Opts.ofMask 0b1000000001 ≤ Opts.ofMask 0b1000000011 := by
    constructor
    · intro s; cases s <;> decide
    · decide
  have := h _ _ (ofDigits [5, 6]) ⟨true, false, true, 0⟩ hle (by decide)
  revert this
  decide

end Select

end Cppcheck.SevGate

import Cppcheck.Proofs.CacheCrash
/-
C20 — an interrupted run never corrupts later incremental results.

Byte level (`Cppcheck.XmlWf`, a model of tinyxml2's parser validated against the real one on every byte prefix of real
cache files):
  strict_prefix_not_wf           no byte prefix of a cache document that misses more than the final newline is loaded with a
                                 root element (so `skipAnalysis` cannot accept it, `processFilesTxt` reports it)
  complete_document_loads        the complete document (with or without the final newline) loads, root `analyzerinfo`,
                                 `hash` attribute = the hash written

File level (`Cppcheck.CacheCrash`, for every per-file analysis / whole-program analysis / hash function):
  crash_then_run_eq_no_build_dir_partial   THE PROPERTY: … = the findings of a run WITHOUT a build directory
  crash_then_run_eq_fresh_partial   after ANY history of kills (any executor, any byte cut in any file) and complete runs on
                                 the same inputs, the next complete run reports exactly what a run on an empty build
                                 directory reports — if the analysis does not depend on summaryReturn and the checkers
                                 report is not printed
  crash_then_run_eq_fresh_counterexample_summaries / _checkers
                                 the full-strength statement is FALSE of the code (F20a, F20b): both hypotheses are needed
  run_on_foreign_dir_eq_fresh    the same for a build directory written by runs on OTHER inputs, given an injective hash and
                                 no cache file of a file that now returns before `analyzeFile`
  stale_cache_of_skipped_file_counterexample   … and that last premise is needed
-/
namespace Cppcheck.XmlWf
open Cppcheck.Wire

/-- **No strict prefix of a cache document is well-formed** (other than the document without its final newline):
for every hash (decimal string) and every list of balanced items, a byte prefix `p` of
`header ++ items ++ "</analyzerinfo>\n"` with at least two bytes missing either fails to load or loads without any
root element. -/
theorem strict_prefix_not_wf (hash : Str) (items : List Str) (hok : hashOk hash = true)
    (hbal : ∀ it ∈ items, balancedItem hash it = true) (p : Str) (hp : p <+: document hash items)
    (hlen : p.length + 1 < (document hash items).length) :
    load p = .error ∨ load p = .ok none := by
  have : p = (document hash items).take p.length := by
    obtain ⟨t, ht⟩ := hp
    rw [← ht]; simp
  rw [this]
  exact load_of_not_loaded _ (prefix_not_loaded hash items hok hbal p.length hlen)

/-- the complete document — and the document without its final newline — loads with root `analyzerinfo` and the hash -/
theorem complete_document_loads (hash : Str) (items : List Str) (hok : hashOk hash = true)
    (hbal : ∀ it ∈ items, balancedItem hash it = true) :
    load (document hash items) = .ok (some (rootName, [(hashName, hash)])) ∧
    load ((document hash items).take ((document hash items).length - 1)) = .ok (some (rootName, [(hashName, hash)])) := by
  constructor
  · have := full_loaded hash items hok hbal (document hash items).length (by omega)
    rw [List.take_length] at this
    rw [load_eq, this]; rfl
  · have := full_loaded hash items hok hbal ((document hash items).length - 1) (by omega)
    rw [load_eq, this]; rfl

/-- the hypotheses are satisfiable: an `<error>` element with a nested element and text, as `ErrorMessage::toXML` prints -/
def sampleItem : Str :=
  "        <error id=\"nullPointer\" msg=\"Null &apos;p&apos;\">\n            <location file=\"a.c\" line=\"4\"/>\n            <symbol>p</symbol>\n        </error>\n".toList

example : hashOk "17007528919248187638".toList = true := by decide
example : balancedItem "17".toList ['<', 'e', ' ', 'a', '=', '"', '1', '"', '>', 'x', '<', '/', 'e', '>', '\n'] = true := by decide
/-- an item that closes the root element is not balanced -/
example : balancedItem "17".toList footer = false := by decide

end Cppcheck.XmlWf

namespace Cppcheck.CacheCrash
open Cppcheck.Wire Cppcheck.XmlWf

/-- **After any history of interrupted and complete runs on these inputs, the next complete run reports exactly what a
run on an empty build directory reports.**  `Reachable`: start from the empty directory; a kill (`crashDir`, any `Crash`:
every cache / summary / files.txt / checkers.txt file independently holds an arbitrary byte or line prefix of what the
run writes — a superset of all kill points of all executors, including the `reopen` window) or a complete run, any number
of times.  Hypotheses: the items the analysis writes are balanced XML and the keys decimal (`WellFormedWorld`, checked on
real cache files by the tie), the analysis of the current files does not depend on `summaryReturn`, the checkers report is
not printed.  Both of the latter are necessary (counterexamples below). -/
theorem crash_then_run_eq_fresh_partial (w : World) (o : Opts) (files : List Nat) (hw : WellFormedWorld w)
    (hs : SummInsensitive w files) (ho : o.reportCheckers = false) (d : Dir) (hd : Reachable w o files d) :
    (completeRun w o files d).1 = (completeRun w o files Dir.empty).1 := by
  have ok := dirOK_reachable w o files hw hs ho d hd
  rw [(completeRun_findings w o files d hw hs ho ok).1,
    (completeRun_findings w o files Dir.empty hw hs ho (dirOK_empty w files)).1]

/-- **The property as worded** (reference = a run WITHOUT a build directory, `noBuildDirRun`: no cache, empty
`summaryReturn`, whole-program analysis over the in-memory FileInfo of all analysed files): after any history of kills and
complete runs on these inputs the next complete run reports exactly the findings of a run without a build directory.
Same hypotheses as `crash_then_run_eq_fresh_partial`; that the whole-program analysis is the same function of the same
FileInfo blocks whether they are kept in memory or re-read from the cache files is C22's statement (here: the parameter `wp`). -/
theorem crash_then_run_eq_no_build_dir_partial (w : World) (o : Opts) (files : List Nat) (hw : WellFormedWorld w)
    (hs : SummInsensitive w files) (ho : o.reportCheckers = false) (d : Dir) (hd : Reachable w o files d) :
    (completeRun w o files d).1 = noBuildDirRun w o files := by
  have ok := dirOK_reachable w o files hw hs ho d hd
  rw [(completeRun_findings w o files d hw hs ho ok).1, noBuildDirRun_eq w o files ho]

/-- a run on an empty build directory reports what a run without build directory reports -/
theorem empty_dir_run_eq_no_build_dir (w : World) (o : Opts) (files : List Nat) (hw : WellFormedWorld w)
    (hs : SummInsensitive w files) (ho : o.reportCheckers = false) :
    (completeRun w o files Dir.empty).1 = noBuildDirRun w o files :=
  crash_then_run_eq_no_build_dir_partial w o files hw hs ho _ .empty

/-- the single-crash instance: kill the first run at any point, then run to completion -/
theorem crash_once_then_run_eq_fresh (w : World) (o : Opts) (files : List Nat) (hw : WellFormedWorld w)
    (hs : SummInsensitive w files) (ho : o.reportCheckers = false) (c : Crash) :
    (completeRun w o files (crashDir w files Dir.empty c)).1 = (completeRun w o files Dir.empty).1 :=
  crash_then_run_eq_fresh_partial w o files hw hs ho _ (.crash _ c .empty)

/-- a build directory written by runs on OTHER inputs (an edit history): every cache file records some analysis under the
key of its input, the hash is injective on analysis results, and no file that now returns before `analyzeFile` has a
cache file -/
theorem run_on_foreign_dir_eq_fresh (w : World) (o : Opts) (files : List Nat) (hw : WellFormedWorld w)
    (hs : SummInsensitive w files) (ho : o.reportCheckers = false) (d : Dir)
    (hinj : ∀ a b, w.hashOf a = w.hashOf b → ∀ s, (w.analyze a s).items = (w.analyze b s).items)
    (hvalid : ∀ f e, d.cache f = some e → ∃ g s, e.hash = w.hashOf g ∧ e.items = (w.analyze g s).items)
    (hearly : ∀ f ∈ files, w.early f ≠ none → d.cache f = none) :
    (completeRun w o files d).1 = (completeRun w o files Dir.empty).1 := by
  have ok : DirOK w files d := by
    refine ⟨?_, ?_, hearly⟩
    · intro f e h
      obtain ⟨g, s, hh, hi⟩ := hvalid f e h
      refine ⟨by rw [hh]; exact (hw g s).1, ?_⟩
      intro it hit
      rw [hh]; rw [hi] at hit
      exact (hw g s).2 it hit
    · intro f _ e h hh
      obtain ⟨g, s, hg, hi⟩ := hvalid f e h
      exact ⟨s, by rw [hi]; exact hinj g f (by rw [← hg, hh]) s⟩
  rw [(completeRun_findings w o files d hw hs ho ok).1,
    (completeRun_findings w o files Dir.empty hw hs ho (dirOK_empty w files)).1]

/-- the file-level reuse test is the byte-level decision of `analyzeFile` (what the driver computes on real files) plus the
internalError-class rule -/
theorem usable_eq_decision (e : CacheEntry) (h : Str) :
    e.usable h = (decide (decision e.bytes h = .reuse) && !e.items.any Item.retry) := by
  unfold CacheEntry.usable CacheEntry.rootOk decision
  cases hl : load e.bytes with
  | error => simp
  | ok r =>
    cases r with
    | none => simp
    | some na =>
      obtain ⟨n, as⟩ := na
      by_cases hn : n = rootName
      · subst hn
        cases ha : attr as hashName with
        | none => simp [ha]
        | some v =>
          by_cases hv : v = h
          · simp [ha, hv]
          · simp [ha, hv]
      · have : (n == rootName) = false := by simpa using hn
        simp [this, hn]

/-! ### concrete worlds: the hypotheses are satisfiable, and each is necessary -/

def itemE (x : Nat) : Item := ⟨['<', 'e', '/', '>', '\n'], .err x false⟩
def itemI (i : Nat) : Item := ⟨['<', 'i', '/', '>', '\n'], .info i⟩

/-- file 1 leaks before a trailing call of `f` (function 5), which file 0 defines; with `f` in `summaryReturn` the leak
(finding 9) is reported, without it the check bails out -/
def wSumm : World :=
  { hashOf := fun _ => ['1']
    analyze := fun f s => if f = 1 then ⟨if 5 ∈ s then [itemE 9] else [], [], [1]⟩ else ⟨[itemI 3], [5], [1]⟩
    early := fun _ => none
    wp := fun is => is.map (· + 100)
    wpError := 99
    loadReturn := fun ls => ls.flatten
    checkersLine := fun act => 1000 + act.eraseDups.length
    wpActive := [7] }

/-- a world whose analysis ignores `summaryReturn` -/
def wPlain : World :=
  { wSumm with analyze := fun f _ => ⟨[itemE (10 + f), itemI f], [f], [1, 2]⟩ }

theorem itemE_balanced (x : Nat) : balancedItem ['1'] (itemE x).bytes = true := by
  show balancedItem ['1'] ['<', 'e', '/', '>', '\n'] = true
  decide

theorem itemI_balanced (x : Nat) : balancedItem ['1'] (itemI x).bytes = true := by
  show balancedItem ['1'] ['<', 'i', '/', '>', '\n'] = true
  decide

theorem hashOk_one : hashOk ['1'] = true := by decide

theorem wSumm_wf : WellFormedWorld wSumm := by
  intro g s
  refine ⟨hashOk_one, ?_⟩
  intro it hit
  simp only [wSumm] at hit
  split at hit
  · split at hit
    · simp only [List.mem_singleton] at hit; subst hit; exact itemE_balanced 9
    · cases hit
  · simp only [List.mem_singleton] at hit; subst hit; exact itemI_balanced 3

theorem wPlain_wf : WellFormedWorld wPlain := by
  intro g s
  refine ⟨hashOk_one, ?_⟩
  intro it hit
  simp only [wPlain, List.mem_cons, List.not_mem_nil, or_false] at hit
  rcases hit with rfl | rfl
  · exact itemE_balanced _
  · exact itemI_balanced _

example : SummInsensitive wPlain [0, 1, 2] := fun _ _ _ => rfl

/-- killed while file 1 is analysed: file 0 complete (cache and summary), file 1 just truncated -/
def crashSumm : Crash :=
  { cache := fun f => if f = 0 then .rewritten 1000 else .rewritten 0
    summ := fun f => if f = 0 then some 1 else none
    filesTxt := some 2
    checkers := none }

set_option maxRecDepth 20000 in
/-- **F20a.**  Without `SummInsensitive` the statement is false: the complete run after the kill loads the summary of
file 0, re-analyses file 1 with `summaryReturn = [5]` and reports finding 9, which a run on an empty directory lacks. -/
theorem crash_then_run_eq_fresh_counterexample_summaries :
    (completeRun wSumm ⟨false⟩ [0, 1] (crashDir wSumm [0, 1] Dir.empty crashSumm)).1 = [9, 103] ∧
    (completeRun wSumm ⟨false⟩ [0, 1] Dir.empty).1 = [103] := by decide

/-- killed after every cache file is complete, before checkers.txt is written -/
def crashLate : Crash :=
  { cache := fun _ => .rewritten 1000
    summ := fun _ => some 10
    filesTxt := some 2
    checkers := none }

set_option maxRecDepth 20000 in
/-- **F20b.**  With the checkers report printed the statement is false: after the kill every cached result is reused, no
per-file checker runs, checkers.txt was never written, and the report counts only the whole-program checker. -/
theorem crash_then_run_eq_fresh_counterexample_checkers :
    (completeRun wPlain ⟨true⟩ [0, 1] (crashDir wPlain [0, 1] Dir.empty crashLate)).1 = [10, 11, 100, 101, 1001] ∧
    (completeRun wPlain ⟨true⟩ [0, 1] Dir.empty).1 = [10, 11, 100, 101, 1003] := by decide

/-- hence the statement without the hypotheses on summaries / the checkers report does not hold of the code — already
for the single-kill instance from the empty directory (an instance of the `Reachable` form of the main theorem) -/
theorem crash_then_run_eq_fresh_counterexample :
    ¬ ∀ (w : World) (o : Opts) (files : List Nat) (c : Crash), WellFormedWorld w →
      (completeRun w o files (crashDir w files Dir.empty c)).1 = (completeRun w o files Dir.empty).1 := by
  intro h
  have h1 := h wSumm ⟨false⟩ [0, 1] crashSumm wSumm_wf
  rw [crash_then_run_eq_fresh_counterexample_summaries.1, crash_then_run_eq_fresh_counterexample_summaries.2] at h1
  revert h1; decide

/-- file 0 now returns before `analyzeFile` (e.g. a preprocessor error) but an older run left a torn cache file for it -/
def wEarly : World := { wPlain with early := fun f => if f = 0 then some [50] else none }

def staleDir : Dir :=
  { Dir.empty with cache := fun f => if f = 0 then some ⟨['1'], [itemE 10], 30⟩ else none }

set_option maxRecDepth 20000 in
/-- the premise of `run_on_foreign_dir_eq_fresh` about skipped files is needed: the torn cache file is never rewritten and
the whole-program phase reports an internalError (99) instead of its findings.  (Not reachable by kills on the SAME
inputs — `crash_then_run_eq_fresh_partial` has no such premise — it needs an edit between the runs.) -/
theorem stale_cache_of_skipped_file_counterexample :
    (completeRun wEarly ⟨false⟩ [0, 1] staleDir).1 = [50, 11, 99] ∧
    (completeRun wEarly ⟨false⟩ [0, 1] Dir.empty).1 = [50, 11, 101] := by decide

end Cppcheck.CacheCrash

import Cppcheck.Proofs.Determinism
/-
C29 — output is deterministic across runs: the part that is decided by proof.

(a) The list of files a run analyses does not depend on the order in which the file system enumerates directory
    entries: every path argument is listed sorted (`FileLister::addFiles`, model and theorems of C31), the arguments
    are taken in command-line order, duplicates are erased, markup files go last.  The property does NOT claim
    invariance under permutation of the command-line arguments (`runFiles_argument_order_matters`).
(b) The canonical form the check uses to compare dump files of different runs forgets any injective renaming of
    the ids (addresses).

Not decided here (see docs/C29.md): iteration over containers keyed by pointer values or hashed — the check only
enumerates them and compares the outputs of differently laid-out runs.
-/
namespace Cppcheck.Determinism
open Cppcheck.Wire Cppcheck.PathMatch Cppcheck.FileLister

/-- **`sort_perm_invariant`**: the sort of `FileLister::addFiles` gives the same list for every enumeration order of
    the same files (no path twice) -/
theorem sort_perm_invariant (l l' : List (Str × Lang)) (hp : l.Perm l') (hnd : (l.map (·.1)).Nodup) :
    sortFiles l = sortFiles l' :=
  sortFiles_perm_invariant l l' hp hnd

/-- **`lister_perm_invariant_files`**: two directory trees whose file listings (file, directories on the way) are
    permutations of each other are listed identically — for every ignore matcher and every acceptance test -/
theorem lister_perm_invariant_files (ign : Str → Filemode → Bool) (acc : Str → Bool × Lang) (path : Str) (t t' : Tree)
    (hp : path ≠ []) (hw : t.wf = true)
    (h : (allFiles (correctedPath path) [] t).Perm (allFiles (correctedPath path) [] t')) :
    addFiles ign acc path (some t) = addFiles ign acc path (some t') := by
  rw [addFiles_eq ign acc path t hp, addFiles_eq ign acc path t' hp]
  congr 1
  apply sortFiles_perm_invariant
  · exact (h.filter _).map _
  · exact selectedFiles_nodup ign acc (correctedPath path) t hw

/-- **`lister_perm_invariant`** (DESIGN §5 C29): reordering the entries of any directories of the tree does not
    change the listing -/
theorem lister_perm_invariant (ign : Str → Filemode → Bool) (acc : Str → Bool × Lang) (path : Str) (t t' : Tree)
    (hp : path ≠ []) (hw : t.wf = true) (h : entriesReordered t t') :
    addFiles ign acc path (some t) = addFiles ign acc path (some t') :=
  lister_perm_invariant_files ign acc path t t' hp hw (allFiles_perm h _ _)

/-- the relation between the arguments of two runs: same paths in the same order, each naming a reordered tree -/
def sameArgs : List (Str × Option Tree) → List (Str × Option Tree) → Prop
  | [], [] => True
  | a :: r, a' :: r' =>
    a.1 = a'.1 ∧
    (match a.2, a'.2 with
     | none, none => True
     | some t, some t' => a.1 ≠ [] ∧ t.wf = true ∧ entriesReordered t t'
     | _, _ => False) ∧ sameArgs r r'
  | _, _ => False

/-- **`runFiles_perm_invariant`**: the file list of the whole run (all arguments, duplicates erased, markup last) is
    the same for every enumeration order of the directories -/
theorem runFiles_perm_invariant (ign : Str → Filemode → Bool) (acc : Str → Bool × Lang) (late : Str → Bool) :
    ∀ (args args' : List (Str × Option Tree)), sameArgs args args' →
    runFiles ign acc late args = runFiles ign acc late args' := by
  intro args args' h
  have : args.flatMap (fun a => (addFiles ign acc a.1 a.2).2) = args'.flatMap (fun a => (addFiles ign acc a.1 a.2).2) := by
    induction args generalizing args' with
    | nil => cases args' with
      | nil => rfl
      | cons _ _ => exact absurd h (by simp [sameArgs])
    | cons a r ih =>
      cases args' with
      | nil => exact absurd h (by simp [sameArgs])
      | cons a' r' =>
        obtain ⟨h1, h2, h3⟩ := h
        simp only [List.flatMap_cons]
        rw [ih r' h3]
        congr 1
        obtain ⟨p, o⟩ := a
        obtain ⟨p', o'⟩ := a'
        simp only at h1 h2 ⊢
        subst h1
        cases o with
        | none => cases o' with
          | none => rfl
          | some _ => exact absurd h2 (by simp)
        | some t => cases o' with
          | none => exact absurd h2 (by simp)
          | some t' =>
            obtain ⟨hp, hw, hr⟩ := h2
            rw [lister_perm_invariant ign acc p t t' hp hw hr]
  simp only [runFiles, this]

/-- the order of the command-line arguments is preserved (not part of the property) -/
theorem runFiles_argument_order_matters :
    runFiles (fun _ _ => false) (acceptFile []) (fun _ => false)
      [("b.c".toList, some (.file "b.c".toList)), ("a.c".toList, some (.file "a.c".toList))] ≠
    runFiles (fun _ _ => false) (acceptFile []) (fun _ => false)
      [("a.c".toList, some (.file "a.c".toList)), ("b.c".toList, some (.file "b.c".toList))] := by
  simp [runFiles, addFiles, collectPath, sortFiles, dedupPaths, dedupPathsAux, markupLast, correctedPath]

/-- a directory listed in two enumeration orders: the hypotheses are satisfiable -/
example : entriesReordered
    (.dir [] [.file "b.cpp".toList, .dir "s".toList [.file "z.c".toList, .file "a.c".toList]])
    (.dir [] [.dir "s".toList [.file "a.c".toList, .file "z.c".toList], .file "b.cpp".toList]) :=
  .trans (.dir [] _ _ (List.Perm.swap _ _ []))
    (.sub [] [] [.file "b.cpp".toList] _ _ (.dir "s".toList _ _ (List.Perm.swap _ _ [])))

example : selectedFiles (fun _ _ => false) (acceptFile []) "r".toList
      (.dir [] [.file "b.cpp".toList, .dir "s".toList [.file "z.c".toList, .file "a.c".toList]]) =
    [("r/b.cpp".toList, .cpp), ("r/s/z.c".toList, .c), ("r/s/a.c".toList, .c)] := by decide

/-! ## dump ids -/

/-- **`dump_alpha`**: the canonical form of a dump does not change when its ids are renamed injectively -/
theorem dump_alpha (d : List Item) (π : Nat → Nat) (h : injectiveOn π (idsOf d) = true) :
    canon (rename π d) = canon d := by
  have hinj : ∀ i j, i ∈ idsOf d → j ∈ idsOf d → π i = π j → i = j := by
    intro i j hi hj e
    have := List.all_eq_true.1 (List.all_eq_true.1 h i hi) j hj
    simp only [Bool.or_eq_true, bne_iff_ne, ne_eq, beq_iff_eq] at this
    rcases this with h1 | h1
    · exact absurd e h1
    · exact h1
  have := canonAux_rename π d [] (fun i j hi hj e => by
    rcases hi with hi | hi
    · simp at hi
    · rcases hj with hj | hj
      · simp at hj
      · exact hinj i j hi hj e)
  simpa [canon] using this

/-- two runs of the same analysis: same text, different addresses -/
example : canon [.lit "<token id=".toList, .ref 0x5626299ef100, .lit " scope=".toList, .ref 0x562629a0b890, .lit " link=".toList, .ref 0x5626299ef100] =
    canon [.lit "<token id=".toList, .ref 0x7f00aa10, .lit " scope=".toList, .ref 0x7f00a000, .lit " link=".toList, .ref 0x7f00aa10] := by
  decide

example : injectiveOn (fun i => i + 4096) [7, 9, 7] = true := by decide

/-- the hypothesis is needed: a renaming that merges two ids changes the canonical form -/
theorem dump_alpha_counterexample_not_injective :
    canon (rename (fun _ => 1) [.ref 7, .ref 9]) ≠ canon [.ref 7, .ref 9] := by decide

/-- `canon` keeps every text chunk (it only touches ids) -/
theorem canon_lits (d : List Item) : (canon d).filterMap (fun it => match it with | .lit s => some s | .ref _ => none) =
    d.filterMap (fun it => match it with | .lit s => some s | .ref _ => none) := by
  unfold canon
  generalize ([] : List Nat) = seen
  induction d generalizing seen with
  | nil => rfl
  | cons it rest ih =>
    cases it with
    | lit s => simp [canonAux, ih]
    | ref i => simp [canonAux, ih]

theorem injectiveOn_of (π : Nat → Nat) (ids : List Nat) (h : ∀ i j, i ∈ ids → j ∈ ids → π i = π j → i = j) :
    injectiveOn π ids = true := by
  apply List.all_eq_true.2
  intro i hi
  apply List.all_eq_true.2
  intro j hj
  by_cases e : π i = π j
  · simp [h i j hi hj e]
  · simp [e]

/-- **`canon` is itself a renaming**: the canonical form is the dump with every id replaced by the position of its first
    occurrence, and that replacement is injective on the ids of the dump — `canon` merges no two ids -/
theorem canon_eq_rename (d : List Item) :
    canon d = rename (firstIndex d) d ∧ injectiveOn (firstIndex d) (idsOf d) = true := by
  refine ⟨canonAux_eq_rename d [], injectiveOn_of _ _ ?_⟩
  intro i j hi hj e
  exact indexIn_inj _ i j (finalSeen_ids d [] i hi) (finalSeen_ids d [] j hj) e

/-- **`canon_complete`** (the converse of `dump_alpha`): two dumps with the same canonical form differ only by an injective
    renaming of the ids.  Together: the comparison of canonical forms the check performs is exactly "equal up to renaming
    of addresses" — not coarser (a canonicaliser that maps every id to 0 would satisfy `dump_alpha` but not this). -/
theorem canon_complete (d1 d2 : List Item) (h : canon d1 = canon d2) :
    ∃ ρ : Nat → Nat, injectiveOn ρ (idsOf d1) = true ∧ d2 = rename ρ d1 := by
  rw [(canon_eq_rename d1).1, (canon_eq_rename d2).1] at h
  obtain ⟨ρ, hρ⟩ : ∃ ρ : Nat → Nat, ρ = fun i => (finalSeen [] d2).getD (firstIndex d1 i) 0 := ⟨_, rfl⟩
  have hd2 : d2 = rename ρ d1 := by
    rw [hρ]
    exact rename_eq_rename (firstIndex d1) (firstIndex d2) (finalSeen [] d2) d1 d2
      (fun j hj => finalSeen_ids d2 [] j hj) (fun _ => rfl) h
  refine ⟨ρ, ?_, hd2⟩
  have hids2 : idsOf d2 = (idsOf d1).map ρ := by
    have := congrArg idsOf hd2
    rw [idsOf_rename] at this
    exact this
  have h1 := congrArg idsOf h
  rw [idsOf_rename, idsOf_rename, hids2, List.map_map] at h1
  apply injectiveOn_of
  intro i j hi hj e
  have hi' := List.map_inj_left.1 h1 i hi
  have hj' := List.map_inj_left.1 h1 j hj
  have : firstIndex d1 i = firstIndex d1 j := by
    rw [hi', hj']
    simp only [Function.comp, e]
  exact indexIn_inj _ i j (finalSeen_ids d1 [] i hi) (finalSeen_ids d1 [] j hj) this

/-- the comparison of the check decides exactly "equal up to an injective renaming of the ids" -/
theorem canon_eq_iff (d1 d2 : List Item) :
    canon d1 = canon d2 ↔ ∃ ρ : Nat → Nat, injectiveOn ρ (idsOf d1) = true ∧ d2 = rename ρ d1 := by
  constructor
  · exact canon_complete d1 d2
  · rintro ⟨ρ, hinj, rfl⟩
    exact (dump_alpha d1 ρ hinj).symm

example : canon [.ref 7, .ref 9, .ref 7] ≠ canon [.ref 7, .ref 9, .ref 9] := by decide

/-! ## the file list as the driver computes it -/

/-- `runFiles` spelled out: every existing argument contributes the sorted list of its selected files -/
theorem runFiles_eq (ign : Str → Filemode → Bool) (acc : Str → Bool × Lang) (late : Str → Bool)
    (args : List (Str × Tree)) (hp : ∀ a, a ∈ args → a.1 ≠ []) :
    runFiles ign acc late (args.map (fun a => (a.1, some a.2))) =
      markupLast late (dedupPaths (args.flatMap (fun a => sortFiles (selectedFiles ign acc (correctedPath a.1) a.2)))) := by
  have hl : ∀ l : List (Str × Tree), (∀ a, a ∈ l → a.1 ≠ []) →
      (l.map (fun a => (a.1, some a.2))).flatMap (fun a => (addFiles ign acc a.1 a.2).2) =
      l.flatMap (fun a => sortFiles (selectedFiles ign acc (correctedPath a.1) a.2)) := by
    intro l
    induction l with
    | nil => intro _; rfl
    | cons a r ih =>
      intro h
      simp only [List.map_cons, List.flatMap_cons]
      rw [ih (fun b hb => h b (by simp [hb])), addFiles_eq ign acc a.1 a.2 (h a (by simp))]
  simp only [runFiles, hl args hp]

/-! ## sorts and ordered containers under a comparator

A comparator that is a strict weak order on a layout-independent key (file index, line, column, id, name …) is its key;
`isortBy` = stable sort, `osetOf` = `std::set<T, Compare>` filled in arrival order. -/

/-- **`keyed_sort_perm_invariant`**: if no two elements have the same key, the sorted sequence does not depend on the order in
    which the elements arrive (the iteration order of whatever container fed the sort) -/
theorem keyed_sort_perm_invariant {α : Type} (key : α → Nat) (l l' : List α) (hp : l.Perm l') (hnd : (l.map key).Nodup) :
    isortBy key l = isortBy key l' := by
  have hnd' : (l'.map key).Nodup := (hp.map key).nodup_iff.1 hnd
  apply eq_of_perm_of_strict (fun a b : α => key a < key b)
  · intro a b h1 h2; omega
  · exact (isortBy_perm key l).trans (hp.trans (isortBy_perm key l').symm)
  · exact isortBy_strict key l hnd
  · exact isortBy_strict key l' hnd'

/-- **`keyed_sort_stable`**: elements with equal keys come out in their arrival order (stable sort) — the result is a function
    of the keys and the arrival order, never of addresses -/
theorem keyed_sort_stable {α : Type} (key : α → Nat) (l : List α) (k : Nat) :
    (isortBy key l).filter (fun y => key y == k) = l.filter (fun y => key y == k) := by
  simpa [isortBy] using foldl_ins_filter key k l [] List.Pairwise.nil

/-- **`keyed_set_collapses`**: an element whose key is already in the ordered set is not inserted (that is what
    `std::set<const Variable*, CompareVariables>` does to two variables declared by one macro expansion) -/
theorem keyed_set_collapses {α : Type} (key : α → Nat) (x : α) (s : List α) (h : s.any (fun y => key y == key x) = true) :
    osetInsert key x s = s := by
  simp [osetInsert, h]

/-- **`keyed_set_perm_invariant`**: with pairwise different keys the ordered set is the sorted sequence, whatever the
    arrival order -/
theorem keyed_set_perm_invariant {α : Type} (key : α → Nat) (l l' : List α) (hp : l.Perm l') (hnd : (l.map key).Nodup) :
    osetOf key l = osetOf key l' := by
  have hnd' : (l'.map key).Nodup := (hp.map key).nodup_iff.1 hnd
  have e1 : osetOf key l = isortBy key l := foldl_oset_eq key l [] (by simpa using hnd)
  have e2 : osetOf key l' = isortBy key l' := foldl_oset_eq key l' [] (by simpa using hnd')
  rw [e1, e2]
  exact keyed_sort_perm_invariant key l l' hp hnd

/-- **a tie-break by address is neither collapsing nor arrival order**: two elements with the same key, two runs whose
    allocators place them in opposite order — the same comparator `(key, address)` yields opposite sequences, in the sort
    and in the ordered set (which now keeps both) -/
theorem address_tiebreak_layout_dependent {α : Type} (key addr1 addr2 : α → Nat) (m : Nat) (a b : α)
    (hk : key a = key b) (h1 : addr1 a < addr1 b) (h2 : addr2 b < addr2 a)
    (hm : addr1 a < m ∧ addr1 b < m ∧ addr2 a < m ∧ addr2 b < m) :
    isortBy (withAddress key addr1 m) [a, b] = [a, b] ∧ isortBy (withAddress key addr2 m) [a, b] = [b, a] ∧
    osetOf (withAddress key addr1 m) [a, b] = [a, b] ∧ osetOf (withAddress key addr2 m) [a, b] = [b, a] := by
  have c1 : ¬ (withAddress key addr1 m b < withAddress key addr1 m a) := by
    simp only [withAddress, hk]; omega
  have c2 : withAddress key addr2 m b < withAddress key addr2 m a := by
    simp only [withAddress, hk]; omega
  have n1 : ¬ withAddress key addr1 m a = withAddress key addr1 m b := by
    simp only [withAddress, hk]; omega
  have n2 : ¬ withAddress key addr2 m a = withAddress key addr2 m b := by
    simp only [withAddress, hk]; omega
  refine ⟨?_, ?_, ?_, ?_⟩
  · simp [isortBy, ins, c1]
  · simp [isortBy, ins, c2]
  · simp [osetOf, osetInsert, ins, c1, n1]
  · simp [osetOf, osetInsert, ins, c2, n2]

/-- the seeded change to `CompareVariables`, concretely: `n` and `pl` are declared by one macro expansion (same file, line,
    column = key 17005); the comparator of record keeps one of them, always the first; with the address tie-break the two
    findings come out in address order -/
example : osetOf (fun v : String × Nat => 17005) [("n", 0x5000), ("pl", 0x5040)] = [("n", 0x5000)] ∧
    osetOf (withAddress (fun _ => 17005) (fun v : String × Nat => v.2) 0x10000) [("n", 0x5000), ("pl", 0x5040)] = [("n", 0x5000), ("pl", 0x5040)] ∧
    osetOf (withAddress (fun _ => 17005) (fun v : String × Nat => v.2) 0x10000) [("n", 0x7040), ("pl", 0x7000)] = [("pl", 0x7000), ("n", 0x7040)] := by
  decide

example : isortBy (fun v : String × Nat => v.2) [("b", 2), ("a", 1), ("c", 2)] = [("a", 1), ("b", 2), ("c", 2)] := by decide

end Cppcheck.Determinism

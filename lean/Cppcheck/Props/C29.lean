import Cppcheck.Proofs.Determinism
/-
C29 — output is deterministic across runs: the part that is decided by proof.

(a) The list of files a run analyses does not depend on the order in which the file system enumerates directory
    entries: every path argument is listed sorted (`FileLister::addFiles`, model and theorems of C31), the arguments
    are taken in command-line order, duplicates are erased, markup files go last.  The property does NOT claim
    invariance under permutation of the command-line arguments (`runFiles_argument_order_matters`).
(b) The canonical form the check uses to compare dump files of different runs forgets any injective renaming of
    the ids (addresses).

Not decided here (see docs/C29.md): iteration over containers keyed by pointer values or hashed — the check only
enumerates them and compares the outputs of differently laid-out runs.
-/
namespace Cppcheck.Determinism
open Cppcheck.Wire Cppcheck.PathMatch Cppcheck.FileLister

/-- **`sort_perm_invariant`**: the sort of `FileLister::addFiles` gives the same list for every enumeration order of
    the same files (no path twice) -/
theorem sort_perm_invariant (l l' : List (Str × Lang)) (hp : l.Perm l') (hnd : (l.map (·.1)).Nodup) :
    sortFiles l = sortFiles l' :=
  sortFiles_perm_invariant l l' hp hnd

/-- **`lister_perm_invariant_files`**: two directory trees whose file listings (file, directories on the way) are
    permutations of each other are listed identically — for every ignore matcher and every acceptance test -/
theorem lister_perm_invariant_files (ign : Str → Filemode → Bool) (acc : Str → Bool × Lang) (path : Str) (t t' : Tree)
    (hp : path ≠ []) (hw : t.wf = true)
    (h : (allFiles (correctedPath path) [] t).Perm (allFiles (correctedPath path) [] t')) :
    addFiles ign acc path (some t) = addFiles ign acc path (some t') := by
  rw [addFiles_eq ign acc path t hp, addFiles_eq ign acc path t' hp]
  congr 1
  apply sortFiles_perm_invariant
  · exact (h.filter _).map _
  · exact selectedFiles_nodup ign acc (correctedPath path) t hw

/-- **`lister_perm_invariant`** (DESIGN §5 C29): reordering the entries of any directories of the tree does not
    change the listing -/
theorem lister_perm_invariant (ign : Str → Filemode → Bool) (acc : Str → Bool × Lang) (path : Str) (t t' : Tree)
    (hp : path ≠ []) (hw : t.wf = true) (h : entriesReordered t t') :
    addFiles ign acc path (some t) = addFiles ign acc path (some t') :=
  lister_perm_invariant_files ign acc path t t' hp hw (allFiles_perm h _ _)

/-- the relation between the arguments of two runs: same paths in the same order, each naming a reordered tree -/
def sameArgs : List (Str × Option Tree) → List (Str × Option Tree) → Prop
  | [], [] => True
  | a :: r, a' :: r' =>
    a.1 = a'.1 ∧
    (match a.2, a'.2 with
     | none, none => True
     | some t, some t' => a.1 ≠ [] ∧ t.wf = true ∧ entriesReordered t t'
     | _, _ => False) ∧ sameArgs r r'
  | _, _ => False

/-- **`runFiles_perm_invariant`**: the file list of the whole run (all arguments, duplicates erased, markup last) is
    the same for every enumeration order of the directories -/
theorem runFiles_perm_invariant (ign : Str → Filemode → Bool) (acc : Str → Bool × Lang) (late : Str → Bool) :
    ∀ (args args' : List (Str × Option Tree)), sameArgs args args' →
    runFiles ign acc late args = runFiles ign acc late args' := by
  intro args args' h
  have : args.flatMap (fun a => (addFiles ign acc a.1 a.2).2) = args'.flatMap (fun a => (addFiles ign acc a.1 a.2).2) := by
    induction args generalizing args' with
    | nil => cases args' with
      | nil => rfl
      | cons _ _ => exact absurd h (by simp [sameArgs])
    | cons a r ih =>
      cases args' with
      | nil => exact absurd h (by simp [sameArgs])
      | cons a' r' =>
        obtain ⟨h1, h2, h3⟩ := h
        simp only [List.flatMap_cons]
        rw [ih r' h3]
        congr 1
        obtain ⟨p, o⟩ := a
        obtain ⟨p', o'⟩ := a'
        simp only at h1 h2 ⊢
        subst h1
        cases o with
        | none => cases o' with
          | none => rfl
          | some _ => exact absurd h2 (by simp)
        | some t => cases o' with
          | none => exact absurd h2 (by simp)
          | some t' =>
            obtain ⟨hp, hw, hr⟩ := h2
            rw [lister_perm_invariant ign acc p t t' hp hw hr]
  simp only [runFiles, this]

/-- the order of the command-line arguments is preserved (not part of the property) -/
theorem runFiles_argument_order_matters :
    runFiles (fun _ _ => false) (acceptFile []) (fun _ => false)
      [("b.c".toList, some (.file "b.c".toList)), ("a.c".toList, some (.file "a.c".toList))] ≠
    runFiles (fun _ _ => false) (acceptFile []) (fun _ => false)
      [("a.c".toList, some (.file "a.c".toList)), ("b.c".toList, some (.file "b.c".toList))] := by
  simp [runFiles, addFiles, collectPath, sortFiles, dedupPaths, dedupPathsAux, markupLast, correctedPath]

/-- a directory listed in two enumeration orders: the hypotheses are satisfiable -/
example : entriesReordered
    (.dir [] [.file "b.cpp".toList, .dir "s".toList [.file "z.c".toList, .file "a.c".toList]])
    (.dir [] [.dir "s".toList [.file "a.c".toList, .file "z.c".toList], .file "b.cpp".toList]) :=
  .trans (.dir [] _ _ (List.Perm.swap _ _ []))
    (.sub [] [] [.file "b.cpp".toList] _ _ (.dir "s".toList _ _ (List.Perm.swap _ _ [])))

example : selectedFiles (fun _ _ => false) (acceptFile []) "r".toList
      (.dir [] [.file "b.cpp".toList, .dir "s".toList [.file "z.c".toList, .file "a.c".toList]]) =
    [("r/b.cpp".toList, .cpp), ("r/s/z.c".toList, .c), ("r/s/a.c".toList, .c)] := by decide

/-! ## dump ids -/

/-- **`dump_alpha`**: the canonical form of a dump does not change when its ids are renamed injectively -/
theorem dump_alpha (d : List Item) (π : Nat → Nat) (h : injectiveOn π (idsOf d) = true) :
    canon (rename π d) = canon d := by
  have hinj : ∀ i j, i ∈ idsOf d → j ∈ idsOf d → π i = π j → i = j := by
    intro i j hi hj e
    have := List.all_eq_true.1 (List.all_eq_true.1 h i hi) j hj
    simp only [Bool.or_eq_true, bne_iff_ne, ne_eq, beq_iff_eq] at this
    rcases this with h1 | h1
    · exact absurd e h1
    · exact h1
  have := canonAux_rename π d [] (fun i j hi hj e => by
    rcases hi with hi | hi
    · simp at hi
    · rcases hj with hj | hj
      · simp at hj
      · exact hinj i j hi hj e)
  simpa [canon] using this

/-- two runs of the same analysis: same text, different addresses -/
example : canon [.lit "<token id=".toList, .ref 0x5626299ef100, .lit " scope=".toList, .ref 0x562629a0b890, .lit " link=".toList, .ref 0x5626299ef100] =
    canon [.lit "<token id=".toList, .ref 0x7f00aa10, .lit " scope=".toList, .ref 0x7f00a000, .lit " link=".toList, .ref 0x7f00aa10] := by
  decide

example : injectiveOn (fun i => i + 4096) [7, 9, 7] = true := by decide

/-- the hypothesis is needed: a renaming that merges two ids changes the canonical form -/
theorem dump_alpha_counterexample_not_injective :
    canon (rename (fun _ => 1) [.ref 7, .ref 9]) ≠ canon [.ref 7, .ref 9] := by decide

/-- canonical forms are fixed points: comparing canonical forms is comparing "up to renaming" -/
theorem canon_lits (d : List Item) : (canon d).filterMap (fun it => match it with | .lit s => some s | .ref _ => none) =
    d.filterMap (fun it => match it with | .lit s => some s | .ref _ => none) := by
  unfold canon
  generalize ([] : List Nat) = seen
  induction d generalizing seen with
  | nil => rfl
  | cons it rest ih =>
    cases it with
    | lit s => simp [canonAux, ih]
    | ref i => simp [canonAux, ih]

end Cppcheck.Determinism

import Cppcheck.Model.FileLister
/-
C29 — the decided part of "output is deterministic across runs".

(a) File order.  `CmdLineParser::fillSettingsFromArgs` (cli/cmdlineparser.cpp:244-306): for every path argument, in
    command-line order, `FileLister::recursiveAddFiles` appends the *sorted* listing of that argument
    (`FileLister.addFiles`, model of C31); then files with an already seen path are erased (first occurrence stays),
    then markup files that are processed after code are moved to the end (stable).  The order of the arguments is
    preserved — only the directory enumeration order (`readdir`) is neutralised by the sort.
    `entriesReordered` is the relation "the same directory tree, entries enumerated in another order".

(b) Dump ids.  A dump file names tokens, scopes, variables, functions, values … by their addresses.  The check
    compares dumps of different runs after `canon`: every id is replaced by the index of its first occurrence.
    A dump (one `<dump cfg=…>` element: the objects of a configuration are destroyed before the next one is analysed, so
    an address identifies an object only within one element) is modelled as the sequence of its text chunks and id
    occurrences.
-/
namespace Cppcheck.Determinism
open Cppcheck.Wire Cppcheck.PathMatch Cppcheck.FileLister

/-! ## (a) the file list of a run -/

/-- erase later entries with an already seen path (cmdlineparser.cpp:278-289; the path stands for `abspath()`):
    the first occurrence of every path stays, in order -/
def dedupPathsAux : List Str → List (Str × Lang) → List (Str × Lang)
  | _, [] => []
  | seen, x :: rest => if seen.contains x.1 then dedupPathsAux seen rest else x :: dedupPathsAux (x.1 :: seen) rest

def dedupPaths (l : List (Str × Lang)) : List (Str × Lang) := dedupPathsAux [] l

/-- "sort the markup last" (cmdlineparser.cpp:293-300): two stable passes -/
def markupLast (late : Str → Bool) (l : List (Str × Lang)) : List (Str × Lang) :=
  l.filter (fun x => !late x.1) ++ l.filter (fun x => late x.1)

/-- the files of a run: every argument (path, the directory tree it names or `none`) listed in order -/
def runFiles (ign : Str → Filemode → Bool) (acc : Str → Bool × Lang) (late : Str → Bool)
    (args : List (Str × Option Tree)) : List (Str × Lang) :=
  markupLast late (dedupPaths (args.flatMap (fun a => (addFiles ign acc a.1 a.2).2)))

/-- the same tree with the entries of some directories enumerated in another order -/
inductive entriesReordered : Tree → Tree → Prop
  | refl (t : Tree) : entriesReordered t t
  | dir (n : Str) (ch ch' : List Tree) : ch.Perm ch' → entriesReordered (.dir n ch) (.dir n ch')
  | sub (n : Str) (pre post : List Tree) (t t' : Tree) : entriesReordered t t' →
      entriesReordered (.dir n (pre ++ t :: post)) (.dir n (pre ++ t' :: post))
  | trans {a b c : Tree} : entriesReordered a b → entriesReordered b c → entriesReordered a c

/-! ## (b) dump ids -/

inductive Item
  | lit (s : Str)
  | ref (id : Nat)
  deriving DecidableEq, Repr, Inhabited

/-- index of the first occurrence of `i` in `seen` (oldest first), or where it is appended -/
def indexIn (i : Nat) : List Nat → Nat
  | [] => 0
  | j :: rest => if j = i then 0 else indexIn i rest + 1

/-- replace every id by the index of its first occurrence; `seen` = the ids met so far, oldest first -/
def canonAux : List Nat → List Item → List Item
  | _, [] => []
  | seen, .lit s :: rest => .lit s :: canonAux seen rest
  | seen, .ref i :: rest =>
    .ref (indexIn i seen) :: canonAux (if seen.contains i then seen else seen ++ [i]) rest

def canon (d : List Item) : List Item := canonAux [] d

def rename (π : Nat → Nat) (d : List Item) : List Item :=
  d.map (fun it => match it with | .lit s => .lit s | .ref i => .ref (π i))

def idsOf : List Item → List Nat
  | [] => []
  | .lit _ :: rest => idsOf rest
  | .ref i :: rest => i :: idsOf rest

/-- π is injective on the ids of the dump (addresses of distinct objects are distinct in every run) -/
def injectiveOn (π : Nat → Nat) (ids : List Nat) : Bool :=
  ids.all (fun i => ids.all (fun j => π i != π j || i == j))

/-- the ids met after the whole dump, oldest first (`seen` = those met before) -/
def finalSeen : List Nat → List Item → List Nat
  | seen, [] => seen
  | seen, .lit _ :: rest => finalSeen seen rest
  | seen, .ref i :: rest => finalSeen (if seen.contains i then seen else seen ++ [i]) rest

/-- the renaming `canon` applies: an id ↦ the position of its first occurrence -/
def firstIndex (d : List Item) (i : Nat) : Nat := indexIn i (finalSeen [] d)

/-! ## (c) sorts and ordered containers under a user comparator

`std::sort` / `std::stable_sort` / `list::sort` with a comparator and `std::set<T, Compare>` order their elements by the
comparator alone.  A comparator that is a strict weak order on a layout-independent key is modelled by that key
(`key : α → Nat`, e.g. the lexicographic rank of (file index, line, column)): `ins` is the insertion below the first element
with a greater key, `isortBy` a stable sort, `osetOf` the ordered set (an element whose key is already present is dropped). -/

def ins {α : Type} (key : α → Nat) (x : α) : List α → List α
  | [] => [x]
  | y :: t => if key x < key y then x :: y :: t else y :: ins key x t

/-- stable sort by `key`: elements arrive in list order, equal keys keep their arrival order -/
def isortBy {α : Type} (key : α → Nat) (l : List α) : List α := l.foldl (fun acc x => ins key x acc) []

/-- `std::set<T, Compare>::insert`: equivalent (= equal key) to a present element ⇒ not inserted -/
def osetInsert {α : Type} (key : α → Nat) (x : α) (s : List α) : List α :=
  if s.any (fun y => key y == key x) then s else ins key x s

def osetOf {α : Type} (key : α → Nat) (l : List α) : List α := l.foldl (fun acc x => osetInsert key x acc) []

/-- a comparator that falls back to the address when the keys are equal: key first, then `addr` (< `m`) -/
def withAddress {α : Type} (key addr : α → Nat) (m : Nat) (x : α) : Nat := key x * m + addr x

end Cppcheck.Determinism

import Cppcheck.Model.Serialize
import Cppcheck.Model.Dedup
/-
C15 — executable small-step models of the three executors.

  lib/cppcheck.cpp          CppCheck::CppCheckLogger::reportErr          `logOne` / `logRun`   (per-file logger, `useGlobal`)
  cli/executor.cpp          Executor::hasToLog                           `gate`
  cli/cppcheckexecutor.cpp  StdLogger::reportErr, exit status of check_internal   `sinkStep`, `exitStatus`
  cli/singleexecutor.cpp    SingleExecutor::check                        `runSingle`
  cli/threadexecutor.cpp    ThreadData::next / threadProc / SyncLogForwarder::reportErr   `tstep` (labels next / gate / print)
  cli/processexecutor.cpp   ProcessExecutor::check / handleRead, PipeWriter   `pstep` (labels fork / send / exit / read / reap)

PARAMETERS (every theorem is for all of them):
  * the analysis: `raws f` = the sequence of `reportErr` calls that reach the per-file logger while file `f` is
    checked, each with the verdicts that depend on the file-local state only (local suppression match, nofail
    match, matching REMARK comment, `library.reportErrors`);
  * `Cfg`: the rendered text of a message (`key`, `ErrorMessage::toString` under the run's template; `key2` after
    StdLogger has filled guideline/classification), the verdict of the non-local suppressions on the
    suppression view of a message (`supG`, `supGX` for isSuppressedExplicitly), `isCriticalErrorId`, the options
    emitDuplicates / safety / exitCode, and `Path::simplifyPath`.
A schedule is a list of labels; `trun` / `prun` execute it (`none` = some label was not enabled).
-/
namespace Cppcheck.Exec
open Cppcheck.Wire Cppcheck.Serialize

/-- SWITCH used by the driver for predictions about the real binary.  `true` since /repo 9907ad7
    (proposed/C15-suppressed-dedup-jobs.diff applied); `false` is the behaviour between 9e24c55 and 9907ad7, kept only
    for the counterexample theorem `thread_dedup_counterexample` (the theorems cover both values). -/
def dedupFixApplied : Bool := true

/-- `SuppressionList::ErrorMessage::fromErrorMessage(msg, {})`: everything a suppression can look at -/
structure SView where
  hash : Nat
  errorId : Str
  file : Str
  line : Int
  inconclusive : Bool
  symbols : Str
  deriving DecidableEq, Repr, Inhabited

def sview (simp : Str → Str) (m : Msg) : SView :=
  match m.stack.getLast? with
  | some l => { hash := m.hash, errorId := m.id, file := simp l.file, line := l.line, inconclusive := m.inconclusive, symbols := m.symbols }
  | none => { hash := m.hash, errorId := m.id, file := simp m.file0, line := -1, inconclusive := m.inconclusive, symbols := m.symbols }

structure Cfg where
  /-- `msg.toString(verbose, templateFormat, templateLocation)` with empty guideline/classification -/
  key : Msg → Str
  /-- the text `Executor::hasToLog` uses as the key of its duplicate filter (its own `msg.toString(…)` call: the arguments
      are extracted from cli/executor.cpp on every run, see `KeyArgs` and `Gen/C15Keys.lean`) -/
  keyGate : Msg → Str
  /-- the same after `StdLogger::reportErr` has set guideline and classification (identical without --report-type) -/
  key2 : Msg → Str
  /-- some suppression that is not `isLocal()` matches -/
  supG : SView → Bool
  /-- … and has exactly the message's id (`isSuppressedExplicitly`) -/
  supGX : SView → Bool
  /-- `ErrorLogger::isCriticalErrorId` -/
  critical : Str → Bool
  emitDuplicates : Bool := false
  safety : Bool := false
  /-- `true` = lib/cppcheck.cpp as it is since 9907ad7 (`suppressedLater`: a finding that `hasToLog` will drop uses the
      duplicate filter of the suppressed findings); `false` = the code between 9e24c55 and 9907ad7 (finding F11d) -/
  dedupFix : Bool := true
  /-- `settings.exitCode` (--error-exitcode) -/
  exitCode : Nat := 1
  /-- `Path::simplifyPath` -/
  simp : Str → Str

/-- one `reportErr` call arriving at `CppCheckLogger` during the analysis of a file -/
structure Raw where
  msg : Msg
  /-- `mSettings.library.reportErrors(msg.file0)` -/
  reportable : Bool := true
  /-- `nomsg.isSuppressed(errorMessage, false)`: a local (file-bound, wildcard-free) suppression matches -/
  locSup : Bool := false
  /-- `nomsg.isSuppressedExplicitly(errorMessage, false)` -/
  locSupX : Bool := false
  /-- `nofail.isSuppressed(errorMessage)` -/
  noFail : Bool := false
  /-- the REMARK comment on the message's line ("" = none) -/
  remark : Str := []
  deriving DecidableEq, Repr, Inhabited

/-- the copy `temp.severity = Severity::internal` the safety branch forwards -/
def asInternal (m : Msg) : Msg := { m with severity := .internal }

def Raw.fwd (r : Raw) : Msg := if r.remark.isEmpty then r.msg else { r.msg with remark := r.remark }

/-- the two per-check duplicate filters of `CppCheckLogger`: `mErrorList`, `mSuppressedErrorList` -/
structure Seen where
  shown : List Str := []
  suppressed : List Str := []
  deriving DecidableEq, Repr, Inhabited

/-- `CppCheckLogger::reportErr`: (messages forwarded to the next logger, new per-check key sets, exit code set).
    `cfg.dedupFix = false` selects the code before 9907ad7 (without `suppressedLater`). -/
def logOne (cfg : Cfg) (useGlobal : Bool) (seen : Seen) (r : Raw) : List Msg × Seen × Bool :=
  if r.msg.severity = .internal then ([r.msg], seen, false)
  else if !r.reportable then ([], seen, false)
  else
    let v := sview cfg.simp r.msg
    let suppressed := r.locSup || (useGlobal && cfg.supG v)
    let crit := suppressed && cfg.safety && cfg.critical r.msg.id
    let fwdCrit : List Msg :=
      if crit then
        (if r.locSupX || (useGlobal && cfg.supGX v) then [asInternal r.msg] else [r.msg])
      else []
    let k := cfg.key r.msg
    if k.isEmpty then (fwdCrit, seen, crit)
    else
      let bucketS := suppressed || (cfg.dedupFix && !useGlobal && cfg.supG v)
      if !cfg.emitDuplicates && k ∈ (if bucketS then seen.suppressed else seen.shown) then (fwdCrit, seen, crit)
      else
        let seen' : Seen :=
          if cfg.emitDuplicates then seen
          else if bucketS then { seen with suppressed := k :: seen.suppressed } else { seen with shown := k :: seen.shown }
        if suppressed then (fwdCrit, seen', crit)
        else
          let ex := !r.noFail && !(r.locSup || cfg.supG v)
          (fwdCrit ++ [r.fwd], seen', crit || ex)

/-- one `CppCheck::check(file)`: forwarded messages in order, `mLogger->exitcode()` -/
def logRun (cfg : Cfg) (useGlobal : Bool) : Seen → List Raw → List Msg × Bool
  | _, [] => ([], false)
  | seen, r :: rs =>
    let (fw, seen', e) := logOne cfg useGlobal seen r
    let (o, e') := logRun cfg useGlobal seen' rs
    (fw ++ o, e || e')

/-! hypotheses of the executor theorems on one file's logger input (decidable; each excluded region is a finding
    or is argued in docs/C15.md) -/

/-- reported by the per-file logger of every executor: not internal, reportable, matched by no suppression -/
def Raw.plain (cfg : Cfg) (r : Raw) : Bool :=
  r.msg.severity != .internal && r.reportable && !r.locSup && !cfg.supG (sview cfg.simp r.msg)

/-- matched by a non-local suppression only: suppressed inside the logger with -j1, by `hasToLog` with -jN -/
def Raw.globalOnly (cfg : Cfg) (r : Raw) : Bool :=
  r.msg.severity != .internal && r.reportable && !r.locSup && cfg.supG (sview cfg.simp r.msg)

/-- the output template renders no message of the run to the empty string -/
def keyOK (cfg : Cfg) (rs : List Raw) : Bool :=
  rs.all fun r => !(cfg.key r.msg).isEmpty && !(cfg.key r.fwd).isEmpty && !(cfg.keyGate r.msg).isEmpty && !(cfg.keyGate r.fwd).isEmpty

/-- without --safety, or no critical error id is matched by a non-local suppression (excluded: finding F11c) -/
def safetyOK (cfg : Cfg) (rs : List Raw) : Bool :=
  !cfg.safety || rs.all fun r =>
    !cfg.critical r.msg.id || (!cfg.supG (sview cfg.simp r.msg) && !cfg.supGX (sview cfg.simp r.msg))

/-- the current code (`dedupFix`), or — for the code before 9907ad7 — no finding that only a non-local suppression matches
    renders to the text of a reported finding of the same file (excluded there: F11d, fixed) -/
def dedupOK (cfg : Cfg) (rs : List Raw) : Bool :=
  cfg.dedupFix || rs.all fun r => rs.all fun r' =>
    !(r.globalOnly cfg && r'.plain cfg && cfg.key r.msg == cfg.key r'.msg)

/-- `Executor::hasToLog`: verdict and new `mErrorList` -/
def gate (cfg : Cfg) (el : List Str) (m : Msg) : Bool × List Str :=
  if m.severity = .internal then (true, el)
  else if cfg.supG (sview cfg.simp m) then (false, el)
  else
    let k := cfg.keyGate m
    if k.isEmpty then (false, el)
    else if cfg.emitDuplicates then (true, el)
    else if k ∈ el then (false, el)
    else (true, k :: el)

/-! ### the three `toString` calls that produce duplicate-filter keys

`ErrorMessage::toString(verbose, templateFormat, templateLocation)` itself is a parameter (`RenderCfg.render`, owned by C26).
WHICH arguments each of the three filters passes is extracted from the source on every run (`vlib/props/c15.py translate`
→ `Gen/C15Keys.lean`); `Cfg.ofRender` builds the executor configuration from them. -/

inductive BoolArg
  | settingsVerbose | constTrue | constFalse
  deriving DecidableEq, Repr, Inhabited

inductive StrArg
  | settingsTemplateFormat | settingsTemplateLocation | emptyString
  deriving DecidableEq, Repr, Inhabited

/-- the argument list of one `toString` call -/
structure KeyArgs where
  verbose : BoolArg
  format : StrArg
  location : StrArg
  deriving DecidableEq, Repr, Inhabited

structure RenderCfg where
  /-- `ErrorMessage::toString` (with empty guideline / classification) -/
  render : Bool → Str → Str → Msg → Str
  verbose : Bool
  templateFormat : Str
  templateLocation : Str

def RenderCfg.boolArg (r : RenderCfg) : BoolArg → Bool
  | .settingsVerbose => r.verbose
  | .constTrue => true
  | .constFalse => false

def RenderCfg.strArg (r : RenderCfg) : StrArg → Str
  | .settingsTemplateFormat => r.templateFormat
  | .settingsTemplateLocation => r.templateLocation
  | .emptyString => []

/-- the key a filter computes with the given call -/
def RenderCfg.keyOf (r : RenderCfg) (a : KeyArgs) (m : Msg) : Str :=
  r.render (r.boolArg a.verbose) (r.strArg a.format) (r.strArg a.location) m

/-- the executor configuration whose three keys are the given `toString` calls (no --report-type) -/
def Cfg.withKeys (base : Cfg) (r : RenderCfg) (logger gate sink : KeyArgs) : Cfg :=
  { base with key := r.keyOf logger, keyGate := r.keyOf gate, key2 := r.keyOf sink }

/-- `ErrorMessage::toString` for the templates the in-process tie uses: templateFormat `{id}`, templateLocation empty or
    `{line}:{info}` (ids and infos without '{'): the id, and — when a location template is given and the call stack has at
    least two frames — one line `<line>:<info, or the short message when the info is empty>` per frame -/
def renderIdLoc (_verbose : Bool) (_format location : Str) (m : Msg) : Str :=
  m.id ++ (if location.isEmpty || m.stack.length < 2 then []
           else m.stack.flatMap fun l => '\n' :: renderInt l.line ++ ':' :: (if l.info.isEmpty then m.short else l.info))


/-- `StdLogger`: keys shown, findings written (newest first), a critical error id was seen -/
structure Sink where
  shown : List Str := []
  reported : List Msg := []
  crit : Bool := false
  deriving DecidableEq, Repr, Inhabited

def endsWith (suffix s : Str) : Bool := suffix.reverse.isPrefixOf s.reverse

/-- internal bookkeeping messages StdLogger consumes before anything else (`logChecker`, `ctuinfo`) -/
def isBookkeeping (m : Msg) : Bool :=
  m.severity = .internal &&
  (m.id = "logChecker".toList || endsWith "-logChecker".toList m.id || m.id = "ctuinfo".toList)

/-- `StdLogger::reportErr` -/
def sinkStep (cfg : Cfg) (s : Sink) (m : Msg) : Sink :=
  if isBookkeeping m then s
  else
    let s := if cfg.critical m.id then { s with crit := true } else s
    if m.severity = .internal then s
    else if !cfg.emitDuplicates && cfg.key2 m ∈ s.shown then s
    else { s with shown := (if cfg.emitDuplicates then s.shown else cfg.key2 m :: s.shown), reported := m :: s.reported }

/-- the end of `check_internal` as far as the executors determine it (whole-program analysis and
    unmatched-suppression reporting — C24/C25 — add to `result` afterwards, identically for all executors) -/
def exitStatus (cfg : Cfg) (result : Nat) (s : Sink) : Nat :=
  if cfg.safety && s.crit then 1 else if result > 0 then cfg.exitCode else 0

variable {F : Type}

/-! ## single executor -/

structure Outcome where
  sink : Sink := {}
  result : Nat := 0
  deriving DecidableEq, Repr, Inhabited

def singleFile (cfg : Cfg) (raws : F → List Raw) (o : Outcome) (f : F) : Outcome :=
  let (out, e) := logRun cfg true {} (raws f)
  { sink := out.foldl (sinkStep cfg) o.sink, result := o.result + e.toNat }

/-- `SingleExecutor::check` over `mFiles` -/
def runSingle (cfg : Cfg) (raws : F → List Raw) (files : List F) : Outcome :=
  files.foldl (singleFile cfg raws) {}

/-- every message some worker's logger forwards during the run (-jN view: global suppressions not yet applied) -/
def forwarded (cfg : Cfg) (raws : F → List Raw) (files : List F) : List Msg :=
  files.flatMap fun f => (logRun cfg false {} (raws f)).1

/-! ## thread executor -/

/-- one `threadProc`: messages of the current file not yet passed to `SyncLogForwarder::reportErr`, the message that
    passed `hasToLog` and waits for `mReportSync`, `next()` returned false -/
structure Worker where
  pending : List Msg := []
  held : Option Msg := none
  finished : Bool := false
  deriving DecidableEq, Repr, Inhabited

structure TState (F : Type) where
  files : List F
  workers : List Worker
  el : List Str := []
  sink : Sink := {}
  result : Nat := 0

inductive TLabel
  /-- worker w calls `ThreadData::next` (takes the next file or finishes) -/
  | next (w : Nat)
  /-- worker w passes its next message to `hasToLog` -/
  | gate (w : Nat)
  /-- worker w, holding a message that has to be logged, gets `mReportSync` and calls `StdLogger::reportErr` -/
  | print (w : Nat)
  deriving DecidableEq, Repr, Inhabited

def tinit (files : List F) (jobs : Nat) : TState F := { files := files, workers := List.replicate jobs {} }

def tstep (cfg : Cfg) (raws : F → List Raw) (s : TState F) : TLabel → Option (TState F)
  | .next i =>
    match s.workers[i]? with
    | none => none
    | some w =>
      if w.finished || !w.pending.isEmpty || w.held.isSome then none
      else match s.files with
        | [] => some { s with workers := s.workers.set i { w with finished := true } }
        | f :: fs =>
          let (out, e) := logRun cfg false {} (raws f)
          some { s with files := fs, workers := s.workers.set i { w with pending := out }, result := s.result + e.toNat }
  | .gate i =>
    match s.workers[i]? with
    | none => none
    | some w =>
      match w.pending, w.held with
      | m :: rest, none =>
        let (ok, el') := gate cfg s.el m
        some { s with el := el', workers := s.workers.set i { w with pending := rest, held := if ok then some m else none } }
      | _, _ => none
  | .print i =>
    match s.workers[i]? with
    | none => none
    | some w =>
      match w.held with
      | some m => some { s with sink := sinkStep cfg s.sink m, workers := s.workers.set i { w with held := none } }
      | none => none

def trun (cfg : Cfg) (raws : F → List Raw) : TState F → List TLabel → Option (TState F)
  | s, [] => some s
  | s, l :: ls => match tstep cfg raws s l with
    | none => none
    | some s' => trun cfg raws s' ls

/-- all futures have returned -/
def TState.terminal (s : TState F) : Bool :=
  s.files.isEmpty && s.workers.all (fun w => w.finished && w.pending.isEmpty && w.held.isNone)

def TState.outcome (s : TState F) : Outcome := { sink := s.sink, result := s.result }

/-! ## process executor -/

/-- what a worker process writes to its pipe -/
inductive Ev
  | err (m : Msg)
  | suppr (inl : Bool) (s : Suppr)
  | done (result : Nat)
  deriving DecidableEq, Repr, Inhabited

def Ev.frame : Ev → Str
  | .err m => Serialize.frame '2' (serialize m)
  | .suppr true s => Serialize.frame '3' (supprEncode s)
  | .suppr false s => Serialize.frame '4' (supprEncode s)
  | .done n => Serialize.frame '5' (render n)

/-- the forked child for file `f`: findings as they are forwarded, then `writeSuppr`, then `writeEnd` -/
def childEvents (cfg : Cfg) (raws : F → List Raw) (sups : F → List (Bool × Suppr)) (f : F) : List Ev :=
  let (out, e) := logRun cfg false {} (raws f)
  out.map Ev.err ++ (sups f).map (fun p => Ev.suppr p.1 p.2) ++ [Ev.done e.toNat]

/-- `PipeWriter::writeSuppr`: every inline suppression, and the other ones once they were checked; suppressions that
    carry a hash are not transferred (the hash is not part of the line) -/
def writeSuppr (l : List Suppr) : List (Bool × Suppr) :=
  l.filterMap (fun s =>
    if s.hash > 0 then none
    else if s.isInline then some (true, s) else if s.checked then some (false, s) else none)

/-- what the parent makes of the suppression lines of one worker (`handleRead` on each line, in order) -/
def decodedSups (cfg : Cfg) (l : List (Bool × Suppr)) : List Suppr :=
  l.filterMap fun p => match supprDecode cfg.simp p.1 (supprEncode p.2) with
    | .ok s => some s
    | .error _ => none

/-- `std::stoi`: `none` = invalid_argument / out_of_range (not caught by handleRead) -/
def stoi (s : Str) : Option Int :=
  let (neg, s) := splitSign (dropSpaces s)
  let (ds, _) := takeDigits s
  if ds.isEmpty then none
  else
    let v := digitsVal 0 ds
    if neg then (if v > 2147483648 then none else some (-(v : Int)))
    else (if v > 2147483647 then none else some (v : Int))

/-- the parent-side state handleRead works on -/
structure Parent where
  el : List Str := []
  sink : Sink := {}
  result : Nat := 0
  /-- suppressions handed to `addSuppression` / `updateSuppressionState` (the merge itself: C24) -/
  recv : List Suppr := []
  deriving DecidableEq, Repr, Inhabited

inductive ReadRes
  /-- handleRead returned true; the unread pipe content -/
  | cont (p : Parent) (rest : Str)
  /-- handleRead returned false: the pipe is closed and removed -/
  | closed (p : Parent)
  /-- `std::exit(EXIT_FAILURE)` inside handleRead -/
  | fatal
  /-- an exception handleRead does not catch (std::terminate) -/
  | abort
  deriving DecidableEq, Repr, Inhabited

/-- `result += n` on `unsigned int` for a (possibly negative) `int` -/
def addResult (r : Nat) (n : Int) : Nat := if 0 ≤ n then r + n.toNat else ((r : Int) + n % 4294967296).toNat % 4294967296

/-- one call of `ProcessExecutor::handleRead` on the bytes that (will) arrive on the pipe -/
def parentRead (cfg : Cfg) (p : Parent) (pipe : Str) : ReadRes :=
  match readFrame pipe with
  | .eof => .closed { p with result := p.result + 1 }
  | .fatal => .fatal
  | .msg t payload rest =>
    if t = '2' then
      match deserialize cfg.simp payload with
      | .error .runtime => .abort
      | .error _ => .fatal
      | .ok m =>
        let (ok, el') := gate cfg p.el m
        .cont { p with el := el', sink := if ok then sinkStep cfg p.sink m else p.sink } rest
    else if t = '3' || t = '4' then
      if payload.isEmpty then .cont p rest
      else match supprDecode cfg.simp (t = '3') payload with
        | .error .insufficientData => .fatal
        | .error _ => .abort
        | .ok s => .cont { p with recv := p.recv ++ [s] } rest
    else if t = '5' then
      match stoi payload with
      | none => .abort
      | some n => .closed { p with result := addResult p.result n }
    else if t = '1' then (if payload.isEmpty then .abort else .cont p rest)
    else if t = '6' then .cont p rest
    else .fatal

/-- events the encoding carries faithfully: the hypothesis of the process theorems on what the workers send -/
def Ev.good (cfg : Cfg) : Ev → Bool
  | .err m => m.transportable && decide ((serialize m).length < two32) && decide (m.sanitize cfg.simp = m)
  | .suppr inl s =>
    decide ((supprEncode s).length < two32) &&
      (match supprDecode cfg.simp inl (supprEncode s) with
       | .ok _ => true
       | .error _ => false)
  | .done n => decide (n ≤ 1)

structure Child where
  /-- events the worker has not written yet -/
  todo : List Ev
  /-- bytes written and not yet read by the parent -/
  pipe : Str := []
  /-- the worker called `std::exit` -/
  exited : Bool := false
  /-- the parent still has the read end in `rpipes` -/
  isOpen : Bool := true
  /-- `waitpid` has returned this child (it no longer counts against `jobs`) -/
  reaped : Bool := false
  deriving DecidableEq, Repr, Inhabited

structure PState (F : Type) where
  files : List F
  children : List Child := []
  parent : Parent := {}
  /-- the parent process died in handleRead -/
  dead : Bool := false

inductive PLabel
  /-- the parent forks a worker for the next file -/
  | fork
  /-- worker c writes its next message (type, length, payload) -/
  | send (c : Nat)
  /-- worker c, having written everything, exits -/
  | exit (c : Nat)
  /-- `select` reports pipe c readable and the parent runs handleRead on it -/
  | read (c : Nat)
  /-- `waitpid` returns worker c -/
  | reap (c : Nat)
  deriving DecidableEq, Repr, Inhabited

def pinit (files : List F) : PState F := { files := files }

def pstep (cfg : Cfg) (jobs : Nat) (raws : F → List Raw) (sups : F → List (Bool × Suppr)) (s : PState F) :
    PLabel → Option (PState F)
  | .fork =>
    if s.dead then none
    else match s.files with
      | [] => none
      | f :: fs =>
        if (s.children.filter (fun c => !c.reaped)).length < jobs then
          some { s with files := fs, children := s.children ++ [{ todo := childEvents cfg raws sups f }] }
        else none
  | .send i =>
    match s.children[i]? with
    | none => none
    | some c =>
      match c.todo with
      | [] => none
      | ev :: rest => if c.exited then none else some { s with children := s.children.set i { c with todo := rest, pipe := c.pipe ++ ev.frame } }
  | .exit i =>
    match s.children[i]? with
    | none => none
    | some c => if c.exited || !c.todo.isEmpty then none else some { s with children := s.children.set i { c with exited := true } }
  | .read i =>
    if s.dead then none
    else match s.children[i]? with
      | none => none
      | some c =>
        if !c.isOpen || (c.pipe.isEmpty && !c.exited) then none
        else match parentRead cfg s.parent c.pipe with
          | .cont p rest => some { s with parent := p, children := s.children.set i { c with pipe := rest } }
          | .closed p => some { s with parent := p, children := s.children.set i { c with pipe := [], isOpen := false } }
          | .fatal => some { s with dead := true }
          | .abort => some { s with dead := true }
  | .reap i =>
    if s.dead then none
    else match s.children[i]? with
      | none => none
      | some c => if !c.exited || c.reaped then none else some { s with children := s.children.set i { c with reaped := true } }

def prun (cfg : Cfg) (jobs : Nat) (raws : F → List Raw) (sups : F → List (Bool × Suppr)) :
    PState F → List PLabel → Option (PState F)
  | s, [] => some s
  | s, l :: ls => match pstep cfg jobs raws sups s l with
    | none => none
    | some s' => prun cfg jobs raws sups s' ls

/-- the `All done` test of `ProcessExecutor::check` -/
def PState.terminal (s : PState F) : Bool :=
  !s.dead && s.files.isEmpty && s.children.all (fun c => !c.isOpen && c.reaped)

def PState.outcome (s : PState F) : Outcome := { sink := s.parent.sink, result := s.parent.result }

end Cppcheck.Exec

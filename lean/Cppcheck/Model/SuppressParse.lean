import Cppcheck.Model.Suppress
/-
C23 — model of the suppression parsers and printer (lib/suppressions.cpp):

  SuppressionList::parseLine, Suppression::toString, strToInt<int> (lib/utils.h), addSuppressionLine, parseFile,
  parseXmlFile (element dispatch; tinyxml2 itself is outside), Suppression::parseComment,
  SuppressionList::parseMultiSuppressComment.

`Path::simplifyPath` is the parameter `Env.simplify`.
-/
namespace Cppcheck.SuppressParse
open Cppcheck.Wire Cppcheck.Glob Cppcheck.Suppress

/-- `std::isspace` in the "C" locale -/
def isSpace (c : Char) : Bool :=
  c = ' ' || c = '\t' || c = '\n' || c = '\x0b' || c = '\x0c' || c = '\r'

/-! ### strToInt<int> -/

def digitVal (c : Char) : Nat := c.toNat - 48

/-- decimal value of a digit string -/
def decVal (s : Str) : Nat := s.foldl (fun a c => a * 10 + digitVal c) 0

inductive IntErr
  | invalid      -- std::invalid_argument from stoll
  | stollRange   -- std::out_of_range from stoll
  | pos          -- trailing characters
  | notInt       -- leading white space / leading zero
  | limits       -- outside int
  deriving DecidableEq, Repr, Inhabited

def intMin : Int := -2147483648
def intMax : Int := 2147483647
def llMax : Nat := 9223372036854775807

/-- optional sign in front of the digits (`strtoll`) -/
def signSplit : Str → Bool × Str
  | '-' :: r => (true, r)
  | '+' :: r => (false, r)
  | r => (false, r)

/-- the two `str.front()` checks of lib/utils.h: starts with a sign or a digit; no leading zero -/
def frontOk : Str → Bool
  | [] => false
  | c :: r => (c = '+' || c = '-' || isDigit c) && (r.isEmpty || c != '0')

def strToIntCore (s : Str) (neg : Bool) (rest : Str) : Except IntErr Int :=
  if (rest.takeWhile isDigit).isEmpty then .error .invalid
  else if (if neg then decVal (rest.takeWhile isDigit) > llMax + 1 else decVal (rest.takeWhile isDigit) > llMax) then
    .error .stollRange
  else if !(rest.dropWhile isDigit).isEmpty then .error .pos
  else if !frontOk s then .error .notInt
  else if (if neg then -(decVal (rest.takeWhile isDigit) : Int) else (decVal (rest.takeWhile isDigit) : Int)) < intMin
      || (if neg then -(decVal (rest.takeWhile isDigit) : Int) else (decVal (rest.takeWhile isDigit) : Int)) > intMax then
    .error .limits
  else .ok (if neg then -(decVal (rest.takeWhile isDigit) : Int) else (decVal (rest.takeWhile isDigit) : Int))

/-- `strToInt<int>(str)`: `std::stoll` (leading white space, optional sign, decimal digits; `invalid_argument` /
    `out_of_range`), all characters consumed, then the checks of lib/utils.h -/
def strToInt (s : Str) : Except IntErr Int :=
  strToIntCore s (signSplit (s.dropWhile isSpace)).1 (signSplit (s.dropWhile isSpace)).2

/-- decimal digits of a natural number, most significant first (`std::to_string`); the first argument is fuel
    (`natToDec` passes enough) -/
def natToDecAux : Nat → Nat → Str
  | 0, n => [Char.ofNat (48 + n % 10)]
  | f + 1, n => if n < 10 then [Char.ofNat (48 + n)] else natToDecAux f (n / 10) ++ [Char.ofNat (48 + n % 10)]

def natToDec (n : Nat) : Str := natToDecAux n n

/-- `std::to_string(int)` -/
def intToDec (i : Int) : Str :=
  if i < 0 then '-' :: natToDec i.natAbs else natToDec i.natAbs

/-! ### parseLine / toString -/

/-- `std::min(line.find('#'), line.find("//"))` -/
def commentPos : Str → Option Nat
  | [] => none
  | c :: r =>
    if c = '#' || (c = '/' && r.head? = some '/') then some 0
    else (commentPos r).map (· + 1)

def dropTrailing (p : Char → Bool) (s : Str) : Str := (s.reverse.dropWhile p).reverse

/-- strip an end-of-line comment and the white space in front of it -/
def stripComment (line : Str) : Str :=
  match commentPos line with
  | none => line
  | some k => dropTrailing isSpace (line.take k)

/-- `splitString(str, sep)`: always at least one piece -/
def splitOn (sep : Char) : Str → List Str
  | [] => [[]]
  | c :: r =>
    if c = sep then [] :: splitOn sep r
    else match splitOn sep r with
      | h :: t => (c :: h) :: t
      | [] => [[c]]

/-- split at the last ':' -/
def splitLastColon (s : Str) : Option (Str × Str) :=
  let r := s.reverse
  match r.dropWhile (· ≠ ':') with
  | [] => none
  | _ :: pre => some (pre.reverse, (r.takeWhile (· ≠ ':')).reverse)

inductive ParseErr
  | filenameMissing
  | badLine (e : IntErr)
  | unexpectedExtra
  deriving DecidableEq, Repr, Inhabited

def symbolPrefix : Str := "symbol=".toList
def polyspaceExtra : Str := "polyspace=1".toList

/-- the extras after the first '\n' of a suppression line -/
def parseExtras : List Str → Suppr → Except ParseErr Suppr
  | [], s => .ok s
  | e :: r, s =>
    if symbolPrefix.isPrefixOf e then parseExtras r { s with symbolName := e.drop 7 }
    else if e = polyspaceExtra then parseExtras r { s with isPolyspace := true }
    else .error .unexpectedExtra

/-- the part of `parseLine` that reads `id[:file[:line]]` (the text in front of the first '\n') -/
def parseFirst (env : Env) (first : Str) : Except ParseErr Suppr :=
  match first.dropWhile (· ≠ ':') with
  | [] => .ok { errorId := first.takeWhile (· ≠ ':') }
  | _ :: fileName =>
    if fileName.isEmpty then .error .filenameMissing
    else
      match splitLastColon fileName with
      | some (pre, post) =>
        if !post.contains '.' then
          if pre.isEmpty then .error .filenameMissing
          else match strToInt post with
            | .error e => .error (.badLine e)
            | .ok n => .ok { errorId := first.takeWhile (· ≠ ':'), fileName := env.simplify pre, lineNumber := n }
        else .ok { errorId := first.takeWhile (· ≠ ':'), fileName := env.simplify fileName }
      | none => .ok { errorId := first.takeWhile (· ≠ ':'), fileName := env.simplify fileName }

/-- `SuppressionList::parseLine` -/
def parseLine (env : Env) (line0 : Str) : Except ParseErr Suppr :=
  match splitOn '\n' (stripComment line0) with
  | [] => .error .unexpectedExtra      -- unreachable: splitOn returns at least one piece
  | first :: extras =>
    match parseFirst env first with
    | .error e => .error e
    | .ok s => parseExtras extras s

/-- `Suppression::toString` -/
def toString (s : Suppr) : Str :=
  s.errorId
  ++ (if s.fileName.isEmpty then [] else
        ':' :: s.fileName ++ (if s.lineNumber = -1 then [] else ':' :: intToDec s.lineNumber))
  ++ (if s.symbolName.isEmpty then [] else '\n' :: symbolPrefix ++ s.symbolName)
  ++ (if s.isPolyspace then '\n' :: polyspaceExtra else [])

/-- the fields `toString` prints -/
def printedFields (s : Suppr) : Suppr :=
  { errorId := s.errorId, fileName := s.fileName, lineNumber := s.lineNumber, symbolName := s.symbolName,
    isPolyspace := s.isPolyspace }

/-- the suppressions that survive `parseLine ∘ toString`: the printed text contains no comment marker, the
    separators ':' and '\n' do not occur inside the fields they delimit, the file name is already simplified, a line
    number is only present together with a file name and fits an `int`, and a file name without line number is
    not mistaken for "file:line" (no ':' in it, or a '.' after its last ':') -/
def printable (env : Env) (s : Suppr) : Bool :=
  (commentPos (toString s)).isNone &&
  !s.errorId.contains ':' && !s.errorId.contains '\n' && !s.fileName.contains '\n' && !s.symbolName.contains '\n' &&
  env.simplify s.fileName = s.fileName &&
  (if s.fileName.isEmpty then s.lineNumber = -1
   else if s.lineNumber = -1 then
     (match splitLastColon s.fileName with | none => true | some (_, post) => post.contains '.')
   else intMin ≤ s.lineNumber && s.lineNumber ≤ intMax)

/-! ### addSuppressionLine / parseFile -/

inductive LineErr
  | parse (e : ParseErr)
  | add (e : AddErr)
  deriving DecidableEq, Repr, Inhabited

/-- `SuppressionList::addSuppressionLine`: `none` = empty error string -/
def addSuppressionLine (env : Env) (l : List Suppr) (line : Str) : Option LineErr × List Suppr :=
  match parseLine env line with
  | .error e => (some (.parse e), l)
  | .ok s =>
    match addSuppression l s with
    | (.ok, l') => (none, l')
    | (e, l') => (some (.add e), l')

/-- is the line skipped by `parseFile` (empty, blank, or a comment line)? -/
def skipLine (line : Str) : Bool :=
  match line.dropWhile isSpace with
  | [] => true
  | c :: r => c = '#' || (c = '/' && r.head? = some '/')

def parseLines (env : Env) : List Str → List Suppr → Option LineErr × List Suppr
  | [], l => (none, l)
  | line :: r, l =>
    if skipLine line then parseLines env r l
    else match addSuppressionLine env l line with
      | (none, l') => parseLines env r l'
      | (some e, l') => (some e, l')

/-- `SuppressionList::parseFile`: '\r' becomes '\n', lines are the '\n'-separated pieces -/
def parseFile (env : Env) (l : List Suppr) (data : Str) : Option LineErr × List Suppr :=
  parseLines env (splitOn '\n' (data.map fun c => if c = '\r' then '\n' else c)) l

/-- adding already parsed suppressions one after the other, stopping at the first rejection (what `parseFile` does
    with the results of `parseLine`) -/
def addSeq : List Suppr → List Suppr → Option LineErr × List Suppr
  | [], l => (none, l)
  | s :: r, l =>
    match addSuppression l s with
    | (.ok, l') => addSeq r l'
    | (e, l') => (some (.add e), l')

/-- a suppressions file with one printed suppression per line -/
def fileOf (ss : List Suppr) : Str := (ss.map fun s => toString s ++ ['\n']).flatten

/-! ### parseXmlFile (after tinyxml2: a list of child elements of the root, each a list of (name, text)) -/

inductive XmlErr
  | expectedSuppress
  | unknownElement
  | badLine (e : IntErr)        -- "invalid lineNumber '…'" (an uncaught std::runtime_error before /repo d6d80d1)
  | badHash                     -- "invalid hash '…'"
  | add (e : AddErr)
  deriving DecidableEq, Repr, Inhabited

def sizeMax : Nat := 18446744073709551615

/-- `strToInt<std::size_t>`: only success/failure matters here -/
def strToSize (s : Str) : Option Nat :=
  let body := s.dropWhile isSpace
  let (neg, rest) := match body with
    | '-' :: r => (true, r)
    | '+' :: r => (false, r)
    | r => (false, r)
  let ds := rest.takeWhile isDigit
  let tail := rest.dropWhile isDigit
  if ds.isEmpty then none
  else if decVal ds > sizeMax then none
  else if !tail.isEmpty then none
  else match s with
    | [] => none
    | c :: r =>
      if c = '-' then none
      else if c != '+' && !isDigit c then none
      else if !r.isEmpty && c = '0' then none
      else if neg then none else some (decVal ds)

def xmlFields (env : Env) : List (Str × Str) → Suppr → Except XmlErr Suppr
  | [], s => .ok s
  | (name, text) :: r, s =>
    if name = "id".toList then xmlFields env r { s with errorId := text }
    else if name = "fileName".toList then xmlFields env r { s with fileName := env.simplify text }
    else if name = "lineNumber".toList then
      match strToInt text with
      | .ok n => xmlFields env r { s with lineNumber := n }
      | .error e => .error (.badLine e)
    else if name = "symbolName".toList then xmlFields env r { s with symbolName := text }
    else if !text.isEmpty && name = "hash".toList then
      match strToSize text with
      | some h => xmlFields env r { s with hash := h }
      | none => .error .badHash
    else .error .unknownElement

def parseXml (env : Env) : List (Str × List (Str × Str)) → List Suppr → Option XmlErr × List Suppr
  | [], l => (none, l)
  | (ename, fs) :: r, l =>
    if ename ≠ "suppress".toList then (some .expectedSuppress, l)
    else match xmlFields env fs {} with
      | .error e => (some e, l)
      | .ok s =>
        match addSuppression l s with
        | (.ok, l') => parseXml env r l'
        | (e, l') => (some (.add e), l')

/-- the child elements `<id>`, `<fileName>`, `<lineNumber>`, `<symbolName>` written for a suppression (manual, §XML
    suppressions); absent fields are omitted -/
def xmlOf (s : Suppr) : List (Str × Str) :=
  [("id".toList, s.errorId)] ++
  (if s.fileName.isEmpty then [] else [("fileName".toList, s.fileName)]) ++
  (if s.lineNumber = -1 then [] else [("lineNumber".toList, intToDec s.lineNumber)]) ++
  (if s.symbolName.isEmpty then [] else [("symbolName".toList, s.symbolName)])

/-- the fields an XML `<suppress>` element carries -/
def xmlFieldsOf (env : Env) (s : Suppr) : Suppr :=
  { errorId := s.errorId, fileName := if s.fileName.isEmpty then [] else env.simplify s.fileName,
    lineNumber := s.lineNumber, symbolName := s.symbolName }

def addSeqX : List Suppr → List Suppr → Option XmlErr × List Suppr
  | [], l => (none, l)
  | s :: r, l =>
    match addSuppression l s with
    | (.ok, l') => addSeqX r l'
    | (e, l') => (some (.add e), l')

/-! ### inline comments -/

/-- the words `iss >> word` yields -/
def wordsGo : Str → Str → List Str
  | [], cur => if cur.isEmpty then [] else [cur.reverse]
  | c :: r, cur =>
    if isSpace c then (if cur.isEmpty then wordsGo r [] else cur.reverse :: wordsGo r [])
    else wordsGo r (c :: cur)

def words (s : Str) : List Str := wordsGo s []

def symbolNamePrefix : Str := "symbolName=".toList

/-- `word.find_first_not_of("+-*/%#;") == npos` -/
def isOpWord (w : Str) : Bool := w.all (fun c => "+-*/%#;".toList.contains c)

def keywords : List Str :=
  ["cppcheck-suppress", "cppcheck-suppress-begin", "cppcheck-suppress-end", "cppcheck-suppress-file",
   "cppcheck-suppress-macro"].map String.toList

/-- `trim(s)` with the default " \t" -/
def trim (s : Str) : Str :=
  dropTrailing (fun c => c = ' ' || c = '\t') (s.dropWhile (fun c => c = ' ' || c = '\t'))

/-- first index `≥ from` at which "//" starts -/
def findSlashSlashFrom (s : Str) (start : Nat) : Option Nat :=
  let rec go : Str → Nat → Option Nat
    | [], _ => none
    | c :: r, i => if c = '/' && r.head? = some '/' then some i else go r (i + 1)
  go (s.drop start) start

structure CommentRes where
  errorId : Str := []
  symbolName : Str := []
  extraComment : Str := []
  /-- the first word reported as "Bad suppression attribute" -/
  badAttr : Option Str := none
  deriving DecidableEq, Repr, Inhabited

inductive CommentOut
  | notInline                   -- returns false
  | outOfRange                  -- `comment.substr(2)` throws std::out_of_range
  | ok (r : CommentRes)
  deriving DecidableEq, Repr, Inhabited

/-- the attribute loop of `parseComment` -/
def attrLoop : List Str → Str → Option Str → Str × Option Str
  | [], sym, bad => (sym, bad)
  | w :: r, sym, bad =>
    if isOpWord w then (sym, bad)
    else if symbolNamePrefix.isPrefixOf w then attrLoop r (w.drop 11) bad
    else attrLoop r sym (if bad.isNone then some w else bad)

/-- `Suppression::parseComment` on a default-constructed Suppression -/
def parseComment (comment0 : Str) : CommentOut :=
  if comment0.length < 2 then .notInline
  else
    let c1 := if comment0.drop (comment0.length - 2) = "*/".toList then comment0.take (comment0.length - 2) else comment0
    let semi := c1.findIdx? (· = ';')
    let (extraPos, delim) := match semi with
      | some k => (some k, 1)
      | none => (findSlashSlashFrom c1 2, 2)
    let (extra, c2) := match extraPos with
      | some k => ((trim (c1.drop (k + delim))).filter (fun (ch : Char) => ch.toNat < 128), c1.take k)
      | none => ([], c1)
    if c2.length < 2 then .outOfRange
    else
      match words (c2.drop 2) with
      | [] => .notInline
      | kw :: rest =>
        if !keywords.contains kw then .notInline
        else match rest with
          | [] => .notInline
          | id :: attrs =>
            let (sym, bad) := attrLoop attrs [] none
            .ok { errorId := id, symbolName := sym, extraComment := extra, badAttr := bad }

/-- one piece between commas of a multi suppression -/
def multiItem (piece : Str) : Option (Str × Str) :=
  match words piece with
  | [] => none
  | id :: attrs =>
    let rec go : List Str → Str → Option Str
      | [], sym => some sym
      | w :: r, sym =>
        if isOpWord w then some sym
        else if symbolNamePrefix.isPrefixOf w then go r (w.drop 11)
        else none
    (go attrs []).map (fun sym => (id, sym))

def multiItems : List Str → Option (List (Str × Str))
  | [] => some []
  | p :: r =>
    if p.isEmpty then multiItems r
    else match multiItem p with
      | none => none
      | some it => (multiItems r).map (it :: ·)

/-- `SuppressionList::parseMultiSuppressComment`: `none` = error message set, empty result -/
def parseMulti (comment : Str) : Option (List (Str × Str)) :=
  match comment.dropWhile (· ≠ '[') with
  | [] => none
  | _ :: afterOpen =>
    if !afterOpen.contains ']' then none
    else multiItems (splitOn ',' (afterOpen.takeWhile (· ≠ ']')))

end Cppcheck.SuppressParse

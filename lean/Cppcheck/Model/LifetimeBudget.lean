/-
C13 — recursion budget of `getLifetimeTokens` (lib/valueflow.cpp) and `followAllReferencesInternal` (lib/astutils.cpp).

Both functions follow a reference through a call `f(...)` of a reference-returning function by recursing into **every**
`return` statement of `f` (`for (const Token* returnTok : returns)`), and stop when their `int depth` parameter (initially
20) is negative.  The worst case is a callee whose `r` return statements are again calls of such a function (a recursive
accessor): every level fans out `r` ways.  What bounds the work is how the budget is charged at the fan-out:

* `depth - returns.size()`  (the code): a level with `r` returns costs `r` units of budget;
* `depth - 1`               (what the code must not do): every level costs one unit, the tree has `r ^ depth` leaves.

`calls c r n` counts the invocations for a budget of `n = depth + 1` remaining units (`n = 0` ⇔ `depth < 0`).  It is the
recursion skeleton only (one recursive invocation per return statement); the per-invocation work and the additional
recursion into call arguments of reference parameters are outside this model.
-/
namespace Cppcheck.LifetimeBudget

/-- how the budget is charged where the recursion fans out over the return statements -/
inductive Charge where
  | perReturns   -- depth - returns.size()
  | perCall      -- depth - 1
  deriving DecidableEq, Repr, Inhabited

/-- units of budget one level costs -/
def Charge.cost : Charge → Nat → Nat
  | .perReturns, r => r
  | .perCall, _ => 1

/-- invocations of the function for a callee with `r` return statements and `n = depth + 1` units left.
`n = 0` (`depth < 0`): the invocation returns at once.  With `r = 0` nothing is followed. -/
def calls (c : Charge) (r : Nat) : Nat → Nat
  | 0 => 1
  | n + 1 => if _h : r = 0 then 1 else 1 + r * calls c r (n + 1 - c.cost r)
termination_by n => n
decreasing_by
  cases c <;> simp [Charge.cost] <;> omega

/-- the budget the C++ code starts with (`int depth = 20`) -/
def initialDepth : Nat := 20

end Cppcheck.LifetimeBudget

import Cppcheck.Model.Platforms
import Cppcheck.Model.Trunc
/-
C01 — MiniC: the C fragment on which reported value-flow facts are validated.
Integer types of five ranks and both signs over a platform record (`Cppcheck.Platforms.Platform`), expressions without
side effects (literals, variable reads, unary `- ~ !`, binary arithmetic / bitwise / shift / comparison, short-circuit
`&& ||`, casts, `?:`), statements (assignment = declaration with initialiser, compound assignment, `++` and `--` statements,
`if/else`, `while` with `break/continue`, `return`, sequencing).  Every expression node that corresponds to a token of
the printed program is wrapped in `Expr.tag id ·`; evaluating it emits the event `(id, value)`.
Semantics = ISO C17 with the implementation-defined choices of gcc/clang: conversion to a signed type is modular,
`>>` of a negative value is arithmetic.  Undefined behaviour (`none` / `Out.ub`): signed overflow in `+ - * / % << ` and
unary minus, division or remainder by zero, shift count negative or ≥ width, left shift of a negative value.
The executable semantics is the fuel-indexed interpreter `execS` (fuel bounds the recursion depth; `Out.timeout` when it
runs out); `Cppcheck.MiniC.BigStep` (Proofs/MiniC.lean) is the inductive big-step relation it is proved to agree with.
-/
namespace Cppcheck.MiniC
open Cppcheck.Platforms
open Cppcheck.Trunc (wrapC)

inductive Rank | char | short | int | long | llong
  deriving DecidableEq, Repr, Inhabited

structure Ty where
  rank : Rank
  signed : Bool
  deriving DecidableEq, Repr, Inhabited

def Rank.toNat : Rank → Nat
  | .char => 0 | .short => 1 | .int => 2 | .long => 3 | .llong => 4

def tInt : Ty := ⟨.int, true⟩
def tUInt : Ty := ⟨.int, false⟩

def bits (P : Platform) (t : Ty) : Nat :=
  match t.rank with
  | .char => P.charBit
  | .short => P.charBit * P.sizeofShort
  | .int => P.charBit * P.sizeofInt
  | .long => P.charBit * P.sizeofLong
  | .llong => P.charBit * P.sizeofLongLong

/-- smallest / largest value of a type (two's complement; written with `/ 2` so that the formulas also make sense for a
    degenerate platform record with 0-bit types) -/
def tmin (P : Platform) (t : Ty) : Int := if t.signed then -((2 : Int) ^ bits P t / 2) else 0
def tmax (P : Platform) (t : Ty) : Int := if t.signed then ((2 : Int) ^ bits P t + 1) / 2 - 1 else 2 ^ bits P t - 1

/-- conversion of a mathematical integer to type `t` (C17 6.3.1.3; modular also for signed destinations, as gcc/clang) -/
def conv (P : Platform) (t : Ty) (v : Int) : Int := wrapC (bits P t) t.signed v

/-- integer promotion (C17 6.3.1.1): ranks below `int` go to `int` when it holds all their values, else `unsigned int` -/
def promote (P : Platform) (t : Ty) : Ty :=
  if t.rank.toNat < Rank.int.toNat then
    if tmin P tInt ≤ tmin P t ∧ tmax P t ≤ tmax P tInt then tInt else tUInt
  else t

/-- usual arithmetic conversions (C17 6.3.1.8) on promoted operand types -/
def uac (P : Platform) (a b : Ty) : Ty :=
  let a := promote P a
  let b := promote P b
  if a = b then a
  else if a.signed = b.signed then (if a.rank.toNat < b.rank.toNat then b else a)
  else
    let u := if a.signed then b else a   -- the unsigned one
    let s := if a.signed then a else b   -- the signed one
    if s.rank.toNat ≤ u.rank.toNat then u
    else if tmax P u ≤ tmax P s then s
    else ⟨s.rank, false⟩

inductive UnOp | neg | compl | lnot
  deriving DecidableEq, Repr, Inhabited

inductive BinOp | add | sub | mul | div | mod | band | bor | bxor | shl | shr | lt | le | gt | ge | eq | ne
  deriving DecidableEq, Repr, Inhabited

def BinOp.isCmp : BinOp → Bool
  | .lt | .le | .gt | .ge | .eq | .ne => true
  | _ => false

def BinOp.isShift : BinOp → Bool
  | .shl | .shr => true
  | _ => false

inductive Expr
  | lit (v : Int) (t : Ty)
  | var (x : Nat)
  | un (op : UnOp) (e : Expr)
  | bin (op : BinOp) (a b : Expr)
  | land (a b : Expr)
  | lor (a b : Expr)
  | cast (t : Ty) (e : Expr)
  | cond (c a b : Expr)
  | tag (id : Nat) (e : Expr)
  deriving Repr, Inhabited

inductive Stmt
  | skip
  | assign (id : Nat) (x : Nat) (e : Expr)                 -- `x = e;` / `T x = e;` ; event: the converted value (the `=` token)
  | compound (id : Nat) (op : BinOp) (x : Nat) (e : Expr)  -- `x op= e;` ; event: the new value of x
  | incdec (id : Nat) (inc pre : Bool) (x : Nat)           -- `x++; ++x; x--; --x;` ; event: old (postfix) / new (prefix) value
  | seq (a b : Stmt)
  | ite (c : Expr) (a b : Stmt)
  | while (c : Expr) (body : Stmt)
  | brk
  | cont
  | ret (e : Expr)
  deriving Repr, Inhabited

/-- a function: variables `0 .. nparams-1` are the parameters, the others locals; `vars` gives every variable's type -/
structure Func where
  nparams : Nat
  vars : List Ty
  body : Stmt
  deriving Repr, Inhabited

abbrev Env := List Int
abbrev Event := Nat × Int

def varTy (vars : List Ty) (x : Nat) : Ty := vars.getD x tInt

/-- static type of an expression (C17 6.5) -/
def tyOf (P : Platform) (vars : List Ty) : Expr → Ty
  | .lit _ t => t
  | .var x => varTy vars x
  | .un .lnot _ => tInt
  | .un _ e => promote P (tyOf P vars e)
  | .bin op a b =>
    if op.isCmp then tInt
    else if op.isShift then promote P (tyOf P vars a)
    else uac P (tyOf P vars a) (tyOf P vars b)
  | .land _ _ => tInt
  | .lor _ _ => tInt
  | .cast t _ => t
  | .cond _ a b => uac P (tyOf P vars a) (tyOf P vars b)
  | .tag _ e => tyOf P vars e

def b2i (b : Bool) : Int := if b then 1 else 0

/-- result of an arithmetic operation of type `t` whose mathematical value is `r`: signed ⇒ UB when not representable,
    unsigned ⇒ reduced modulo 2^bits -/
def arith (P : Platform) (t : Ty) (r : Int) : Option Int :=
  if t.signed then (if tmin P t ≤ r ∧ r ≤ tmax P t then some r else none) else some (conv P t r)

/-- bit pattern of a value of type `t` -/
def pat (P : Platform) (t : Ty) (v : Int) : Nat := (v % 2 ^ bits P t).toNat

/-- binary operator on operands `a : ta`, `b : tb` (values already in their types); `none` = undefined behaviour.
    The results of `%` and `>>` are always representable in the operation type; they are nevertheless passed through
    `arith` / `conv` (which leave a representable value unchanged) so that representability of every result is syntactic. -/
def evalBin (P : Platform) (op : BinOp) (ta tb : Ty) (a b : Int) : Option Int :=
  if op.isShift then
    let t := promote P ta
    let a' := conv P t a
    let c := conv P (promote P tb) b
    if c < 0 ∨ c ≥ bits P t then none
    else if op = .shl then
      if t.signed then (if a' < 0 then none else arith P t (a' * 2 ^ c.toNat))
      else some (conv P t (a' * 2 ^ c.toNat))
    else some (conv P t (a' / 2 ^ c.toNat))
  else
    let t := uac P ta tb
    let a' := conv P t a
    let b' := conv P t b
    match op with
    | .add => arith P t (a' + b')
    | .sub => arith P t (a' - b')
    | .mul => arith P t (a' * b')
    | .div => if b' = 0 then none else arith P t (Int.tdiv a' b')
    | .mod => if b' = 0 then none else if t.signed ∧ a' = tmin P t ∧ b' = -1 then none else arith P t (Int.tmod a' b')
    | .band => some (conv P t (Int.ofNat (pat P t a' &&& pat P t b')))
    | .bor => some (conv P t (Int.ofNat (pat P t a' ||| pat P t b')))
    | .bxor => some (conv P t (Int.ofNat (pat P t a' ^^^ pat P t b')))
    | .lt => some (b2i (decide (a' < b')))
    | .le => some (b2i (decide (a' ≤ b')))
    | .gt => some (b2i (decide (a' > b')))
    | .ge => some (b2i (decide (a' ≥ b')))
    | .eq => some (b2i (decide (a' = b')))
    | .ne => some (b2i (decide (a' ≠ b')))
    | .shl => none
    | .shr => none

def evalUn (P : Platform) (op : UnOp) (ta : Ty) (a : Int) : Option Int :=
  match op with
  | .lnot => some (b2i (decide (a = 0)))
  | .neg => let t := promote P ta; arith P t (-(conv P t a))
  | .compl => let t := promote P ta; some (conv P t (-(conv P t a) - 1))

/-- expression evaluation: value (`none` = undefined behaviour) and the events emitted, in evaluation order -/
def evalE (P : Platform) (vars : List Ty) (env : Env) : Expr → Option Int × List Event
  | .lit v t => (some (conv P t v), [])
  | .var x => (some (env.getD x 0), [])
  | .un op e =>
    match evalE P vars env e with
    | (some a, ev) => (evalUn P op (tyOf P vars e) a, ev)
    | (none, ev) => (none, ev)
  | .bin op a b =>
    match evalE P vars env a with
    | (some va, ev1) =>
      match evalE P vars env b with
      | (some vb, ev2) => (evalBin P op (tyOf P vars a) (tyOf P vars b) va vb, ev1 ++ ev2)
      | (none, ev2) => (none, ev1 ++ ev2)
    | (none, ev1) => (none, ev1)
  | .land a b =>
    match evalE P vars env a with
    | (some va, ev1) =>
      if va = 0 then (some 0, ev1)
      else
        match evalE P vars env b with
        | (some vb, ev2) => (some (b2i (decide (vb ≠ 0))), ev1 ++ ev2)
        | (none, ev2) => (none, ev1 ++ ev2)
    | (none, ev1) => (none, ev1)
  | .lor a b =>
    match evalE P vars env a with
    | (some va, ev1) =>
      if va ≠ 0 then (some 1, ev1)
      else
        match evalE P vars env b with
        | (some vb, ev2) => (some (b2i (decide (vb ≠ 0))), ev1 ++ ev2)
        | (none, ev2) => (none, ev1 ++ ev2)
    | (none, ev1) => (none, ev1)
  | .cast t e =>
    match evalE P vars env e with
    | (some a, ev) => (some (conv P t a), ev)
    | (none, ev) => (none, ev)
  | .cond c a b =>
    match evalE P vars env c with
    | (some vc, ev1) =>
      let t := uac P (tyOf P vars a) (tyOf P vars b)
      if vc ≠ 0 then
        match evalE P vars env a with
        | (some va, ev2) => (some (conv P t va), ev1 ++ ev2)
        | (none, ev2) => (none, ev1 ++ ev2)
      else
        match evalE P vars env b with
        | (some vb, ev2) => (some (conv P t vb), ev1 ++ ev2)
        | (none, ev2) => (none, ev1 ++ ev2)
    | (none, ev1) => (none, ev1)
  | .tag id e =>
    match evalE P vars env e with
    | (some a, ev) => (some a, ev ++ [(id, a)])
    | (none, ev) => (none, ev)

inductive Out
  | normal (env : Env)
  | brk (env : Env)
  | cont (env : Env)
  | ret
  | ub
  | timeout
  deriving Repr, Inhabited

def setVar (env : Env) (x : Nat) (v : Int) : Env := env.set x v

/-- statement execution with recursion depth bounded by `fuel` -/
def execS (P : Platform) (vars : List Ty) : Nat → Env → Stmt → Out × List Event
  | 0, _, _ => (.timeout, [])
  | _ + 1, env, .skip => (.normal env, [])
  | _ + 1, env, .assign id x e =>
    match evalE P vars env e with
    | (some v, ev) => let v' := conv P (varTy vars x) v; (.normal (setVar env x v'), ev ++ [(id, v')])
    | (none, ev) => (.ub, ev)
  | _ + 1, env, .compound id op x e =>
    match evalE P vars env e with
    | (some v, ev) =>
      match evalBin P op (varTy vars x) (tyOf P vars e) (env.getD x 0) v with
      | some r => let v' := conv P (varTy vars x) r; (.normal (setVar env x v'), ev ++ [(id, v')])
      | none => (.ub, ev)
    | (none, ev) => (.ub, ev)
  | _ + 1, env, .incdec id inc pre x =>
    let old := env.getD x 0
    match evalBin P (if inc then .add else .sub) (varTy vars x) tInt old 1 with
    | some r => let v' := conv P (varTy vars x) r; (.normal (setVar env x v'), [(id, if pre then v' else old)])
    | none => (.ub, [])
  | n + 1, env, .seq a b =>
    match execS P vars n env a with
    | (.normal env', ev1) =>
      let (o, ev2) := execS P vars n env' b
      (o, ev1 ++ ev2)
    | (o, ev1) => (o, ev1)
  | n + 1, env, .ite c a b =>
    match evalE P vars env c with
    | (some vc, ev1) =>
      let (o, ev2) := if vc ≠ 0 then execS P vars n env a else execS P vars n env b
      (o, ev1 ++ ev2)
    | (none, ev1) => (.ub, ev1)
  | n + 1, env, .while c body =>
    match evalE P vars env c with
    | (some vc, ev1) =>
      if vc = 0 then (.normal env, ev1)
      else
        match execS P vars n env body with
        | (.normal env', ev2) =>
          let (o, ev3) := execS P vars n env' (.while c body)
          (o, ev1 ++ ev2 ++ ev3)
        | (.cont env', ev2) =>
          let (o, ev3) := execS P vars n env' (.while c body)
          (o, ev1 ++ ev2 ++ ev3)
        | (.brk env', ev2) => (.normal env', ev1 ++ ev2)
        | (o, ev2) => (o, ev1 ++ ev2)
    | (none, ev1) => (.ub, ev1)
  | _ + 1, env, .brk => (.brk env, [])
  | _ + 1, env, .cont => (.cont env, [])
  | _ + 1, env, .ret e =>
    match evalE P vars env e with
    | (some _, ev) => (.ret, ev)
    | (none, ev) => (.ub, ev)

/-- initial environment: arguments converted to the parameter types (as a C call does), locals 0 until initialised -/
def initEnv (P : Platform) (f : Func) (args : List Int) : Env :=
  (List.range f.vars.length).map fun i =>
    if i < f.nparams then conv P (varTy f.vars i) (args.getD i 0) else 0

/-- the LP64 data model (cppcheck platform `unix64`), used by the examples and counterexamples of Props/C01.lean -/
def lp64 : Platform :=
  { name := "unix64", charBit := 8, sizeofBool := 1, sizeofShort := 2, sizeofInt := 4, sizeofLong := 8, sizeofLongLong := 8,
    sizeofFloat := 4, sizeofDouble := 8, sizeofLongDouble := 16, sizeofWchar := 4, sizeofSizeT := 8, sizeofPointer := 8,
    charUnsigned := false, windows := false }

def run (P : Platform) (f : Func) (fuel : Nat) (args : List Int) : Out × List Event :=
  execS P f.vars fuel (initEnv P f args) f.body

end Cppcheck.MiniC

import Cppcheck.Model.PPCond
/-
C11 / C06 — macro expansion and the conditional-inclusion state machine of simplecpp::preprocess.

  `lexLine`        the part of TokenList::readfile + combineOperators the generated sources need: names / pp-numbers (runs of
                   [A-Za-z0-9_$]), every other character a token of its own, adjacent operator characters combined as
                   combineOperators does (`==  !=  <=  >=  &&  ||  <<  >>  ->  ::  ...  X=`)
  `parseDefine`    Macro::parseDefine: object-like / function-like (the `(` must touch the name) / variadic
  `expand`         macro replacement of one token list in a context: `dis` = the macros whose replacement is being rescanned
                   (simplecpp: `expandedmacros`), a token that names such a macro is painted `blue` and never expanded later
                   (6.10.3.4p2); arguments are completely macro replaced before substitution (6.10.3.1) unless they are
                   operands of `#` / `##`; `#` stringizes, `##` pastes.  The result of a replacement is rescanned on its own:
                   a function-like macro name at its very end that would take its arguments from the tokens AFTER the
                   replacement (6.10.3.4p4, unspecified nesting) is reported as `Err.joining` — outside the fragment.
                   Termination: lexicographic measure (number of macros not in `dis`, length of the list).
  `IfState`, `ifOpen`, `ifElif`, `ifElse`      the ifstates stack of simplecpp::preprocess
  `runFile`        the directive loop: #define / #undef / #if / #ifdef / #ifndef / #elif / #else / #endif / #error, text lines
  `duiDefines`     lib/preprocessor.cpp createDUI (splitcfg of -D / configuration) + the `dui.defines` loop of preprocess
Macro::expand of simplecpp is NOT copied line by line (docs/C11.md): `expand` is the replacement algorithm of the standard on
the fragment above; the correspondence check compares it with simplecpp and with gcc -E.
-/
namespace Cppcheck.PPMacro
open Cppcheck.PPCond

/-! ## lexer -/

structure LTok where
  s : Tok
  ws : Bool          -- white space (or line start) before the token
  deriving DecidableEq, Repr

def isNameChar (c : Char) : Bool := c.isAlphanum || c == '_' || c == '$'

def isSpaceC (c : Char) : Bool := c.toNat ≤ 32

/-- raw tokens of one line -/
def lexRaw : Nat → List Char → Bool → List Char → List LTok
  | 0, _, _, _ => []
  | _ + 1, [], _, cur => if cur.isEmpty then [] else [⟨cur.reverse, false⟩]
  | fuel + 1, c :: r, ws, cur =>
    if isNameChar c then
      match r with
      | d :: _ => if isNameChar d then lexRaw fuel r ws (c :: cur) else ⟨(c :: cur).reverse, ws⟩ :: lexRaw fuel r false []
      | [] => [⟨(c :: cur).reverse, ws⟩]
    else if isSpaceC c then lexRaw fuel r true []
    else ⟨[c], ws⟩ :: lexRaw fuel r false []

def inSet (c : Char) (s : String) : Bool := s.toList.contains c

/-- `combineOperators` on single-character operator tokens that touch each other -/
def combine : List LTok → List LTok
  | [] => []
  | [t] => [t]
  | [t, n] =>
    let t1 := opOf t.s
    let n1 := opOf n.s
    if t1 == '\x00' || n1 == '\x00' || n.ws then [t, n]
    else match pair t1 n1 with
      | some s => [⟨s, t.ws⟩]
      | none => [t, n]
  | t :: n :: m :: rest =>
    let t1 := opOf t.s
    let n1 := opOf n.s
    if t1 == '\x00' || n1 == '\x00' || n.ws then t :: combine (n :: m :: rest)
    else if t1 == '.' then
      if n1 == '.' && opOf m.s == '.' && !m.ws then ⟨['.', '.', '.'], t.ws⟩ :: combine rest else t :: combine (n :: m :: rest)
    else if (t1 == '<' || t1 == '>') && t1 == n1 && !(n1 == '=') then
      if opOf m.s == '=' && !m.ws && (match rest with | k :: _ => opOf k.s != '=' | [] => false)
      then ⟨[t1, t1, '='], t.ws⟩ :: combine rest else ⟨[t1, t1], t.ws⟩ :: combine (m :: rest)
    else match pair t1 n1 with
      | some s => ⟨s, t.ws⟩ :: combine (m :: rest)
      | none => t :: combine (n :: m :: rest)
where
  /-- two touching operator characters that form one token -/
  pair (t1 n1 : Char) : Option Tok :=
    if n1 == '=' && inSet t1 "=!<>+-*/%&|^" then some [t1, '=']
    else if (t1 == '|' || t1 == '&') && t1 == n1 then some [t1, t1]
    else if t1 == ':' && n1 == ':' then some [':', ':']
    else if t1 == '-' && n1 == '>' then some ['-', '>']
    else if (t1 == '<' || t1 == '>') && t1 == n1 then some [t1, t1]
    else none

def lexLine (s : List Char) : List LTok := combine (lexRaw (s.length + 1) s true [])

def splitLines (s : List Char) : List (List Char) :=
  (s.splitOn '\n')

/-! ## macros -/

structure XTok where
  s : Tok
  blue : Bool := false
  deriving DecidableEq, Repr

structure Macro where
  name : Tok
  params : Option (List Tok)     -- none: object-like
  variadic : Bool
  body : List Tok
  deriving DecidableEq, Repr

inductive XErr | wrongArgs | unterminated | joining | badDefine | hashhash | errorDirective | noIf | syntax | unsupported
  | cond (e : PPCond.Err) | condSyntax
  deriving DecidableEq, Repr

/-- deviations of simplecpp from the standard that the model reproduces; `Quirks.code` = the code as it is, `Quirks.std` = none -/
structure Quirks where
  vaComma : Bool       -- a `,` before an empty `__VA_ARGS__` that is followed by `)` is dropped (Macro::expandToken)
  stringSpace : Bool   -- `#`: no space after an operator made by combineOperators (its whitespaceahead flag is that of its first
                       -- character) and after a string literal made by an inner `#`
  elifEval : Bool      -- the condition of `#elif` is evaluated although an earlier group of the section was taken (F11h, fixed in 8474bf0)
  pasteBlue : Bool     -- the tokens of a multi-token argument next to `##` that are not pasted are not rescanned
  argInherit : Bool    -- NOT a behaviour of the code: arguments are macro replaced with the enclosing invocation's own name already
                       -- disabled (the variant refuted by `expand_arg_inherit_counterexample`, Props/C11.lean)
  deriving DecidableEq, Repr

def Quirks.code : Quirks := ⟨true, true, false, true, false⟩   -- elifEval: off since /repo commit 8474bf0 (F11h fixed)
/-- the code before commit 8474bf0 (kept for the record of F11h) -/
def Quirks.before8474bf0 : Quirks := ⟨true, true, true, true, false⟩
def Quirks.std : Quirks := ⟨false, false, false, false, false⟩

def paint (q : Quirks) (l : List XTok) : List XTok := if q.pasteBlue then l.map fun t => { t with blue := true } else l

def lookup (ms : List Macro) (n : Tok) : Option Macro := ms.find? (·.name == n)

def tokS (s : String) : Tok := s.toList

/-- `Macro::parseDefine` on the tokens that follow `define` -/
def parseDefine : List LTok → Option Macro
  | [] => none
  | nm :: rest =>
    if !isName nm.s then none
    else match rest with
      | lp :: rest1 =>
        if lp.s == ['('] && !lp.ws then
          -- parameters: every token that is not `,` up to `)`;  `...` `)` ends a variadic list
          let rec params : List LTok → Bool → List Tok → Option (List Tok × Bool × List LTok)
            | [], _, _ => none
            | t :: r, prevName, acc =>
              if t.s == [')'] then some (acc.reverse, false, r)
              else if t.s == ['.', '.', '.'] then
                match r with
                | rp :: r' => if rp.s == [')'] then
                    some ((if prevName then acc else tokS "__VA_ARGS__" :: acc).reverse, true, r')
                  else params r false (t.s :: acc)
                | [] => none
              else if t.s == [','] then params r false acc
              else params r (isName t.s) (t.s :: acc)
          match params rest1 false [] with
          | some (ps, v, body) => some ⟨nm.s, some ps, v, body.map (·.s)⟩
          | none => none
        else some ⟨nm.s, none, false, rest.map (·.s)⟩
      | [] => some ⟨nm.s, none, false, []⟩

def define (ms : List Macro) (m : Macro) : List Macro :=
  m :: ms.filter (·.name != m.name)

def undefine (ms : List Macro) (n : Tok) : List Macro := ms.filter (·.name != n)

/-! ## invocation arguments -/

/-- the tokens after the `(` of an invocation: arguments (split at commas outside nested parentheses) and the tokens after
the matching `)`.  `none`: no matching `)`. -/
def parseArgsAux : Nat → List XTok → List (List XTok) → List XTok → Option (List (List XTok) × List XTok)
  | _, _, _, [] => none
  | d, cur, acc, t :: r =>
    if t.s == ['('] then parseArgsAux (d + 1) (t :: cur) acc r
    else if t.s == [')'] then
      if d = 0 then some ((cur.reverse :: acc).reverse, r) else parseArgsAux (d - 1) (t :: cur) acc r
    else if t.s == [','] && d = 0 then parseArgsAux 0 [] (cur.reverse :: acc) r
    else parseArgsAux d (t :: cur) acc r

def parseArgs (l : List XTok) : Option (List (List XTok) × List XTok) := parseArgsAux 0 [] [] l

def comma : XTok := ⟨[','], false⟩

def joinComma : List (List XTok) → List XTok
  | [] => []
  | [a] => a
  | a :: r => a ++ comma :: joinComma r

/-- the arguments of a variadic macro beyond the named ones form one argument, commas included -/
def mergeVariadic (n : Nat) (args : List (List XTok)) : List (List XTok) :=
  if args.length ≤ n then args
  else args.take (n - 1) ++ [joinComma (args.drop (n - 1))]

/-- arguments bound to the parameters, `none` = wrong number -/
def bindArgs (m : Macro) (ps : List Tok) (args : List (List XTok)) : Option (List (List XTok)) :=
  let n := ps.length
  if n = 0 then (if args.length = 1 then some [] else none)     -- simplecpp accepts (and drops) one argument here
  else if m.variadic then
    if args.length + 1 < n then none
    else
      let a := mergeVariadic n args
      some (if a.length < n then a ++ [[]] else a)
  else if args.length = n then some args else none

def indexOf (ps : List Tok) (t : Tok) : Option Nat :=
  match ps with
  | [] => none
  | p :: r => if p == t then some 0 else (indexOf r t).map (· + 1)

def argOf (ps : List Tok) (args : List (List XTok)) (t : Tok) : Option (List XTok) :=
  if isName t then (indexOf ps t).map fun i => args.getD i [] else none

def isCombinedOp (t : Tok) : Bool :=
  t.length ≥ 2 && !isName t && !isNumber t && t.head? != some '"'

def spell (q : Quirks) : List XTok → List Char
  | [] => []
  | [t] => t.s
  | t :: r => t.s ++ (if q.stringSpace && (isCombinedOp t.s || t.s.head? == some '"') then [] else [' ']) ++ spell q r

/-- `#`: the spelling of the argument, tokens separated by one space (the generated sources separate tokens by one space),
with `"` and `\` escaped as `escapeString` does -/
def stringize (q : Quirks) (a : List XTok) : XTok :=
  let esc := (spell q a).flatMap fun c => if c == '"' || c == '\\' then ['\\', c] else [c]
  ⟨'"' :: esc ++ ['"'], false⟩

/-- `##` is modelled for identifier / pp-number operands only (the result is an identifier or a pp-number) -/
def pasteOk (l r : Tok) : Bool := (isName l || isNumber l) && (isName r || isNumber r) && !(isNumber l && l.head? == some '-')

def nextIsPaste : List Tok → Bool
  | h1 :: h2 :: _ => h1 == ['#'] && h2 == ['#']
  | _ => false

/-- replacement list with the arguments substituted (6.10.3.1–6.10.3.3): `raw` arguments for the operands of `#` / `##`,
`exp` the completely macro replaced ones elsewhere; `fn` = function-like (`#` is an operator).  `out` is reversed.
`none`: `#` without a parameter, `##` at an end of the list, or an empty argument as the left operand of `##` (placemarker
cases, outside the fragment). -/
def subst (q : Quirks) (fn : Bool) (ps : List Tok) (raw exp : List (List XTok)) : List Tok → List XTok → Option (List XTok)
  | [], out => some out.reverse
  | [t], out =>
    if t == ['#'] then (if fn then none else some (⟨t, false⟩ :: out).reverse)
    else match argOf ps exp t with
      | some e => some (e.reverse ++ out).reverse
      | none => some (⟨t, false⟩ :: out).reverse
  | t :: h :: rest', out =>
    if t == ['#'] then
      if h == ['#'] then
        -- `##`: paste the last output token with the first token of the right operand
        match rest' with
        | r :: rest'' =>
          let rhs := match argOf ps raw r with
            | some a => a
            | none => [⟨r, false⟩]
          match out, rhs with
          | l :: out', x :: xs =>
            if pasteOk l.s x.s then subst q fn ps raw exp rest'' ((paint q xs).reverse ++ ⟨l.s ++ x.s, false⟩ :: out') else none
          | _ :: _, [] => none          -- placemarker operand: outside the fragment
          | [], _ => none
        | [] => none
      else if fn then
        match argOf ps raw h with
        | some a => subst q fn ps raw exp rest' (stringize q a :: out)
        | none => none
      else subst q fn ps raw exp (h :: rest') (⟨t, false⟩ :: out)
    else
      match argOf ps raw t, argOf ps exp t with
      | some r, some e =>
        -- operand of a following `##`: not macro replaced
        if nextIsPaste (h :: rest') then
          (match r.reverse with
           | [] => none
           | last :: init => subst q fn ps raw exp (h :: rest') (last :: (paint q init.reverse).reverse ++ out))
        else if q.vaComma && t == tokS "__VA_ARGS__" && e.isEmpty && h == [')'] && (match out with | c :: _ => c.s == [','] | [] => false)
          then subst q fn ps raw exp (h :: rest') out.tail
        else subst q fn ps raw exp (h :: rest') (e.reverse ++ out)
      | _, _ => subst q fn ps raw exp (h :: rest') (⟨t, false⟩ :: out)

/-- does parameter number `i` occur in the replacement list outside the operand positions of `#` and `##`? -/
def plainUseAux (p : Tok) : Bool → List Tok → Bool
  | _, [] => false
  | prevOp, t :: rest =>
    if t == ['#'] then plainUseAux p true rest
    else if t == p && !prevOp && !nextIsPaste rest then true
    else plainUseAux p false rest

def plainUse (ps : List Tok) (body : List Tok) (i : Nat) : Bool :=
  match ps[i]? with
  | some p => plainUseAux p false body
  | none => false

/-- number of macros of the table whose replacement is not being rescanned -/
def free (ms : List Macro) (dis : List Tok) : Nat := ((ms.map (·.name)).filter fun x => !dis.contains x).length

def isFnName (ms : List Macro) (t : XTok) : Bool :=
  isName t.s && !t.blue && (match lookup ms t.s with | some m => m.params.isSome | none => false)

theorem parseArgsAux_len : ∀ (l : List XTok) (d : Nat) (cur : List XTok) (acc args : List (List XTok)) (rest : List XTok),
    parseArgsAux d cur acc l = some (args, rest) →
      (∀ a ∈ args, a.length ≤ cur.length + l.length ∨ a ∈ acc) ∧ rest.length < l.length := by
  intro l
  induction l with
  | nil => intro d cur acc args rest h; simp [parseArgsAux] at h
  | cons t r ih =>
    intro d cur acc args rest h
    unfold parseArgsAux at h
    split at h
    · have := ih _ _ _ _ _ h
      refine ⟨fun a ha => ?_, by have := this.2; simp; omega⟩
      rcases this.1 a ha with h1 | h1
      · left; simp at h1 ⊢; omega
      · right; exact h1
    · split at h
      · split at h
        · simp at h
          obtain ⟨h1, h2⟩ := h
          subst h1 h2
          refine ⟨fun a ha => ?_, by simp⟩
          simp at ha
          rcases ha with ha | ha
          · right; exact ha
          · left; subst ha; simp
        · have := ih _ _ _ _ _ h
          refine ⟨fun a ha => ?_, by have := this.2; simp; omega⟩
          rcases this.1 a ha with h1 | h1
          · left; simp at h1 ⊢; omega
          · right; exact h1
      · split at h
        · have := ih _ _ _ _ _ h
          refine ⟨fun a ha => ?_, by have := this.2; simp; omega⟩
          rcases this.1 a ha with h1 | h1
          · left; simp at h1 ⊢; omega
          · simp at h1
            rcases h1 with h1 | h1
            · left; subst h1; simp
            · right; exact h1
        · have := ih _ _ _ _ _ h
          refine ⟨fun a ha => ?_, by have := this.2; simp; omega⟩
          rcases this.1 a ha with h1 | h1
          · left; simp at h1 ⊢; omega
          · right; exact h1

theorem parseArgs_len {l : List XTok} {args : List (List XTok)} {rest : List XTok} (h : parseArgs l = some (args, rest)) :
    (∀ a ∈ args, a.length ≤ l.length) ∧ rest.length < l.length := by
  have := parseArgsAux_len l 0 [] [] args rest h
  refine ⟨fun a ha => ?_, this.2⟩
  rcases this.1 a ha with h1 | h1
  · simpa using h1
  · simp at h1

theorem filter_dis_le (l : List Tok) (dis : List Tok) (n : Tok) :
    (l.filter fun x => !(n :: dis).contains x).length ≤ (l.filter fun x => !dis.contains x).length := by
  induction l with
  | nil => simp
  | cons a r ih =>
    simp only [List.filter_cons]
    by_cases h1 : (n :: dis).contains a <;> by_cases h2 : dis.contains a <;> simp_all <;> omega

theorem filter_dis_lt (l : List Tok) (dis : List Tok) (n : Tok) (hn : n ∈ l) (hd : dis.contains n = false) :
    (l.filter fun x => !(n :: dis).contains x).length < (l.filter fun x => !dis.contains x).length := by
  induction l with
  | nil => simp at hn
  | cons a r ih =>
    simp only [List.filter_cons]
    by_cases ha : a = n
    · subst ha
      have := filter_dis_le r dis a
      simp_all
      omega
    · have hn' : n ∈ r := by simpa [Ne.symm ha] using hn
      have := ih hn'
      by_cases h2 : dis.contains a <;> simp_all <;> omega

theorem free_lt {ms : List Macro} {dis : List Tok} {n : Tok} {m : Macro} (hl : lookup ms n = some m) (hd : dis.contains n = false) :
    free ms (n :: dis) < free ms dis := by
  unfold lookup at hl
  have hm : m ∈ ms := List.mem_of_find?_eq_some hl
  have hn : m.name = n := by have := List.find?_some hl; simpa using this
  unfold free
  apply filter_dis_lt _ _ _ _ hd
  simp
  exact ⟨m, hm, hn⟩

/-- macro replacement of a token list (see the header) -/
def expand (q : Quirks) (ms : List Macro) (dis : List Tok) (ts : List XTok) : Except XErr (List XTok) :=
  match ts with
  | [] => .ok []
  | t :: rest =>
    if !isName t.s || t.blue then (expand q ms dis rest).map (t :: ·)
    else match hl : lookup ms t.s with
      | none => (expand q ms dis rest).map (t :: ·)
      | some m =>
        if hd : dis.contains t.s then (expand q ms dis rest).map ({ t with blue := true } :: ·)
        else match m.params with
          | none =>
            match (subst q false [] [] [] m.body []).map (expand q ms (t.s :: dis)) with
            | none => .error .hashhash
            | some (.error e) => .error e
            | some (.ok r) =>
              if (match r.getLast?, rest with | some l, n :: _ => isFnName ms l && n.s == ['('] | _, _ => false) then .error .joining
              else (expand q ms dis rest).map (r ++ ·)
          | some ps =>
            match rest with
            | [] => .ok [t]
            | lp :: rest1 =>
              if lp.s != ['('] then (expand q ms dis (lp :: rest1)).map (t :: ·)
              else match hp : parseArgs rest1 with
                | none => .error .unterminated
                | some (args, rest2) =>
                  match bindArgs m ps args with
                  | none => .error .wrongArgs
                  | some raw =>
                    -- 6.10.3.1: an argument is completely macro replaced "as if it formed the rest of the preprocessing file":
                    -- in the context `dis` of the CALLER — the invocation being replaced adds nothing to it, in particular not its
                    -- own name `t.s` (that name is disabled only for the rescan of the replacement list, below).  Only if its
                    -- parameter occurs outside `#` / `##`.
                    match args.zipIdx.attach.mapM (fun ⟨(a, i), _⟩ =>
                        if plainUse ps m.body (min i (ps.length - 1)) then
                          (if q.argInherit then expand q ms (t.s :: dis) a else expand q ms dis a)
                        else .ok a) with
                    | .error e => .error e
                    | .ok expd =>
                      -- `expd` are the replaced forms of `args`; bind them like the raw ones
                      match bindArgs m ps expd with
                      | none => .error .wrongArgs
                      | some exp =>
                        match subst q true ps raw exp m.body [] with
                        | none => .error .hashhash
                        | some body =>
                          match expand q ms (t.s :: dis) body with
                          | .error e => .error e
                          | .ok r =>
                            if (match r.getLast?, rest2 with | some l, n :: _ => isFnName ms l && n.s == ['('] | _, _ => false)
                            then .error .joining
                            else (expand q ms dis rest2).map (r ++ ·)
termination_by (free ms dis, ts.length)
decreasing_by
  all_goals simp_wf
  all_goals first
    | (apply Prod.Lex.right; simp; done)
    | (apply Prod.Lex.left; exact free_lt hl (by simpa using hd))
    | (apply Prod.Lex.right; have := (parseArgs_len hp).2; simp; omega)
    | (apply Prod.Lex.right
       have hm : (a, i) ∈ args.zipIdx := by assumption
       have := (parseArgs_len hp).1 a (List.fst_mem_of_mem_zipIdx hm)
       simp; omega)

/-! ## conditional inclusion: the `ifstates` stack of simplecpp::preprocess -/

inductive IfState | tru | elseIsTrue | alwaysFalse
  deriving DecidableEq, Repr

/-- the stack, innermost first, WITHOUT the bottom `True` entry of the C++ (`top` of the empty stack is `tru`) -/
abbrev IfStack := List IfState

def top (st : IfStack) : IfState := st.headD .tru

/-- does the condition of `#if/#ifdef/#ifndef` (`elif = false`) or `#elif` (`elif = true`) get evaluated? -/
def condEvaluated (q : Quirks) (st : IfStack) (elif : Bool) : Bool :=
  !(top st == .alwaysFalse || (top st == .elseIsTrue && !elif) || (!q.elifEval && elif && top st == .tru))

def ifOpen (st : IfStack) (c : Bool) : IfStack :=
  (if top st != .tru then .alwaysFalse else if c then .tru else .elseIsTrue) :: st

def ifElif (st : IfStack) (c : Bool) : IfStack :=
  match st with
  | [] => []
  | s :: r => (if s == .tru then .alwaysFalse else if s == .elseIsTrue && c then .tru else s) :: r

def ifElse (st : IfStack) : IfStack :=
  match st with
  | [] => []
  | s :: r => (if s == .elseIsTrue then .tru else .alwaysFalse) :: r

/-- lines whose conditions are already evaluated: the part of the directive loop that decides inclusion -/
inductive CLine | text (n : Nat) | ifc (c : Bool) | elifc (c : Bool) | els | endif
  deriving DecidableEq, Repr

/-- the `ifstates` machine on such lines: the included text lines; `none` = `#elif/#else/#endif without #if` -/
def runC : IfStack → List CLine → Option (List Nat)
  | _, [] => some []
  | st, .text n :: r => (runC st r).map fun l => if top st == .tru then n :: l else l
  | st, .ifc c :: r => runC (ifOpen st c) r
  | st, .elifc c :: r => if st.isEmpty then none else runC (ifElif st c) r
  | st, .els :: r => if st.isEmpty then none else runC (ifElse st) r
  | st, .endif :: r => if st.isEmpty then none else runC st.tail r

/- the group structure of 6.10.1: an if-section is an if-group, elif-groups, an optional else-group -/
mutual
inductive Item
  | text (n : Nat)
  | sect (c : Bool) (body : Items) (tail : Tail)
inductive Items
  | nil
  | cons (i : Item) (r : Items)
inductive Tail
  | endif
  | els (body : Items)
  | elif (c : Bool) (body : Items) (tail : Tail)
end

mutual
def Item.flat : Item → List CLine
  | .text n => [.text n]
  | .sect c body tail => .ifc c :: (body.flat ++ tail.flat)
def Items.flat : Items → List CLine
  | .nil => []
  | .cons i r => i.flat ++ r.flat
def Tail.flat : Tail → List CLine
  | .endif => [.endif]
  | .els body => .els :: (body.flat ++ [.endif])
  | .elif c body tail => .elifc c :: (body.flat ++ tail.flat)
end

/- 6.10.1p6: the conditions of an if-section are checked in order, the first group whose condition is true is processed,
the else-group if none is; groups of a skipped section are skipped.  `act` = the enclosing group is processed,
`taken` = an earlier group of this section was processed. -/
mutual
def Item.incl (act : Bool) : Item → List Nat
  | .text n => if act then [n] else []
  | .sect c body tail => body.incl (act && c) ++ tail.incl act c
def Items.incl (act : Bool) : Items → List Nat
  | .nil => []
  | .cons i r => i.incl act ++ r.incl act
def Tail.incl (act taken : Bool) : Tail → List Nat
  | .endif => []
  | .els body => body.incl (act && !taken)
  | .elif c body tail => body.incl (act && !taken && c) ++ tail.incl act (taken || c)
end

/-! ## createDUI / the `dui.defines` loop -/

def splitOnChar (c : Char) (s : List Char) : List (List Char) := s.splitOn c

/-- `splitcfg(cfg, defines, defaultValue)`: pieces between `;`, `=<default>` appended to a piece without `=` -/
def splitcfg (cfg : List Char) (dflt : List Char) : List (List Char) :=
  if cfg.isEmpty then []
  else
    let ps := splitOnChar ';' cfg
    -- a trailing `;` does not start another piece (the loop ends when defineStartPos reaches the size)
    let ps := if cfg.getLast? == some ';' then ps.dropLast else ps
    ps.map fun d => if !dflt.isEmpty && !d.contains '=' then d ++ '=' :: dflt else d

/-- `createDUI`: `dui.defines` from -D (`Settings::userDefines`) and the configuration (library and limits defines left out) -/
def duiDefines (userDefines cfg : List Char) : List (List Char) :=
  splitcfg userDefines ['1'] ++ (if cfg.isEmpty then [] else splitcfg cfg [])

def takeUntil (p : Char → Bool) : List Char → List Char
  | [] => []
  | c :: r => if p c then [] else c :: takeUntil p r

/-- name of a `dui.defines` entry: up to the first `=` or `(` -/
def defName (d : List Char) : List Char := takeUntil (fun c => c == '=' || c == '(') d

def afterEq : List Char → Option (List Char)
  | [] => none
  | c :: r => if c == '=' then some r else afterEq r

/-- the `dui.defines` loop of simplecpp::preprocess: `name[(params)][=value]` becomes the macro `#define lhs rhs`,
value `1` when there is no `=`; entries whose name is in `dui.undefined` are skipped -/
def parseEntry (d : List Char) : Option Macro :=
  parseDefine (lexLine (takeUntil (· == '=') d ++ ' ' :: (afterEq d).getD ['1']))

def initStep (undefs : List Tok) (ms : List Macro) (d : List Char) : Except XErr (List Macro) :=
  if undefs.contains (defName d) then .ok ms
  else
    match parseEntry d with
    | some m => .ok (if (lookup ms m.name).isSome then ms else ms ++ [m])    -- unordered_map::insert keeps the first entry
    | none => .error .badDefine

def initFrom (undefs : List Tok) : List Macro → List (List Char) → Except XErr (List Macro)
  | ms, [] => .ok ms
  | ms, d :: r => match initStep undefs ms d with
    | .ok ms' => initFrom undefs ms' r
    | .error e => .error e

def initMacros (defines : List (List Char)) (undefs : List Tok) : Except XErr (List Macro) := initFrom undefs [] defines

/-- the entries of `dui.defines` name their macro by the text before `=` / `(` (true of every `-D` of the form
`name[(params)][=value]`; an entry such as `A B=1` defines `A` but is looked up as `A B` in `dui.undefined`) -/
def entriesOK (defines : List (List Char)) : Bool :=
  defines.all fun d => match parseEntry d with
    | some m => m.name == defName d
    | none => true

/-! ## the directive loop -/

structure PState where
  macros : List Macro
  ifs : IfStack
  out : List Tok          -- reversed
  deriving Repr

/-- the expression of `#if` / `#elif`: `defined X`, `defined ( X )` replaced, every other name macro replaced -/
def condTokens (ms : List Macro) : List Tok → Except XErr (List Tok)
  | [] => .ok []
  | t :: rest =>
    if t == tokS "defined" then
      match rest with
      | lp :: x :: rp :: rest' =>
        if opOf lp == '(' then
          if opOf rp == ')' then (condTokens ms rest').map ((if (lookup ms x).isSome then ['1'] else ['0']) :: ·) else .error .condSyntax
        else (condTokens ms (x :: rp :: rest')).map ((if (lookup ms lp).isSome then ['1'] else ['0']) :: ·)
      | [lp, x] => if opOf lp == '(' then .error .condSyntax
                   else (condTokens ms [x]).map ((if (lookup ms lp).isSome then ['1'] else ['0']) :: ·)
      | [x] => if opOf x == '(' then .error .condSyntax else .ok [if (lookup ms x).isSome then ['1'] else ['0']]
      | [] => .error .condSyntax
    else (condTokens ms rest).map (t :: ·)
termination_by l => l.length

/-- split a protected expression at the `1`/`0` results of `defined` is not needed: `defined` operands are replaced first,
then the whole line is macro replaced (the inserted `0`/`1` are numbers) -/
def evalCond (q : Quirks) (ms : List Macro) (l : List Tok) : Except XErr Bool := do
  let l ← condTokens ms l
  let x ← expand q ms [] (l.map fun s => ⟨s, false⟩)
  match PPCond.evaluate (x.map (·.s)) with
  | .ok v => .ok (v != 0)
  | .error e => .error (.cond e)

def isDirective (l : List LTok) : Option (Tok × List LTok) :=
  match l with
  | h :: d :: rest => if h.s == ['#'] && isName d.s then some (d.s, rest) else none
  | _ => none

/-- the value of the condition of `#if/#ifdef/#ifndef/#elif` (`false` when it is not evaluated) -/
def condOf (q : Quirks) (st : PState) (dn : Tok) (rest : List LTok) : Except XErr Bool :=
  if !condEvaluated q st.ifs (dn == tokS "elif") then .ok false
  else if dn == tokS "ifdef" then .ok (lookup st.macros ((rest.head?.map (·.s)).getD [])).isSome
  else if dn == tokS "ifndef" then .ok (lookup st.macros ((rest.head?.map (·.s)).getD [])).isNone
  else evalCond q st.macros (rest.map (·.s))

/-- a directive line `# dn rest` -/
def stepDirective (q : Quirks) (undefs : List Tok) (st : PState) (dn : Tok) (rest : List LTok) : Except XErr PState :=
  if st.ifs.isEmpty && (dn == tokS "elif" || dn == tokS "else" || dn == tokS "endif") then .error .noIf
  else if top st.ifs == .tru && dn == tokS "error" then .error .errorDirective
  else if dn == tokS "define" then
    if top st.ifs != .tru then .ok st
    else match parseDefine rest with
      | none => .error .badDefine
      | some m => if undefs.contains m.name then .ok st else .ok { st with macros := define st.macros m }
  else if dn == tokS "include" then (if top st.ifs == .tru then .error .unsupported else .ok st)
  else if dn == tokS "if" || dn == tokS "ifdef" || dn == tokS "ifndef" || dn == tokS "elif" then
    if rest.isEmpty then .error .syntax
    else match condOf q st dn rest with
      | .error e => .error e
      | .ok c => .ok { st with ifs := if dn == tokS "elif" then ifElif st.ifs c else ifOpen st.ifs c }
  else if dn == tokS "else" then .ok { st with ifs := ifElse st.ifs }
  else if dn == tokS "endif" then .ok { st with ifs := st.ifs.tail }
  else if dn == tokS "undef" then
    match rest with
    | x :: _ => if top st.ifs == .tru then .ok { st with macros := undefine st.macros x.s } else .ok st
    | [] => .ok st
  else .ok st

def stepLine (q : Quirks) (undefs : List Tok) (st : PState) (line : List LTok) : Except XErr PState :=
  match line with
  | [] => .ok st
  | h :: more =>
    if h.s == ['#'] then
      match more with
      | [] => .ok st
      | d :: rest => if !isName d.s then .ok st else stepDirective q undefs st d.s rest
    else if top st.ifs != .tru then .ok st
    else
      match expand q st.macros [] (line.map fun t => ⟨t.s, false⟩) with
      | .error e => .error e
      | .ok r => .ok { st with out := (r.map (·.s)).reverse ++ st.out }

def runLines (q : Quirks) (undefs : List Tok) (st : PState) : List (List LTok) → Except XErr PState
  | [] => .ok st
  | l :: r => match stepLine q undefs st l with
    | .error e => .error e
    | .ok st' => runLines q undefs st' r

/-! ## the inclusion skeleton of a run (link between `runLines` and the abstract machine `runC`) -/

def isCondOpen (dn : Tok) : Bool := dn == tokS "if" || dn == tokS "ifdef" || dn == tokS "ifndef"

/-- what a line is for conditional inclusion, in the state in which the directive loop meets it: a text line (numbered by its
position), `#if/#ifdef/#ifndef` resp. `#elif` with the value `condOf` gives its condition, `#else`, `#endif`; `none` for every other
directive and for empty lines -/
def skelLine (q : Quirks) (st : PState) (idx : Nat) (line : List LTok) : Except XErr (Option CLine) :=
  match line with
  | [] => .ok none
  | h :: more =>
    if h.s == ['#'] then
      match more with
      | [] => .ok none
      | d :: rest =>
        if !isName d.s then .ok none
        else if isCondOpen d.s then (condOf q st d.s rest).map fun c => some (.ifc c)
        else if d.s == tokS "elif" then (condOf q st d.s rest).map fun c => some (.elifc c)
        else if d.s == tokS "else" then .ok (some .els)
        else if d.s == tokS "endif" then .ok (some .endif)
        else .ok none
    else .ok (some (.text idx))

/-- the skeleton of a list of lines, the state threaded by the directive loop itself -/
def skelLines (q : Quirks) (undefs : List Tok) : PState → Nat → List (List LTok) → Except XErr (List CLine)
  | _, _, [] => .ok []
  | st, i, l :: r =>
    match skelLine q st i l, stepLine q undefs st l with
    | .ok c, .ok st' => (skelLines q undefs st' (i + 1) r).map fun sk => (match c with | some c => [c] | none => []) ++ sk
    | .error e, _ => .error e
    | _, .error e => .error e

/-- positions of the text lines the directive loop keeps (its `ifstates.top() == True` test) -/
def keptLines (q : Quirks) (undefs : List Tok) : PState → Nat → List (List LTok) → Except XErr (List Nat)
  | _, _, [] => .ok []
  | st, i, l :: r =>
    match stepLine q undefs st l with
    | .error e => .error e
    | .ok st' =>
      (keptLines q undefs st' (i + 1) r).map fun k =>
        (match l with
         | h :: _ => if h.s != ['#'] && top st.ifs == .tru then [i] else []
         | [] => []) ++ k

/-- simplecpp::preprocess on a source text -/
def runFile (q : Quirks) (defines : List (List Char)) (undefs : List Tok) (src : List Char) : Except XErr (List Tok) := do
  let ms ← initMacros defines undefs
  let st ← runLines q undefs ⟨ms, [], []⟩ ((splitLines src).map lexLine)
  .ok st.out.reverse

/-- several passes over one source, one per configuration (cppcheck calls simplecpp::preprocess once per configuration on the same
raw token list): in the model every pass starts from the source and its own `dui` — `preprocess` has no memory across passes.
(simplecpp does keep something in the raw tokens: `Token::nextcond`, a skip chain written by one pass and used as a shortcut by later
ones; the chain must never change a result.  The correspondence `preprocess-repeated-passes` holds the real code to that.) -/
def runPasses (q : Quirks) (src : List Char) (duis : List (List (List Char) × List Tok)) : List (Except XErr (List Tok)) :=
  duis.map fun d => runFile q d.1 d.2 src

end Cppcheck.PPMacro

/-
C28 — vocabulary and executable checkers for the table the translator (vlib/props/c28.py) extracts from
/repo on every run (lean/Cppcheck/Gen/ErrorIds.lean).

Conventions of the generated table
* a finding id is the natural number `enc id` (big-endian base-256 of its ASCII bytes): the table is
  self-describing, and comparisons are comparisons of natural-number literals (the kernel is fast on those and
  slow on `String`);
* a function (a node of the extracted call graph) is its index in the generated name table `fnNames`;
* sets of functions are bit sets (`Nat.testBit`).
-/
namespace Cppcheck.ErrorIds

/-- big-endian base-256 code of an id -/
def enc (s : String) : Nat := s.toList.foldl (fun n c => n * 256 + c.toNat) 0

/-- inverse of `enc` for display (ids are non-empty ASCII without NUL) -/
def dec (n : Nat) : String :=
  let rec go (fuel n : Nat) (acc : List Char) : List Char :=
    match fuel with
    | 0 => acc
    | fuel + 1 => if n = 0 then acc else go fuel (n / 256) (Char.ofNat (n % 256) :: acc)
  String.ofList (go (n + 1) n [])

/-- severity written at the emitting site (`unknown`: not a compile-time constant there) -/
inductive Sev where
  | none | error | warning | style | performance | portability | information | debug | internal | unknown
  deriving DecidableEq, Repr, Inhabited

/-- which part of the source tree the emitting function lives in -/
inductive Origin where
  | lib | cli
  deriving DecidableEq, Repr, Inhabited

/-- one (function, id) pair of the emitter table: `fn` is the function in which the id became a literal
    (the `*Error` function for `reportError(tok, sev, "id", …)`, the caller for wrappers that take the id as parameter) -/
structure Emitter where
  fn : Nat
  id : Nat
  sev : Sev
  origin : Origin
  line : Nat
  deriving DecidableEq, Repr, Inhabited

/-- id expressions that are dynamic by design -/
inductive RuleKind where
  | libraryFunction   -- `<function>Called`, function names come from <warn> entries of the library configuration
  | addon             -- `<addon>-<errorId>` relayed from an addon's JSON output
  | clangTidy         -- `clang-tidy-<check>` relayed from clang-tidy's output
  | ruleFile          -- id of a user supplied --rule / --rule-file
  | replayXml         -- id read back from a cached analyzer-info XML file
  | replayPipe        -- id read back from the pipe of a worker process
  | internalErrorId   -- `InternalError::id`: one of the ids of the InternalError emitters (those are in the table)
  deriving DecidableEq, Repr, Inhabited

structure DynRule where
  fn : Nat
  kind : RuleKind
  line : Nat
  deriving DecidableEq, Repr, Inhabited

/-- membership in a (short) list, as a Bool the kernel evaluates quickly -/
def memb (x : Nat) : List Nat → Bool
  | [] => false
  | y :: ys => Nat.beq x y || memb x ys

/-- drop the elements smaller than `k` from the front -/
def dropLt (k : Nat) : List Nat → List Nat
  | [] => []
  | y :: ys => if Nat.blt y k then dropLt k ys else y :: ys

/-- linear walk over two ascending lists: every element of the first list that is not skipped has its key in `ys`.
    (Ascending order is what makes a `true` answer *reachable*; soundness of `true` does not depend on it.) -/
def coveredBy {α : Type} (key : α → Nat) (skip : α → Bool) : List α → List Nat → Bool
  | [], _ => true
  | x :: xs, ys =>
    if skip x then coveredBy key skip xs ys
    else
      match dropLt (key x) ys with
      | [] => false
      | y :: ys' => Nat.beq y (key x) && coveredBy key skip xs (y :: ys')

/-! ### reachability in the extracted call graph, on bit sets -/

/-- one pass over the edge list: add the callee of every edge whose caller is already in the set.
    (Written with a `match` on the test so that kernel evaluation forces the accumulator at every step.) -/
def stepBits : List (Nat × Nat) → Nat → Nat
  | [], s => s
  | e :: es, s =>
    match s.testBit e.1 with
    | true =>
      -- matching on the new set makes the kernel reduce it to a numeral before the recursive call
      match s ||| (1 <<< e.2) with
      | 0 => stepBits es 0
      | n + 1 => stepBits es (n + 1)
    | false => stepBits es s

def rootBits : List Nat → Nat
  | [] => 0
  | r :: rs => rootBits rs ||| (1 <<< r)

/-- `n` passes starting from the roots -/
def reachBits (edges : List (Nat × Nat)) (roots : List Nat) : Nat → Nat
  | 0 => rootBits roots
  | n + 1 => stepBits edges (reachBits edges roots n)

/-- the specification: there is a call path from a root -/
inductive Reach (edges : List (Nat × Nat)) (roots : List Nat) : Nat → Prop where
  | root {r : Nat} : r ∈ roots → Reach edges roots r
  | step {a b : Nat} : Reach edges roots a → (a, b) ∈ edges → Reach edges roots b

/-- ids (ascending, with repetitions) of the emitters whose function is in the bit set -/
def idsOfReached (reach : Nat) (es : List Emitter) : List Nat :=
  (es.filter fun e => reach.testBit e.fn).map (·.id)

end Cppcheck.ErrorIds

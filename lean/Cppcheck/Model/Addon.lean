import Cppcheck.Model.Wire
/-
C34 — model of the addon relay: `executeAddon` (line validation) and `CppCheck::executeAddons`
(result conversion, severity filter) of lib/cppcheck.cpp, for ONE addon invocation on one file, followed by
what the loggers do with the findings (suppressions, duplicate filters, exit status), and the
collection of `summary` objects over ALL addons of a file (ctu-info).

A JSON member is seen through the accessors the C++ uses: `get<std::string>()`, `get<int64_t>()`
(both throw std::runtime_error on any other type or a missing member), `get<picojson::array>()`,
`get<picojson::object>()`.
-/
namespace Cppcheck.Addon
open Cppcheck.Wire

/-- scalar view of a JSON value -/
inductive V
  | str (s : Str)
  | int (i : Int)
  | other                 -- null, bool, double, array, object
  deriving DecidableEq, Repr, Inhabited

abbrev Fields := List (Str × V)

def lookup (k : String) : Fields → Option V
  | [] => none
  | (k', v) :: r => if k' = k.toList then some v else lookup k r

def has (k : String) (f : Fields) : Bool := (lookup k f).isSome

/-- `obj[k].get<std::string>()` : `none` = throws -/
def getStr (k : String) (f : Fields) : Option Str :=
  match lookup k f with | some (.str s) => some s | _ => none

def getInt (k : String) (f : Fields) : Option Int :=
  match lookup k f with | some (.int i) => some i | _ => none

/-- the `loc` member -/
inductive LocsJ
  | absent
  | notArray
  | arr (items : List (Option Fields))      -- `none` = the element is not an object
  deriving DecidableEq, Repr, Inhabited

/-- a line of addon output that parsed to a JSON object -/
structure ObjLine where
  fields : Fields
  loc : LocsJ
  metric : Option Bool          -- none = no "metric"; some b = present, b = it is an object
  deriving DecidableEq, Repr, Inhabited

inductive Line
  | empty                       -- skipped
  | checking                    -- starts with "Checking ": skipped
  | notBrace                    -- first byte is not '{': InternalError, the whole output is discarded
  | badJson                     -- picojson::parse reports an error: skipped
  | obj (o : ObjLine)
  deriving DecidableEq, Repr, Inhabited

inductive Sev | none | error | warning | style | performance | portability | information | debug | internal
  deriving DecidableEq, Repr, Inhabited

def sevOfStr (s : Str) : Sev :=
  if s = "error".toList then .error
  else if s = "warning".toList then .warning
  else if s = "style".toList then .style
  else if s = "performance".toList then .performance
  else if s = "portability".toList then .portability
  else if s = "information".toList then .information
  else if s = "debug".toList then .debug
  else if s = "internal".toList then .internal
  else .none

structure Loc where
  file : Str
  line : Int
  col : Int
  info : Str
  deriving DecidableEq, Repr, Inhabited

structure Finding where
  id : Str
  sev : Sev
  msg : Str
  locs : List Loc
  cwe : Option Int
  hash : Option Int
  deriving DecidableEq, Repr, Inhabited

structure Opts where
  enabled : Sev → Bool          -- `mSettings.severity.isEnabled`
  exitcode : Nat                -- exit status of the addon process

def endsWith (s suf : Str) : Bool := suf.length ≤ s.length && s.drop (s.length - suf.length) = suf

/-- result of converting one object -/
inductive Conv
  | skip                        -- summary / metric / filtered severity
  | report (f : Finding)
  | throw                       -- std::runtime_error from a picojson accessor
  deriving DecidableEq, Repr, Inhabited

def convLocs (items : List (Option Fields)) : Option (List Loc) :=
  match items with
  | [] => some []
  | none :: _ => none
  | some f :: r =>
    match getStr "file" f, getInt "linenr" f, getInt "column" f, getStr "info" f, convLocs r with
    | some fl, some l, some c, some i, some ls => some (⟨fl, l, c, i⟩ :: ls)
    | _, _, _, _, _ => none

/-- severity decision: none/internal are dropped unless the id ends in `-logChecker`; other
    severities must be enabled -/
def decideSev (o : Opts) (id s : Str) : Option Sev :=
  if sevOfStr s = .none ∨ sevOfStr s = .internal then
    (if endsWith id "-logChecker".toList then some .internal else none)
  else if o.enabled (sevOfStr s) then some (sevOfStr s) else none

/-- `obj.count(k) > 0 ? obj[k].get<int64_t>() : <unset>`; outer `none` = the accessor throws -/
def optInt (k : String) (f : Fields) : Option (Option Int) :=
  if has k f then (getInt k f).map some else some none

/-- the call stack built from the `file`/`linenr`/`column` members or, without `file`, from the `loc`
    array (one entry per element, in order); `none` = an accessor throws -/
def locsOf (ob : ObjLine) : Option (List Loc) :=
  if has "file" ob.fields then
    match getStr "file" ob.fields, getInt "linenr" ob.fields, getInt "column" ob.fields with
    | some fl, some l, some c => some [⟨fl, l, c, []⟩]
    | _, _, _ => none
  else match ob.loc with
    | .absent => some []
    | .notArray => none
    | .arr items => convLocs items

/-- the loop body of `executeAddons` for one result object -/
def convert (o : Opts) (ob : ObjLine) : Conv :=
  let f := ob.fields
  if has "summary" f then .skip
  else
    match locsOf ob with
    | none => .throw
    | some locs =>
      match ob.metric with
      | some false => .throw
      | some true => .skip
      | none =>
        match getStr "addon" f, getStr "errorId" f, getStr "message" f, getStr "severity" f with
        | some a, some e, some m, some s =>
          let id := a ++ ['-'] ++ e
          match decideSev o id s with
          | none => .skip
          | some sv =>
            match optInt "cwe" f, optInt "hash" f with
            | some c, some h => .report ⟨id, sv, m, locs, c, h⟩
            | _, _ => .throw
        | _, _, _, _ => .throw

inductive Outcome
  | ok (fs : List Finding)
  | failed (fs : List Finding)      -- findings reported before the failure + one internalError finding
  deriving DecidableEq, Repr, Inhabited

/-- objects that survive `executeAddon`'s validation, or `none` when a non-'{' line aborts it -/
def validate : List Line → Option (List ObjLine)
  | [] => some []
  | .notBrace :: _ => none
  | .obj o :: r => (validate r).map (o :: ·)
  | _ :: r => validate r

def relayObjs (o : Opts) : List ObjLine → Outcome
  | [] => .ok []
  | ob :: r =>
    match convert o ob with
    | .throw => .failed []
    | .skip => relayObjs o r
    | .report f =>
      match relayObjs o r with
      | .ok fs => .ok (f :: fs)
      | .failed fs => .failed (f :: fs)

/-- one addon invocation: findings handed to the error logger, in order -/
def relay (o : Opts) (lines : List Line) : Outcome :=
  if o.exitcode ≠ 0 then .failed []
  else match validate lines with
    | none => .failed []
    | some objs => relayObjs o objs

def Outcome.findings : Outcome → List Finding
  | .ok fs => fs
  | .failed fs => fs

def Outcome.isFailed : Outcome → Bool
  | .ok _ => false
  | .failed _ => true

/-- the summary objects of one addon invocation, in output order (what `executeAddons` appends to
    `ctuInfo` / reports as internal `ctuinfo` messages): those in front of the first failing conversion -/
def summaryObjs (o : Opts) : List ObjLine → List ObjLine
  | [] => []
  | ob :: r =>
    if has "summary" ob.fields then ob :: summaryObjs o r
    else match convert o ob with
      | .throw => []
      | _ => summaryObjs o r

/-- some conversion throws `std::runtime_error` -/
def throws (o : Opts) (objs : List ObjLine) : Bool := objs.any fun ob => convert o ob = .throw

/-- the result objects `executeAddon` hands back for one addon (none when it fails) -/
def addonObjs (o : Opts) (lines : List Line) : List ObjLine :=
  if o.exitcode ≠ 0 then [] else (validate lines).getD []

def summaries (o : Opts) (lines : List Line) : List ObjLine := summaryObjs o (addonObjs o lines)

/-- the loop over the addons of `executeAddons` for one file: the summaries seen, and whether a conversion
    threw.  A throw leaves the function: the addons after it do not run.  (A failing addon - exit status,
    non-brace line - is caught inside the loop: it contributes nothing and the loop goes on.) -/
def ctuCollect (o : Opts) : List (List Line) → List ObjLine × Bool
  | [] => ([], false)
  | out :: r =>
    if throws o (addonObjs o out) then (summaries o out, true)
    else (summaries o out ++ (ctuCollect o r).1, (ctuCollect o r).2)

/-- the ctu-info handed to whole-program analysis for one file.  `outs` = the outputs of the addons that
    run in the per-file phase, in the order they run.  Without a build dir every summary is reported as it is
    seen (an internal `ctuinfo` message); with a build dir they are collected in a string that is written to
    the `.ctu-info` file at the END of `executeAddons` - a throw loses all of them. -/
def ctuInfo (builddir : Bool) (o : Opts) (outs : List (List Line)) : List ObjLine :=
  if (ctuCollect o outs).2 && builddir then [] else (ctuCollect o outs).1

/-! ### what the loggers do with the relayed findings -/

/-- what the duplicate filters of the loggers compare: the text rendered from the (default) templates
    `{file}:{line}:{column}: {severity}: {message} [{id}]\n{code}` (file/line/column of the LAST location) and,
    only for call stacks of two or more locations, `{file}:{line}:{column}: note: {info}\n{code}` per location with
    an empty info replaced by the message.  cwe and hash are not rendered. -/
def Finding.key (f : Finding) : Str × Sev × Str × List Loc :=
  (f.id, f.sev, f.msg,
    match f.locs with
    | [] => []
    | [l] => [{ l with info := [] }]
    | ls => ls.map fun l => if l.info = [] then { l with info := f.msg } else l)

/-- `mErrorList` / `mShownErrors`: only the first finding of each rendered text is shown -/
def dedupAux : List Finding → List (Str × Sev × Str × List Loc) → List Finding
  | [], _ => []
  | f :: r, seen => if f.key ∈ seen then dedupAux r seen else f :: dedupAux r (f.key :: seen)

def dedup (fs : List Finding) : List Finding := dedupAux fs []

/-- what `SuppressionList::ErrorMessage::fromErrorMessage` hands to the suppression matcher: the id, file and
    line of the LAST location (`none`: no location - the matcher then sees file0 and no line), the hash -/
structure SuppView where
  id : Str
  loc : Option (Str × Int)
  hash : Option Int
  deriving DecidableEq, Repr, Inhabited

def Finding.suppView (f : Finding) : SuppView :=
  ⟨f.id, f.locs.getLast?.map (fun l => (l.file, l.line)), f.hash⟩

/-- the findings of one addon invocation that are printed: `CppCheckLogger::reportErr` hands findings of
    severity internal (the `-logChecker` notes) straight to the executor, which consumes them; every other
    finding is dropped when a suppression matches it (`supp` = the matcher, the same as for any built-in
    finding) and then goes through the duplicate filters -/
def relayShown (o : Opts) (supp : SuppView → Bool) (lines : List Line) : List Finding :=
  dedup ((relay o lines).findings.filter fun f => f.sev ≠ .internal && !supp f.suppView)

/-- the `internalError` finding of a failed invocation is printed unless it is suppressed itself -/
def internalErrorShown (o : Opts) (supp : SuppView → Bool) (file0 : Str) (lines : List Line) : Bool :=
  (relay o lines).isFailed && !supp ⟨"internalError".toList, some (file0, 0), none⟩

/-- exit status of the process (`--error-exitcode=e`, no other finding in the run) -/
def exitStatus (e : Nat) (o : Opts) (supp : SuppView → Bool) (file0 : Str) (lines : List Line) : Nat :=
  if internalErrorShown o supp file0 lines || !(relayShown o supp lines).isEmpty then e else 0

/-- the glob-free fragment of the suppression matcher (`--suppress=<id>[:<file>[:<line>]]`, `*` = any id; the
    full matcher belongs to property C23), used by the tie as a concrete instance of `supp` -/
structure SimpleSupp where
  id : Option Str
  file : Option Str
  line : Option Int
  deriving DecidableEq, Repr, Inhabited

def SimpleSupp.matches (s : SimpleSupp) (file0 : Str) (v : SuppView) : Bool :=
  (match s.id with | none => true | some i => i = v.id) &&
  (match s.file with
   | none => true
   | some fl => fl = (match v.loc with | some (f, _) => f | none => file0)) &&
  (match s.line with
   | none => true
   | some l => match v.loc with | some (_, l') => l = l' | none => false)

def simpleSupp (ss : List SimpleSupp) (file0 : Str) (v : SuppView) : Bool := ss.any fun s => s.matches file0 v

/-- classes of addon output (for the evidence: which kind of malformed output a case is) -/
inductive OutClass | clean | skippedLines | exitNonZero | nonBrace | illTyped
  deriving DecidableEq, Repr, Inhabited

def Line.skipped : Line → Bool
  | .empty | .checking | .badJson => true
  | _ => false

def outClass (o : Opts) (lines : List Line) : OutClass :=
  if o.exitcode ≠ 0 then .exitNonZero
  else match validate lines with
    | none => .nonBrace
    | some objs => if throws o objs then .illTyped else if lines.any Line.skipped then .skippedLines else .clean

/-! ### raw text → lines (the JSON parser is a parameter) -/

/-- `std::getline` over the captured output -/
def splitLinesAux : Str → Str → List Str
  | [], [] => []
  | [], cur => [cur.reverse]
  | c :: r, cur => if c = '\n' then cur.reverse :: splitLinesAux r [] else splitLinesAux r (c :: cur)

def splitLines (s : Str) : List Str := splitLinesAux s []

inductive RawKind | empty | checking | notBrace | brace
  deriving DecidableEq, Repr, Inhabited

/-- the tests of `executeAddon`'s validation loop on one line, in their order -/
def rawKind (s : Str) : RawKind :=
  match s with
  | [] => .empty
  | c :: _ =>
    if "Checking ".toList.isPrefixOf s then .checking
    else if c ≠ '{' then .notBrace
    else .brace

/-- `parse` = `picojson::parse` + `is<object>` + the scalar view of the members (`none` = parse error or not
    an object) -/
def lineOf (parse : Str → Option ObjLine) (s : Str) : Line :=
  match rawKind s with
  | .empty => .empty
  | .checking => .checking
  | .notBrace => .notBrace
  | .brace => match parse s with | none => .badJson | some ob => .obj ob

def linesOf (parse : Str → Option ObjLine) (text : Str) : List Line := (splitLines text).map (lineOf parse)

end Cppcheck.Addon

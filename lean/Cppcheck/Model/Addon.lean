import Cppcheck.Model.Wire
/-
C34 — model of the addon relay: `executeAddon` (line validation) and `CppCheck::executeAddons`
(result conversion, severity filter) of lib/cppcheck.cpp, for ONE addon invocation on one file.

A JSON member is seen through the accessors the C++ uses: `get<std::string>()`, `get<int64_t>()`
(both throw std::runtime_error on any other type or a missing member), `get<picojson::array>()`,
`get<picojson::object>()`.
-/
namespace Cppcheck.Addon
open Cppcheck.Wire

/-- scalar view of a JSON value -/
inductive V
  | str (s : Str)
  | int (i : Int)
  | other                 -- null, bool, double, array, object
  deriving DecidableEq, Repr, Inhabited

abbrev Fields := List (Str × V)

def lookup (k : String) : Fields → Option V
  | [] => none
  | (k', v) :: r => if k' = k.toList then some v else lookup k r

def has (k : String) (f : Fields) : Bool := (lookup k f).isSome

/-- `obj[k].get<std::string>()` : `none` = throws -/
def getStr (k : String) (f : Fields) : Option Str :=
  match lookup k f with | some (.str s) => some s | _ => none

def getInt (k : String) (f : Fields) : Option Int :=
  match lookup k f with | some (.int i) => some i | _ => none

/-- the `loc` member -/
inductive LocsJ
  | absent
  | notArray
  | arr (items : List (Option Fields))      -- `none` = the element is not an object
  deriving DecidableEq, Repr, Inhabited

/-- a line of addon output that parsed to a JSON object -/
structure ObjLine where
  fields : Fields
  loc : LocsJ
  metric : Option Bool          -- none = no "metric"; some b = present, b = it is an object
  deriving DecidableEq, Repr, Inhabited

inductive Line
  | empty                       -- skipped
  | checking                    -- starts with "Checking ": skipped
  | notBrace                    -- first byte is not '{': InternalError, the whole output is discarded
  | badJson                     -- picojson::parse reports an error: skipped
  | obj (o : ObjLine)
  deriving DecidableEq, Repr, Inhabited

inductive Sev | none | error | warning | style | performance | portability | information | debug | internal
  deriving DecidableEq, Repr, Inhabited

def sevOfStr (s : Str) : Sev :=
  if s = "error".toList then .error
  else if s = "warning".toList then .warning
  else if s = "style".toList then .style
  else if s = "performance".toList then .performance
  else if s = "portability".toList then .portability
  else if s = "information".toList then .information
  else if s = "debug".toList then .debug
  else if s = "internal".toList then .internal
  else .none

structure Loc where
  file : Str
  line : Int
  col : Int
  info : Str
  deriving DecidableEq, Repr, Inhabited

structure Finding where
  id : Str
  sev : Sev
  msg : Str
  locs : List Loc
  cwe : Option Int
  hash : Option Int
  deriving DecidableEq, Repr, Inhabited

structure Opts where
  enabled : Sev → Bool          -- `mSettings.severity.isEnabled`
  exitcode : Nat                -- exit status of the addon process

def endsWith (s suf : Str) : Bool := suf.length ≤ s.length && s.drop (s.length - suf.length) = suf

/-- result of converting one object -/
inductive Conv
  | skip                        -- summary / metric / filtered severity
  | report (f : Finding)
  | throw                       -- std::runtime_error from a picojson accessor
  deriving DecidableEq, Repr, Inhabited

def convLocs (items : List (Option Fields)) : Option (List Loc) :=
  match items with
  | [] => some []
  | none :: _ => none
  | some f :: r =>
    match getStr "file" f, getInt "linenr" f, getInt "column" f, getStr "info" f, convLocs r with
    | some fl, some l, some c, some i, some ls => some (⟨fl, l, c, i⟩ :: ls)
    | _, _, _, _, _ => none

/-- severity decision: none/internal are dropped unless the id ends in `-logChecker`; other
    severities must be enabled -/
def decideSev (o : Opts) (id s : Str) : Option Sev :=
  if sevOfStr s = .none ∨ sevOfStr s = .internal then
    (if endsWith id "-logChecker".toList then some .internal else none)
  else if o.enabled (sevOfStr s) then some (sevOfStr s) else none

/-- the loop body of `executeAddons` for one result object -/
def convert (o : Opts) (ob : ObjLine) : Conv :=
  let f := ob.fields
  if has "summary" f then .skip
  else
    -- locations
    let locs : Option (List Loc) :=
      if has "file" f then
        match getStr "file" f, getInt "linenr" f, getInt "column" f with
        | some fl, some l, some c => some [⟨fl, l, c, []⟩]
        | _, _, _ => none
      else match ob.loc with
        | .absent => some []
        | .notArray => none
        | .arr items => convLocs items
    match locs with
    | none => .throw
    | some locs =>
      match ob.metric with
      | some false => .throw
      | some true => .skip
      | none =>
        match getStr "addon" f, getStr "errorId" f, getStr "message" f, getStr "severity" f with
        | some a, some e, some m, some s =>
          let id := a ++ ['-'] ++ e
          match decideSev o id s with
          | none => .skip
          | some sv =>
            let cwe : Option (Option Int) := if has "cwe" f then (getInt "cwe" f).map some else some none
            let hash : Option (Option Int) := if has "hash" f then (getInt "hash" f).map some else some none
            match cwe, hash with
            | some c, some h => .report ⟨id, sv, m, locs, c, h⟩
            | _, _ => .throw
        | _, _, _, _ => .throw

inductive Outcome
  | ok (fs : List Finding)
  | failed (fs : List Finding)      -- findings reported before the failure + one internalError finding
  deriving DecidableEq, Repr, Inhabited

/-- objects that survive `executeAddon`'s validation, or `none` when a non-'{' line aborts it -/
def validate : List Line → Option (List ObjLine)
  | [] => some []
  | .notBrace :: _ => none
  | .obj o :: r => (validate r).map (o :: ·)
  | _ :: r => validate r

def relayObjs (o : Opts) : List ObjLine → Outcome
  | [] => .ok []
  | ob :: r =>
    match convert o ob with
    | .throw => .failed []
    | .skip => relayObjs o r
    | .report f =>
      match relayObjs o r with
      | .ok fs => .ok (f :: fs)
      | .failed fs => .failed (f :: fs)

/-- one addon invocation: findings handed to the error logger, in order -/
def relay (o : Opts) (lines : List Line) : Outcome :=
  if o.exitcode ≠ 0 then .failed []
  else match validate lines with
    | none => .failed []
    | some objs => relayObjs o objs

def Outcome.findings : Outcome → List Finding
  | .ok fs => fs
  | .failed fs => fs

def Outcome.isFailed : Outcome → Bool
  | .ok _ => false
  | .failed _ => true

/-- the summary objects of one addon invocation, in output order (what `executeAddons` appends to
    `ctuInfo` / reports as internal `ctuinfo` messages): those in front of the first failing conversion -/
def summaryObjs (o : Opts) : List ObjLine → List ObjLine
  | [] => []
  | ob :: r =>
    if has "summary" ob.fields then ob :: summaryObjs o r
    else match convert o ob with
      | .throw => []
      | _ => summaryObjs o r

def summaries (o : Opts) (lines : List Line) : List ObjLine :=
  if o.exitcode ≠ 0 then []
  else match validate lines with
    | none => []
    | some objs => summaryObjs o objs

/-- the ctu-info handed to whole-program analysis for one file: the summaries of ALL addons, in
    addon order.  `outs` = the outputs of the addons that run in the per-file phase. -/
def ctuInfo (o : Opts) (outs : List (List Line)) : List ObjLine :=
  outs.flatMap (summaries o)

/-- what the duplicate filters of the loggers compare: the rendered text is determined by these -/
def Finding.key (f : Finding) : Str × Sev × Str × List Loc := (f.id, f.sev, f.msg, f.locs)

/-- `mErrorList` / `mShownErrors`: only the first finding of each rendered text is shown -/
def dedupAux : List Finding → List (Str × Sev × Str × List Loc) → List Finding
  | [], _ => []
  | f :: r, seen => if seen.contains f.key then dedupAux r seen else f :: dedupAux r (f.key :: seen)

def dedup (fs : List Finding) : List Finding := dedupAux fs []

end Cppcheck.Addon

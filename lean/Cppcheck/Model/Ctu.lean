import Cppcheck.Model.Wire
/-
C22 — model of the storage of whole-program summaries.

Copied from the code (all functions total, byte strings are `List Char` with codes < 256):

  text layer     `toxml`            ErrorLogger::toxml                       lib/errorlogger.cpp
                 `showInt`          operator<<(int / long long / unsigned) and std::to_string
                 `getStr`           tinyxml2 StrPair::GetStr for attribute values (entities, character
                                    references incl. GetCharacterRef / ConvertUTF32ToUTF8, newline
                                    normalisation, the "unknown entity: ++p; ++q" stale-byte step)
                 `scanInt64`        XMLUtil::ToInt64 = sscanf "%lld" / "%llx"
                 `strToInt*`        strToInt<int>, strToInt<std::size_t>     lib/utils.h
  xml layer      `lexOne/lexAll`    XMLDocument::Identify, XMLElement::ParseDeep (head), ParseAttributes,
                                    XMLAttribute::ParseDeep, StrPair::ParseName/ParseText, XMLText, XMLDeclaration
                 `build`            XMLNode::ParseDeep (nesting, end-tag matching, declaration placement, depth)
                 `parseDoc`         XMLDocument::Parse
  summaries      `FunctionCall.toXml`, `NestedCall.toXml`, `UnsafeUsage.toStr`, `FileInfo.toStr`,
                 `FunctionCall.load`, `NestedCall.load`, `FileInfo.loadFromXml`, `loadUnsafeUsageList`   lib/ctu.cpp
                 the four MyFileInfo classes (toString / loadFileInfoFromXml)    lib/check{bufferoverrun,nullpointer,uninitvar,class}.cpp
  cache file     `storeFile`, `loadFile`    AnalyzerInformation::analyzeFile/setFileInfo/close, processFilesTxt (per file)
  walk           `findPath`, `getErrorPath`, `getCallsMap`                    lib/ctu.cpp

`NestedCall.toXml` is the version AFTER the proposed fix (/verif/proposed/C22-nested-call.diff): the element is
`<nested-call`.  `NestedCall.toXmlOld` keeps the element name the code had before (`<function-call`); it is used
only by the theorems that document the old behaviour (every nested call was lost).
-/
namespace Cppcheck.Ctu
open Cppcheck.Wire

/-! ## 1. Text layer -/

def NUL : Char := Char.ofNat 0

/-- `ErrorLogger::toxml`, one byte -/
def toxmlChar (c : Char) : Str :=
  if c = '<' then "&lt;".toList
  else if c = '>' then "&gt;".toList
  else if c = '&' then "&amp;".toList
  else if c = '"' then "&quot;".toList
  else if c = '\'' then "&apos;".toList
  else if c = NUL then "\\0".toList
  else if c = '\n' then "&#10;".toList
  else if c = '\t' then "&#09;".toList
  else if c = '\r' then "&#13;".toList
  else if 32 ≤ c.toNat ∧ c.toNat ≤ 127 then [c]
  else ['x']

def toxml : Str → Str
  | [] => []
  | c :: r => toxmlChar c ++ toxml r

/-- what a byte becomes after `toxml` followed by the attribute reader (the lossy classes) -/
def lossyChar (c : Char) : Str :=
  if c = NUL then "\\0".toList
  else if c = '\n' ∨ c = '\t' ∨ c = '\r' then [c]
  else if 32 ≤ c.toNat ∧ c.toNat ≤ 127 then [c]
  else ['x']

def lossy : Str → Str
  | [] => []
  | c :: r => lossyChar c ++ lossy r

/-- bytes that survive `toxml`: TAB, LF, CR and 0x20..0x7f -/
def xmlSafeChar (c : Char) : Bool :=
  c = '\n' || c = '\t' || c = '\r' || (decide (32 ≤ c.toNat) && decide (c.toNat ≤ 127))

def XmlSafe (s : Str) : Bool := s.all xmlSafeChar

/-! ### decimal output -/

def digitChar (n : Nat) : Char := Char.ofNat (48 + n % 10)

/-- digits of `n`, most significant first; fuel `n+1` always suffices -/
def natDigitsAux : Nat → Nat → Str → Str
  | 0, _, acc => acc
  | f + 1, n, acc => if n < 10 then digitChar n :: acc else natDigitsAux f (n / 10) (digitChar n :: acc)

def showNat (n : Nat) : Str := natDigitsAux (n + 1) n []

def showInt (i : Int) : Str :=
  if i < 0 then '-' :: showNat i.natAbs else showNat i.natAbs

/-! ### two's complement conversions -/

def wrapU (bits : Nat) (x : Int) : Int := x % (2 ^ bits : Int)
def wrapS (bits : Nat) (x : Int) : Int := (x + 2 ^ (bits - 1)) % (2 ^ bits : Int) - 2 ^ (bits - 1)

def inS (bits : Nat) (x : Int) : Bool := decide (-(2 ^ (bits - 1) : Int) ≤ x) && decide (x < 2 ^ (bits - 1))
def inU (bits : Nat) (x : Int) : Bool := decide (0 ≤ x) && decide (x < 2 ^ bits)

/-! ### tinyxml2: attribute value processing (`StrPair::GetStr`, flags ATTRIBUTE_VALUE) -/

/-- `entities[]` of tinyxml2.cpp, in table order -/
def entityTable : List (Str × Char) :=
  [("quot".toList, '"'), ("amp".toList, '&'), ("apos".toList, '\''), ("lt".toList, '<'), ("gt".toList, '>')]

/-- `r` = text after the '&'.  Result: entity value and the number of characters of `r` it spans. -/
def matchEntity (r : Str) : Option (Char × Nat) :=
  entityTable.findSome? fun pv => if (pv.1 ++ [';']).isPrefixOf r then some (pv.2, pv.1.length + 1) else none

def u32 (n : Nat) : Nat := n % 4294967296

def refDigitVal (hex : Bool) (c : Char) : Option Nat :=
  if '0' ≤ c ∧ c ≤ '9' then some (c.toNat - 48)
  else if hex ∧ 'a' ≤ c ∧ c ≤ 'f' then some (c.toNat - 87)
  else if hex ∧ 'A' ≤ c ∧ c ≤ 'F' then some (c.toNat - 55)
  else none

/-- the backwards digit loop of `GetCharacterRef`: `rev` = the text in front of the ';' read backwards,
    stops at the terminator ('#' or 'x'); the text start is followed (backwards) by the terminator itself -/
def refDigits (hex : Bool) (term : Char) : Str → Nat → Nat → Option Nat
  | [], ucs, _ => some ucs
  | c :: r, ucs, mult =>
    if c = term then some ucs
    else match refDigitVal hex c with
      | none => none
      | some d =>
        let m := mult * (if hex then 16 else 10)
        refDigits hex term r (u32 (ucs + u32 (mult * d))) (if m > 0x10FFFF then 0x10FFFF else m)

/-- `XMLUtil::ConvertUTF32ToUTF8` for `input ≤ 0x10FFFF` -/
def utf8 (u : Nat) : Str :=
  let cont (x : Nat) : Char := Char.ofNat (128 + x % 64)
  if u < 0x80 then [Char.ofNat u]
  else if u < 0x800 then [Char.ofNat (0xC0 + u / 64), cont u]
  else if u < 0x10000 then [Char.ofNat (0xE0 + u / 4096), cont (u / 64), cont u]
  else [Char.ofNat (0xF0 + u / 262144), cont (u / 4096), cont (u / 64), cont u]

inductive CharRef
  | dropAmp                           -- "&#" at the very end of the value: the '&' disappears
  | fail                              -- not a reference: '&' is copied
  | ok (bytes : Str) (consume : Nat)  -- `consume` characters starting at the '&' are replaced by `bytes`

/-- `XMLUtil::GetCharacterRef`; `r2` = text after "&#" -/
def charRef (r2 : Str) : CharRef :=
  match r2 with
  | [] => .dropAmp
  | c :: r3 =>
    let hex := c = 'x'
    let body := if hex then r3 else r2           -- q = p+3 / p+2
    if body = [] then .fail
    else
      let digs := body.takeWhile (· ≠ ';')
      if digs.length = body.length then .fail      -- strchr found no ';'
      else
        match refDigits hex (if hex then 'x' else '#') digs.reverse 0 1 with
        | none => .fail
        | some ucs =>
          if ucs > 0x10FFFF then .fail
          else .ok (utf8 ucs) ((if hex then 3 else 2) + digs.length + 1)

/-- `StrPair::GetStr` main loop.  `orig` = the untouched value text (needed only for the stale byte that
    the "entity not found" branch leaves at the write position), first argument = characters still to skip. -/
def getStrGo (orig : Str) : Nat → Str → Str → Str
  | _, [], out => out.reverse
  | k + 1, _ :: r, out => getStrGo orig k r out
  | 0, c :: r, out =>
    if c = '\r' then
      getStrGo orig (if r.head? = some '\n' then 1 else 0) r ('\n' :: out)
    else if c = '\n' then
      getStrGo orig (if r.head? = some '\r' then 1 else 0) r ('\n' :: out)
    else if c = '&' then
      if r.head? = some '#' then
        match charRef r.tail with
        | .dropAmp => getStrGo orig 0 r out
        | .fail => getStrGo orig 0 r ('&' :: out)
        | .ok bytes n => getStrGo orig (n - 1) r (bytes.reverse ++ out)
      else
        match matchEntity r with
        | some (v, n) => getStrGo orig n r (v :: out)
        | none => getStrGo orig 0 r (orig.getD out.length NUL :: out)
    else getStrGo orig 0 r (c :: out)

def getStr (raw : Str) : Str := getStrGo raw 0 raw []

/-- the C-string view (`const char*`) of a buffer -/
def cstr (s : Str) : Str := s.takeWhile (· ≠ NUL)

/-- what `XMLAttribute::Value()` / `XMLElement::Attribute(name)` returns for the raw text between the quotes -/
def attrDecode (raw : Str) : Str := cstr (getStr raw)

/-! ### integers read back -/

def isSpace (c : Char) : Bool :=
  c = ' ' || c = '\t' || c = '\n' || c = Char.ofNat 11 || c = Char.ofNat 12 || c = '\r'

def digitsVal (ds : Str) : Nat := ds.foldl (fun a c => a * 10 + (c.toNat - 48)) 0

def hexVal1 (c : Char) : Nat :=
  if '0' ≤ c ∧ c ≤ '9' then c.toNat - 48 else if 'a' ≤ c ∧ c ≤ 'f' then c.toNat - 87 else c.toNat - 55

def isHexDigit (c : Char) : Bool := c.isDigit || ('a' ≤ c && c ≤ 'f') || ('A' ≤ c && c ≤ 'F')

/-- `XMLUtil::IsPrefixHex` (after the white space) -/
def prefixHex : Str → Bool
  | '0' :: x :: _ => x = 'x' || x = 'X'
  | _ => false

def splitSign : Str → Bool × Str
  | '-' :: r => (true, r)
  | '+' :: r => (false, r)
  | t => (false, t)

/-- strtoll saturation -/
def clamp64 (v : Int) : Int :=
  if v > 9223372036854775807 then 9223372036854775807
  else if v < -9223372036854775808 then -9223372036854775808 else v

/-- `XMLUtil::ToInt64`: sscanf("%lld") (or "%llx" behind a "0x"/"0X" prefix), result saturates like strtoll -/
def scanInt64 (s : Str) : Option Int :=
  let t := s.dropWhile isSpace
  if prefixHex t then
    -- glibc: "0x" without a hex digit behind it still converts (to 0)
    let ds := (t.drop 2).takeWhile isHexDigit
    let v := ds.foldl (fun a c => a * 16 + hexVal1 c) 0
    some (wrapS 64 (if v > 18446744073709551615 then 18446744073709551615 else v))
  else
    let p := splitSign t
    let ds := p.2.takeWhile Char.isDigit
    if ds = [] then none
    else some (clamp64 (if p.1 then -(digitsVal ds : Int) else digitsVal ds))

/-- `std::stoll`-based `strToInt<T>` for signed `T` with the given bounds; `none` = exception thrown -/
def strToIntS (lo hi : Int) (s : Str) : Option Int :=
  match s with
  | [] => none
  | c :: r =>
    let body := if c = '+' ∨ c = '-' then r else s
    if body = [] ∨ !(body.all Char.isDigit) then none
    else if c = '0' ∧ r ≠ [] then none
    else
      let v : Int := if c = '-' then -(digitsVal body : Int) else digitsVal body
      if v < -9223372036854775808 ∨ v > 9223372036854775807 then none
      else if v < lo ∨ v > hi then none else some v

/-- `strToInt<T>` for unsigned `T` (std::stoull) with maximum `hi` -/
def strToIntU (hi : Nat) (s : Str) : Option Nat :=
  match s with
  | [] => none
  | c :: r =>
    let body := if c = '+' ∨ c = '-' then r else s
    if body = [] ∨ !(body.all Char.isDigit) then none
    else if digitsVal body > 18446744073709551615 then none
    else if c = '-' then none
    else if c = '0' ∧ r ≠ [] then none
    else if digitsVal body > hi then none else some (digitsVal body)

/-! ## 2. XML layer (tinyxml2 as far as the cache files need it) -/

def isNameStart (c : Char) : Bool := decide (c.toNat ≥ 128) || c.isAlpha || c = ':' || c = '_'
def isNameChar (c : Char) : Bool := isNameStart c || c.isDigit || c = '.' || c = '-'

def skipWs (s : Str) : Str := s.dropWhile isSpace

/-- `StrPair::ParseName` -/
def parseName : Str → Option (Str × Str)
  | [] => none
  | c :: r => if isNameStart c then some (c :: r.takeWhile isNameChar, r.dropWhile isNameChar) else none

/-- `StrPair::ParseText` with a one-character end tag: text in front of the first `q`, text behind it -/
def splitAt1 (q : Char) : Str → Option (Str × Str)
  | [] => none
  | c :: r => if c = q then some ([], r) else (splitAt1 q r).map fun p => (c :: p.1, p.2)

/-- `StrPair::ParseText` with the end tag "?>" -/
def splitDeclEnd : Str → Option Str
  | [] => none
  | c :: r => if c = '?' ∧ r.head? = some '>' then some r.tail else splitDeclEnd r

inductive Closing | opn | closed | closing
  deriving DecidableEq, Repr, Inhabited

/-- `XMLElement::ParseAttributes` (attribute values stay raw, they are decoded on access like in tinyxml2) -/
def parseAttrs : Nat → Str → List (Str × Str) → Closing → Option (List (Str × Str) × Closing × Str)
  | 0, _, _, _ => none
  | f + 1, s, acc, cl =>
    match skipWs s with
    | [] => none
    | c :: r =>
      if isNameStart c then
        match parseName (c :: r) with
        | none => none
        | some (n, r1) =>
          if r1 = [] then none
          else match skipWs r1 with
            | '=' :: r2 =>
              match skipWs r2 with
              | q :: r3 =>
                if q = '"' ∨ q = '\'' then
                  match splitAt1 q r3 with
                  | none => none
                  | some (v, r4) =>
                    if acc.any (fun a => a.1 == n) then none
                    else parseAttrs f r4 (acc ++ [(n, v)]) cl
                else none
              | [] => none
            | _ => none
      else if c = '>' then some (acc, cl, r)
      else if c = '/' ∧ r.head? = some '>' then some (acc, .closed, r.tail)
      else none

inductive Tok
  | decl
  | text
  | tag (cl : Closing) (name : Str) (attrs : List (Str × Str))
  | bad            -- tinyxml2 reports a parse error here
  | unmodelled     -- comment / CDATA / "<!": outside the model
  deriving Repr, Inhabited

/-- `XMLElement::ParseDeep`: a leading '/' makes the element a closing tag -/
def closingPrefix : Str → Closing × Str
  | '/' :: t => (.closing, t)
  | s => (.opn, s)

/-- the flat part of `XMLElement::ParseDeep` (name, attributes), `r` = text after the '<' -/
def lexTag (r : Str) : Tok × Str :=
  let p := closingPrefix (skipWs r)
  match parseName p.2 with
  | none => (.bad, [])
  | some (n, r3) =>
    match parseAttrs (r3.length + 1) r3 [] p.1 with
    | none => (.bad, [])
    | some (as, cl, r4) => (.tag cl n as, r4)

/-- `XMLText::ParseDeep`: the node starts at `s` (white space included) and runs up to the next '<' -/
def lexText (s : Str) : Tok × Str :=
  match splitAt1 '<' s with
  | none => (.bad, [])
  | some (_, r) => (.text, '<' :: r)

/-- one step of the node loop: `XMLDocument::Identify` + the flat part of the node's `ParseDeep`.
    `none` = only white space is left. -/
def lexOne (s : Str) : Option (Tok × Str) :=
  match skipWs s with
  | [] => none
  | '<' :: '?' :: r1 =>
    match splitDeclEnd r1 with
    | none => some (.bad, [])
    | some r2 => some (.decl, r2)
  | '<' :: '!' :: _ => some (.unmodelled, [])
  | '<' :: r => some (lexTag r)
  | _ :: _ => some (lexText s)

/-- the node loop, flattened: all tokens up to the end of the input or the first error -/
def lexAll : Nat → Str → List Tok
  | 0, _ => [.unmodelled]
  | f + 1, s =>
    match lexOne s with
    | none => []
    | some (.bad, _) => [.bad]
    | some (.unmodelled, _) => [.unmodelled]
    | some (t, r) => t :: lexAll f r

inductive Elem
  | mk (name : Str) (attrs : List (Str × Str)) (kids : List Elem)
  deriving Repr, Inhabited

namespace Elem
def name : Elem → Str | mk n _ _ => n
def attrs : Elem → List (Str × Str) | mk _ a _ => a
def kids : Elem → List Elem | mk _ _ k => k
end Elem

structure Frame where
  name : Str
  attrs : List (Str × Str)
  kids : List Elem
  deriving Repr, Inhabited

inductive DocRes
  | ok (top : List Elem)
  | error
  | unmodelled
  deriving Repr, Inhabited

/-- append a finished child to the innermost open element (or to the document) -/
def pushChild (e : Elem) : List Frame → List Elem → List Frame × List Elem
  | [], top => ([], top ++ [e])
  | fr :: st, top => ({ fr with kids := fr.kids ++ [e] } :: st, top)

/-- `XMLNode::ParseDeep` over the token stream: `st` = open elements (innermost first), `top` = element
    children of the document so far, `declOk` = only declarations were added to the document so far. -/
def build : List Tok → List Frame → List Elem → Bool → DocRes
  | [], [], top, _ => .ok top
  | [], _ :: _, _, _ => .error
  | .bad :: _, _, _, _ => .error
  | .unmodelled :: _, _, _, _ => .unmodelled
  | .decl :: r, [], top, declOk => if declOk then build r [] top true else .error
  | .decl :: _, _ :: _, _, _ => .error
  | .text :: r, st, top, _ => build r st top false
  | .tag .closed n a :: r, st, top, _ =>
    let p := pushChild (.mk n a []) st top
    build r p.1 p.2 false
  | .tag .opn n a :: r, st, top, _ =>
    if st.length + 2 ≥ 500 then .error else build r (⟨n, a, []⟩ :: st) top false
  | .tag .closing _ _ :: _, [], top, _ => .ok top
  | .tag .closing n _ :: r, fr :: st, top, _ =>
    if fr.name = n then
      let p := pushChild (.mk fr.name fr.attrs fr.kids) st top
      build r p.1 p.2 false
    else .error

def hasBOM (s : Str) : Bool :=
  match s with
  | a :: b :: c :: _ => a.toNat = 0xEF && b.toNat = 0xBB && c.toNat = 0xBF
  | _ => false

/-- `XMLDocument::Parse(text, len)` -/
def parseDoc (text : Str) : DocRes :=
  let s := cstr text
  if text = [] ∨ s = [] then .error
  else
    let s1 := skipWs s
    let s2 := if hasBOM s1 then s1.drop 3 else s1
    if s2 = [] then .error
    else build (lexAll (s2.length + 1) s2) [] [] true

/-! ### element access -/

def findAttr (e : Elem) (n : Str) : Option Str := (e.attrs.find? fun a => a.1 == n).map (·.2)

/-- `e->Attribute(name)` -/
def attrStr (e : Elem) (n : String) : Option Str := (findAttr e n.toList).map attrDecode

/-- `readAttrString(e, attr, &error)`: value and the new error flag -/
def rdS (e : Elem) (n : String) (err : Bool) : Str × Bool :=
  match attrStr e n with
  | none => ([], true)
  | some v => (v, err)

/-- `readAttrInt(e, attr, &error)`: value and the new error flag (the old one is overwritten) -/
def rdI (e : Elem) (n : String) : Int × Bool :=
  match attrStr e n with
  | none => (0, true)
  | some v => match scanInt64 v with
    | none => (0, true)
    | some i => (i, false)

/-! ## 3. Summaries (lib/ctu.h) -/

structure Loc where
  file : Str
  line : Int
  col : Int
  deriving DecidableEq, Repr, Inhabited

/-- `ErrorMessage::FileLocation` as CTU builds it (4-argument constructor): `file` = the constructor argument
    = mOrigFileName; mFileName is always `simplifyPath file` and therefore not stored -/
structure PathLoc where
  file : Str
  info : Str
  line : Int
  col : Int        -- unsigned int
  deriving DecidableEq, Repr, Inhabited

structure FunctionCall where
  callId : Str
  callFunctionName : Str
  callArgNr : Int
  loc : Loc
  argExpr : Str
  valueType : Int      -- ValueFlow::Value::ValueType (uint8)
  argValue : Int       -- MathLib::bigint
  ufr : Int            -- UnknownFunctionReturn (uint8)
  warning : Bool
  path : List PathLoc
  deriving DecidableEq, Repr, Inhabited

structure NestedCall where
  callId : Str
  callFunctionName : Str
  callArgNr : Int
  loc : Loc
  myId : Str
  myArgNr : Int
  deriving DecidableEq, Repr, Inhabited

structure UnsafeUsage where
  myId : Str
  myArgNr : Int
  myArgName : Str
  loc : Loc
  value : Int
  deriving DecidableEq, Repr, Inhabited

structure FileInfo where
  functionCalls : List FunctionCall
  nestedCalls : List NestedCall
  deriving DecidableEq, Repr, Inhabited

/-! ### writers -/

/-- ` name="value"` -/
def attr (n : String) (v : Str) : Str := ' ' :: (n.toList ++ ('=' :: '"' :: (v ++ ['"'])))

def baseXml (callId fname : Str) (argnr : Int) (loc : Loc) : Str :=
  attr "call-id" callId ++ attr "call-funcname" (toxml fname) ++ attr "call-argnr" (showInt argnr)
    ++ attr "file" (toxml loc.file) ++ attr "line" (showInt loc.line) ++ attr "col" (showInt loc.col)

def PathLoc.toXml (simp : Str → Str) (p : PathLoc) : Str :=
  "  <path".toList ++ attr "file" (toxml (simp p.file)) ++ attr "line" (showInt p.line) ++ attr "col" (showInt p.col)
    ++ attr "info" (toxml p.info) ++ "/>\n".toList

def pathsXml (simp : Str → Str) : List PathLoc → Str
  | [] => []
  | p :: r => p.toXml simp ++ pathsXml simp r

/-- `FunctionCall::toXmlString` -/
def FunctionCall.toXml (simp : Str → Str) (c : FunctionCall) : Str :=
  "<function-call".toList ++ baseXml c.callId c.callFunctionName c.callArgNr c.loc
    ++ attr "call-argexpr" (toxml c.argExpr) ++ attr "call-argvaluetype" (showInt c.valueType)
    ++ attr "call-argvalue" (showInt c.argValue) ++ attr "call-argvalue-ufr" (showInt c.ufr)
    ++ (if c.warning then attr "warning" "true".toList else [])
    ++ (if c.path = [] then "/>".toList
        else ">\n".toList ++ pathsXml simp c.path ++ "</function-call>".toList)

/-- `NestedCall::toXmlString` with the element name as parameter -/
def NestedCall.toXmlWith (tag : String) (c : NestedCall) : Str :=
  '<' :: (tag.toList ++ baseXml c.callId c.callFunctionName c.callArgNr c.loc
    ++ attr "my-id" c.myId ++ attr "my-argnr" (showInt c.myArgNr) ++ "/>".toList)

/-- after the fix: `<nested-call …/>` -/
def NestedCall.toXml (c : NestedCall) : Str := c.toXmlWith "nested-call"
/-- before the fix: `<function-call …/>` -/
def NestedCall.toXmlOld (c : NestedCall) : Str := c.toXmlWith "function-call"

/-- `UnsafeUsage::toString` -/
def UnsafeUsage.toStr (u : UnsafeUsage) : Str :=
  "    <unsafe-usage".toList ++ attr "my-id" u.myId ++ attr "my-argnr" (showInt u.myArgNr)
    ++ attr "my-argname" u.myArgName ++ attr "file" (toxml u.loc.file) ++ attr "line" (showInt u.loc.line)
    ++ attr "col" (showInt u.loc.col) ++ attr "value" (showInt u.value) ++ "/>\n".toList

/-- `CTU::toString(list<UnsafeUsage>)` -/
def unsafeListStr : List UnsafeUsage → Str
  | [] => []
  | u :: r => u.toStr ++ unsafeListStr r

def functionCallsStr (simp : Str → Str) : List FunctionCall → Str
  | [] => []
  | c :: r => c.toXml simp ++ functionCallsStr simp r

def nestedCallsStrWith (tag : String) : List NestedCall → Str
  | [] => []
  | c :: r => c.toXmlWith tag ++ ('\n' :: nestedCallsStrWith tag r)

/-- `CTU::FileInfo::toString` -/
def FileInfo.toStrWith (simp : Str → Str) (tag : String) (fi : FileInfo) : Str :=
  functionCallsStr simp fi.functionCalls ++ nestedCallsStrWith tag fi.nestedCalls

def FileInfo.toStr (simp : Str → Str) (fi : FileInfo) : Str := fi.toStrWith simp "nested-call"
def FileInfo.toStrOld (simp : Str → Str) (fi : FileInfo) : Str := fi.toStrWith simp "function-call"

/-! ### readers -/

/-- `CallBase::loadBaseFromXml`: fields and the return value -/
def loadBase (e : Elem) : (Str × Str × Int × Loc) × Bool :=
  let (callId, err) := rdS e "call-id" false
  let (fname, _err) := rdS e "call-funcname" err
  let (argnr, err) := rdI e "call-argnr"
  let (file, _err) := rdS e "file" err
  let (line, _err) := rdI e "line"
  let (col, err) := rdI e "col"
  ((callId, fname, wrapS 32 argnr, ⟨file, wrapS 32 line, wrapS 32 col⟩), !err)

/-- the `<path>` loop of `FunctionCall::loadFromXml` (entered with `error = false`) -/
def loadPaths : List Elem → List PathLoc → List PathLoc × Bool
  | [], acc => (acc, false)
  | e2 :: r, acc =>
    if e2.name ≠ "path".toList then loadPaths r acc
    else
      let (file, err) := rdS e2 "file" false
      let (info, _err) := rdS e2 "info" err
      let (line, _err) := rdI e2 "line"
      let (col, err) := rdI e2 "col"
      let acc := acc ++ [⟨file, info, wrapS 32 line, wrapU 32 (wrapS 32 col)⟩]
      if err then (acc, true) else loadPaths r acc

/-- `FunctionCall::loadFromXml`; `none` = returned false -/
def FunctionCall.load (e : Elem) : Option FunctionCall :=
  let (b, ok) := loadBase e
  if !ok then none
  else
    let (argExpr, _err) := rdS e "call-argexpr" false
    let (vt, _err) := rdI e "call-argvaluetype"
    let (val, _err) := rdI e "call-argvalue"
    let (ufr, err) := rdI e "call-argvalue-ufr"
    let ufr := if 0 ≤ ufr ∧ ufr ≤ 255 then ufr else 255
    let warning := attrStr e "warning" == some "true".toList
    if err then none
    else
      let (paths, perr) := loadPaths e.kids []
      if perr then none
      else some ⟨b.1, b.2.1, b.2.2.1, b.2.2.2, argExpr, wrapU 8 vt, val, ufr, warning, paths⟩

/-- `NestedCall::loadFromXml` -/
def NestedCall.load (e : Elem) : Option NestedCall :=
  let (b, ok) := loadBase e
  if !ok then none
  else
    let (myId, _err) := rdS e "my-id" false
    let (myArgNr, err) := rdI e "my-argnr"
    if err then none else some ⟨b.1, b.2.1, b.2.2.1, b.2.2.2, myId, wrapS 32 myArgNr⟩

/-- `CTU::FileInfo::loadFromXml` over the children; appends to the lists already present -/
def loadCalls : List Elem → FileInfo → FileInfo
  | [], fi => fi
  | e :: r, fi =>
    if e.name = "function-call".toList then
      match FunctionCall.load e with
      | some c => loadCalls r { fi with functionCalls := fi.functionCalls ++ [c] }
      | none => loadCalls r fi
    else if e.name = "nested-call".toList then
      match NestedCall.load e with
      | some c => loadCalls r { fi with nestedCalls := fi.nestedCalls ++ [c] }
      | none => loadCalls r fi
    else loadCalls r fi

def FileInfo.loadFromXml (e : Elem) (fi : FileInfo) : FileInfo := loadCalls e.kids fi

/-- `CTU::loadUnsafeUsageListFromXml`: the error flag that decides is the one of the last `readAttrInt` (value) -/
def loadUnsafeKids : List Elem → List UnsafeUsage
  | [] => []
  | e :: r =>
    if e.name ≠ "unsafe-usage".toList then loadUnsafeKids r
    else
      let (myId, _e) := rdS e "my-id" false
      let (myArgNr, _e) := rdI e "my-argnr"
      let (argName, _e) := rdS e "my-argname" false
      let (file, _e) := rdS e "file" false
      let (line, _e) := rdI e "line"
      let (col, _e) := rdI e "col"
      let (value, verr) := rdI e "value"
      if verr then loadUnsafeKids r
      else ⟨myId, wrapS 32 myArgNr, argName, ⟨file, wrapS 32 line, wrapS 32 col⟩, value⟩ :: loadUnsafeKids r

def loadUnsafeUsageList (e : Elem) : List UnsafeUsage := loadUnsafeKids e.kids

/-! ### the four checks' summaries -/

/-- CheckBufferOverrun's MyFileInfo -/
structure BufferInfo where
  arrayIndex : List UnsafeUsage
  pointerArith : List UnsafeUsage
  deriving DecidableEq, Repr, Inhabited

def BufferInfo.toStr (b : BufferInfo) : Str :=
  (if b.arrayIndex = [] then [] else "    <array-index>\n".toList ++ unsafeListStr b.arrayIndex ++ "    </array-index>\n".toList)
  ++ (if b.pointerArith = [] then [] else "    <pointer-arith>\n".toList ++ unsafeListStr b.pointerArith ++ "    </pointer-arith>\n".toList)

def loadBufferKids : List Elem → BufferInfo → BufferInfo
  | [], b => b
  | e :: r, b =>
    if e.name = "array-index".toList then loadBufferKids r { b with arrayIndex := loadUnsafeUsageList e }
    else if e.name = "pointer-arith".toList then loadBufferKids r { b with pointerArith := loadUnsafeUsageList e }
    else loadBufferKids r b

/-- `CheckBufferOverrun::loadFileInfoFromXml`; `none` = nullptr -/
def BufferInfo.load (e : Elem) : Option BufferInfo :=
  let b := loadBufferKids e.kids ⟨[], []⟩
  if b.arrayIndex = [] ∧ b.pointerArith = [] then none else some b

/-- CheckNullPointer / CheckUninitVar: `loadFileInfoFromXml` -/
def loadUnsafeInfo (e : Elem) : Option (List UnsafeUsage) :=
  let l := loadUnsafeUsageList e
  if l = [] then none else some l

/-- CheckClass' MyFileInfo::NameLoc -/
structure ClassDef where
  className : Str
  fileName : Str
  configuration : Str
  line : Int
  col : Int
  hash : Nat        -- std::size_t
  deriving DecidableEq, Repr, Inhabited

def ClassDef.toStr (c : ClassDef) : Str :=
  "<class name=\"".toList ++ toxml c.className ++ "\" file=\"".toList ++ toxml c.fileName
    ++ "\" configuration=\"".toList ++ toxml c.configuration ++ "\" line=\"".toList ++ showInt c.line
    ++ "\" col=\"".toList ++ showInt c.col ++ "\" hash=\"".toList ++ showNat c.hash ++ "\"/>\n".toList

def classListStr : List ClassDef → Str
  | [] => []
  | c :: r => c.toStr ++ classListStr r

inductive Loaded (α : Type)
  | value (v : α)
  | null                -- nullptr: nothing usable in the element
  | threw               -- strToInt threw std::runtime_error
  deriving Repr, Inhabited

def i32lo : Int := -2147483648
def i32hi : Int := 2147483647
def sizeMax : Nat := 18446744073709551615

def loadClassKids : List Elem → List ClassDef → Option (List ClassDef)
  | [], acc => some acc
  | e :: r, acc =>
    if e.name ≠ "class".toList then loadClassKids r acc
    else
      match attrStr e "name", attrStr e "file", attrStr e "configuration", attrStr e "line", attrStr e "col", attrStr e "hash" with
      | some n, some f, some c, some l, some co, some h =>
        match strToIntS i32lo i32hi l with
        | none => none
        | some l =>
          match strToIntS i32lo i32hi co with
          | none => none
          | some co =>
            match strToIntU sizeMax h with
            | none => none
            | some h => loadClassKids r (acc ++ [⟨n, f, c, l, co, h⟩])
      | _, _, _, _, _, _ => loadClassKids r acc

/-- `CheckClass::loadFileInfoFromXml` -/
def loadClassInfo (e : Elem) : Loaded (List ClassDef) :=
  match loadClassKids e.kids [] with
  | none => .threw
  | some [] => .null
  | some l => .value l

/-! ## 4. The cache file (lib/analyzerinfo.cpp) -/

def fileInfoElem (check : Str) (text : Str) : Str :=
  if text = [] then []
  else "  <FileInfo check=\"".toList ++ check ++ "\">\n".toList ++ text ++ "  </FileInfo>\n".toList

def fileInfoElems : List (Str × Str) → Str
  | [] => []
  | p :: r => fileInfoElem p.1 p.2 ++ fileInfoElems r

/-- `analyzeFile` (header), `setFileInfo`*, `close` -/
def storeFile (hash : Nat) (infos : List (Str × Str)) : Str :=
  "<?xml version=\"1.0\"?>\n".toList ++ "<analyzerinfo hash=\"".toList ++ showNat hash ++ "\">\n".toList
    ++ fileInfoElems infos ++ "</analyzerinfo>\n".toList

inductive FileRes (α : Type)
  | ok (v : α)
  | loadError            -- "failed to load …" (internalError, whole-program analysis skipped)
  | noRoot
  | badRoot
  | unmodelled
  deriving Repr, Inhabited

/-- the `(check attribute, element)` pairs `processFilesTxt` hands to its handler for one cache file -/
def fileInfoKids : List Elem → List (Str × Elem)
  | [] => []
  | e :: r =>
    if e.name ≠ "FileInfo".toList then fileInfoKids r
    else match attrStr e "check" with
      | none => fileInfoKids r
      | some c => (c, e) :: fileInfoKids r

def loadFile (text : Str) : FileRes (List (Str × Elem)) :=
  match parseDoc text with
  | .error => .loadError
  | .unmodelled => .unmodelled
  | .ok [] => .noRoot
  | .ok (root :: _) =>
    if root.name ≠ "analyzerinfo".toList then .badRoot
    else .ok (fileInfoKids root.kids)

/-! ## 5. The walk over the call summaries (lib/ctu.cpp: getCallsMap, findPath, getErrorPath) -/

inductive Call
  | fc (c : FunctionCall)
  | nc (c : NestedCall)
  deriving DecidableEq, Repr, Inhabited

def Call.callId : Call → Str | .fc c => c.callId | .nc c => c.callId
def Call.callArgNr : Call → Int | .fc c => c.callArgNr | .nc c => c.callArgNr
def Call.fname : Call → Str | .fc c => c.callFunctionName | .nc c => c.callFunctionName
def Call.loc : Call → Loc | .fc c => c.loc | .nc c => c.loc

/-- `getCallsMap()[id]`: nested calls first, then function calls, each in list order -/
def callsFor (fi : FileInfo) (id : Str) : List Call :=
  (fi.nestedCalls.filter (·.callId == id)).map .nc ++ (fi.functionCalls.filter (·.callId == id)).map .fc

inductive Invalid | null | uninit | bufferOverflow
  deriving DecidableEq, Repr, Inhabited

def acceptCall (inv : Invalid) (unsafeValue : Int) (warning : Bool) (c : FunctionCall) : Bool :=
  if !warning && c.warning then false
  else if !warning && c.ufr ≠ 0 then false
  else match inv with
    | .null => c.valueType = 0 && c.argValue = 0
    | .uninit => c.valueType = 4
    | .bufferOverflow =>
      c.valueType = 7 && (decide (unsafeValue < 0) || (decide (unsafeValue ≥ c.argValue) && decide (c.argValue ≥ 0)))

/-- the loop of `findPath` over `callsMap[callId]`; `deeper` = the recursive call with `index + 1` -/
def findInList (deeper : Str → Int → Option (List Call)) (accept : FunctionCall → Bool) (argNr : Int) :
    List Call → Option (List Call)
  | [] => none
  | .fc c :: r =>
    if c.callArgNr ≠ argNr then findInList deeper accept argNr r
    else if accept c then some [.fc c] else findInList deeper accept argNr r
  | .nc c :: r =>
    if c.callArgNr ≠ argNr then findInList deeper accept argNr r
    else match deeper c.myId c.myArgNr with
      | some p => some (.nc c :: p)
      | none => findInList deeper accept argNr r

/-- `findPath`; fuel = `maxCtuDepth - index`.  Result: `path[index]`, `path[index+1]`, … -/
def findPath (fi : FileInfo) (inv : Invalid) (unsafeValue : Int) (warning : Bool) : Nat → Str → Int → Option (List Call)
  | 0, _, _ => none
  | fuel + 1, callId, argNr =>
    findInList (findPath fi inv unsafeValue warning fuel) (acceptCall inv unsafeValue warning) argNr (callsFor fi callId)

def ordinalText (n : Int) : Str :=
  if n = 1 then "st".toList else if n = 2 then "nd".toList else if n = 3 then "rd".toList else "th".toList

def invalidString : Invalid → Str
  | .null => "null".toList
  | .uninit => "uninitialized".toList
  | .bufferOverflow => "accessed out of bounds".toList

/-- one location of the error path: file, line, column, info -/
abbrev PathItem := Str × Int × Int × Str

def callItems (inv : Invalid) (c : Call) : List PathItem :=
  (match c with
   | .fc f => f.path.map fun p => (p.file, p.line, p.col, p.info)
   | .nc _ => [])
  ++ [(c.loc.file, c.loc.line, wrapU 32 c.loc.col,
       "Calling function ".toList ++ c.fname ++ ", ".toList ++ showInt c.callArgNr ++ ordinalText c.callArgNr
         ++ " argument is ".toList ++ invalidString inv)]

/-- `CTU::FileInfo::getErrorPath` (locations only; `maxCtuDepth ≤ 10`, as `path[10]` requires) -/
def getErrorPath (fi : FileInfo) (inv : Invalid) (u : UnsafeUsage) (infoPrefix infoSuffix : Str) (warning : Bool) (maxCtuDepth : Nat) :
    List PathItem :=
  match findPath fi inv u.value warning maxCtuDepth u.myId u.myArgNr with
  | none => []
  | some p =>
    (p.reverse.flatMap (callItems inv))
      ++ [(u.loc.file, u.loc.line, wrapU 32 u.loc.col, infoPrefix ++ u.myArgName ++ infoSuffix)]


/-! ## 6. The two ways the whole-program analysis gets its input (lib/cppcheck.cpp) -/

/-- what the analysis of one translation unit leaves behind -/
structure TUSummary where
  ctu : FileInfo
  buffer : BufferInfo
  classes : List ClassDef
  nullPointer : List UnsafeUsage
  uninitVar : List UnsafeUsage
  deriving DecidableEq, Repr, Inhabited

/-- the `setFileInfo(check, text)` calls of `CppCheck::checkNormalTokens` for one translation unit -/
def TUSummary.infos (simp : Str → Str) (t : TUSummary) : List (Str × Str) :=
  [("ctu".toList, t.ctu.toStr simp), ("Bounds checking".toList, t.buffer.toStr), ("Class".toList, classListStr t.classes),
   ("Null pointer".toList, unsafeListStr t.nullPointer), ("Uninitialized variables".toList, unsafeListStr t.uninitVar)]

/-- the cache file of one translation unit -/
def TUSummary.store (simp : Str → Str) (hash : Nat) (t : TUSummary) : Str := storeFile hash (t.infos simp)

/-- input of the whole-program checks: the accumulated CTU info and, per check, its file infos in file order -/
structure WholeProgram where
  ctu : FileInfo
  buffer : List BufferInfo
  classes : List (List ClassDef)
  nullPointer : List (List UnsafeUsage)
  uninitVar : List (List UnsafeUsage)
  deriving DecidableEq, Repr, Inhabited

def WholeProgram.empty : WholeProgram := ⟨⟨[], []⟩, [], [], [], []⟩

/-- in memory (`CppCheck::analyseWholeProgram()`): `getFileInfo` returns nullptr for empty summaries -/
def addInMemory (wp : WholeProgram) (t : TUSummary) : WholeProgram :=
  { ctu := ⟨wp.ctu.functionCalls ++ t.ctu.functionCalls, wp.ctu.nestedCalls ++ t.ctu.nestedCalls⟩,
    buffer := if t.buffer.arrayIndex = [] ∧ t.buffer.pointerArith = [] then wp.buffer else wp.buffer ++ [t.buffer],
    classes := if t.classes = [] then wp.classes else wp.classes ++ [t.classes],
    nullPointer := if t.nullPointer = [] then wp.nullPointer else wp.nullPointer ++ [t.nullPointer],
    uninitVar := if t.uninitVar = [] then wp.uninitVar else wp.uninitVar ++ [t.uninitVar] }

def inMemory (tus : List TUSummary) : WholeProgram := tus.foldl addInMemory WholeProgram.empty

/-- which consumer a `check` attribute selects: 0 = "ctu", 1..4 = the four checks with whole-program data, 5 = none -/
def checkKind (c : Str) : Nat :=
  if c = "ctu".toList then 0
  else if c = "Bounds checking".toList then 1
  else if c = "Class".toList then 2
  else if c = "Null pointer".toList then 3
  else if c = "Uninitialized variables".toList then 4
  else 5

/-- the handler of `CppCheck::analyseWholeProgram(buildDir, …)` for one `<FileInfo check=…>`; `none` = exception -/
def handleInfo (wp : WholeProgram) (ce : Str × Elem) : Option WholeProgram :=
  match checkKind ce.1 with
  | 0 => some { wp with ctu := FileInfo.loadFromXml ce.2 wp.ctu }
  | 1 =>
    match BufferInfo.load ce.2 with
    | some b => some { wp with buffer := wp.buffer ++ [b] }
    | none => some wp
  | 2 =>
    match loadClassInfo ce.2 with
    | .value l => some { wp with classes := wp.classes ++ [l] }
    | .null => some wp
    | .threw => none
  | 3 =>
    match loadUnsafeInfo ce.2 with
    | some l => some { wp with nullPointer := wp.nullPointer ++ [l] }
    | none => some wp
  | 4 =>
    match loadUnsafeInfo ce.2 with
    | some l => some { wp with uninitVar := wp.uninitVar ++ [l] }
    | none => some wp
  | _ => some wp

def handleInfos : List (Str × Elem) → WholeProgram → Option WholeProgram
  | [], wp => some wp
  | ce :: r, wp =>
    match handleInfo wp ce with
    | none => none
    | some wp' => handleInfos r wp'

/-- `processFilesTxt` over the cache files; `none` = "failed to load" / exception / outside the model -/
def fromBuildDir : List Str → WholeProgram → Option WholeProgram
  | [], wp => some wp
  | text :: r, wp =>
    match loadFile text with
    | .ok l =>
      match handleInfos l wp with
      | none => none
      | some wp' => fromBuildDir r wp'
    | _ => none

end Cppcheck.Ctu

import Cppcheck.Model.XmlEsc
/-
SARIF output (C26): `SarifReport::serialize` of lib/sarifreport.cpp and the part of picojson it uses
(`value::_serialize` with prettify, `serialize_str`), copied: findings without location are skipped, rules are
the first finding of every id (std::set insertion), level / precision / security-severity mapping.
`picojson::object` is a `std::map`, so members are written in byte order of their keys; the model writes the
(fixed) keys in that order and `Json.keysSorted` checks it.
-/
namespace Cppcheck.Sarif
open Cppcheck.XmlEsc

inductive Json where
  | str (s : Str)
  | int (n : Int)
  | arr (xs : List Json)
  | obj (kvs : List (Str × Json))
  deriving Repr

/-! ## picojson serialisation -/

def hexLow (n : Nat) : Char := if n % 16 < 10 then Char.ofNat (48 + n % 16) else Char.ofNat (87 + n % 16)

/-- `serialize_str_char::operator()` -/
def jsonChar (c : Char) : Str :=
  if c = '"' then ['\\', '"']
  else if c = '\\' then ['\\', '\\']
  else if c = '/' then ['\\', '/']
  else if c.toNat = 8 then ['\\', 'b']
  else if c.toNat = 12 then ['\\', 'f']
  else if c = '\n' then ['\\', 'n']
  else if c = '\r' then ['\\', 'r']
  else if c = '\t' then ['\\', 't']
  else if c.toNat < 0x20 ∨ c.toNat = 0x7f then
    ['\\', 'u', '0', '0', hexLow (c.toNat / 16), hexLow c.toNat]
  else [c]

/-- `serialize_str` -/
def jsonStr (s : Str) : Str := '"' :: (s.flatMap jsonChar ++ ['"'])

/-- `value::_indent` -/
def indentNl (n : Nat) : Str := '\n' :: spaces (2 * n)

mutual
/-- `value::_serialize(oi, indent)` for `indent ≥ 0` (prettified), without the final newline of the top level -/
def ser : Json → Nat → Str
  | .str s, _ => jsonStr s
  | .int n, _ => intDec n
  | .arr xs, ind => '[' :: (serArr xs (ind + 1) true ++ (if xs.isEmpty then [] else indentNl ind) ++ [']'])
  | .obj kvs, ind => '{' :: (serObj kvs (ind + 1) true ++ (if kvs.isEmpty then [] else indentNl ind) ++ ['}'])
def serArr : List Json → Nat → Bool → Str
  | [], _, _ => []
  | x :: r, ind, first => (if first then [] else [',']) ++ indentNl ind ++ ser x ind ++ serArr r ind false
def serObj : List (Str × Json) → Nat → Bool → Str
  | [], _, _ => []
  | (k, v) :: r, ind, first =>
    (if first then [] else [',']) ++ indentNl ind ++ jsonStr k ++ [':', ' '] ++ ser v ind ++ serObj r ind false
end

/-- `value::serialize(true)` -/
def serialize (v : Json) : Str := ser v 0 ++ ['\n']

/-! ## the report -/

/-- `ErrorLogger::mCriticalErrorIds` (compared with the source by the translator check of C26) -/
def criticalIds : List String :=
  ["cppcheckError", "cppcheckLimit", "includeNestedTooDeeply", "internalAstError", "instantiationError",
   "internalError", "missingFile", "premium-internalError", "premium-invalidArgument", "premium-invalidLicense",
   "preprocessorErrorDirective", "syntaxError", "unhandledChar", "unknownMacro"]

def isCritical (id : Str) : Bool := criticalIds.any (fun s => s.toList = id)

/-- `SarifReport::sarifSeverity` -/
def sarifSeverity (f : Finding) : String :=
  if isCritical f.id then "error"
  else match f.severity with
    | 1 | 2 => "error"
    | 3 | 4 | 5 => "warning"
    | _ => "note"

/-- `SarifReport::sarifPrecision` -/
def sarifPrecision (f : Finding) : String := if f.inconclusive then "medium" else "high"

def S (s : String) : Json := .str s.toList

/-- `ss << securitySeverity` for the four values used; `none` = 0 -/
def securitySeverity (f : Finding) : Option String :=
  if f.cwe = 0 then none
  else if f.severity = 1 then (if isCritical f.id then none else some "9.9")
  else if f.severity = 2 then some "8.5"
  else if f.severity = 3 ∨ f.severity = 4 ∨ f.severity = 5 then some "5.5"
  else if f.severity = 0 ∨ f.severity = 6 ∨ f.severity = 7 ∨ f.severity = 8 then some "2"
  else none

def ruleJson (f : Finding) : Json :=
  let props : List (Str × Json) :=
    [("precision".toList, S (sarifPrecision f)), ("problem.severity".toList, S (sarifSeverity f))] ++
    (match securitySeverity f with
     | some s => [("security-severity".toList, S s),
                  ("tags".toList, .arr [.str ("external/cwe/cwe-".toList ++ natDec f.cwe), S "security"])]
     | none => [])
  .obj [("defaultConfiguration".toList, .obj [("level".toList, S (sarifSeverity f))]),
        ("fullDescription".toList, .obj [("text".toList, S "")]),
        ("help".toList, .obj [("text".toList, S "")]),
        ("id".toList, .str f.id),
        ("name".toList, S ""),
        ("properties".toList, .obj props),
        ("shortDescription".toList, .obj [("text".toList, S "")])]

/-- findings the report keeps: "github only supports findings with locations" -/
def located (fs : List Finding) : List Finding := fs.filter (fun f => f.stack ≠ [])

/-- first finding of every id, in order of first occurrence (`ruleIds.insert(id).second`) -/
def firstOfId : List Finding → List Str → List Finding
  | [], _ => []
  | f :: r, seen => if seen.contains f.id then firstOfId r seen else f :: firstOfId r (f.id :: seen)

def rules (fs : List Finding) : List Json := (firstOfId (located fs) []).map ruleJson

def locJson (l : Loc) : Json :=
  let line : Int := if l.line < 1 then 1 else l.line
  let col : Int := if l.column < 1 then 1 else (l.column : Int)
  .obj [("physicalLocation".toList, .obj [
    ("artifactLocation".toList, .obj [("uri".toList, .str l.file)]),
    ("region".toList, .obj [("endColumn".toList, .int col), ("endLine".toList, .int line),
                             ("startColumn".toList, .int col), ("startLine".toList, .int line)])])]

def resultJson (f : Finding) : Json :=
  .obj ([("level".toList, S (sarifSeverity f)),
         ("locations".toList, .arr (f.stack.map locJson)),
         ("message".toList, .obj [("text".toList, .str f.shortMsg)])] ++
        (if f.hash ≠ 0 then [("partialFingerprints".toList, .obj [("hash/v1".toList, .str (natDec f.hash))])] else []) ++
        [("ruleId".toList, .str f.id)])

def results (fs : List Finding) : List Json := (located fs).map resultJson

def sarifSchema : String :=
  "https://docs.oasis-open.org/sarif/sarif/v2.1.0/errata01/os/schemas/sarif-schema-2.1.0.json"

/-- the document without the hand-placed "version" member -/
def doc (name version : Str) (fs : List Finding) : Json :=
  .obj [("$schema".toList, S sarifSchema),
        ("runs".toList, .arr [.obj [
          ("results".toList, .arr (results fs)),
          ("tool".toList, .obj [("driver".toList, .obj [
            ("informationUri".toList, S "https://cppcheck.sourceforge.io"),
            ("name".toList, .str name),
            ("rules".toList, .arr (rules fs)),
            ("semanticVersion".toList, .str version)])])]])]

/-- `SarifReport::serialize` (`name`, `version` = what it derives from the product name / `CppCheck::version()`) -/
def serializeSarif (name version : Str) (fs : List Finding) : Str :=
  "{\n  \"version\": \"2.1.0\",".toList ++ (serialize (doc name version fs)).drop 1

/-- `serialize("")` (no product name configured): name "Cppcheck", `CppCheck::version()` cut at its first blank -/
def sarifDefault (rawVersion : Str) (fs : List Finding) : Str :=
  serializeSarif "Cppcheck".toList (rawVersion.takeWhile (fun c => c ≠ ' ')) fs

/-- byte order of `std::string::operator<` on two keys -/
def keyLt : Str → Str → Bool
  | [], [] => false
  | [], _ :: _ => true
  | _ :: _, [] => false
  | a :: r, b :: s => a.toNat < b.toNat || (a.toNat = b.toNat && keyLt r s)

def sortedKeys : List (Str × Json) → Bool
  | [] => true
  | [_] => true
  | a :: b :: r => keyLt a.1 b.1 && sortedKeys (b :: r)

mutual
/-- every object of the tree lists its members in `std::map` order (so the model writes what picojson writes) -/
def Json.keysSorted : Json → Bool
  | .str _ => true
  | .int _ => true
  | .arr xs => allSortedL xs
  | .obj kvs => sortedKeys kvs && allSortedKV kvs
def allSortedL : List Json → Bool
  | [] => true
  | x :: r => x.keysSorted && allSortedL r
def allSortedKV : List (Str × Json) → Bool
  | [] => true
  | (_, v) :: r => v.keysSorted && allSortedKV r
end

/-! ## reading back (reference side of the SARIF theorems) -/

def hexVal (c : Char) : Option Nat :=
  if '0' ≤ c ∧ c ≤ '9' then some (c.toNat - 48)
  else if 'a' ≤ c ∧ c ≤ 'f' then some (c.toNat - 87)
  else if 'A' ≤ c ∧ c ≤ 'F' then some (c.toNat - 55)
  else none

/-- the two-character escapes of RFC 8259 §7 -/
def unescape1 (e : Char) : Option Char :=
  if e = '"' then some '"' else if e = '\\' then some '\\' else if e = '/' then some '/'
  else if e = 'b' then some (Char.ofNat 8) else if e = 'f' then some (Char.ofNat 12) else if e = 'n' then some '\n'
  else if e = 'r' then some '\r' else if e = 't' then some '\t' else none

/-- a strict JSON string reader over bytes (input: what follows the opening quote): no raw control characters,
    only the RFC 8259 escapes; `\uXXXX` is accepted for code points below 256 (all picojson writes).
    Returns the decoded string and the input behind the closing quote. -/
def jsonStrDecode : Str → Option (Str × Str)
  | [] => none
  | '"' :: r => some ([], r)
  | '\\' :: 'u' :: a :: b :: c :: d :: r =>
    match hexVal a, hexVal b, hexVal c, hexVal d, jsonStrDecode r with
    | some x, some y, some z, some w, some (s, rest) =>
      let code := ((x * 16 + y) * 16 + z) * 16 + w
      if code < 256 then some (Char.ofNat code :: s, rest) else none
    | _, _, _, _, _ => none
  | '\\' :: e :: r =>
    match unescape1 e, jsonStrDecode r with
    | some ch, some (s, rest) => some (ch :: s, rest)
    | _, _ => none
  | c :: r =>
    if c.toNat < 0x20 then none
    else match jsonStrDecode r with
      | some (s, rest) => some (c :: s, rest)
      | none => none

/-- member of an object -/
def Json.get (k : String) : Json → Option Json
  | .obj kvs => kvs.lookup k.toList
  | _ => none

def Json.strVal : Json → Option Str
  | .str s => some s
  | _ => none

/-- `ruleId`, message text, level and (uri, startLine, startColumn) of the locations of one SARIF result -/
def readLoc (j : Json) : Option (Str × Int × Int) :=
  match (j.get "physicalLocation").bind (fun p => (p.get "artifactLocation").bind (fun a => (a.get "uri").bind Json.strVal)),
        (j.get "physicalLocation").bind (fun p => (p.get "region").bind (fun r => r.get "startLine")),
        (j.get "physicalLocation").bind (fun p => (p.get "region").bind (fun r => r.get "startColumn")) with
  | some u, some (.int l), some (.int c) => some (u, l, c)
  | _, _, _ => none

structure SarifResult where
  ruleId : Str
  text : Str
  level : Str
  locs : List (Str × Int × Int)
  deriving DecidableEq, Repr

def readResult (j : Json) : Option SarifResult :=
  match (j.get "ruleId").bind Json.strVal, (j.get "message").bind (fun m => (m.get "text").bind Json.strVal),
        (j.get "level").bind Json.strVal, j.get "locations" with
  | some id, some t, some lv, some (.arr ls) =>
    if (ls.map readLoc).all Option.isSome then some ⟨id, t, lv, ls.filterMap readLoc⟩ else none
  | _, _, _, _ => none

/-! ## the documented level of a finding (independent of `sarifSeverity`) -/

/-- SARIF level per severity (sarifreport.cpp header comment / GitHub code-scanning mapping): error and warning are
    "error", style / performance / portability are "warning", information / debug / none / internal are "note" -/
def levelTable : List (Nat × String) :=
  [(0, "note"), (1, "error"), (2, "error"), (3, "warning"), (4, "warning"), (5, "warning"), (6, "note"), (7, "note"), (8, "note")]

/-- critical error ids are always "error" -/
def Spec.level (f : Finding) : String :=
  if isCritical f.id then "error" else (levelTable.lookup f.severity).getD "note"

/-- what a SARIF result is meant to say about a finding -/
def expectedResult (f : Finding) : SarifResult :=
  { ruleId := f.id, text := f.shortMsg, level := (Spec.level f).toList,
    locs := f.stack.map (fun l => (l.file, (if l.line < 1 then 1 else l.line), (if l.column < 1 then (1 : Int) else (l.column : Int)))) }

/-! ## a strict JSON reader for whole documents (reference side of `sarif_document`)

Strings through `jsonStrDecode`, integers (optional '-', digits), arrays, objects, insignificant white space as in
RFC 8259 §2.  Not accepted although legal JSON: `true` / `false` / `null`, fractions and exponents (the report holds
none).  Accepted although not legal JSON: leading zeros in a number (picojson never writes one).  `fuel` bounds the
number of values / members read; `jsonParse` gives one unit per input byte, which is always enough. -/

def isJWs (c : Char) : Bool := c = ' ' || c = '\n' || c = '\t' || c = '\r'

def skipWs : Str → Str
  | [] => []
  | c :: r => if isJWs c then skipWs r else c :: r

def isDigit (c : Char) : Bool := '0' ≤ c && c ≤ '9'

def natOfDigits (ds : Str) : Nat := ds.foldl (fun a c => a * 10 + (c.toNat - 48)) 0

/-- a number token at the head of the input -/
def parseNum (s : Str) : Option (Int × Str) :=
  match s with
  | '-' :: r =>
    if r.takeWhile isDigit = [] then none
    else some (-(natOfDigits (r.takeWhile isDigit) : Int), r.dropWhile isDigit)
  | _ =>
    if s.takeWhile isDigit = [] then none
    else some ((natOfDigits (s.takeWhile isDigit) : Int), s.dropWhile isDigit)

mutual
def parseVal : Nat → Str → Option (Json × Str)
  | 0, _ => none
  | f + 1, s =>
    match skipWs s with
    | [] => none
    | c :: r =>
      if c = '"' then
        match jsonStrDecode r with
        | some (t, rest) => some (.str t, rest)
        | none => none
      else if c = '[' then
        match skipWs r with
        | ']' :: rest => some (.arr [], rest)
        | r' => match parseElems f r' with
          | some (xs, rest) => some (.arr xs, rest)
          | none => none
      else if c = '{' then
        match skipWs r with
        | '}' :: rest => some (.obj [], rest)
        | r' => match parseMembers f r' with
          | some (kvs, rest) => some (.obj kvs, rest)
          | none => none
      else if c = '-' || isDigit c then
        match parseNum (c :: r) with
        | some (n, rest) => some (.int n, rest)
        | none => none
      else none
/-- `value (, value)* ]` -/
def parseElems : Nat → Str → Option (List Json × Str)
  | 0, _ => none
  | f + 1, s =>
    match parseVal f s with
    | none => none
    | some (v, r) =>
      match skipWs r with
      | ',' :: r' => match parseElems f r' with
        | some (vs, rest) => some (v :: vs, rest)
        | none => none
      | ']' :: rest => some ([v], rest)
      | _ => none
/-- `"key" : value (, "key" : value)* }` -/
def parseMembers : Nat → Str → Option (List (Str × Json) × Str)
  | 0, _ => none
  | f + 1, s =>
    match skipWs s with
    | '"' :: r =>
      match jsonStrDecode r with
      | none => none
      | some (k, r1) =>
        match skipWs r1 with
        | ':' :: r2 =>
          match parseVal f r2 with
          | none => none
          | some (v, r3) =>
            match skipWs r3 with
            | ',' :: r4 => match parseMembers f r4 with
              | some (kvs, rest) => some ((k, v) :: kvs, rest)
              | none => none
            | '}' :: rest => some ([(k, v)], rest)
            | _ => none
        | _ => none
    | _ => none
end

/-- a complete JSON text: one value, only white space behind it -/
def jsonParse (s : Str) : Option Json :=
  match parseVal (s.length + 1) s with
  | some (v, rest) => if skipWs rest = [] then some v else none
  | none => none

/-- the object `serialize` hand-splices: `"version": "2.1.0"` in front of the members of the document -/
def withVersion : Json → Json
  | .obj kvs => .obj (("version".toList, S "2.1.0") :: kvs)
  | j => j

/-- `runs[0].results` of a SARIF document -/
def reportResults (j : Json) : Option (List Json) :=
  match j.get "runs" with
  | some (.arr [run]) =>
    match run.get "results" with
    | some (.arr rs) => some rs
    | _ => none
  | _ => none

/-- `runs[0].tool.driver.rules` -/
def reportRules (j : Json) : Option (List Json) :=
  match j.get "runs" with
  | some (.arr [run]) =>
    match (run.get "tool").bind (fun t => (t.get "driver").bind (fun d => d.get "rules")) with
    | some (.arr rs) => some rs
    | _ => none
  | _ => none

end Cppcheck.Sarif

import Cppcheck.Model.Ctu
/-
C22 — unused-function analysis, the two algorithms (lib/checkunusedfunctions.cpp).

`parseTokens` itself (token patterns that recognise declarations and uses) is NOT modelled: a translation unit
is given as the sequence of effects `parseTokens` has on its state,
    first every function definition of the TU (loop over `functionScopes`), then every recognised use,
and the two consumers are copied:

  in memory   `applyDecl` / `applyCall` on `mFunctions`  (one CheckUnusedFunctions object sees all TUs in order),
              `checkInMemory`  = `CheckUnusedFunctions::check`
  build dir   `analyzerInfo`   = the `<functiondecl>` / `<functioncall>` text of one TU,
              `loadUnusedKids` = the handler in `CheckUnusedFunctions::analyseWholeProgram(settings, logger, buildDir)`,
              `checkBuildDir`  = the loop over `decls` that follows it
-/
namespace Cppcheck.Unused
open Cppcheck.Wire Cppcheck.Ctu

/-- one function definition seen by `parseTokens` -/
structure Decl where
  name : Str          -- func->name()
  file : Str          -- tokenizer.list.file(func->token)
  line : Int
  col : Int
  isC : Bool
  isStatic : Bool
  retUnused : Bool    -- retDef carries __attribute__((unused)) / [[maybe_unused]]
  deriving DecidableEq, Repr, Inhabited

/-- one recognised use -/
structure CallEv where
  name : Str          -- stripTemplateParameters(funcname->str())
  fromFile : Str      -- file of the calling token
  deriving DecidableEq, Repr, Inhabited

structure TU where
  decls : List Decl
  calls : List CallEv
  deriving DecidableEq, Repr, Inhabited

/-- `stripTemplateParameters` -/
def strip (n : Str) : Str :=
  let pre := n.takeWhile (· ≠ '<')
  if pre.length = n.length ∨ pre.length = 0 then n else n.take (pre.length - 1)

/-- `isOperatorFunction` -/
def isOperatorFunction (n : Str) : Bool :=
  let pfx := "operator".toList
  if !pfx.isPrefixOf n then false
  else
    match n.drop 8 with
    | [] => false
    | c :: r =>
      if c = '_' then false
      else if !(c.isAlphanum) then true
      else (c :: r) = "new".toList || (c :: r) = "new[]".toList || (c :: r) = "delete".toList || (c :: r) = "delete[]".toList

/-! ## in memory -/

structure Usage where
  filename : Str := []
  line : Int := 0
  col : Int := 0
  usedSameFile : Bool := false
  usedOtherFile : Bool := false
  isC : Bool := false
  isStatic : Bool := false
  deriving DecidableEq, Repr, Inhabited

/-! association lists (std::unordered_map / std::map with string keys; iteration order is not used by the theorems) -/

def amKeys {β : Type} (m : List (Str × β)) : List Str := m.map (·.1)

def amGet? {β : Type} (m : List (Str × β)) (k : Str) : Option β := (m.find? fun e => e.1 == k).map (·.2)

/-- `m[k] = v` -/
def amSet {β : Type} (m : List (Str × β)) (k : Str) (v : β) : List (Str × β) :=
  if m.any (fun e => e.1 == k) then m.map (fun e => if e.1 == k then (k, v) else e) else m ++ [(k, v)]

/-- `mFunctions` -/
abbrev FMap := List (Str × Usage)

/-- `mFunctions[k]` (default-constructed when absent) -/
def lookup (m : FMap) (k : Str) : Usage := (amGet? m k).getD {}

def update (m : FMap) (k : Str) (u : Usage) : FMap := amSet m k u

/-- the declaration loop of `parseTokens` for one function, written field by field:
    `usedOtherFile` is set by the attribute on the return type and, when the name was already seen in another file,
    absorbs `usedSameFile`; line/column are taken only while `lineNumber` is still 0; the file name only while empty;
    `isC` / `isStatic` are overwritten -/
def applyDecl (m : FMap) (d : Decl) : FMap :=
  let k := strip d.name
  let u := lookup m k
  let other0 := u.usedOtherFile || d.retUnused
  update m k
    { filename := if u.filename = [] then d.file else u.filename,
      line := if u.line = 0 then d.line else u.line,
      col := if u.line = 0 then d.col else u.col,
      usedSameFile := u.usedSameFile,
      usedOtherFile := if u.filename ≠ [] ∧ u.filename ≠ d.file then other0 || u.usedSameFile else other0,
      isC := d.isC,
      isStatic := d.isStatic }

def applyCall (m : FMap) (c : CallEv) : FMap :=
  let u := lookup m c.name
  let u :=
    if u.filename = [] ∨ u.filename = ['+'] ∨ u.filename ≠ c.fromFile then { u with usedOtherFile := true }
    else { u with usedSameFile := true }
  update m c.name u

def applyTU (m : FMap) (t : TU) : FMap := t.calls.foldl applyCall (t.decls.foldl applyDecl m)

def finalMap (tus : List TU) : FMap := tus.foldl applyTU []

/-- a reported location + function name -/
structure Finding where
  file : Str
  line : Int
  col : Int
  name : Str
  deriving DecidableEq, Repr, Inhabited

def shownFile (f : Str) : Str := if f = ['+'] then [] else f

/-- `CheckUnusedFunctions::check`, the `unusedFunction` findings (before sorting) -/
def unusedInMemory (entry : Str → Bool) (tus : List TU) : List Finding :=
  (finalMap tus).filterMap fun e =>
    let u := e.2
    if u.usedOtherFile || u.filename = [] then none
    else if entry e.1 then none
    else if !u.usedSameFile then
      if isOperatorFunction e.1 then none else some ⟨shownFile u.filename, u.line, u.col, e.1⟩
    else none

/-- `CheckUnusedFunctions::check`, the `staticFunction` findings -/
def staticInMemory (entry : Str → Bool) (tus : List TU) : List Finding :=
  (finalMap tus).filterMap fun e =>
    let u := e.2
    if u.usedOtherFile || u.filename = [] then none
    else if entry e.1 then none
    else if !u.usedSameFile then none
    else if u.isC && !u.isStatic then some ⟨shownFile u.filename, u.line, u.col, e.1⟩
    else none

/-! ## build dir -/

/-- `std::string::operator<` (bytes compared as unsigned char) -/
def strLt : Str → Str → Bool
  | [], [] => false
  | [], _ :: _ => true
  | _ :: _, [] => false
  | a :: r, b :: t => if a.toNat < b.toNat then true else if b.toNat < a.toNat then false else strLt r t

/-- `std::set<std::string>::insert`: the set is kept as a strictly increasing list (iteration order of the set) -/
def setInsert : List Str → Str → List Str
  | [], x => [x]
  | y :: r, x => if x = y then y :: r else if strLt x y then x :: y :: r else y :: setInsert r x

/-- `mFunctionCalls` of one TU -/
def callSet (t : TU) : List Str := t.calls.foldl (fun s c => setInsert s c.name) []

/-- `CheckUnusedFunctions::analyzerInfo` -/
def analyzerInfo (t : TU) : Str :=
  (t.decls.flatMap fun d =>
    "    <functiondecl".toList ++ attr "file" (toxml d.file) ++ attr "functionName" (toxml d.name)
      ++ attr "lineNumber" (showInt d.line) ++ attr "column" (showInt d.col) ++ "/>\n".toList)
  ++ ((callSet t).flatMap fun c => "    <functioncall".toList ++ attr "functionName" (toxml c) ++ "/>\n".toList)

/-- what the handler collects: `decls` (map: last write wins, kept as association list) and `calls` -/
structure Collected where
  decls : List (Str × (Str × Int × Int))
  calls : List Str
  deriving DecidableEq, Repr, Inhabited

def declInsert (m : List (Str × (Str × Int × Int))) (k : Str) (v : Str × Int × Int) : List (Str × (Str × Int × Int)) :=
  amSet m k v

inductive Coll
  | ok (c : Collected)
  | threw
  deriving Repr, Inhabited

/-- the handler of `analyseWholeProgram` over the children of one `<FileInfo check="CheckUnusedFunctions">`;
    `sourceFile` = filesTxtInfo.sourceFile (used when the `file` attribute is missing) -/
def loadUnusedKids (sourceFile : Str) : List Elem → Collected → Coll
  | [], c => .ok c
  | e :: r, c =>
    match attrStr e "functionName" with
    | none => loadUnusedKids sourceFile r c
    | some fname =>
      if e.name = "functioncall".toList then loadUnusedKids sourceFile r { c with calls := setInsert c.calls fname }
      else if e.name = "functiondecl".toList then
        match attrStr e "lineNumber" with
        | none => loadUnusedKids sourceFile r c
        | some ln =>
          let file := (attrStr e "file").getD sourceFile
          let colS := (attrStr e "column").getD ['0']
          match strToIntS i32lo i32hi ln with
          | none => .threw
          | some l =>
            match strToIntS i32lo i32hi colS with
            | none => .threw
            | some co => loadUnusedKids sourceFile r { c with decls := declInsert c.decls fname (file, l, co) }
      else loadUnusedKids sourceFile r c

/-- the final loop of `analyseWholeProgram` -/
def checkCollected (entry : Str → Bool) (c : Collected) : List Finding :=
  c.decls.filterMap fun e =>
    let fname := strip e.1
    if entry fname then none
    else if !c.calls.contains fname && !isOperatorFunction fname then some ⟨e.2.1, e.2.2.1, e.2.2.2, fname⟩
    else none

/-- the summary data the build dir holds for a TU, read back without the text layer -/
def collectTU (c : Collected) (t : TU) : Collected :=
  { decls := t.decls.foldl (fun m d => declInsert m d.name (d.file, d.line, d.col)) c.decls,
    calls := (callSet t).foldl setInsert c.calls }

def unusedBuildDir (entry : Str → Bool) (tus : List TU) : List Finding :=
  checkCollected entry (tus.foldl collectTU ⟨[], []⟩)

/-- `std::strcmp(checkattr, "CheckUnusedFunctions") == 0` -/
def isUnusedCheck (c : Str) : Bool := c = "CheckUnusedFunctions".toList

/-- one step of the handler of `CheckUnusedFunctions::analyseWholeProgram` over the `<FileInfo>` elements of a cache file -/
def collectStep (sourceFile : Str) (acc : Coll) (ce : Str × Elem) : Coll :=
  match acc with
  | .threw => .threw
  | .ok c => if isUnusedCheck ce.1 then loadUnusedKids sourceFile ce.2.kids c else .ok c

/-- `processFilesTxt` + handler for one cache file (whatever other `<FileInfo>` elements it holds) -/
def collectFile (sourceFile : Str) (c : Collected) (fileText : Str) : Coll :=
  match loadFile fileText with
  | .ok l => l.foldl (collectStep sourceFile) (.ok c)
  | _ => .threw

/-- a summary text alone in a cache file: write it like `setFileInfo` does, parse, run the handler -/
def collectText (sourceFile : Str) (c : Collected) (text : Str) : Coll :=
  collectFile sourceFile c (storeFile 1 [("CheckUnusedFunctions".toList, text)])

/-- the build-dir run over the summaries of all translation units, each through its text (this is what the driver executes) -/
def textStep (acc : Coll) (t : TU) : Coll :=
  match acc with
  | .threw => .threw
  | .ok c => collectText [] c (analyzerInfo t)

def collectViaText (tus : List TU) : Coll := tus.foldl textStep (Coll.ok ⟨[], []⟩)

/-- `analyseWholeProgram(settings, logger, buildDir)`: `none` = exception / unreadable file -/
def unusedViaText (entry : Str → Bool) (tus : List TU) : Option (List Finding) :=
  match collectViaText tus with
  | .ok c => some (checkCollected entry c)
  | .threw => none

/-- the cache file of a translation unit as a run with `--enable=unusedFunction` writes it:
    the five whole-program summaries and the `CheckUnusedFunctions` summary -/
def storeAll (simp : Str → Str) (hash : Nat) (t : TUSummary) (u : TU) : Str :=
  storeFile hash (t.infos simp ++ [("CheckUnusedFunctions".toList, analyzerInfo u)])

/-- the unused-function handler over a list of cache files -/
def fileStep (acc : Coll) (f : Str) : Coll :=
  match acc with
  | .threw => .threw
  | .ok c => collectFile [] c f

def collectFiles (files : List Str) : Coll := files.foldl fileStep (Coll.ok ⟨[], []⟩)

/-! ## driver glue (wire format: see harness/c22.cpp, op `unused`) -/

def findingS (f : Finding) : String :=
  s!"{toHex f.file}:{f.line}:{f.col}:{toHex f.name}"

def insertSorted (x : String) : List String → List String
  | [] => [x]
  | y :: r => if x ≤ y then x :: y :: r else y :: insertSorted x r

def sortS (l : List String) : List String := l.foldl (fun acc x => insertSorted x acc) []

def pDecls : Nat → List String → Option (List Decl × List String)
  | 0, ws => some ([], ws)
  | n + 1, nm :: f :: l :: c :: isC :: isS :: ru :: r =>
    match fromHex nm, fromHex f, l.toInt?, c.toInt?, pDecls n r with
    | some nm, some f, some l, some c, some (ds, r') => some (⟨nm, f, l, c, isC == "1", isS == "1", ru == "1"⟩ :: ds, r')
    | _, _, _, _, _ => none
  | _, _ => none

def pCalls : Nat → List String → Option (List CallEv × List String)
  | 0, ws => some ([], ws)
  | n + 1, nm :: f :: r =>
    match fromHex nm, fromHex f, pCalls n r with
    | some nm, some f, some (cs, r') => some (⟨nm, f⟩ :: cs, r')
    | _, _, _ => none
  | _, _ => none

def pTUs : Nat → List String → Option (List TU × List String)
  | 0, ws => some ([], ws)
  | n + 1, nd :: r =>
    match nd.toNat? with
    | none => none
    | some nd =>
      match pDecls nd r with
      | none => none
      | some (ds, nc :: r2) =>
        match nc.toNat? with
        | none => none
        | some nc =>
          match pCalls nc r2 with
          | none => none
          | some (cs, r3) =>
            match pTUs n r3 with
            | none => none
            | some (ts, r4) => some (⟨ds, cs⟩ :: ts, r4)
      | some (_, []) => none
  | _, _ => none

def isMain (n : Str) : Bool := n = "main".toList

/-- op: `unused <ntu> { <ndecl> {<name> <file> <line> <col> <isC> <isStatic> <retUnused>}* <ncall> {<name> <fromFile>}* }*`
    out: `M=<sorted in-memory unusedFunction> S=<sorted staticFunction> B=<sorted build-dir unusedFunction> X=<per-TU analyzerInfo text>` -/
def driverStep (ws : List String) : String :=
  match ws with
  | n :: r =>
    match n.toNat? with
    | none => "bad-op"
    | some n =>
      match pTUs n r with
      | some (tus, []) =>
        let m := sortS ((unusedInMemory isMain tus).map findingS)
        let s := sortS ((staticInMemory isMain tus).map findingS)
        let b := match unusedViaText isMain tus with
          | some l => sortS (l.map findingS)
          | none => ["threw"]
        let x := tus.map fun t => toHex (analyzerInfo t)
        s!"M={",".intercalate m} S={",".intercalate s} B={",".intercalate b} X={",".intercalate x}"
      | _ => "bad-op"
  | _ => "bad-op"

end Cppcheck.Unused

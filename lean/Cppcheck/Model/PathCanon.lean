import Cppcheck.Model.Wire
/-
C31 — path canonicalisation.

Executable artefacts (all total):
  * `Iter` / `skipsF` / `advance` / `stream` / `read`
        copy of `PathMatch::PathIterator` (lib/pathmatch.h): the two C strings are joined with the
        virtual separator, the iterator state is the list of raw characters still to be read (in
        reading order, i.e. the reversed prefix of length `mPos.l`), `current()` is its head (or NUL).
  * `canon`      the documented canonical form (pathmatch.h "Path matching rules"), forward, with a
        component stack: `/./`, `/dir/../`, `//` collapse, trailing separators removed, root kept.
  * `simplifyPath` line-by-line copy of `simplecpp::simplifyPath` (externals/simplecpp/simplecpp.cpp)
        including the `size_t` wrap-around of `rfind(pos-1)`, `substr` and `erase` at `pos == 0`.
  * `join`, `isAbsolute` (POSIX build), `fromNativeSeparators`, `getRelativePath` of lib/path.cpp.

Byte strings are `List Char` (codes < 256).  A C string ends at its first NUL: `cstr`.
-/
namespace Cppcheck.PathCanon
open Cppcheck.Wire

inductive Syntax | windows | unix
  deriving DecidableEq, Repr, Inhabited

/-- which of the four repairs of proposed/C31-pathmatch.diff the modelled code contains (all `false` = the code
    before the repair, all `true` = the repaired code) -/
structure Variant where
  /-- `skips`: a double separator met after a leading separator keeps one separator -/
  dsep : Bool
  /-- `skips`: `..` directly behind the root does not consume the root separator -/
  rootdd : Bool
  /-- `match`: a star also records a backtrack position when the next pattern character is `?` or `*` -/
  star : Bool
  /-- `match`: a directory pattern tested against a regular file skips the last component and its separator -/
  dirsep : Bool
  deriving DecidableEq, Repr, Inhabited

def Variant.fixed : Variant := ⟨true, true, true, true⟩
def Variant.old : Variant := ⟨false, false, false, false⟩

def NUL : Char := Char.ofNat 0

/-- `*p` for a C string / `current()` of an exhausted iterator: the terminator -/
def hd (s : Str) : Char := s.headD NUL

/-- `p[i]` of a NUL-terminated string (only evaluated where the C++ reads it) -/
def cat (s : Str) (i : Nat) : Char := s.getD i NUL

def cstr (s : Str) : Str := s.takeWhile (· != NUL)

/-- `PathIterator::issep` -/
def issep (syn : Syntax) (c : Char) : Bool := c == '/' || (syn == .windows && c == '\\')

/-- `PathIterator::isdrive` -/
def isdrive (c : Char) : Bool := ('A' ≤ c && c ≤ 'Z') || ('a' ≤ c && c ≤ 'z')

/-- length of the root component, computed by the constructor on the first non-empty string -/
def rootLen (syn : Syntax) (p : Str) : Nat :=
  if issep syn (cat p 0) then
    if syn == .windows && issep syn (cat p 1) then
      if cat p 2 == '.' || cat p 2 == '?' then
        if issep syn (cat p 3) then 4 else 3
      else 2
    else 1
  else if syn == .windows && isdrive (cat p 0) && cat p 1 == ':' then
    if issep syn (cat p 2) then 3 else 2
  else 0

def toLowerAscii (c : Char) : Char := if 'A' ≤ c && c ≤ 'Z' then Char.ofNat (c.toNat + 32) else c

/-- `current()`: native separator to '/', lower case on windows syntax ("C" locale) -/
def mapChar (syn : Syntax) (c : Char) : Char :=
  match syn with
  | .windows => if c == '\\' then '/' else toLowerAscii c
  | .unix => c

/-- the raw character sequence the iterator walks over (forward order): a, virtual '/', b -/
def joinRaw (a b : Str) : Str :=
  a ++ (if !a.isEmpty && !b.isEmpty then ['/'] else []) ++ b

/-- `while (mPos.l > mRootLength && current() != '/') nextc();` -/
def dropComp (root : Nat) : Str → Str
  | [] => []
  | c :: r => if (c :: r).length > root && c != '/' then dropComp root r else c :: r

/-- `PathIterator::skips(leadsep)`; `rem` = characters left (reading order), `rem.length = mPos.l`.
    One unit of fuel per loop iteration / recursive call. -/
def skipsF (v : Variant) : Nat → Nat → Bool → Str → Str
  | 0, _, _, rem => rem
  | fuel + 1, root, leadsep, rem =>
    if rem.length ≤ root then rem
    else if leadsep && hd rem != '/' then rem
    else
      let r1 := if leadsep then rem.tail else rem
      let c := hd r1
      if c == '.' then
        let r2 := r1.tail
        let c := hd r2
        if c == '.' then
          let r3 := r2.tail
          let c := hd r3
          if c == '/' then
            -- skip 'dir/../' (repaired: `if (mPos.l > mRootLength) nextc();`)
            let r4 := if v.rootdd && r3.length ≤ root then r3 else r3.tail
            let r5 := skipsF v fuel root false r4
            let r6 := dropComp root r5
            skipsF v fuel root leadsep r6
          else rem
        else if c == '/' then
          -- skip '/./'
          skipsF v fuel root leadsep r2
        else if c == NUL then
          -- skip leading './'
          r2
        else rem
      else if c == '/' then
        -- skip double separator (keep root) (repaired: `if (!leadsep) nextc(); continue;`)
        if v.dsep && leadsep then skipsF v fuel root leadsep r1
        else skipsF v fuel root false r1.tail
      else rem

def skips (v : Variant) (root : Nat) (leadsep : Bool) (rem : Str) : Str := skipsF v (rem.length + 1) root leadsep rem

/-- `operator++` -/
def advance (v : Variant) (root : Nat) (rem : Str) : Str :=
  let r := rem.tail
  if hd r == '/' then skips v root true r else r

structure Iter where
  root : Nat
  rem : Str
  deriving Repr, DecidableEq

/-- the constructor `PathIterator(path_a, path_b, syntax)` (nullptr and "" behave alike) -/
def Iter.mk' (v : Variant) (syn : Syntax) (a b : Str) : Iter :=
  let a := cstr a
  let b := cstr b
  let first := if a.isEmpty then b else a
  let root := if first.isEmpty then 0 else rootLen syn first
  let rem := ((joinRaw a b).map (mapChar syn)).reverse
  { root := root, rem := skips v root false rem }

/-- characters produced by `*it`, `++it` until `*it == '\0'` (reading order = reversed canonical path) -/
def streamF (v : Variant) : Nat → Nat → Str → Str
  | 0, _, _ => []
  | fuel + 1, root, rem => if hd rem == NUL then [] else hd rem :: streamF v fuel root (advance v root rem)

def Iter.stream (v : Variant) (it : Iter) : Str := streamF v (it.rem.length + 1) it.root it.rem

/-- `PathIterator::read()` -/
def Iter.read (v : Variant) (it : Iter) : Str := (it.stream v).reverse

/-! ## documented canonical form -/

def splitSlash : Str → List Str
  | [] => [[]]
  | c :: r =>
    if c == '/' then [] :: splitSlash r
    else match splitSlash r with
      | h :: t => (c :: h) :: t
      | [] => [[c]]

def joinSlash : List Str → Str
  | [] => []
  | [a] => a
  | a :: r => a ++ '/' :: joinSlash r

def dot : Str := ['.']
def dotdot : Str := ['.', '.']

/-- one component pushed on the stack (top = head) -/
def canonStep (rooted : Bool) (st : List Str) (c : Str) : List Str :=
  if c == [] || c == dot then st
  else if c == dotdot then
    match st with
    | top :: rest => if top == dotdot then c :: st else rest
    | [] => if rooted then [] else [c]
  else c :: st

def canonComps (rooted : Bool) (comps : List Str) : List Str :=
  (comps.foldl (canonStep rooted) []).reverse

/-- canonical form of a raw (already separator/case mapped) path whose first `root` characters are the root -/
def canon (root : Nat) (raw : Str) : Str :=
  raw.take root ++ joinSlash (canonComps (root > 0) (splitSlash (raw.drop root)))

/-- root length and mapped raw string the constructor derives from its two arguments -/
def rawOf (syn : Syntax) (a b : Str) : Nat × Str :=
  let a := cstr a
  let b := cstr b
  let first := if a.isEmpty then b else a
  (if first.isEmpty then 0 else rootLen syn first, (joinRaw a b).map (mapChar syn))

def canonOf (syn : Syntax) (a b : Str) : Str := canon (rawOf syn a b).1 (rawOf syn a b).2

/-! ### input classes on which the iterator is known to leave the documented form -/

/-- the components of the part after the root, without the trailing separators -/
def restComps (root : Nat) (raw : Str) : List Str :=
  splitSlash ((raw.drop root).reverse.dropWhile (· == '/')).reverse

/-- no empty component inside (a "//" that is not at the very end, or a separator right after the root) -/
def noInnerDoubleSep (root : Nat) (raw : Str) : Bool :=
  let cs := restComps root raw
  cs == [[]] || cs.all (· != [])

/-- the root is empty or ends with a separator (excludes the windows drive-relative `C:foo`, `//.` forms) -/
def closedRoot (root : Nat) (raw : Str) : Bool :=
  root == 0 || (raw.take root).getLast? == some '/'

/-- rooted path whose first component is `..` -/
def rootDotDot (root : Nat) (raw : Str) : Bool :=
  root > 0 && (restComps root raw).head? == some dotdot

/-- `[]` and `.` leave the position unchanged -/
def ignorable (c : Str) : Bool := c == [] || c == dot

/-- components read from the END of the path: the number of `..` that are still waiting for an earlier
    component to cancel when the start of the string is reached, beginning with `n` waiting ones -/
def esc : Nat → List Str → Nat
  | n, [] => n
  | n, c :: cs => if ignorable c then esc n cs else if c == dotdot then esc (n + 1) cs else esc (n - 1) cs

/-- no `..` climbs above the start of the string: every `..` is cancelled by an earlier component -/
def noEscape (root : Nat) (raw : Str) : Bool := esc 0 (splitSlash (raw.drop root)).reverse == 0

/-- the documented domain: a root that ends with a separator (or none) and, without a root, no `..` that climbs
    above the start of the string (and no separator at the start: that would be a root) -/
def CanonDomain (root : Nat) (raw : Str) : Bool :=
  root ≤ raw.length && closedRoot root raw && (root > 0 || (noEscape root raw && raw.head? != some '/'))

/-- the hypothesis of `pathiter_eq_canon`: the documented domain, and for the code before the repair none of the two
    input classes it gets wrong -/
def CanonOk (v : Variant) (root : Nat) (raw : Str) : Bool :=
  CanonDomain root raw && (v.dsep || noInnerDoubleSep root raw) && (v.rootdd || !rootDotDot root raw)

/-! ## lib/path.cpp -/

/-- `Path::fromNativeSeparators` -/
def fromNativeSeparators (p : Str) : Str := p.map (fun c => if c == '\\' then '/' else c)

/-- `Path::join` (two arguments) -/
def join (p1 p2 : Str) : Str :=
  let p1 := fromNativeSeparators p1
  let p2 := fromNativeSeparators p2
  if p1.isEmpty || p2.isEmpty then p1 ++ p2
  else if p2.head? == some '/' then p2
  else (if p1.getLast? == some '/' then p1 else p1 ++ ['/']) ++ p2

/-- `Path::isAbsolute`, non-windows build -/
def isAbsolute (p : Str) : Bool := p.head? == some '/'

/-- `Path::getRelativePath` -/
def getRelativePath (abs : Str) : List Str → Str
  | [] => abs
  | bp :: rest =>
    if abs == bp || bp.isEmpty then getRelativePath abs rest
    else if !(bp.isPrefixOf abs) then getRelativePath abs rest
    else if bp.getLast? == some '/' then abs.drop bp.length
    else if abs.length > bp.length && cat abs bp.length == '/' then abs.drop (bp.length + 1)
    else getRelativePath abs rest

/-! ## simplecpp::simplifyPath -/

/-- `while ((pos = path.find("//",pos)) != npos) path.erase(pos,1);` -/
def dedupSlash : Str → Str
  | [] => []
  | [c] => [c]
  | c :: d :: r => if c == '/' && d == '/' then dedupSlash (d :: r) else c :: dedupSlash (d :: r)

/-- the `"./"` removal loop; `prev` = `path[pos-1]` (none at `pos == 0`) -/
def removeDotSlash : Option Char → Str → Str
  | _, [] => []
  | prev, [c] => let _ := prev; [c]
  | prev, c :: d :: r =>
    if c == '.' && d == '/' then
      if prev == none || prev == some '/' then removeDotSlash prev r
      else '.' :: '/' :: removeDotSlash (some '/') r
    else c :: removeDotSlash (some c) (d :: r)

def findAux (pat : Str) : Str → Nat → Option Nat
  | [], i => if pat.isEmpty then some i else none
  | c :: r, i => if pat.isPrefixOf (c :: r) then some i else findAux pat r (i + 1)

/-- `s.find(pat, pos)` -/
def findSub (pat s : Str) (pos : Nat) : Option Nat :=
  if pos > s.length then none else findAux pat (s.drop pos) pos

def rfindAux (c : Char) : Str → Nat → Option Nat → Option Nat
  | [], _, acc => acc
  | x :: r, i, acc => rfindAux c r (i + 1) (if x == c then some i else acc)

/-- `s.rfind(c, pos)`; `pos = none` is `npos` -/
def rfindChar (c : Char) (s : Str) (pos : Option Nat) : Option Nat :=
  rfindAux c (match pos with | none => s | some p => s.take (p + 1)) 0 none

/-- the `..` loop.  `pos - 1U`, `pos - pos1` and `pos - pos1 + 4` are `size_t` expressions: at `pos == 0`
    the search runs over the whole string, `pos1 > pos`, and the counts wrap. -/
def dotdotLoop : Nat → Str → Nat → Option Str
  | 0, _, _ => none
  | fuel + 1, path, pos0 =>
    match findSub "/..".toList path pos0 with
    | none => some path
    | some pos =>
      if pos + 3 < path.length && cat path (pos + 3) != '/' then dotdotLoop fuel path (pos + 1)
      else
        let pos1 := match rfindChar '/' path (if pos == 0 then none else some (pos - 1)) with
          | none => 0
          | some i => i + 1
        let prev := if pos1 ≤ pos then (path.drop pos1).take (pos - pos1) else path.drop pos1
        if prev == dotdot then dotdotLoop fuel path (pos + 1)
        else
          let erased :=
            if pos1 ≤ pos then path.take pos1 ++ path.drop (pos1 + (pos - pos1 + 4))
            else if pos1 - pos ≤ 4 then path.take pos1 ++ path.drop (pos1 + (4 - (pos1 - pos)))
            else path.take pos1
          let path' := if erased.isEmpty then ['.'] else erased
          dotdotLoop fuel path' (if pos1 == 0 then 1 else pos1 - 1)

/-- iteration budget of the `..` loop: every iteration shortens the string or moves `pos` forward; running out of it
    is reported (`none`) and shows up in the correspondence, it is never silently turned into an answer -/
def dotdotFuel (path : Str) : Nat := (path.length + 2) * (path.length + 2)

/-- `simplecpp::simplifyPath` = `Path::simplifyPath`; `none` = the iteration budget of the model was exceeded -/
def simplifyPathO (path : Str) : Option Str :=
  if path.isEmpty then some path
  else
    let p := fromNativeSeparators path
    let unc := "//".toList.isPrefixOf p
    let p := dedupSlash p
    let p := removeDotSlash none p
    let p := if "/.".toList.isSuffixOf p then p.dropLast else p
    match dotdotLoop (dotdotFuel p) p 1 with
    | none => none
    | some p => some (if unc then '/' :: p else p)

def simplifyPath (path : Str) : Str := (simplifyPathO path).getD path

/-- did the run of the `..` loop evaluate the wrap-around branch (`pos == 0` with a hit at 0)? -/
def dotdotWraps : Nat → Str → Nat → Bool
  | 0, _, _ => false
  | fuel + 1, path, pos0 =>
    match findSub "/..".toList path pos0 with
    | none => false
    | some pos =>
      if pos + 3 < path.length && cat path (pos + 3) != '/' then dotdotWraps fuel path (pos + 1)
      else if pos == 0 then true
      else
        let pos1 := match rfindChar '/' path (some (pos - 1)) with
          | none => 0
          | some i => i + 1
        let prev := (path.drop pos1).take (pos - pos1)
        if prev == dotdot then dotdotWraps fuel path (pos + 1)
        else
          let erased := path.take pos1 ++ path.drop (pos1 + (pos - pos1 + 4))
          let path' := if erased.isEmpty then ['.'] else erased
          dotdotWraps fuel path' (if pos1 == 0 then 1 else pos1 - 1)

end Cppcheck.PathCanon

/-
Wire format shared by every driver and every C++ harness.

A byte string travels as lowercase hex; the empty string as "-".  Inside the models a byte
string is a `List Char` whose characters all have code < 256 (Latin-1 view of the bytes).
-/
namespace Cppcheck.Wire

abbrev Str := List Char

def hexDigit (n : Nat) : Char :=
  if n < 10 then Char.ofNat (48 + n) else Char.ofNat (87 + n)

def hexVal (c : Char) : Option Nat :=
  if '0' ≤ c ∧ c ≤ '9' then some (c.toNat - 48)
  else if 'a' ≤ c ∧ c ≤ 'f' then some (c.toNat - 87)
  else if 'A' ≤ c ∧ c ≤ 'F' then some (c.toNat - 55)
  else none

def toHexAux : List Char → List Char
  | [] => []
  | c :: r => hexDigit (c.toNat / 16 % 16) :: hexDigit (c.toNat % 16) :: toHexAux r

def toHex (s : Str) : String :=
  if s.isEmpty then "-" else String.ofList (toHexAux s)

def fromHexAux : List Char → Option (List Char)
  | [] => some []
  | [_] => none
  | a :: b :: r =>
    match hexVal a, hexVal b, fromHexAux r with
    | some x, some y, some t => some (Char.ofNat (16 * x + y) :: t)
    | _, _, _ => none

def fromHex (s : String) : Option Str :=
  if s == "-" then some [] else fromHexAux s.toList

def boolStr (b : Bool) : String := if b then "1" else "0"

/-- split a protocol line into fields -/
def fields (line : String) : List String :=
  (line.trimAscii.toString.splitOn " ").filter (· ≠ "")

end Cppcheck.Wire

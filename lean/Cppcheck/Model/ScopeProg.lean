import Cppcheck.Model.VarMap
/-
C08 — scope programs: the fragment of C / C++ on which name resolution is modelled.

* `Prog` is the abstract syntax (what the generator prints as C / C++ source text);
* `implProg` is the MODEL OF `Tokenizer::setVarIdPass1` on that fragment: the exact sequence of
  `VariableMap` events (`enterScope` / `leaveScope` / `addVariable` / lookups) the token walk performs,
  construct by construct (anchors in the comments below);
* `specProg` is the SPECIFICATION: C lexical scoping written directly on the syntax tree, with the
  environment passed down and never "restored" — a declaration is visible from its declarator to the end
  of the enclosing block, the innermost visible declaration wins, `::x` names the file-scope declaration.
  It never mentions events, undo logs or scope entry/exit.

Both produce the list of ids of all tracked name tokens in source order (a declaration contributes the
fresh id of the declared name, a use the id it resolves to, 0 = unresolved), ids being numbered in order
of declaration.
-/
namespace Cppcheck.VarMap

/-- a use of a name inside an expression: `x` or `::x` (C++ only) -/
inductive U
  | loc (x : VName)
  | glob (x : VName)
  deriving DecidableEq, Repr

/-- a controlling expression: an expression, or (C++) a condition declaration `T x = e` -/
inductive Cond
  | expr (us : List U)
  | decl (x : VName) (init : List U)
  deriving Repr

/-- first clause of a `for` -/
inductive ForInit
  | none
  | expr (us : List U)
  | decl (x : VName) (init : List U)
  deriving Repr

mutual
inductive Stmt
  | decl (x : VName) (init : List U)                 -- `T x;` / `T x = e;` / `extern T x;`
  | expr (us : List U)                               -- expression statement / return
  | block (b : Stmts)                                -- `{ ... }`
  | ifs (c : Cond) (t : Stmts)                       -- `if (c) { t }`
  | ifelse (c : Cond) (t : Stmts) (e : Stmts)        -- `if (c) { t } else { e }`
  | whiles (c : Cond) (b : Stmts)                    -- `while (c) { b }`
  | dowhile (b : Stmts) (c : List U)                 -- `do { b } while (c);`
  | fors (i : ForInit) (c : List U) (s : List U) (b : Stmts)   -- `for (i; c; s) { b }`
  | enumd (x : VName) (init : List U)                -- `enum { x = e };` at block scope
inductive Stmts
  | nil
  | cons (s : Stmt) (r : Stmts)
end

inductive Top
  | gdecl (x : VName) (init : List U)                -- file-scope variable
  | func (ps : List VName) (body : Stmts)            -- function definition
  | proto (ps : List VName)                          -- function declaration with named parameters
  | genum (x : VName) (init : List U)                -- `enum { x = e };` at file scope
abbrev Prog := List Top

/-! ## the model of setVarIdPass1 on the fragment -/

def useOp : U → Op
  | .loc x => .use x
  | .glob x => .guse x

def useOps (us : List U) : List Op := us.map useOp

/-- `T x = e`: `addVariable(x)` happens when the declaration is recognised at the statement start
(tokenize.cpp "if (decl) { ... variableMap.addVariable(prev2->str(), scopeStack.size() <= 1)"), before the walk
reaches the tokens of the initialiser; the declared token then gets the new id. -/
def declOps (x : VName) (g : Bool) (init : List U) : List Op := .decl x g :: useOps init

def condOps : Cond → List Op
  | .expr us => useOps us
  | .decl x init => declOps x false init

def forInitOps : ForInit → List Op
  | .none => []
  | .expr us => useOps us
  | .decl x init => declOps x false init

/-- `enum { x = e };` : the "{" of an enum is an ordinary scope for the VariableMap (enterScope / leaveScope, nothing is
ever added to it); the enumerator token is skipped by the `scopeStack.top().isEnum` test (varid 0); the tokens of `e` are
looked up as usual.  After the enum the name `x` is in scope as an enumerator — an event the VariableMap does not see. -/
def enumOps (x : VName) (init : List U) : List Op := .enter :: .skip :: useOps init ++ [.leave, .hide x]

mutual
def implStmt : Stmt → List Op
  | .decl x init => declOps x false init
  | .expr us => useOps us
  -- "{": `variableMap.enterScope()` in the `Token::Match(tok, "{|}")` branch, "}": `leaveScope()`
  | .block b => .enter :: implStmts b ++ [.leave]
  -- "(": tokenLinkNext is "{" => enterScope (condition scope); that "{" is the functionDeclEndToken and follows
  -- `if (...)` => a second enterScope (body scope); "}" leaves the body scope and, since no `else` follows, also
  -- the condition scope
  | .ifs c t => .enter :: condOps c ++ .enter :: implStmts t ++ [.leave, .leave]
  -- with `else`: the "}" of the then-branch leaves only the body scope; "else {" is an ordinary block; its "}"
  -- leaves it and (startToken->strAt(-1) == "else") the condition scope
  | .ifelse c t e => .enter :: condOps c ++ .enter :: implStmts t ++ .leave :: .enter :: implStmts e ++ [.leave, .leave]
  -- "(" followed by ") {": ONE scope for the header and the body (the "{" is the functionDeclEndToken: no enterScope)
  | .whiles c b => .enter :: condOps c ++ implStmts b ++ [.leave]
  -- "do {" is an ordinary block; "while ( c ) ;" : tokenLinkNext is ";" => no scope
  | .dowhile b c => .enter :: implStmts b ++ .leave :: useOps c
  | .fors i c s b => .enter :: forInitOps i ++ useOps c ++ useOps s ++ implStmts b ++ [.leave]
  | .enumd x init => enumOps x init
def implStmts : Stmts → List Op
  | .nil => []
  | .cons s r => implStmt s ++ implStmts r
end

def paramOps (ps : List VName) : List Op := ps.map (fun p => Op.decl p true)

/-- file scope: `scopeStack.size() <= 1` holds for file-scope declarations and for parameters (the function's "{"
has not been pushed yet), so both are `addVariable(x, true)`.
Function head: "(" with `isFunctionHead(tok, "{:;")` => enterScope; the "{" is the functionDeclEndToken (no
second scope): parameters and the outermost block of the body share one scope; "}" (or the ";" of a
declaration) leaves it. -/
def implTop : Top → List Op
  | .gdecl x init => declOps x true init
  | .func ps body => .enter :: paramOps ps ++ implStmts body ++ [.leave]
  | .proto ps => .enter :: paramOps ps ++ [.leave]
  | .genum x init => enumOps x init

def implProg : Prog → List Op
  | [] => []
  | t :: r => implTop t ++ implProg r

/-- ids of all tracked name tokens as the (repaired) code assigns them -/
def resolve (p : Prog) : List VId := run VarMap.init (implProg p)
/-- the same with the replay order of the code before the fix -/
def resolveOld (p : Prog) : List VId := runOld VarMap.init (implProg p)

/-! ## the specification: lexical scoping on the syntax tree -/

/-- result of elaborating a piece of syntax: ids of its name tokens, the declarations it ADDS to the enclosing
scope (newest first), and the next free id counter -/
structure SRes where
  out : List VId
  decls : AMap
  next : VId
  deriving Repr

/-- `env` = visible block-scope declarations, innermost/newest first; `glob` = file-scope declarations -/
def useId (env glob : AMap) : U → VId
  | .loc x => (lookup (env ++ glob) x).getD 0
  | .glob x => (lookup glob x).getD 0

def useIds (env glob : AMap) (us : List U) : List VId := us.map (useId env glob)

/-- `T x = e`: the scope of `x` starts right after its declarator (C11 6.2.1p7, C++ [basic.scope.pdecl]),
so the initialiser already sees the new `x` -/
def specDecl (env glob : AMap) (n : VId) (x : VName) (init : List U) : SRes :=
  ⟨(n + 1) :: useIds ((x, n + 1) :: env) glob init, [(x, n + 1)], n + 1⟩

def specCond (env glob : AMap) (n : VId) : Cond → SRes
  | .expr us => ⟨useIds env glob us, [], n⟩
  | .decl x init => specDecl env glob n x init

def specForInit (env glob : AMap) (n : VId) : ForInit → SRes
  | .none => ⟨[], [], n⟩
  | .expr us => ⟨useIds env glob us, [], n⟩
  | .decl x init => specDecl env glob n x init

mutual
def specStmt (env glob : AMap) (n : VId) : Stmt → SRes
  | .decl x init => specDecl env glob n x init
  | .expr us => ⟨useIds env glob us, [], n⟩
  -- a block: what it declares is invisible afterwards
  | .block b => let r := specStmts env glob n b; ⟨r.out, [], r.next⟩
  -- selection / iteration statements are blocks, and so is each of their substatements (C11 6.8.4p3, 6.8.5p5);
  -- a condition declaration (C++) is visible in all substatements
  | .ifs c t =>
    let rc := specCond env glob n c
    let rt := specStmts (rc.decls ++ env) glob rc.next t
    ⟨rc.out ++ rt.out, [], rt.next⟩
  | .ifelse c t e =>
    let rc := specCond env glob n c
    let rt := specStmts (rc.decls ++ env) glob rc.next t
    let re := specStmts (rc.decls ++ env) glob rt.next e
    ⟨rc.out ++ rt.out ++ re.out, [], re.next⟩
  | .whiles c b =>
    let rc := specCond env glob n c
    let rb := specStmts (rc.decls ++ env) glob rc.next b
    ⟨rc.out ++ rb.out, [], rb.next⟩
  | .dowhile b c =>
    let rb := specStmts env glob n b
    ⟨rb.out ++ useIds env glob c, [], rb.next⟩
  | .fors i c s b =>
    let ri := specForInit env glob n i
    let env1 := ri.decls ++ env
    let rb := specStmts env1 glob ri.next b
    ⟨ri.out ++ useIds env1 glob c ++ useIds env1 glob s ++ rb.out, [], rb.next⟩
  -- an enumerator: not a variable (its token and every later use of the name carry id 0), visible in the enclosing
  -- scope from the end of its definition on (C11 6.2.1p7), hiding any outer declaration of the name
  | .enumd x init => ⟨0 :: useIds env glob init, [(x, 0)], n⟩
def specStmts (env glob : AMap) (n : VId) : Stmts → SRes
  | .nil => ⟨[], [], n⟩
  | .cons s r =>
    let r1 := specStmt env glob n s
    let r2 := specStmts (r1.decls ++ env) glob r1.next r
    ⟨r1.out ++ r2.out, r2.decls ++ r1.decls, r2.next⟩
end

/-- parameters: declared left to right in the scope of the function body -/
def specParams (n : VId) : List VName → SRes
  | [] => ⟨[], [], n⟩
  | p :: r =>
    let r2 := specParams (n + 1) r
    ⟨(n + 1) :: r2.out, r2.decls ++ [(p, n + 1)], r2.next⟩

def specTop (glob : AMap) (n : VId) : Top → SRes
  -- a file-scope declaration adds to `glob` (returned in `decls`)
  | .gdecl x init => ⟨(n + 1) :: useIds [] ((x, n + 1) :: glob) init, [(x, n + 1)], n + 1⟩
  | .func ps body =>
    let rp := specParams n ps
    let rb := specStmts rp.decls glob rp.next body
    ⟨rp.out ++ rb.out, [], rb.next⟩
  | .proto ps => let rp := specParams n ps; ⟨rp.out, [], rp.next⟩
  | .genum x init => ⟨0 :: useIds [] glob init, [(x, 0)], n⟩

def specTops (glob : AMap) (n : VId) : Prog → List VId
  | [] => []
  | t :: r => let r1 := specTop glob n t; r1.out ++ specTops (r1.decls ++ glob) r1.next r

/-- ids of all tracked name tokens as lexical scoping assigns them -/
def specProg (p : Prog) : List VId := specTops [] 0 p

/-! ## well-formedness of `::x` uses (hypothesis of the theorem about C++ programs that use `::`) -/

def uOK (fs : List VName) : U → Bool
  | .loc _ => true
  | .glob x => fs.contains x

def usOK (fs : List VName) (us : List U) : Bool := us.all (uOK fs)

def condOK (fs : List VName) : Cond → Bool
  | .expr us => usOK fs us
  | .decl _ init => usOK fs init

def forInitOK (fs : List VName) : ForInit → Bool
  | .none => true
  | .expr us => usOK fs us
  | .decl _ init => usOK fs init

mutual
def stmtOK (fs : List VName) : Stmt → Bool
  | .decl _ init => usOK fs init
  | .expr us => usOK fs us
  | .block b => stmtsOK fs b
  | .ifs c t => condOK fs c && stmtsOK fs t
  | .ifelse c t e => condOK fs c && stmtsOK fs t && stmtsOK fs e
  | .whiles c b => condOK fs c && stmtsOK fs b
  | .dowhile b c => stmtsOK fs b && usOK fs c
  | .fors i c s b => forInitOK fs i && usOK fs c && usOK fs s && stmtsOK fs b
  | .enumd _ init => usOK fs init
def stmtsOK (fs : List VName) : Stmts → Bool
  | .nil => true
  | .cons s r => stmtOK fs s && stmtsOK fs r
end

/-- every `::x` in the program names a variable declared at file scope earlier in the text -/
def progOK : List VName → Prog → Bool
  | _, [] => true
  | fs, .gdecl x init :: r => usOK (x :: fs) init && progOK (x :: fs) r
  | fs, .func _ body :: r => stmtsOK fs body && progOK fs r
  | fs, .proto _ :: r => progOK fs r
  | fs, .genum _ init :: r => usOK fs init && progOK fs r

/-- hypothesis of `resolve_eq_spec_partial`: no enumerator of the program hides a visible variable -/
def noEnumHidesVar (p : Prog) : Bool := noVarHidden Spec.init (implProg p)

/-- number of declarations (for `ids_distinct`) -/
def countDecls : List Op → Nat
  | [] => 0
  | .decl _ _ :: r => countDecls r + 1
  | _ :: r => countDecls r

end Cppcheck.VarMap

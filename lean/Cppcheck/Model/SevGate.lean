/-
C27 — severity / certainty gates of the checks.

cppcheck has no central gate: `Check::reportError` forwards every finding.  Each check guards itself with tests of
`mSettings->severity.isEnabled(Severity::X)`, `mSettings->certainty.isEnabled(Certainty::inconclusive)`,
`mSettings->isEnabled(value, inconclusive)`, `isPremiumEnabled("id")` …  The translator (vlib/props/c27_guards.py) extracts,
for every emission site and every (severity, certainty) it can report with, a formula that is implied by "the site is executed
and reports with this severity / certainty".  This file is the formula language, its evaluation, and the decision procedures
whose soundness is proved in Proofs/SevGate.lean.

Option tests keep their real polarity: `opt a` = the test is true, `nopt a` = the test is false
(`if (mSettings->severity.isEnabled(Severity::style)) return;` leaves `nopt (enabled style)` for the rest).  A guard is monotone
in the options only if it is in the POSITIVE fragment (no reachable `nopt`): that is DECIDED per row of the regenerated table
(`Row.posOk`), it is not a property of the language.  Facts about the analysed program and about other settings are
`lit k pol` (a boolean of the environment with a polarity).
-/
namespace Cppcheck.SevGate

inductive Sev where
  | none | error | warning | style | performance | portability | information | debug | internal
  deriving DecidableEq, Repr, Inhabited

inductive Cert where
  | normal | inconclusive
  deriving DecidableEq, Repr, Inhabited

/-- severity of a site: a constant of the source, or the run-time value of the k-th severity-typed expression the
translator could not resolve (`const Severity severity = getSeverity(argInfo)`) -/
inductive SevExpr where
  | const (s : Sev)
  | sym (k : Nat)
  deriving DecidableEq, Repr, Inhabited

/-- what an option test asks for -/
inductive OptAtom where
  | enabled (e : SevExpr)      -- `settings.severity.isEnabled(e)`
  | inconclusive               -- `settings.certainty.isEnabled(Certainty::inconclusive)`
  deriving DecidableEq, Repr, Inhabited

/-- the options the property quantifies over -/
structure Opts where
  sev : Sev → Bool
  inconclusive : Bool

/-- everything else a guard may depend on: opaque booleans of the run (`lit`), values of symbolic severities -/
structure Env where
  lit : Nat → Bool
  sevOf : Nat → Sev

inductive Formula where
  | tt
  | ff
  | opt (a : OptAtom)
  | nopt (a : OptAtom)
  | lit (k : Nat) (pol : Bool)
  | and (a b : Formula)
  | or (a b : Formula)
  deriving Repr, Inhabited

def SevExpr.eval (env : Env) : SevExpr → Sev
  | .const s => s
  | .sym k => env.sevOf k

def evalAtom (o : Opts) (env : Env) : OptAtom → Bool
  | .enabled e => o.sev (e.eval env)
  | .inconclusive => o.inconclusive

def eval (o : Opts) (env : Env) : Formula → Bool
  | .tt => true
  | .ff => false
  | .opt a => evalAtom o env a
  | .nopt a => !evalAtom o env a
  | .lit k pol => env.lit k == pol
  | .and a b => eval o env a && eval o env b
  | .or a b => eval o env a || eval o env b

/-- `o ≤ o'`: every severity enabled in `o` is enabled in `o'`, and `--inconclusive` is kept -/
def Opts.le (o o' : Opts) : Prop := (∀ s, o.sev s = true → o'.sev s = true) ∧ (o.inconclusive = true → o'.inconclusive = true)

instance : LE Opts := ⟨Opts.le⟩

/-- one row of the extracted table: an emission site with one possible (severity, certainty) outcome -/
structure Row where
  idx : Nat
  file : String
  line : Nat
  fn : String
  ids : List String
  sev : SevExpr
  cert : Cert
  guard : Formula
  deriving Repr, Inhabited

def mayReport (r : Row) (o : Opts) (env : Env) : Bool := eval o env r.guard

/-- the severities the property gates (`error` is always enabled; `debug`/`internal`/`none` are not user severities) -/
def gatedSev : Sev → Bool
  | .warning | .style | .performance | .portability | .information => true
  | _ => false

/-! ### disjunctive normal form and the decision procedures -/

/-- the positive fragment: no test of an option for being disabled -/
def Formula.positive : Formula → Bool
  | .nopt _ => false
  | .and a b => a.positive && b.positive
  | .or a b => a.positive && b.positive
  | _ => true

inductive Literal where
  | opt (a : OptAtom)
  | nopt (a : OptAtom)
  | lit (k : Nat) (pol : Bool)
  deriving DecidableEq, Repr, Inhabited

def evalLit (o : Opts) (env : Env) : Literal → Bool
  | .opt a => evalAtom o env a
  | .nopt a => !evalAtom o env a
  | .lit k pol => env.lit k == pol

abbrev Conj := List Literal

def dnf : Formula → List Conj
  | .tt => [[]]
  | .ff => []
  | .opt a => [[.opt a]]
  | .nopt a => [[.nopt a]]
  | .lit k p => [[.lit k p]]
  | .and a b => (dnf a).flatMap (fun c => (dnf b).map (fun d => c ++ d))
  | .or a b => dnf a ++ dnf b

def evalDnf (o : Opts) (env : Env) (cs : List Conj) : Bool := cs.any (fun c => c.all (evalLit o env))

/-- explicit boolean equalities (cheap to evaluate in the kernel when the whole table is decided) -/
def SevExpr.beq : SevExpr → SevExpr → Bool
  | .const a, .const b => a == b
  | .sym a, .sym b => a == b
  | _, _ => false

def OptAtom.beq : OptAtom → OptAtom → Bool
  | .enabled a, .enabled b => a.beq b
  | .inconclusive, .inconclusive => true
  | _, _ => false

def hasOpt (c : Conj) (a : OptAtom) : Bool :=
  c.any (fun l => match l with | .opt b => b.beq a | _ => false)

def hasLit (c : Conj) (k : Nat) (p : Bool) : Bool :=
  c.any (fun l => match l with | .lit k' p' => k' == k && p' == p | _ => false)

def hasNopt (c : Conj) : Bool :=
  c.any (fun l => match l with | .nopt _ => true | _ => false)

/-- Settings flags (`checkLibrary`, `isPremiumEnabled("id")` with empty premiumArgs, …) are the literals `0 … nFlags-1`; the
property quantifies over `--enable` / `--inconclusive` only, every other option keeps its default, which is `false` for each of
them (the translator checks that against lib/settings.h) -/
def defaultsHold (nFlags : Nat) (env : Env) : Prop := ∀ k, k < nFlags → env.lit k = false

/-- a conjunction that no environment with the default flags satisfies -/
def dead (nFlags : Nat) (c : Conj) : Bool :=
  c.any (fun l => match l with
    | .lit k p => (p && decide (k < nFlags)) || hasLit c k (!p)
    | .nopt a => hasOpt c a
    | .opt _ => false)

/-- `f ⊨ a` for every option set and every environment with the default flags -/
def entails (D : Nat) (f : Formula) (a : OptAtom) : Bool :=
  (dnf f).all (fun c => dead D c || hasOpt c a)

/-- the command line closes `--enable=style`: it also enables warning, performance and portability -/
def Opts.cliClosed (o : Opts) : Prop :=
  o.sev .style = true → (o.sev .warning = true ∧ o.sev .performance = true ∧ o.sev .portability = true)

def impliedByStyle : OptAtom → Bool
  | .enabled (.const .warning) | .enabled (.const .performance) | .enabled (.const .portability) => true
  | _ => false

def entailsCli (D : Nat) (f : Formula) (a : OptAtom) : Bool :=
  (dnf f).all (fun c => dead D c || hasOpt c a || (impliedByStyle a && hasOpt c (.enabled (.const .style))))

/-- is the severity of the row one the property gates?  (symbolic severities: yes, whatever they evaluate to) -/
def Row.needsGate (r : Row) : Bool :=
  match r.sev with
  | .const s => gatedSev s
  | .sym _ => true

def Row.gateOk (D : Nat) (r : Row) : Bool := !r.needsGate || entails D r.guard (.enabled r.sev)
def Row.gateOkCli (D : Nat) (r : Row) : Bool := !r.needsGate || entailsCli D r.guard (.enabled r.sev)
def Row.incOk (D : Nat) (r : Row) : Bool := r.cert != .inconclusive || entails D r.guard .inconclusive

/-- the guard of the row is in the positive fragment as far as it can be satisfied at all: no live conjunction of its normal
form tests an option for being disabled.  This is what makes the row monotone — a source change that puts an emission under
`if (isEnabled(x)) return;` / in the else branch of `if (isEnabled(x))` makes it false. -/
def Row.posOk (D : Nat) (r : Row) : Bool := (dnf r.guard).all (fun c => dead D c || !hasNopt c)

/-- can the row report under `o` for SOME environment with the default flags?  (used by the correspondence: every
finding the real binary reports must be possible for some row of its id / severity / certainty) -/
def possible (D : Nat) (f : Formula) (o : Opts) : Bool :=
  (dnf f).any (fun c => !dead D c && c.all (fun l => match l with
    | .opt (.enabled (.const s)) => o.sev s
    | .opt (.enabled (.sym _)) => true
    | .opt .inconclusive => o.inconclusive
    | .nopt (.enabled (.const s)) => !o.sev s
    | .nopt (.enabled (.sym _)) => true
    | .nopt .inconclusive => !o.inconclusive
    | .lit _ _ => true))

/-! ### helpers for the generated table and the driver -/

def conj : List Formula → Formula
  | [] => .tt
  | [f] => f
  | f :: r => .and f (conj r)

def disj : List Formula → Formula
  | [] => .ff
  | [f] => f
  | f :: r => .or f (disj r)

def en (s : Sev) : Formula := .opt (.enabled (.const s))
def enSym (k : Nat) : Formula := .opt (.enabled (.sym k))
def inc : Formula := .opt .inconclusive
def nen (s : Sev) : Formula := .nopt (.enabled (.const s))
def nenSym (k : Nat) : Formula := .nopt (.enabled (.sym k))
def ninc : Formula := .nopt .inconclusive

def Sev.ofBit : Nat → Sev
  | 0 => .error | 1 => .warning | 2 => .style | 3 => .performance | 4 => .portability | 5 => .information
  | 6 => .debug | 7 => .internal | _ => .none

def Sev.bit : Sev → Nat
  | .error => 0 | .warning => 1 | .style => 2 | .performance => 3 | .portability => 4 | .information => 5
  | .debug => 6 | .internal => 7 | .none => 8

/-- option set from a bit mask (bit i = severity `Sev.ofBit i`, bit 9 = inconclusive) -/
def Opts.ofMask (m : Nat) : Opts :=
  { sev := fun s => m.testBit s.bit, inconclusive := m.testBit 9 }

/-- all severities except the one asked for (and `--inconclusive` on or off): the weakest option set for a refutation -/
def Opts.allBut (a : OptAtom) (env : Env) : Opts :=
  match a with
  | .enabled e => { sev := fun s => s != e.eval env, inconclusive := true }
  | .inconclusive => { sev := fun _ => true, inconclusive := false }

def env0 : Env := { lit := fun _ => false, sevOf := fun _ => .warning }

/-- concrete refutation of a row's gate: it may report although its own severity is disabled (env0: every flag false) -/
def Row.refutesGate (r : Row) : Bool :=
  r.needsGate && gatedSev (r.sev.eval env0) && mayReport r (Opts.allBut (.enabled r.sev) env0) env0
def Row.refutesInc (r : Row) : Bool :=
  r.cert == .inconclusive && mayReport r (Opts.allBut .inconclusive env0) env0

/-! ### value selection (ValueFlow::findValue — behind Token::getValueLE/GE, CheckStl, CheckType, two valueflow sites)

A token carries a LIST of values; an emission site asks a selector for one of them and grades / gates the finding by it.  The
selector is an option-dependent input of the guard: monotonicity of the reported findings needs the SELECTED value to be
independent of the options (select, then gate).  `findValue` copies the loop of lib/valueflow.cpp; `findValueFiltered` is the
shape in which the settings tests sit inside the loop (filter, then select). -/
namespace Select

structure Val where
  inconclusive : Bool
  condition : Bool      -- `v.condition != nullptr`
  sel : Bool            -- `pred(v)`
  tag : Nat             -- position in the list (identity of the value)
  deriving DecidableEq, Repr, Inhabited

/-- the loop: an unconditional conclusive match wins and stops; a conditional conclusive match replaces an inconclusive or
conditional one; an inconclusive match only replaces an inconclusive one -/
def selectAux (ret : Option Val) : List Val → Option Val
  | [] => ret
  | v :: rest =>
    if v.sel then
      let r := match ret with
        | none => v
        | some r => if r.inconclusive || (r.condition && !v.inconclusive) then v else r
      if !r.inconclusive && !r.condition then some r else selectAux (some r) rest
    else selectAux ret rest

def select (vs : List Val) : Option Val := selectAux none vs

/-- the two settings tests of findValue -/
def gateVal (o : Opts) (v : Val) : Bool := (!v.inconclusive || o.inconclusive) && (!v.condition || o.sev .warning)

/-- ValueFlow::findValue as it is: select with a fixed preference, THEN return nullptr if the settings disallow the value -/
def findValue (o : Opts) (vs : List Val) : Option Val := (select vs).filter (gateVal o)

/-- the other order: values the settings disallow are skipped inside the loop -/
def findValueFiltered (o : Opts) (vs : List Val) : Option Val := select (vs.filter (gateVal o))

def ofDigits (ds : List Nat) : List Val :=
  (List.range ds.length).zip ds |>.map (fun p => { inconclusive := p.2.testBit 0, condition := p.2.testBit 1, sel := p.2.testBit 2, tag := p.1 })

end Select

end Cppcheck.SevGate

/-
C21 — fault model of the process executor (cli/processexecutor.cpp, `ProcessExecutor::check`).

The parent loop is copied phase by phase:

  for (;;) {
    [spawn ]  if (files left && childFile.size() < jobs) { pipe(); fork(); rpipes.push_back; childFile[pid] = name; }
    [select]  if (!rpipes.empty()) { select(rfds); for every ready pipe: handleRead (ONE frame);
                                      handleRead == false (CHILD_END frame or EOF) => close, erase from rpipes }
    [wait  ]  if (!childFile.empty()) { child = waitpid(0, &stat, WNOHANG); if (child > 0) { childFile.erase;
                                      non-zero exit status or signal => reportInternalChildErr, ++result } }
              if (no files left && rpipes.empty() && childFile.empty()) break;
  }

A worker is the finite list of frames it writes (`body` frames followed by the CHILD_END frame carrying the
worker's result) plus an optional fault: death after `after` complete frames, optionally in the middle of the
next frame (`mid`), with a wait status (signal s | exit c).  Worker progress (`Label.worker i`) interleaves
arbitrarily with the three parent phases (`Label.parent choice`, `choice` selects which zombie `waitpid` returns),
so that every order in which the kernel can make pipes readable / children waitable is a schedule of the model.

`handleRead`: frame available => deliver it (REPORT_ERROR passes through `hasToLog`, i.e. duplicate filter;
CHILD_END adds the worker's result and closes); EOF at a frame boundary => `++result`, close; EOF inside a frame =>
the parent calls `std::exit(EXIT_FAILURE)` (`aborted`).
-/
namespace Cppcheck.ProcFaults

/-- wait status of a terminated worker -/
inductive Status where
  | exited (code : Nat)
  | signaled (sig : Nat)
  deriving DecidableEq, Repr, Inhabited

/-- `WIFEXITED && WEXITSTATUS != 0` or `WIFSIGNALED`: the cases in which `reportInternalChildErr` is called -/
def Status.isCrash : Status → Bool
  | .exited c => c != 0
  | .signaled _ => true

structure Fault where
  /-- number of complete frames written before the worker dies -/
  after : Nat
  /-- the worker dies inside the next frame (at least its type byte is in the pipe) -/
  mid : Bool
  status : Status
  deriving DecidableEq, Repr, Inhabited

/-- One worker = one file.  `body`: the frames before CHILD_END, `some x` = REPORT_ERROR carrying finding `x`
(the finding is identified with the text `hasToLog` compares), `none` = any other frame type
(REPORT_OUT / suppressions / metric / timer: no effect on findings or result). -/
structure Worker where
  file : Nat
  body : List (Option Nat)
  rc : Nat
  fault : Option Fault
  deriving DecidableEq, Repr, Inhabited

/-- frames of a complete run of the worker (body + CHILD_END) -/
def Worker.total (w : Worker) : Nat := w.body.length + 1

/-- complete frames the worker really writes -/
def Worker.limit (w : Worker) : Nat :=
  match w.fault with
  | none => w.total
  | some f => min f.after w.total

/-- a partial frame follows the complete ones -/
def Worker.partialFrame (w : Worker) : Bool :=
  match w.fault with
  | none => false
  | some f => f.mid && decide (f.after < w.total)

/-- wait status seen by `waitpid` once the worker is dead (`std::exit(EXIT_SUCCESS)` without fault) -/
def Worker.endStatus (w : Worker) : Status :=
  match w.fault with
  | none => .exited 0
  | some f => f.status

def Worker.crashed (w : Worker) : Bool := w.endStatus.isCrash

inductive Frame where
  | err (x : Nat)
  | other
  | childEnd (rc : Nat)
  deriving DecidableEq, Repr

/-- the i-th frame of the worker's stream -/
def Worker.frameAt (w : Worker) (i : Nat) : Frame :=
  match w.body[i]? with
  | some (some x) => .err x
  | some none => .other
  | none => .childEnd w.rc

/-- what the parent hands to the error logger -/
inductive Report where
  | finding (x : Nat)
  | internal (file : Nat) (st : Status)
  deriving DecidableEq, Repr, Inhabited

def Report.isInternal : Report → Bool
  | .internal _ _ => true
  | .finding _ => false

/-- `hasToLog` + `mErrorLogger.reportErr`: a message whose text was already logged is dropped -/
def addLog (r : Report) (log : List Report) : List Report :=
  if r ∈ log then log else log ++ [r]

/-- parent-side and kernel-side state of one spawned worker -/
structure Child where
  w : Worker
  /-- complete frames written into the pipe so far -/
  sent : Nat
  /-- the process has terminated (zombie until reaped) -/
  dead : Bool
  /-- frames consumed by the parent -/
  read : Nat
  /-- read end still in `rpipes` -/
  pipeOpen : Bool
  /-- pid still in `childFile` -/
  inTable : Bool
  deriving DecidableEq, Repr, Inhabited

def Child.new (w : Worker) : Child := ⟨w, 0, false, 0, true, true⟩

/-- `select` reports the pipe readable: a complete frame is buffered, or the write end is closed
(then `read` returns the partial frame's bytes or 0) -/
def Child.ready (c : Child) : Bool := decide (c.read < c.sent) || c.dead

def Child.zombie (c : Child) : Bool := c.inTable && c.dead

inductive Phase where
  | spawn | select | wait
  deriving DecidableEq, Repr, Inhabited

structure State where
  pending : List Worker
  kids : List Child
  pc : Phase
  result : Nat
  log : List Report
  /-- the parent called `std::exit(EXIT_FAILURE)` inside `handleRead` -/
  aborted : Bool
  /-- the loop was left through `break` -/
  done : Bool
  deriving DecidableEq, Repr, Inhabited

structure Config where
  jobs : Nat
  workers : List Worker
  deriving DecidableEq, Repr, Inhabited

def init (cfg : Config) : State := ⟨cfg.workers, [], .spawn, 0, [], false, false⟩

def State.final (s : State) : Bool := s.done || s.aborted

/-! ### worker side -/

def Child.workerStep (c : Child) : Child :=
  if c.dead then c
  else if c.sent < c.w.limit then { c with sent := c.sent + 1 }
  else { c with dead := true }

def workerEnabled (i : Nat) (s : State) : Bool :=
  match s.kids[i]? with
  | some c => !c.dead
  | none => false

def workerStep (i : Nat) (s : State) : State :=
  match s.kids[i]? with
  | some c => { s with kids := s.kids.set i c.workerStep }
  | none => s

/-! ### parent side -/

def tableCount (s : State) : Nat := (s.kids.filter (·.inTable)).length

def spawnEnabled (jobs : Nat) (s : State) : Bool :=
  !s.pending.isEmpty && decide (tableCount s < jobs)

def spawnStep (jobs : Nat) (s : State) : State :=
  match s.pending with
  | w :: ps =>
    if tableCount s < jobs then { s with pending := ps, kids := s.kids ++ [Child.new w], pc := .select }
    else { s with pc := .select }
  | [] => { s with pc := .select }

/-- `handleRead` on the pipe of child `i` if it is in `rpipes` and `FD_ISSET` -/
def readOne (i : Nat) (s : State) : State :=
  if s.aborted then s else
  match s.kids[i]? with
  | none => s
  | some c =>
    if c.pipeOpen && c.ready then
      if c.read < c.sent then
        match c.w.frameAt c.read with
        | .err x => { s with kids := s.kids.set i { c with read := c.read + 1 }, log := addLog (.finding x) s.log }
        | .other => { s with kids := s.kids.set i { c with read := c.read + 1 } }
        | .childEnd rc => { s with kids := s.kids.set i { c with read := c.read + 1, pipeOpen := false }, result := s.result + rc }
      else if c.w.partialFrame then { s with aborted := true }
      else { s with kids := s.kids.set i { c with pipeOpen := false }, result := s.result + 1 }
    else s

def readEnabled (s : State) : Bool := s.kids.any (fun c => c.pipeOpen && c.ready)

/-- the `for (rp = rpipes.begin(); …)` loop after `select` returned; pipes are visited in spawn order -/
def selectStep (s : State) : State :=
  let s' := (List.range s.kids.length).foldl (fun s i => readOne i s) s
  { s' with pc := .wait }

def zombieIdx (s : State) : List Nat :=
  (List.range s.kids.length).filter (fun i => match s.kids[i]? with | some c => c.zombie | none => false)

def reapEnabled (s : State) : Bool := s.kids.any (·.zombie)

/-- `waitpid(0, &stat, WNOHANG)` returned child `i` -/
def reapOne (i : Nat) (s : State) : State :=
  match s.kids[i]? with
  | none => s
  | some c =>
    let kids := s.kids.set i { c with inTable := false }
    if c.w.endStatus.isCrash then
      { s with kids := kids, log := addLog (.internal c.w.file c.w.endStatus) s.log, result := s.result + 1 }
    else { s with kids := kids }

def finishEnabled (s : State) : Bool :=
  s.pending.isEmpty && s.kids.all (fun c => !c.pipeOpen && !c.inTable)

def waitStep (choice : Nat) (s : State) : State :=
  let zs := zombieIdx s
  let s1 := match zs[choice % zs.length]? with
    | some i => reapOne i s
    | none => s
  if finishEnabled s1 then { s1 with done := true, pc := .spawn } else { s1 with pc := .spawn }

def parentStep (jobs : Nat) (choice : Nat) (s : State) : State :=
  match s.pc with
  | .spawn => spawnStep jobs s
  | .select => selectStep s
  | .wait => waitStep choice s

inductive Label where
  | parent (choice : Nat)
  | worker (i : Nat)
  deriving DecidableEq, Repr, Inhabited

def step (jobs : Nat) (l : Label) (s : State) : State :=
  if s.final then s else
  match l with
  | .parent ch => parentStep jobs ch s
  | .worker i => workerStep i s

/-- state after the first `n` labels of the schedule -/
def run (cfg : Config) (σ : Nat → Label) : Nat → State
  | 0 => init cfg
  | n + 1 => step cfg.jobs (σ n) (run cfg σ n)

def runList (jobs : Nat) : List Label → State → State
  | [], s => s
  | l :: ls, s => runList jobs ls (step jobs l s)

/-! ### closed form of the outcome (what `contained` proves every final state equals) -/

def Worker.findingsUpTo (w : Worker) (n : Nat) : List Nat := (w.body.take n).filterMap id

/-- findings of the worker that reach the parent -/
def Worker.delivered (w : Worker) : List Nat := w.findingsUpTo w.limit

def Worker.reports (w : Worker) : List Report :=
  w.delivered.map .finding ++ (if w.crashed then [.internal w.file w.endStatus] else [])

def expectedReports (cfg : Config) : List Report := cfg.workers.flatMap Worker.reports

/-- CHILD_END delivered => the worker's own result, otherwise the `++result` of the EOF branch; plus the
`++result` of the `waitpid` branch for a non-zero exit status / signal -/
def Worker.contribution (w : Worker) : Nat :=
  (if w.limit = w.total then w.rc else 1) + (if w.crashed then 1 else 0)

def expectedResult (cfg : Config) : Nat := (cfg.workers.map Worker.contribution).sum

def faultFree (cfg : Config) : Config :=
  { cfg with workers := cfg.workers.map (fun w => { w with fault := none }) }

/-- `CppCheckExecutor::check_internal`: `if (returnValue) return settings.exitCode; return EXIT_SUCCESS;`
(an aborted parent leaves through `std::exit(EXIT_FAILURE)`) -/
def exitStatus (exitCode : Nat) (s : State) : Nat :=
  if s.aborted then 1 else if s.result != 0 then exitCode else 0

/-- the property's own granularity: workers die only at frame boundaries -/
def noMidFrame (cfg : Config) : Bool := cfg.workers.all (fun w => !w.partialFrame)

/-- round-robin schedule: parent, worker 0, …, worker n-1, parent, … (`choice` = turn number) -/
def roundRobin (nworkers : Nat) (t : Nat) : Label :=
  if t % (nworkers + 1) = 0 then .parent t else .worker (t % (nworkers + 1) - 1)

/-! ### the loop as it was before the `fix:` commit "count a crashed child in the result"
(`waitpid` branch reported the internal error without `++result`); kept for the counterexample theorem -/

def reapOneLegacy (i : Nat) (s : State) : State :=
  match s.kids[i]? with
  | none => s
  | some c =>
    let kids := s.kids.set i { c with inTable := false }
    if c.w.endStatus.isCrash then { s with kids := kids, log := addLog (.internal c.w.file c.w.endStatus) s.log }
    else { s with kids := kids }

def waitStepLegacy (choice : Nat) (s : State) : State :=
  let zs := zombieIdx s
  let s1 := match zs[choice % zs.length]? with
    | some i => reapOneLegacy i s
    | none => s
  if finishEnabled s1 then { s1 with done := true, pc := .spawn } else { s1 with pc := .spawn }

def stepLegacy (jobs : Nat) (l : Label) (s : State) : State :=
  if s.final then s else
  match l with
  | .parent ch => (match s.pc with
    | .spawn => spawnStep jobs s
    | .select => selectStep s
    | .wait => waitStepLegacy ch s)
  | .worker i => workerStep i s

def runListLegacy (jobs : Nat) : List Label → State → State
  | [], s => s
  | l :: ls, s => runListLegacy jobs ls (stepLegacy jobs l s)

end Cppcheck.ProcFaults

/-
C10 / C01 — 64-bit representation helpers and the model of
  * `ValueFlow::truncateIntValue`   (lib/vf_common.cpp)  — bit-mask definition, copied
  * `ValueFlow::getMinMaxValues`    (lib/vf_common.cpp)  — incl. the `bits < 62 / == 64` cases
  * the integer/char-literal branch of `ValueFlow::valueFlowSetConstantValue` together with the
    "skip values that are too big" guard at the head of `setTokenValue`.
`MathLib::bigint` is `long long`, `biguint` is `unsigned long long`; a bigint is modelled as an `Int` in
[-2^63, 2^63), a biguint as a `Nat` below 2^64.
-/
namespace Cppcheck.Trunc

/-- bit pattern of a bigint (conversion `bigint → biguint`) -/
def toU64 (v : Int) : Nat := (v % 2 ^ 64).toNat

/-- value of a 64-bit pattern read as bigint (conversion `biguint → bigint`, two's complement) -/
def toI64 (n : Nat) : Int := if n % 2 ^ 64 < 2 ^ 63 then ((n % 2 ^ 64 : Nat) : Int) else ((n % 2 ^ 64 : Nat) : Int) - 2 ^ 64

/-- `truncateIntValue(value, value_size, dst_sign)`; `none` = the shift count `(8 - value_size) * 8` underflows
    (value_size > 8: undefined behaviour in the C++, never called that way by the harness) -/
def truncateIntValue (value : Int) (size : Nat) (signed : Bool) : Option Int :=
  if size = 0 then some value
  else if size > 8 then none
  else
    let unsignedMaxValue : Nat := (2 ^ 64 - 1) >>> ((8 - size) * 8)
    let signBit : Nat := 1 <<< (size * 8 - 1)
    let v : Nat := toU64 value &&& unsignedMaxValue
    let v : Nat := if signed && (v &&& signBit) != 0 then v ||| (2 ^ 64 - 1 - unsignedMaxValue) else v
    some (toI64 v)

/-- `getMinMaxValues` after the switch on the type: `bits` is the platform's bit count of the type -/
def getMinMaxValues (bits : Nat) (unsigned : Bool) : Option (Int × Int) :=
  if bits = 1 then some (0, 1)
  else if bits < 62 then
    if unsigned then some (0, 2 ^ bits - 1)
    else some (-(2 ^ (bits - 1)), 2 ^ (bits - 1) - 1)
  else if bits = 64 then
    if unsigned then some (0, 2 ^ 63 - 1)      -- "todo max unsigned value"
    else some (-(2 ^ 63), 2 ^ 63 - 1)
  else none

/-- 731a3b3: `characterLiteralToLL` values an ordinary one-character literal (`tok->isCChar()`) with the char of the
    host; `valueFlowSetConstantValue` re-reads it with the signedness of the analysed platform.
    `charSign`: `some true` = defaultSign 'u', `some false` = 's', `none` = unspecified;
    `unsignedCharMax() + 1 = 2^charBit`, `signedCharMax() = 2^(charBit-1) - 1`. -/
def charAdjust (v : Int) (cchar : Bool) (charSign : Option Bool) (charBit : Nat) : Int :=
  if cchar then
    match charSign with
    | some true => if v < 0 then v + 2 ^ charBit else v
    | some false => if v > 2 ^ (charBit - 1) - 1 then v - 2 ^ charBit else v
    | none => v
  else v

/-- integer/char literal branch of `valueFlowSetConstantValue` + guard of `setTokenValue`:
    `signedValue` = result of `toBigNumber`, `cchar`/`charSign`/`charBit` see `charAdjust`,
    `unsigned` = (vt->sign == UNSIGNED), `size` = vt->getSizeOf,
    `bits` = bit count `getMinMaxValues` finds for the type (`none`: not an integral non-pointer type).
    Result `none`: no value is attached to the token. -/
def constValue (signedValue : Int) (cchar : Bool) (charSign : Option Bool) (charBit : Nat)
    (unsigned : Bool) (size : Nat) (bits : Option Nat) : Option Int :=
  let signedValue := charAdjust signedValue cchar charSign charBit
  let v :=
    if unsigned && signedValue < 0 && size < 8 then
      match bits.bind (getMinMaxValues · true) with
      | some (_, mx) => toI64 (toU64 (signedValue + (mx + 1)))
      | none => signedValue
    else signedValue
  -- setTokenValue: "Skip setting values that are too big since its ambiguous"
  if v < 0 && unsigned && size ≥ 8 then none else some v

/-- the C conversion of a mathematical integer to an integer type of `bits` bits -/
def wrapC (bits : Nat) (signed : Bool) (v : Int) : Int :=
  if signed then Int.bmod v (2 ^ bits) else v % ((2 ^ bits : Nat) : Int)

/-- the value range of a C integer type of `bits` bits -/
def cRange (bits : Nat) (unsigned : Bool) : Int × Int :=
  if unsigned then (0, 2 ^ bits - 1) else (-(2 ^ (bits - 1)), 2 ^ (bits - 1) - 1)

end Cppcheck.Trunc

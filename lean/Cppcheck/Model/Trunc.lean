/-
C10 / C01 — 64-bit representation helpers and the model of
  * `ValueFlow::truncateIntValue`   (lib/vf_common.cpp)  — bit-mask definition, copied
  * `ValueFlow::getMinMaxValues`    (lib/vf_common.cpp)  — incl. the `bits < 62 / == 64` cases
  * the integer/char-literal branch of `ValueFlow::valueFlowSetConstantValue` together with the
    "skip values that are too big" guard at the head of `setTokenValue`.
`MathLib::bigint` is `long long`, `biguint` is `unsigned long long`; a bigint is modelled as an `Int` in
[-2^63, 2^63), a biguint as a `Nat` below 2^64.
-/
namespace Cppcheck.Trunc

/-- bit pattern of a bigint (conversion `bigint → biguint`) -/
def toU64 (v : Int) : Nat := (v % 2 ^ 64).toNat

/-- value of a 64-bit pattern read as bigint (conversion `biguint → bigint`, two's complement) -/
def toI64 (n : Nat) : Int := if n % 2 ^ 64 < 2 ^ 63 then ((n % 2 ^ 64 : Nat) : Int) else ((n % 2 ^ 64 : Nat) : Int) - 2 ^ 64

/-- `truncateIntValue(value, value_size, dst_sign)`; `none` = the shift count `(8 - value_size) * 8` underflows
    (value_size > 8: undefined behaviour in the C++, never called that way by the harness) -/
def truncateIntValue (value : Int) (size : Nat) (signed : Bool) : Option Int :=
  if size = 0 then some value
  else if size > 8 then none
  else
    let unsignedMaxValue : Nat := (2 ^ 64 - 1) >>> ((8 - size) * 8)
    let signBit : Nat := 1 <<< (size * 8 - 1)
    let v : Nat := toU64 value &&& unsignedMaxValue
    let v : Nat := if signed && (v &&& signBit) != 0 then v ||| (2 ^ 64 - 1 - unsignedMaxValue) else v
    some (toI64 v)

/-- `getMinMaxValues` after the switch on the type: `bits` is the platform's bit count of the type -/
def getMinMaxValues (bits : Nat) (unsigned : Bool) : Option (Int × Int) :=
  if bits = 1 then some (0, 1)
  else if bits < 62 then
    if unsigned then some (0, 2 ^ bits - 1)
    else some (-(2 ^ (bits - 1)), 2 ^ (bits - 1) - 1)
  else if bits = 64 then
    if unsigned then some (0, 2 ^ 63 - 1)      -- "todo max unsigned value"
    else some (-(2 ^ 63), 2 ^ 63 - 1)
  else none

/-- 731a3b3: `characterLiteralToLL` values an ordinary one-character literal (`tok->isCChar()`) with the char of the
    host; `valueFlowSetConstantValue` re-reads it with the signedness of the analysed platform.
    `charSign`: `some true` = defaultSign 'u', `some false` = 's', `none` = unspecified;
    `unsignedCharMax() + 1 = 2^charBit`, `signedCharMax() = 2^(charBit-1) - 1`. -/
def charAdjust (v : Int) (cchar : Bool) (charSign : Option Bool) (charBit : Nat) : Int :=
  if cchar then
    match charSign with
    | some true => if v < 0 then v + 2 ^ charBit else v
    | some false => if v > 2 ^ (charBit - 1) - 1 then v - 2 ^ charBit else v
    | none => v
  else v

/-- integer/char literal branch of `valueFlowSetConstantValue` + guard of `setTokenValue`:
    `signedValue` = result of `toBigNumber`, `cchar`/`charSign`/`charBit` see `charAdjust`,
    `unsigned` = (vt->sign == UNSIGNED), `size` = vt->getSizeOf,
    `bits` = bit count `getMinMaxValues` finds for the type (`none`: not an integral non-pointer type).
    Result `none`: no value is attached to the token. -/
def constValue (signedValue : Int) (cchar : Bool) (charSign : Option Bool) (charBit : Nat)
    (unsigned : Bool) (size : Nat) (bits : Option Nat) : Option Int :=
  let signedValue := charAdjust signedValue cchar charSign charBit
  let v :=
    if unsigned && signedValue < 0 && size < 8 then
      match bits.bind (getMinMaxValues · true) with
      | some (_, mx) => toI64 (toU64 (signedValue + (mx + 1)))
      | none => signedValue
    else signedValue
  -- setTokenValue: "Skip setting values that are too big since its ambiguous"
  if v < 0 && unsigned && size ≥ 8 then none else some v

/-- the C conversion of a mathematical integer to an integer type of `bits` bits -/
def wrapC (bits : Nat) (signed : Bool) (v : Int) : Int :=
  if signed then Int.bmod v (2 ^ bits) else v % ((2 ^ bits : Nat) : Int)

/-- the value range of a C integer type of `bits` bits -/
def cRange (bits : Nat) (unsigned : Bool) : Int × Int :=
  if unsigned then (0, 2 ^ bits - 1) else (-(2 ^ (bits - 1)), 2 ^ (bits - 1) - 1)

/-- integer part of `ValueFlow::castValue(value, sign, bit)` (lib/vf_common.cpp): for `bit < 64` the value is masked to
    `bit` bits and, for `sign == SIGNED` only, sign-extended; `bit ≥ 64` leaves it alone.  `setTokenValueCast` calls it with
    `char_bit / short_bit / int_bit / long_bit / long_long_bit` for a cast to CHAR / SHORT / INT / LONG / LONGLONG and the sign
    of the cast's `ValueType` (a cast to plain `char` carries no sign: `signed = false`). -/
def castValue (v : Int) (signed : Bool) (bit : Nat) : Int :=
  if bit < 64 then
    let mask : Nat := 2 ^ bit - 1
    let x : Nat := toU64 v &&& mask
    let x : Nat := if signed && (x &&& 2 ^ (bit - 1)) != 0 then x ||| (2 ^ 64 - 1 - mask) else x
    toI64 x
  else v

/-! ## Folding of the unary operators `!  ~  -` on a known operand value (`setTokenValue`, lib/vf_settokenvalue.cpp)

Copied branch by branch.  The operand is described as the code sees it: its `ValueType` (sign, type, not a pointer) and the
platform's `int_bit` / `long_bit`.  Unary `+` has no branch: no value reaches the operator token. -/

/-- `ValueType::Type` of an integral operand -/
inductive ITy | bool | char | short | int | long | longlong
  deriving DecidableEq, Repr, Inhabited

inductive UnOp | lnot | bnot | neg | plus
  deriving DecidableEq, Repr, Inhabited

/-- the value `setTokenValue` computes for the operator token from the operand value `v` (a bigint):
    * `!`: `v.intvalue = !v.intvalue`
    * `~`: `v.intvalue = ~v.intvalue`, then masked with `(1ULL<<bits)-1` where `bits` is `int_bit` for an operand of type
           `unsigned int`, `long_bit` for `unsigned long`, and 0 (no mask) for every other operand type; the mask is
           applied only if `0 < bits < 64`
    * `-`: `LLONG_MIN` is skipped, otherwise `-v`
    `none`: no value is set. -/
def foldUnary (op : UnOp) (v : Int) (opUnsigned : Bool) (opTy : ITy) (intBit longBit : Nat) : Option Int :=
  match op with
  | .lnot => some (if v = 0 then 1 else 0)
  | .bnot =>
    let r : Int := -v - 1                                       -- ~ on a 64-bit two's complement value
    let bits : Nat :=
      if opUnsigned then (if opTy = .int then intBit else if opTy = .long then longBit else 0) else 0
    if 0 < bits ∧ bits < 64 then some (toI64 (toU64 r &&& (2 ^ bits - 1))) else some r
  | .neg => if v = -(2 ^ 63) then none else some (-v)
  | .plus => none

/-- the head of `setTokenValue` for the operator token: a negative value on a token of unsigned type of at least 8 bytes
    is dropped -/
def setGuard (v : Option Int) (tokUnsigned : Bool) (tokSize : Nat) : Option Int :=
  match v with
  | some x => if x < 0 && tokUnsigned && tokSize ≥ 8 then none else some x
  | none => none

/-- the `*_bit` members of `Platform` -/
structure IntShape where
  charBit : Nat
  shortBit : Nat
  intBit : Nat
  longBit : Nat
  llongBit : Nat
  deriving DecidableEq, Repr, Inhabited

def IntShape.bits (s : IntShape) : ITy → Nat
  | .bool => 1 | .char => s.charBit | .short => s.shortBit | .int => s.intBit | .long => s.longBit | .longlong => s.llongBit

/-- every platform shape the C standard admits within cppcheck's 64-bit bigint -/
def IntShape.sane (s : IntShape) : Bool :=
  decide (8 ≤ s.charBit) && decide (s.charBit < s.intBit) && decide (s.charBit ≤ s.shortBit) && decide (s.shortBit ≤ s.intBit) &&
  decide (s.intBit ≤ s.longBit) && decide (s.longBit ≤ s.llongBit) && decide (s.llongBit ≤ 64)

/-! ### Specification: C17 6.3.1.1p2 (integer promotions) and 6.5.3.3 -/

/-- promoted type (bits, unsigned) of an operand of `bits` bits: a type narrower than `int` becomes `int`; a type of the
    width of `int` or more keeps width and signedness (for `unsigned short` as wide as `int` that is `unsigned int`) -/
def promote (opBits : Nat) (opUnsigned : Bool) (intBit : Nat) : Nat × Bool :=
  if opBits < intBit then (intBit, false) else (opBits, opUnsigned)

/-- value of `op x` for `x` of value `v`; the operator is applied in the promoted type -/
def cUnary (op : UnOp) (v : Int) (opBits : Nat) (opUnsigned : Bool) (intBit : Nat) : Int :=
  let (b, u) := promote opBits opUnsigned intBit
  match op with
  | .lnot => if v = 0 then 1 else 0
  | .bnot => if u then 2 ^ b - 1 - v else -v - 1
  | .neg => if u then (2 ^ b - v) % 2 ^ b else -v
  | .plus => v

/-- `v` is a value of the type -/
def inType (v : Int) (bits : Nat) (unsigned : Bool) : Bool :=
  if unsigned then decide (0 ≤ v) && decide (v < 2 ^ bits) else decide (-(2 ^ (bits - 1)) ≤ v) && decide (v < 2 ^ (bits - 1))

/-- `v` is a value an operand of this type can have (`bool`: 0 or 1; cppcheck gives `bool` no sign) -/
def inOperand (v : Int) (s : IntShape) (ty : ITy) (unsigned : Bool) : Bool :=
  if ty = .bool then (v == 0 || v == 1) && !unsigned else inType v (s.bits ty) unsigned

end Cppcheck.Trunc

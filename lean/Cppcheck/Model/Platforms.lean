/-
C10 / C09 — platform record (the fields of `class Platform`, lib/platform.h), the scalar part of
`ValueType::getSizeOf` (lib/symboldatabase.cpp) and the reference data models the built-in platforms are
compared with.  The table of platforms itself is NOT written here: it is extracted from
`Platform::set` (lib/platform.cpp) and platforms/*.xml on every run into `Cppcheck/Gen/Platforms.lean`.
-/
namespace Cppcheck.Platforms

structure Platform where
  name : String
  charBit : Nat
  sizeofBool : Nat
  sizeofShort : Nat
  sizeofInt : Nat
  sizeofLong : Nat
  sizeofLongLong : Nat
  sizeofFloat : Nat
  sizeofDouble : Nat
  sizeofLongDouble : Nat
  sizeofWchar : Nat
  sizeofSizeT : Nat
  sizeofPointer : Nat
  /-- `defaultSign`: 's', 'u' -/
  charUnsigned : Bool
  windows : Bool
  deriving DecidableEq, Repr, Inhabited

/-- `ValueType::Type` restricted to the scalar types `getSizeOf` answers from the platform -/
inductive CType
  | bool | char | short | wchar | int | long | longlong | float | double | longdouble | pointer
  deriving DecidableEq, Repr, Inhabited

def CType.all : List CType := [.bool, .char, .short, .wchar, .int, .long, .longlong, .float, .double, .longdouble, .pointer]
def CType.ints : List CType := [.char, .short, .int, .long, .longlong]

/-- scalar part of `ValueType::getSizeOf` (note: BOOL and CHAR are the constant 1, `sizeof_bool` is not consulted) -/
def sizeOf (p : Platform) : CType → Nat
  | .bool => 1
  | .char => 1
  | .short => p.sizeofShort
  | .wchar => p.sizeofWchar
  | .int => p.sizeofInt
  | .long => p.sizeofLong
  | .longlong => p.sizeofLongLong
  | .float => p.sizeofFloat
  | .double => p.sizeofDouble
  | .longdouble => p.sizeofLongDouble
  | .pointer => p.sizeofPointer

/-- `Platform::calculateBitMembers` / the switch of `getMinMaxValues`: bit count of an integer type -/
def bitsOf (p : Platform) : CType → Option Nat
  | .bool => some 1
  | .char => some p.charBit
  | .short => some (p.charBit * p.sizeofShort)
  | .int => some (p.charBit * p.sizeofInt)
  | .long => some (p.charBit * p.sizeofLong)
  | .longlong => some (p.charBit * p.sizeofLongLong)
  | _ => none

/-! ## Reference data models (ISO C leaves them open; these are the ABI documents' tables:
System V i386 / x86-64 psABI, Microsoft x86 / x64 ABI).  Validated against gcc -m32, gcc -m64 and
clang --target=…-windows-msvc in the thorough tier. -/

structure DataModel where
  short : Nat
  int : Nat
  long : Nat
  longlong : Nat
  pointer : Nat
  sizeT : Nat
  wchar : Nat
  float : Nat
  double : Nat
  longdouble : Nat
  charUnsigned : Bool
  deriving DecidableEq, Repr

def ilp32SysV : DataModel := ⟨2, 4, 4, 8, 4, 4, 4, 4, 8, 12, false⟩
def lp64SysV : DataModel := ⟨2, 4, 8, 8, 8, 8, 4, 4, 8, 16, false⟩
def ilp32Win : DataModel := ⟨2, 4, 4, 8, 4, 4, 2, 4, 8, 8, false⟩
def llp64Win : DataModel := ⟨2, 4, 4, 8, 8, 8, 2, 4, 8, 8, false⟩

def referenceModel : String → Option DataModel
  | "unix32" => some ilp32SysV
  | "unix64" => some lp64SysV
  | "win32A" => some ilp32Win
  | "win32W" => some ilp32Win
  | "win64" => some llp64Win
  | _ => none

def Platform.dataModel (p : Platform) : DataModel :=
  ⟨p.sizeofShort, p.sizeofInt, p.sizeofLong, p.sizeofLongLong, p.sizeofPointer, p.sizeofSizeT, p.sizeofWchar,
   p.sizeofFloat, p.sizeofDouble, p.sizeofLongDouble, p.charUnsigned⟩

/-- what the rest of the C10 model needs from any platform: 8-bit bytes, integer sizes that are powers of two
    up to 8 (so that `truncateIntValue` is defined and `getMinMaxValues` answers), non-decreasing ranks -/
def Platform.sane (p : Platform) : Bool :=
  p.charBit == 8 &&
  [p.sizeofShort, p.sizeofInt, p.sizeofLong, p.sizeofLongLong, p.sizeofWchar, p.sizeofSizeT, p.sizeofPointer].all
    (fun n => n == 1 || n == 2 || n == 4 || n == 8) &&
  decide (2 ≤ p.sizeofShort) && decide (p.sizeofShort ≤ p.sizeofInt) && decide (p.sizeofInt ≤ p.sizeofLong) &&
  decide (p.sizeofLong ≤ p.sizeofLongLong) && decide (4 ≤ p.sizeofLong)

end Cppcheck.Platforms

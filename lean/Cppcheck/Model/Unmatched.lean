/-
C24 — the checked/matched bookkeeping of `SuppressionList` and the unmatchedSuppression report.

Copied statement for statement from
  lib/suppressions.cpp      SuppressionList::addSuppression, updateSuppressionState, Suppression::isMatch,
                            SuppressionList::isSuppressed / isSuppressedExplicitly,
                            markUnmatchedInlineSuppressionsAsChecked,
                            getUnmatchedLocalSuppressions / getUnmatchedGlobalSuppressions / getUnmatchedInlineSuppressions
  cli/cppcheckexecutor.cpp  getUnmatchedSuppressions (static), CppCheckExecutor::reportUnmatchedSuppressions
  cli/processexecutor.cpp   PipeWriter::writeSuppr / suppressionToString, ProcessExecutor::handleRead (REPORT_SUPPR*)
  cli/threadexecutor.cpp    ThreadData::check (state propagation loop)
  lib/cppcheck.cpp          CppCheck::check: the dummy isSuppressed call with an empty error id

Parameters (the harness reports the real code's answers; C23 owns their models):
  * `Suppression::isSuppressed(errmsg)`  — the pure None/Checked/Matched verdict of one suppression on one message,
  * `PathMatch::match(s.fileName, file)`, `matchglob(filter, s.errorId)`, `isValidGlobPattern`.
-/
import Cppcheck.Model.Wire
namespace Cppcheck.Unmatched
open Cppcheck.Wire (Str)


inductive SType | unique | file | block | blockBegin | blockEnd | macro
deriving DecidableEq, Repr

/-- `Suppression::Result` -/
inductive Res | none | checked | matched
deriving DecidableEq, Repr

def noLine : Int := -1

/-- the fields of `SuppressionList::Suppression` the bookkeeping reads -/
structure Suppr where
  errorId : Str
  fileName : Str
  lineNumber : Int
  symbolName : Str
  macroName : Str
  hash : Nat
  thisAndNextLine : Bool
  type : SType
  lineBegin : Int
  lineEnd : Int
  column : Nat
  isInline : Bool
  isPolyspace : Bool
  checked : Bool
  matched : Bool
deriving DecidableEq, Repr

abbrev State := List Suppr

def Suppr.isWildcard (s : Suppr) : Bool := s.fileName.any (fun c => c == '?' || c == '*')
def Suppr.isLocal (s : Suppr) : Bool := !s.fileName.isEmpty && !s.isWildcard

/-- `Suppression::isSameParameters` (f569efa: also the type, the block lines and the macro name) -/
def sameParams (a b : Suppr) : Bool :=
  a.errorId == b.errorId && a.fileName == b.fileName && a.lineNumber == b.lineNumber &&
  a.symbolName == b.symbolName && a.hash == b.hash && a.thisAndNextLine == b.thisAndNextLine &&
  a.type == b.type && a.lineBegin == b.lineBegin && a.lineEnd == b.lineEnd && a.macroName == b.macroName

def isAlnum (c : Char) : Bool :=
  ('0' ≤ c && c ≤ '9') || ('a' ≤ c && c ≤ 'z') || ('A' ≤ c && c ≤ 'Z')

/-- `isAcceptedErrorIdChar` (bytes ≥ 128 are negative `char`s: rejected) -/
def acceptedIdChar (c : Char) : Bool :=
  c == '_' || c == '-' || c == '.' || c == '*' || isAlnum c

def idCharsOk (id : Str) : Bool :=
  id.all acceptedIdChar && (match id with | c :: _ => !('0' ≤ c && c ≤ '9') | [] => true)

inductive AddResult | ok | «exists» | noId | invalidId | invalidGlob
deriving DecidableEq, Repr

/-- `SuppressionList::addSuppression`; `globsOk` = isValidGlobPattern(errorId) ∧ isValidGlobPattern(fileName) -/
def addSuppression (globsOk : Bool) (s : Suppr) (st : State) : State × AddResult :=
  if st.any (sameParams s) then (st, .exists)
  else if s.errorId.isEmpty && s.hash == 0 then (st, .noId)
  else if !idCharsOk s.errorId then (st, .invalidId)
  else if !globsOk then (st, .invalidGlob)
  else (st ++ [s], .ok)

/-- `SuppressionList::updateSuppressionState`: the first entry with the same parameters absorbs the flags -/
def updateState (s : Suppr) : State → State × Bool
  | [] => ([], false)
  | t :: r =>
    if sameParams s t then ({ t with checked := t.checked || s.checked, matched := t.matched || s.matched } :: r, true)
    else let (r', b) := updateState s r; (t :: r', b)

/-- `Suppression::isMatch` given the pure verdict -/
def applyRes (s : Suppr) : Res → Suppr × Bool
  | .none => (s, false)
  | .checked => ({ s with checked := true }, false)
  | .matched => ({ s with checked := true, matched := true }, true)

def unmatchedId : Str := "unmatchedSuppression".toList

/-- which entries one `isSuppressed(errmsg, global)` call looks at -/
def eligible (global : Bool) (emId : Str) (s : Suppr) : Bool :=
  (global || s.isLocal) && (emId != unmatchedId || s.errorId == emId)

/-- `SuppressionList::isSuppressed(errmsg, global)`; `rs` = the verdicts of the entries, in list order -/
def isSuppressedWith (global : Bool) (emId : Str) : State → List Res → State × Bool
  | [], _ => ([], false)
  | s :: r, rs =>
    let v := rs.headD .none
    let (r', b) := isSuppressedWith global emId r rs.tail
    if eligible global emId s then
      let (s', m) := applyRes s v
      (s' :: r', m || b)
    else (s :: r', b)

/-- `SuppressionList::isSuppressedExplicitly`: textually equal id, returns at the first match -/
def isSuppressedExplicitlyWith (global : Bool) (emId : Str) : State → List Res → State × Bool
  | [], _ => ([], false)
  | s :: r, rs =>
    let v := rs.headD .none
    if (global || s.isLocal) && s.errorId == emId then
      let (s', m) := applyRes s v
      if m then (s' :: r, true)
      else let (r', b) := isSuppressedExplicitlyWith global emId r rs.tail; (s' :: r', b)
    else let (r', b) := isSuppressedExplicitlyWith global emId r rs.tail; (s :: r', b)

/-- one (file, line) of the token stream in `markUnmatchedInlineSuppressionsAsChecked` -/
def markOne (file : Str) (line : Int) (s : Suppr) : Suppr :=
  match s.type with
  | .unique => if !s.checked && s.lineNumber == line && s.fileName == file then { s with checked := true } else s
  | .block => if !s.checked && s.lineBegin ≤ line && s.lineEnd ≥ line && s.fileName == file then { s with checked := true } else s
  | _ => if !s.checked && s.fileName == file then { s with checked := true } else s

def mark (locs : List (Str × Int)) (st : State) : State :=
  locs.foldl (fun st l => st.map (markOne l.1 l.2)) st

/-- the loop of `markUnmatchedInlineSuppressionsAsChecked` over the token stream, with its `currFileIdx` / `currLineNr`
    variables: a token is looked at iff its (file, line) position differs from the previous token's (file OR line changed) -/
def markStream : Option (Str × Int) → List (Str × Int) → State → State
  | _, [], st => st
  | cur, l :: r, st =>
    if cur == some l then markStream cur r st
    else markStream (some l) r (st.map (markOne l.1 l.2))

def checkersReportId : Str := "checkersReport".toList

/-- `getUnmatchedLocalSuppressions(file)`; `pm` = PathMatch::match(s.fileName, file.spath()) per entry -/
def unmatchedLocal (pm : Suppr → Bool) (st : State) : List Suppr :=
  st.filter fun s =>
    !s.isInline && !s.matched && !(s.lineNumber != noLine && !s.checked) && s.type != .macro && !(s.hash > 0) &&
    s.errorId != checkersReportId && s.isLocal && pm s

/-- `getUnmatchedGlobalSuppressions` -/
def unmatchedGlobal (st : State) : List Suppr :=
  st.filter fun s =>
    !s.isInline && !s.matched && !(!s.checked && s.isWildcard) && !(s.hash > 0) && s.errorId != checkersReportId && !s.isLocal

/-- `getUnmatchedInlineSuppressions` -/
def unmatchedInline (st : State) : List Suppr :=
  st.filter fun s => s.isInline && s.checked && !s.matched && !(s.hash > 0)

def starStr : Str := ['*']

/-- inner loop of the static `getUnmatchedSuppressions`: some entry of the same list suppresses the report of `s` -/
def selfSuppressed (l : List Suppr) (s : Suppr) : Bool :=
  l.any fun s2 =>
    s2.errorId == unmatchedId && (s2.fileName.isEmpty || s2.fileName == starStr || s2.fileName == s.fileName) &&
    (s2.lineNumber == noLine || s2.lineNumber == s.lineNumber)

/-- `getUnmatchedSuppressions(unmatched, filters)`; `filt s` = some filter glob matches s.errorId -/
def toReport (filt : Suppr → Bool) (l : List Suppr) : List Suppr :=
  l.filter fun s => !selfSuppressed l s && !filt s

/-- the copy `supprlist` built by `reportUnmatchedSuppressions` (every entry passed the glob test before) -/
def recopy (st : State) : State := st.foldl (fun acc s => (addSuppression true s acc).1) []

/-- `reportUnmatchedSuppressions`: the suppressions for which an unmatchedSuppression message is emitted, in order.
    `files` are opaque file identities, `pm f s` = PathMatch::match(s.fileName, path of f) -/
def report {F : Type} (files : List F) (pm : F → Suppr → Bool) (inlineSuppr : Bool) (filt : Suppr → Bool) (st : State) : List Suppr :=
  if st.any (fun s => s.errorId == unmatchedId && (s.fileName.isEmpty || s.fileName == starStr) && s.lineNumber == noLine) then []
  else
    let c := recopy st
    files.flatMap (fun f => toReport filt (unmatchedLocal (pm f) c)) ++
    (if inlineSuppr then toReport filt (unmatchedInline c) else []) ++
    toReport filt (unmatchedGlobal c)

/-- the message of one reported suppression: (id is unmatchedPolyspaceSuppression, error id named, file, line, column) -/
def message (s : Suppr) : Bool × Str × Str × Int × Nat :=
  (s.isPolyspace, s.errorId, s.fileName, if s.lineNumber == noLine then 0 else s.lineNumber, if s.fileName.isEmpty then 0 else s.column)

/- ---- executors ------------------------------------------------------------------------------------------- -/

/-- what survives `suppressionToString` → pipe → `SuppressionList::parseLine` + the fields set by handleRead.
    (`toString` prints id[:file[:line]] and the symbol; hash, thisAndNextLine, type, lineBegin/End, macroName are not transferred) -/
def wire (s : Suppr) : Suppr :=
  { errorId := s.errorId, fileName := s.fileName,
    lineNumber := if s.fileName.isEmpty then noLine else s.lineNumber,
    symbolName := s.symbolName, macroName := [], hash := 0, thisAndNextLine := false, type := .unique, lineBegin := noLine, lineEnd := noLine,
    column := s.column, isInline := s.isInline, isPolyspace := s.isPolyspace, checked := s.checked, matched := s.matched }

/-- `PipeWriter::writeSuppr`: inline suppressions always, the others only when checked.
    `skipHash`: entries with a hash are not sent at all (proposed fix C24-process-hash-suppression.diff; legacy = false) -/
def workerReport (skipHash : Bool) (st : State) : List Suppr :=
  (st.filter fun s => !(skipHash && s.hash > 0) && (s.isInline || s.checked)).map wire

/-- parent side of REPORT_SUPPR_INLINE / REPORT_SUPPR: add, or fold the flags into the existing entry -/
def recv (globsOk : Bool) (st : State) (m : Suppr) : State :=
  match addSuppression globsOk m st with
  | (st', .ok) => st'
  | (_, _) => (updateState m st).1

/-- `ThreadData::check`, loop after a file: all threads share one list, every entry is merged into itself -/
def threadPropagate (st : State) : State :=
  st.foldl (fun acc s =>
    if s.isInline then recv true acc s
    else if !s.isLocal then (updateState s acc).1
    else acc) st

/- ---- the sequential machine used by the theorems ----------------------------------------------------------- -/

/-- a message as far as the bookkeeping is concerned: its id (for the unmatchedSuppression special case) and an opaque tag -/
structure Msg where
  id : Str
  tag : Nat
deriving DecidableEq, Repr

inductive Op
  | add (s : Suppr)                       -- addSuppression (command line, file, inline comment)
  | sup (global : Bool) (m : Msg)         -- isSuppressed(m, global)
  | mark (locs : List (Str × Int))        -- markUnmatchedInlineSuppressionsAsChecked
deriving Repr

/-- run one op; `verdict s m` is the real `Suppression::isSuppressed` (it reads no flag) -/
def stepOp (verdict : Suppr → Msg → Res) (st : State) : Op → State
  | .add s => (addSuppression true s st).1
  | .sup g m => (isSuppressedWith g m.id st (st.map (verdict · m))).1
  | .mark locs => mark locs st

def runOps (verdict : Suppr → Msg → Res) (st : State) (ops : List Op) : State :=
  ops.foldl (stepOp verdict) st

/-- what `CppCheck::check(file)` does to the list while it analyses one file (lib/cppcheck.cpp): the dummy call with an
    empty id, the inline suppressions of the file (only with `--inline-suppr`), the token lines of every analysed
    configuration (`markUnmatchedInlineSuppressionsAsChecked`), one call per finding -/
structure FileRun where
  path : Str
  inlineSupprs : List Suppr
  tokenLines : List (Str × Int)
  findings : List Msg
deriving Repr

def dummyMsg : Msg := ⟨[], 0⟩

/-- `markAlways`: the token lines are fed to the list whether or not `--inline-suppr` is given (proposed fix
    C24-line-suppression-checked.diff; legacy = false) -/
def fileOps (markAlways : Bool) (inlineSuppr : Bool) (f : FileRun) : List Op :=
  [.sup true dummyMsg] ++ (if inlineSuppr then f.inlineSupprs.map .add else []) ++
  (if markAlways || inlineSuppr then [.mark f.tokenLines] else []) ++ f.findings.map (.sup true)

/-- `CppCheckLogger::reportErr` in a worker of the thread / process executor (`mUseGlobalSuppressions == false`), as far as
    the list is concerned: the local suppressions are asked first; only a finding none of them hides reaches the call
    over all suppressions (`!nofail.isSuppressed(..) && !nomsg.isSuppressed(errorMessage)`).
    `showGlobal`: a locally hidden finding is shown to all suppressions as well (proposed fix
    C24-global-suppressions-see-locally-suppressed.diff; legacy = false) -/
def workerReportErr (showGlobal : Bool) (v : Suppr → Msg → Res) (st : State) (m : Msg) : State :=
  let r := isSuppressedWith false m.id st (st.map (v · m))
  if r.2 then (if showGlobal then (isSuppressedWith true m.id r.1 (r.1.map (v · m))).1 else r.1)
  else (isSuppressedWith true m.id r.1 (r.1.map (v · m))).1

end Cppcheck.Unmatched

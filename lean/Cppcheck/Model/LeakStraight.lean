/-
C04 — CheckLeakAutoVar::checkScope (lib/checkleakautovar.cpp) on straight-line functions.

Programs: one C function `char *f(void) { char *p0; char *p1; …; <ops> }` whose statements are
    alloc x   `px = malloc(10);`      free x   `free(px);`       use x   `*px = 1;`
    assign x y `px = py;`             ret x    `return px;`       ret0    `return 0;`
(the same fragment is printed for new/delete and fopen/fclose by the check; only the finding ids change).

`step` copies what checkScope / checkTokenInsideExpression / changeAllocStatus / leakIfAllocated / ret do on these statement
shapes; the automaton state is `VarInfo::alloctype` restricted to its `status` (absent / ALLOC / DEALLOC) — `possibleUsage`,
`conditionalAlloc`, `referenced` stay empty in this fragment, `type` is constant.  Read off the code:
  alloc x     assignment branch: leakIfAllocated(x) (memleak when ALLOC), erase(x), then ALLOC
  free x      functionCall → changeAllocStatus: tracked and managed() (DEALLOC) ⇒ doubleFree (status stays DEALLOC);
              otherwise the entry becomes DEALLOC (also when x was not tracked)
  use x       checkTokenInsideExpression(x): DEALLOC and isPointerDeRef ⇒ deallocuse; no state change
  assign x y  x ≠ y: `= %var% ;` ⇒ leakIfAllocated(x), then every variable of the statement is erased (x and y);
              x = y: isVarUsedInTree ⇒ `continue`; the second `x` reaches checkTokenInsideExpression ⇒ "simple assignment" erase(x)
  ret x / ret0  ret(): variables in varid order: the returned one ⇒ deallocret when DEALLOC; the others ⇒ memleak when ALLOC;
              then varInfo.clear() — and the scan *continues* behind the return statement
  `}`         ret(endToken, varInfo, true): memleak for every ALLOC variable

`oracle` is the reference: a concrete heap (fresh block per malloc, a freed set), variables hold a block address or are
uninitialised; execution stops at the first return.
-/
namespace Cppcheck.LeakStraight

inductive Op
  | alloc (x : Nat) | free (x : Nat) | use (x : Nat) | assign (x y : Nat) | ret (x : Nat) | ret0
  deriving DecidableEq, Repr, Inhabited

inductive RKind | memleak | doubleFree | deallocuse | deallocret | uninit
  deriving DecidableEq, Repr, Inhabited

structure Rep where
  kind : RKind
  var : Nat
  pos : Nat
  deriving DecidableEq, Repr, Inhabited

/-- `VarInfo::AllocInfo::status` of a variable (`none` = no entry in `alloctype`) -/
inductive St | none | alloc | dealloc
  deriving DecidableEq, Repr, Inhabited

abbrev AState := Nat → St

def setA (a : AState) (x : Nat) (s : St) : AState := fun v => if v = x then s else a v

def Op.vars : Op → List Nat
  | .alloc x | .free x | .use x | .ret x => [x]
  | .assign x y => [x, y]
  | .ret0 => []

/-- number of pointer variables the printed function declares: `p0 … p(n-1)` -/
def nvars : List Op → Nat
  | [] => 0
  | op :: r => max (op.vars.foldl (fun m v => max m (v + 1)) 0) (nvars r)

/-- `CheckLeakAutoVar::ret(tok, varInfo)`; `rx` = the returned variable -/
def retReports (n : Nat) (a : AState) (rx : Option Nat) (pos : Nat) : List Rep :=
  (List.range n).filterMap fun v =>
    if rx = some v then (if a v = .dealloc then some ⟨.deallocret, v, pos⟩ else none)
    else if a v = .alloc then some ⟨.memleak, v, pos⟩ else none

def clearA : AState := fun _ => .none

def step (n : Nat) (a : AState) (pos : Nat) : Op → AState × List Rep
  | .alloc x => (setA a x .alloc, if a x = .alloc then [⟨.memleak, x, pos⟩] else [])
  | .free x => if a x = .dealloc then (a, [⟨.doubleFree, x, pos⟩]) else (setA a x .dealloc, [])
  | .use x => (a, if a x = .dealloc then [⟨.deallocuse, x, pos⟩] else [])
  | .assign x y =>
    if x = y then (setA a x .none, [])
    else (setA (setA a x .none) y .none, if a x = .alloc then [⟨.memleak, x, pos⟩] else [])
  | .ret x => (clearA, retReports n a (some x) pos)
  | .ret0 => (clearA, retReports n a none pos)

def scan (n : Nat) : AState → Nat → List Op → List Rep
  | a, pos, [] => retReports n a none pos
  | a, pos, op :: rest => (step n a pos op).2 ++ scan n (step n a pos op).1 (pos + 1) rest

/-- what checkScope reports for the function (positions = statement index; `p.length` = the closing brace) -/
def reports (p : List Op) : List Rep := scan (nvars p) clearA 0 p

/-! ### reference semantics -/

structure CState where
  env : Nat → Option Nat      -- variable ↦ block address; `none` = uninitialised
  next : Nat                  -- blocks `0 … next-1` have been allocated
  freed : Nat → Bool          -- blocks that were passed to free

def setE (e : Nat → Option Nat) (x : Nat) (v : Option Nat) : Nat → Option Nat := fun y => if y = x then v else e y

def CState.live (c : CState) (b : Nat) : Bool := decide (b < c.next) && !c.freed b

def init : CState := { env := fun _ => none, next := 0, freed := fun _ => false }

/-- some other declared variable holds block `b` -/
def otherHolder (n : Nat) (c : CState) (x b : Nat) : Bool :=
  (List.range n).any fun y => y != x && c.env y == some b

/-- the block held by `x` becomes unreachable when `x` is overwritten -/
def lostOnOverwrite (n : Nat) (c : CState) (x pos : Nat) : List Rep :=
  match c.env x with
  | some b => if c.live b && !otherHolder n c x b then [⟨.memleak, x, pos⟩] else []
  | none => []

/-- leaving the function: every variable holding a live block other than the returned one leaks it; returning a pointer to a
    freed block is a use of a dead object; returning an uninitialised pointer is an uninitialised read -/
def retEvents (n : Nat) (c : CState) (rx : Option Nat) (pos : Nat) : List Rep :=
  (List.range n).filterMap fun v =>
    if rx = some v then
      (match c.env v with
       | some b => if c.freed b then some ⟨.deallocret, v, pos⟩ else none
       | none => some ⟨.uninit, v, pos⟩)
    else
      match c.env v with
      | some b => if c.live b && (rx.bind c.env) != some b then some ⟨.memleak, v, pos⟩ else none
      | none => none

/-- one statement: new state, events, and whether execution leaves the function -/
def cstep (n : Nat) (c : CState) (pos : Nat) : Op → CState × List Rep × Bool
  | .alloc x => ({ c with env := setE c.env x (some c.next), next := c.next + 1 }, lostOnOverwrite n c x pos, false)
  | .free x =>
    match c.env x with
    | some b => if c.freed b then (c, [⟨.doubleFree, x, pos⟩], false) else ({ c with freed := fun b' => b' == b || c.freed b' }, [], false)
    | none => (c, [⟨.uninit, x, pos⟩], false)
  | .use x =>
    match c.env x with
    | some b => (c, if c.freed b then [⟨.deallocuse, x, pos⟩] else [], false)
    | none => (c, [⟨.uninit, x, pos⟩], false)
  | .assign x y =>
    if x = y then (c, if c.env x = none then [⟨.uninit, x, pos⟩] else [], false)
    else ({ c with env := setE c.env x (c.env y) },
          lostOnOverwrite n c x pos ++ (if c.env y = none then [⟨.uninit, y, pos⟩] else []), false)
  | .ret x => (c, retEvents n c (some x) pos, true)
  | .ret0 => (c, retEvents n c none pos, true)

def oscan (n : Nat) : CState → Nat → List Op → List Rep
  | c, pos, [] => retEvents n c none pos
  | c, pos, op :: rest =>
    if (cstep n c pos op).2.2 then (cstep n c pos op).2.1
    else (cstep n c pos op).2.1 ++ oscan n (cstep n c pos op).1 (pos + 1) rest

/-- the events of the one execution of the function -/
def oracle (p : List Op) : List Rep := oscan (nvars p) init 0 p

/-! ### decidable side conditions of the theorems -/

def Op.isRet : Op → Bool
  | .ret _ | .ret0 => true
  | _ => false

/-- no statement follows a return statement -/
def retOnlyLast : List Op → Bool
  | [] => true
  | [_] => true
  | op :: rest => !op.isRet && retOnlyLast rest

def Op.isAssign : Op → Bool
  | .assign _ _ => true
  | _ => false

def noAssign (p : List Op) : Bool := p.all fun op => !op.isAssign

/-- the execution reads no uninitialised pointer -/
def noUninit (p : List Op) : Bool := (oracle p).all fun r => r.kind != .uninit

end Cppcheck.LeakStraight

/-
Allocation groups: lib/library.cpp `Library::load`, `<memory>` / `<resource>` blocks.  Which deallocator matches which allocator
(`mismatchAllocDealloc`, and whether `free(p)` releases what `strdup` returned) is decided by the group id a block's functions get:
a block *joins* the group of the first of its `<dealloc>` names that is already registered — scanning **all** its `<dealloc>`
elements in document order, the names of one element in order — and otherwise takes a fresh id (even for `<memory>`, odd for
`<resource>`: `ismemory` / `isresource`); then every `<alloc>` name and every `<dealloc>` name of the block is (re)registered with
that id (`map[n] = temp` overwrites an earlier registration of the same name).
-/
namespace Cppcheck.LibGroups

structure Block where
  resource : Bool
  allocs : List String
  deallocs : List (List String)      -- one list of names per `<dealloc>` element
  deriving DecidableEq, Repr, Inhabited

structure LibState where
  allocId : Nat                       -- `mData->mAllocId`
  alloc : List (String × Nat)         -- `mData->mAlloc`   (name ↦ groupId; the first entry for a name is the current one)
  dealloc : List (String × Nat)       -- `mData->mDealloc`
  deriving Repr, Inhabited

def empty : LibState := { allocId := 0, alloc := [], dealloc := [] }

/-- `while (!ismemory(++mAllocId)) {}` / `while (!isresource(++mAllocId)) {}`: the next even resp. odd id -/
def nextId (cur : Nat) (resource : Bool) : Nat :=
  if resource then (if cur % 2 == 0 then cur + 1 else cur + 2) else (if cur % 2 == 0 then cur + 2 else cur + 1)

/-- the first already registered name among the names of all `<dealloc>` elements, in order -/
def firstKnown (dealloc : List (String × Nat)) : List String → Option Nat
  | [] => none
  | n :: r => match dealloc.lookup n with
    | some g => some g
    | none => firstKnown dealloc r

def Block.deallocNames (b : Block) : List String := b.deallocs.flatten

/-- the id the block's functions are registered with, and the new counter -/
def groupFor (st : LibState) (b : Block) : Nat × Nat :=
  match firstKnown st.dealloc b.deallocNames with
  | some g => (g, st.allocId)
  | none => (nextId st.allocId b.resource, nextId st.allocId b.resource)

def loadBlock (st : LibState) (b : Block) : LibState :=
  let (g, counter) := groupFor st b
  { allocId := counter,
    alloc := b.allocs.map (fun n => (n, g)) ++ st.alloc,
    dealloc := b.deallocNames.map (fun n => (n, g)) ++ st.dealloc }

def load (st : LibState) (blocks : List Block) : LibState := blocks.foldl loadBlock st

def allocGroup (st : LibState) (n : String) : Option Nat := st.alloc.lookup n
def deallocGroup (st : LibState) (n : String) : Option Nat := st.dealloc.lookup n

/-- every already registered dealloc name of the block is registered with group `g` -/
def knownAllIn (st : LibState) (b : Block) (g : Nat) : Bool :=
  b.deallocNames.all fun n => match st.dealloc.lookup n with | some g' => g' == g | none => true

end Cppcheck.LibGroups

import Cppcheck.Model.VarMap
/-
C08 — model of the per-class member table of `Tokenizer::setVarIdPass2` (lib/tokenize.cpp, `varsByClass` / `thisClassVars`)
and of C++ member name lookup through a class hierarchy.

The code, for every class in textual order:
  thisClassVars = varsByClass[class]                                   (empty for a new class)
  for every base B in the base-clause:  thisClassVars.insert(varsByClass[B].begin(), end())   -- does NOT overwrite
  for every member declaration x in the class body:  thisClassVars[x] = varId(x)              -- DOES overwrite
  ... names in member functions defined outside the class / constructor initialiser lists get thisClassVars[name]
A table is an association list, first binding wins (`lookup`): a non-overwriting insert appends, an overwriting one conses.
Classes are numbered in textual order; a base is named by the number of an earlier class (an unknown base has an empty table,
as `varsByClass[name]` creates one).
-/
namespace Cppcheck.VarMap

structure ClassDecl where
  bases : List Nat
  own : List (VName × VId)
  deriving Repr

/-- `thisClassVars` after the base-clause: the tables of the bases, first base first, nothing overwritten -/
def baseTables (ts : List AMap) (bs : List Nat) : AMap := (bs.map (fun b => ts.getD b [])).flatten

/-- `thisClassVars` after the class body: own members overwrite (`operator[]`) -/
def buildClass (ts : List AMap) (c : ClassDecl) : AMap :=
  c.own.foldl (fun t p => setv t p.1 p.2) (baseTables ts c.bases)

/-- the seeded variant: own members inserted with `emplace` (no overwrite) -/
def buildClassNoOverwrite (ts : List AMap) (c : ClassDecl) : AMap :=
  c.own.foldl (fun t p => if (lookup t p.1).isSome then t else t ++ [p]) (baseTables ts c.bases)

def buildFrom (bc : List AMap → ClassDecl → AMap) (ts : List AMap) (cs : List ClassDecl) : List AMap :=
  cs.foldl (fun ts c => ts ++ [bc ts c]) ts

/-- `varsByClass` after all classes -/
def buildAll (cs : List ClassDecl) : List AMap := buildFrom buildClass [] cs
def buildAllNoOverwrite (cs : List ClassDecl) : List AMap := buildFrom buildClassNoOverwrite [] cs

/-- the id setVarIdPass2 gives the member name `x` inside a member function of class `i` (0 = none) -/
def classVarId (cs : List ClassDecl) (i : Nat) (x : VName) : VId := (lookup ((buildAll cs).getD i []) x).getD 0

/-! ## specification: C++ class member name lookup ([class.member.lookup]) -/

inductive MRes
  | notFound
  | found (i : VId)
  | ambiguous
  deriving DecidableEq, Repr

/-- results of the lookups in the direct bases: found in exactly one base, else ambiguous -/
def combine : List MRes → MRes
  | [] => .notFound
  | r :: rs =>
    match r, combine rs with
    | .notFound, q => q
    | .ambiguous, _ => .ambiguous
    | .found i, .notFound => .found i
    | .found _, _ => .ambiguous

/-- a declaration in the class itself hides every base member of that name; otherwise look in the bases.
`fuel` bounds the depth of the hierarchy (bases are earlier classes). -/
def memberLookup (cs : List ClassDecl) : Nat → Nat → VName → MRes
  | 0, _, _ => .notFound
  | f + 1, i, x =>
    match cs[i]? with
    | none => .notFound
    | some c =>
      match lookup c.own.reverse x with
      | some v => .found v
      | none => combine (c.bases.map (fun b => memberLookup cs f b x))

/-- every base is an earlier class -/
def classesWF (cs : List ClassDecl) : Bool :=
  (List.range cs.length).all (fun i => match cs[i]? with | some c => c.bases.all (· < i) | none => true)

/-- single inheritance: at most one base per class -/
def singleInheritance (cs : List ClassDecl) : Bool := cs.all (fun c => c.bases.length ≤ 1)

end Cppcheck.VarMap

/-
C25 — exit status of a cppcheck run, as a pure function of what the analysis raised.

Everything the exit status depends on is modelled, statement for statement, from

  lib/cppcheck.cpp          CppCheck::CppCheckLogger::reportErr        → `loggerStep`
                            CppCheck::checkInternal (return values)    → `fileRet`
                            CppCheck::analyseWholeProgram() / (buildDir,…)
  cli/singleexecutor.cpp    SingleExecutor::check                      → `execResult`
  cli/threadexecutor.cpp    ThreadExecutor::check, SyncLogForwarder
  cli/processexecutor.cpp   ProcessExecutor::check / handleRead (`++result` for a lost pipe)
  cli/executor.cpp          Executor::hasToLog                         → `hasToLog`
  cli/cppcheckexecutor.cpp  CppCheckExecutor::check / check_internal, StdLogger::reportErr
                                                                       → `stdLogger`, `mainReturn`

The analysis itself is not modelled: a run is described by the findings each stage raises, each finding
carrying the answers the real suppression lists give for it (`nomsgLocal`, `nomsgGlobal`, `nofail`, …).
Whether a suppression matches a finding is C23's subject and a parameter here.

Two statements of the chain were repaired in /repo (a59832c: unmatchedSuppression findings honour
--exitcode-suppressions; 4c58edf: --check-config returns the logger's exit code).  `Variant` keeps both forms: `patched`
is the model of the tree (the check fails closed if the extraction sees anything else), `legacy` is kept only so that
the counterexample theorems about the old statements stay checkable.
-/
namespace Cppcheck.ExitCode

/-- the form of the two repaired statements -/
structure Variant where
  /-- `check_internal`: the unmatchedSuppression findings set the return value only if one of them is not
      matched by an `--exitcode-suppressions` entry (a59832c).  Before: any reported unmatchedSuppression set it. -/
  unmatchedNofail : Bool
  /-- `checkInternal`, `--check-config` branch: `return mLogger->exitcode();` (4c58edf).  Before: `return 0;`. -/
  checkConfigLogger : Bool
deriving DecidableEq, Repr

def legacy : Variant := ⟨false, false⟩
def patched : Variant := ⟨true, true⟩

inductive Executor | single | thread | process
deriving DecidableEq, Repr

/-- the options the chain reads -/
structure Opts where
  errorExitCode : Int          -- settings.exitCode (`--error-exitcode=`, an `int`)
  safety : Bool                -- settings.safety
  checkConfig : Bool           -- settings.checkConfiguration
  emitDuplicates : Bool        -- settings.emitDuplicates
  executor : Executor
  project : Bool               -- files come as FileSettings (`--project=`): `check(fs)` runs a temporary CppCheck
deriving DecidableEq, Repr

/-- one ErrorMessage as the chain sees it -/
structure Finding where
  key : Nat                    -- identity of `msg.toString(verbose, templateFormat, templateLocation)`
  internal : Bool              -- msg.severity == Severity::internal
  libSkip : Bool               -- !settings.library.reportErrors(msg.file0)
  emptyText : Bool             -- the rendered text is empty
  critical : Bool              -- ErrorLogger::isCriticalErrorId(msg.id)
  nomsgLocal : Bool            -- nomsg.isSuppressed(em, /*global*/ false)
  nomsgGlobal : Bool           -- nomsg.isSuppressed(em, true)
  explLocal : Bool             -- nomsg.isSuppressedExplicitly(em, false)
  explGlobal : Bool            -- nomsg.isSuppressedExplicitly(em, true)
  nofail : Bool                -- nofail.isSuppressed(em)
deriving DecidableEq, Repr

/-- a message handed to the next ErrorLogger; `asInternal`: forwarded with severity overwritten to internal -/
structure Emit where
  f : Finding
  asInternal : Bool
deriving DecidableEq, Repr

def Emit.internal (e : Emit) : Bool := e.f.internal || e.asInternal

/-- CppCheckLogger: mExitCode, mErrorList, mSuppressedErrorList (9e24c55, 9907ad7: findings suppressed here or later by the executor have a
    duplicate filter of their own; both filters are per file, 8f62378) and what was forwarded to mErrorLogger (oldest first) -/
structure LState where
  exit : Bool
  seen : List Nat
  seenSup : List Nat
  out : List Emit
deriving DecidableEq, Repr

def LState.init (exit : Bool) : LState := ⟨exit, [], [], []⟩

/-- `CppCheckLogger::reportErr` -/
def loggerStep (o : Opts) (useGlobal : Bool) (s : LState) (f : Finding) : LState :=
  if f.internal then { s with out := s.out ++ [⟨f, false⟩] }
  else if f.libSkip then s
  else
    let nomsg1 := if useGlobal then f.nomsgGlobal else f.nomsgLocal
    let expl1 := if useGlobal then f.explGlobal else f.explLocal
    -- `if (nomsg.isSuppressed(errorMessage, mUseGlobalSuppressions)) { if (safety && critical) {…} suppressed = true; }`
    let s1 : LState :=
      if nomsg1 && o.safety && f.critical then
        { s with exit := true, out := s.out ++ [⟨f, expl1⟩] }
      else s
    if f.emptyText then s1
    -- `suppressedLater = !suppressed && !mUseGlobalSuppressions && nomsg.isSuppressed(errorMessage)` (9907ad7): a finding the
    -- executor will drop in `hasToLog` uses the duplicate filter of the suppressed findings
    -- `if (!emitDuplicates && !((suppressed || suppressedLater) ? mSuppressedErrorList : mErrorList).emplace(errmsg).second) return;`
    else
    let sup2 := nomsg1 || (!useGlobal && f.nomsgGlobal)
    if !o.emitDuplicates && (if sup2 then s1.seenSup else s1.seen).contains f.key then s1
    else
      let s2 : LState :=
        if o.emitDuplicates then s1
        else if sup2 then { s1 with seenSup := f.key :: s1.seenSup } else { s1 with seen := f.key :: s1.seen }
      if nomsg1 then s2
      else
        -- `if (!nofail.isSuppressed(errorMessage) && !nomsg.isSuppressed(errorMessage)) mExitCode = 1;`
        let s3 : LState := if !f.nofail && !f.nomsgGlobal then { s2 with exit := true } else s2
        { s3 with out := s3.out ++ [⟨f, false⟩] }

def runLogger (o : Opts) (useGlobal : Bool) (s : LState) (fs : List Finding) : LState :=
  fs.foldl (loggerStep o useGlobal) s

/-- analysing one file with a logger whose `mExitCode` was reset and whose duplicate filter is empty -/
def runFile (o : Opts) (useGlobal : Bool) (fs : List Finding) : LState :=
  runLogger o useGlobal (LState.init false) fs

/-- `Executor::hasToLog` / `StdLogger::reportErr` share one shape: internal messages bypass the filter
    (kept by hasToLog, consumed silently by StdLogger), the rest must `pass` and are then de-duplicated -/
def gate (emitDup : Bool) (keepInternal : Bool) (pass : Finding → Bool) : List Nat → List Emit → List Emit
  | _, [] => []
  | seen, e :: r =>
    if e.internal then (if keepInternal then e :: gate emitDup keepInternal pass seen r else gate emitDup keepInternal pass seen r)
    else if !pass e.f then gate emitDup keepInternal pass seen r
    else if emitDup then e :: gate emitDup keepInternal pass seen r
    else if seen.contains e.f.key then gate emitDup keepInternal pass seen r
    else e :: gate emitDup keepInternal pass (e.f.key :: seen) r

/-- `Executor::hasToLog` applied to the stream of messages the workers forward -/
def hasToLog (o : Opts) (es : List Emit) : List Emit :=
  gate o.emitDuplicates true (fun f => !f.nomsgGlobal && !f.emptyText) [] es

/-- `StdLogger::reportErr`: what is printed (findings only; internal messages are bookkeeping) -/
def stdLogger (o : Opts) (es : List Emit) : List Emit :=
  gate o.emitDuplicates false (fun _ => true) [] es

/-- everything a run raises -/
structure Run where
  v : Variant
  o : Opts
  files : List (List Finding)  -- per analysed file, in the order the executor takes them
  wp1 : List Finding           -- raised by `CppCheck::analyseWholeProgram()` (single executor only)
  wp1Errors : Bool             -- some `Check::analyseWholeProgram` / unused-function check returned true there
  wp2 : List Finding           -- raised by `CppCheck::analyseWholeProgram(buildDir, …)` in check_internal
  unmatchedGate : Bool         -- `reportUnmatchedSuppressions` is called: (information enabled ∨ check-config) ∧ nomsg list non-empty
  unmatched : List Finding     -- the unmatchedSuppression messages it hands to StdLogger
  lostPipes : Nat              -- process executor: workers whose pipe closed before CHILD_END
deriving DecidableEq, Repr

def useGlobal (r : Run) : Bool := r.o.executor == .single

def fileStates (r : Run) : List LState := r.files.map (runFile r.o (useGlobal r))

/-- return value of `CppCheck::check(file)` -/
def fileRet (r : Run) (s : LState) : Nat :=
  if r.o.checkConfig && !r.v.checkConfigLogger then 0 else (if s.exit then 1 else 0)

def sumRets (r : Run) : Nat := ((fileStates r).map (fileRet r)).sum

/-- `mExitCode` of the CppCheck instance owned by check_internal when whole-program analysis starts:
    the single executor analyses plain files with that very instance, and nothing resets the flag after the last file -/
def mainStart (r : Run) : Bool :=
  if r.o.executor == .single && !r.o.project then
    match (fileStates r).getLast? with
    | some s => s.exit
    | none => false
  else false

def main1 (r : Run) : LState :=
  if r.o.executor == .single then runLogger r.o true (LState.init (mainStart r)) r.wp1
  else LState.init (mainStart r)

def main2 (r : Run) : LState := runLogger r.o true (main1 r) r.wp2

def two32 : Nat := 4294967296

/-- `executor.check()` (an `unsigned int`) -/
def execResult (r : Run) : Nat :=
  let wpInc := if r.o.executor == .single && r.wp1Errors && (main1 r).exit then 1 else 0
  let lost := if r.o.executor == .process then r.lostPipes else 0
  (sumRets r + wpInc + lost) % two32

/-- `returnValue |= cppcheck.analyseWholeProgram(buildDir, …)` -/
def rv1 (r : Run) : Nat := execResult r ||| (if (main2 r).exit then 1 else 0)

def unmatchedErr (r : Run) : Bool :=
  if r.v.unmatchedNofail then r.unmatched.any (fun u => !u.nofail) else !r.unmatched.isEmpty

/-- after `if (err && returnValue == 0) returnValue = settings.exitCode;` (int → unsigned) -/
def rv2 (r : Run) : Nat :=
  if r.unmatchedGate && unmatchedErr r && rv1 r == 0 then (r.o.errorExitCode % (two32 : Int)).toNat else rv1 r

/-- the messages arriving at StdLogger, in sequential order -/
def stdInput (r : Run) : List Emit :=
  let fromFiles := (fileStates r).flatMap (·.out)
  let fwd := if r.o.executor == .single then fromFiles else hasToLog r.o fromFiles
  fwd ++ (main2 r).out ++ (if r.unmatchedGate then r.unmatched.map (⟨·, false⟩) else [])

/-- the findings printed by the run (without the checkers summary, which StdLogger adds itself) -/
def printed (r : Run) : List Finding := (stdLogger r.o (stdInput r)).map (·.f)

/-- the messages the loggers of the files forward, file after file -/
def fromFiles (r : Run) : List Emit := (fileStates r).flatMap (·.out)

/-- the messages arriving at StdLogger when the workers' messages reach the executor in the order `es` (with the thread and
    process executors any interleaving of the per-file streams; `stdInput r = stdInputOf r (fromFiles r)`) -/
def stdInputOf (r : Run) (es : List Emit) : List Emit :=
  (if r.o.executor == .single then es else hasToLog r.o es) ++ (main2 r).out ++
    (if r.unmatchedGate then r.unmatched.map (⟨·, false⟩) else [])

def printedOf (r : Run) (es : List Emit) : List Finding := (stdLogger r.o (stdInputOf r es)).map (·.f)

/-- `stdLogger.hasCriticalErrors()` -/
def hasCritical (r : Run) : Bool := (stdInput r).any (·.f.critical)

/-- value returned by `CppCheckExecutor::check_internal` -/
def mainReturn (r : Run) : Int :=
  if r.o.safety && hasCritical r then 1
  else if rv2 r != 0 then r.o.errorExitCode
  else 0

/-- the status the parent process observes -/
def waitStatus (c : Int) : Nat := (c % 256).toNat

def exitStatus (r : Run) : Nat := waitStatus (mainReturn r)

/-- outcome of `CmdLineParser::fillSettingsFromArgs` -/
inductive Parse | fail | exit | ok
deriving DecidableEq, Repr

/-- `CppCheckExecutor::check(argc, argv)` -/
def processStatus (p : Parse) (r : Run) : Nat :=
  match p with
  | .fail => 1
  | .exit => 0
  | .ok => exitStatus r

/- ---- hypotheses of the theorems (all decidable) ------------------------------------------------------- -/

def allFindings (r : Run) : List Finding := r.files.flatten ++ r.wp1 ++ r.wp2 ++ r.unmatched

/-- the rendered text determines the two answers the duplicate filters can confuse: the exitcode-suppression answer and the
    global message-suppression answer (true for the built-in templates, which contain file, line, column, id and message) -/
def keyCoherent (r : Run) : Bool :=
  (allFindings r).all fun f => (allFindings r).all fun g =>
    f.key != g.key || (f.nofail == g.nofail && f.nomsgGlobal == g.nomsgGlobal)

/-- a message handed over by `reportUnmatchedSuppressions` is an ordinary visible finding -/
def unmatchedPlain (r : Run) : Bool :=
  r.unmatched.all fun u => !u.internal && !u.emptyText

/-- no 2^32 wrap-around of the `unsigned int` accumulation -/
def noWrap (r : Run) : Bool := r.files.length + r.lostPipes + 1 < two32

/-- the run avoids the input class on which the legacy chain ignored `--exitcode-suppressions` (F9):
    unmatchedSuppression findings are reported and every one of them is matched by an exitcode suppression -/
def avoidsUnmatchedNofail (r : Run) : Bool :=
  r.v.unmatchedNofail || !r.unmatchedGate || r.unmatched.isEmpty || r.unmatched.any (fun u => !u.nofail)

/-- the run avoids `--check-config` on the legacy chain, whose `checkInternal` returned 0 there -/
def avoidsCheckConfig (r : Run) : Bool := r.v.checkConfigLogger || !r.o.checkConfig

end Cppcheck.ExitCode

import Cppcheck.Model.Calc
/-
C01 — `infer()` of lib/infer.cpp with the integral model (`makeIntegralInferModel`): a pure function of an operator
and two value lists.  Copied statement for statement: `getCompareValue` (ties: the LAST extremal value wins, because
`std::min(value, *result, cmp)` returns `value` unless `*result` compares strictly smaller), `Interval::fromValues /
operator- / equal / compare`, `setValueKind`, `inferNotEqual`, `isClaim`, the three branches of `infer`.
`std::vector<bigint>` with at most one element is an `Option Int`; reference vectors are lists of the values themselves.
Arithmetic on bounds (`intvalue ± 1`, `lhs - rhs`) is unchecked `long long` arithmetic in the C++ (UB on overflow, wraps in
the built objects): the model wraps, the theorems assume bounds below 2^62 in magnitude.
The `assert(!maxValue->isKnown())` in `fromValues` is compiled out (the build defines NDEBUG) and therefore not modelled.
-/
namespace Cppcheck.Infer
open Cppcheck.Calc

inductive Kind | possible | known | inconclusive | impossible
  deriving DecidableEq, Repr, Inhabited

inductive Bound | upper | lower | point
  deriving DecidableEq, Repr, Inhabited

/-- the fields of `ValueFlow::Value` that `infer` reads; `isInt` = `valueType == INT` (what `IntegralInferModel::match` tests) -/
structure Value where
  isInt : Bool := true
  kind : Kind
  bound : Bound
  intvalue : Int
  deriving DecidableEq, Repr, Inhabited

def Value.isImpossible (v : Value) : Bool := v.kind == .impossible
def Value.isPossible (v : Value) : Bool := v.kind == .possible
def Value.isKnown (v : Value) : Bool := v.kind == .known
def Value.isInconclusive (v : Value) : Bool := v.kind == .inconclusive

structure Interval where
  minvalue : Option Int := none
  maxvalue : Option Int := none
  minRef : List Value := []
  maxRef : List Value := []
  deriving Repr, Inhabited

namespace Interval

def setMinValue (i : Interval) (x : Int) (ref : Value) : Interval := { i with minvalue := some x, minRef := [ref] }
def setMaxValue (i : Interval) (x : Int) (ref : Value) : Interval := { i with maxvalue := some x, maxRef := [ref] }

def isLessThan (i : Interval) (x : Int) : Bool :=
  match i.maxvalue with
  | some m => decide (m < x)
  | none => false

def isGreaterThan (i : Interval) (x : Int) : Bool :=
  match i.minvalue with
  | some m => decide (m > x)
  | none => false

def isScalar (i : Interval) : Bool :=
  match i.minvalue, i.maxvalue with
  | some a, some b => a == b
  | _, _ => false

def empty (i : Interval) : Bool := i.minvalue.isNone && i.maxvalue.isNone
def isScalarOrEmpty (i : Interval) : Bool := i.empty || i.isScalar

/-- `getScalar` (only called when `isScalar`) -/
def getScalar (i : Interval) : Int := i.minvalue.getD 0

/-- `getScalarRef`: `minRef` when the two reference vectors are equal, else their concatenation -/
def getScalarRef (i : Interval) : List Value := if i.minRef ≠ i.maxRef then i.minRef ++ i.maxRef else i.minRef

def fromInt (x : Int) (ref : Value) : Interval := (({} : Interval).setMinValue x ref).setMaxValue x ref

end Interval

/-- `getCompareValue(values, pred, compare)` after the predicate filter: fold keeping `result` only when it compares
    strictly before the new value -/
def getCompareValue (cmp : Int → Int → Bool) : List Value → Option Value → Option Value
  | [], r => r
  | v :: vs, none => getCompareValue cmp vs (some v)
  | v :: vs, some r => getCompareValue cmp vs (some (if cmp r.intvalue v.intvalue then r else v))

/-- the two `setMinValue` tests on the smallest value -/
def minStep (r0 : Interval) (mn : Value) : Interval :=
  let r1 := if mn.isImpossible && mn.bound == .upper then r0.setMinValue (wrap64 (mn.intvalue + 1)) mn else r0
  if mn.isPossible && mn.bound == .lower then r1.setMinValue mn.intvalue mn else r1

/-- the early `return Interval::fromInt(...)` test (`n` = `count_if(values, predicate)`) -/
def isPointLike (mn : Value) (n : Nat) : Bool :=
  !mn.isImpossible && (mn.bound == .point || mn.isKnown) && n == 1

/-- the two `setMaxValue` tests on the largest value -/
def maxStep (r2 : Interval) (mx : Value) : Interval :=
  let r3 := if mx.isImpossible && mx.bound == .lower then r2.setMaxValue (wrap64 (mx.intvalue - 1)) mx else r2
  if mx.isPossible && mx.bound == .upper then r3.setMaxValue mx.intvalue mx else r3

/-- `Interval::fromValues(values, predicate)` where `vs` = the values satisfying the predicate -/
def fromValues (vs : List Value) : Interval :=
  match getCompareValue (fun a b => decide (a < b)) vs none with
  | some mn =>
    if isPointLike mn vs.length then Interval.fromInt mn.intvalue mn
    else
      match getCompareValue (fun a b => decide (a > b)) vs none with
      | some mx => maxStep (minStep {} mn) mx
      | none => minStep {} mn
  | none =>
    match getCompareValue (fun a b => decide (a > b)) vs none with
    | some mx => maxStep {} mx
    | none => {}

/-- `Interval::apply(x, y, std::minus)` -/
def applyMinus (x y : Option Int) : Option Int :=
  match x, y with
  | some a, some b => some (wrap64 (a - b))
  | _, _ => none

/-- `operator-(lhs, rhs)` -/
def Interval.minus (lhs rhs : Interval) : Interval :=
  let mn := applyMinus lhs.minvalue rhs.maxvalue
  let mx := applyMinus lhs.maxvalue rhs.minvalue
  { minvalue := mn, maxvalue := mx,
    minRef := if mn.isSome then lhs.minRef ++ rhs.maxRef else [],
    maxRef := if mx.isSome then lhs.maxRef ++ rhs.minRef else [] }

/-- `Interval::equal(lhs, rhs, ref)`: `none` = empty vector -/
def Interval.equal (lhs rhs : Interval) : Option (Bool × List Value) :=
  if !lhs.isScalar then none
  else if !rhs.isScalar then none
  else some (lhs.minvalue == rhs.minvalue, lhs.getScalarRef ++ rhs.getScalarRef)

/-- `Interval::compare(lhs, rhs, ref)`: the vector of possible signs of `lhs - rhs` and the references.
    `ref` is an out-parameter in the C++: it keeps the value written by the last test that wrote it.  `equal` writes it even
    when its result is then used; the two last tests write only on success. -/
def Interval.compare3 (lhs rhs : Interval) : List Int × List Value :=
  let diff := lhs.minus rhs
  if diff.isGreaterThan 0 then ([1], diff.minRef)
  else if diff.isLessThan 0 then ([-1], diff.maxRef)
  else
    match Interval.equal lhs rhs with
    | some (eq, refs) => if !eq then ([1, -1], refs) else ([0], refs)
    | none =>
      if diff.isGreaterThan (-1) then ([0, 1], diff.minRef)
      else if diff.isLessThan 1 then ([0, -1], diff.maxRef)
      else ([], [])

/-- `Interval::compare(op, lhs, rhs, ref)`: `calculate(op, r, 0)` with `T = int` and no error pointer;
    `bool b = calculate(...)`; `b == calculate(op, i, 0)` compares the promoted bool with the int result -/
def Interval.compareOp (op : Op) (lhs rhs : Interval) : Option Bool × List Value :=
  let (r, refs) := Interval.compare3 lhs rhs
  match r with
  | [] => (none, refs)
  | r0 :: rest =>
    let b : Bool := calculateNoErr op r0 0 != 0
    if rest.all (fun i => b2i b == calculateNoErr op i 0) then (some b, refs) else (none, refs)

/-- `setValueKind(value, refs)` -/
def valueKindOf (refs : List Value) : Kind :=
  if refs.any (·.isInconclusive) then .inconclusive
  else if refs.any (·.isPossible) then .possible
  else .known

/-- `inferNotEqual(values, x)` -/
def inferNotEqual (vs : List Value) (x : Int) : Bool := vs.any (fun v => v.isImpossible && v.intvalue == x)

/-- `isClaim(refs)` (the lambda in the `-` branch): no reference is Possible or Inconclusive -/
def isClaim (refs : List Value) : Bool := !refs.any (fun r => r.isPossible || r.isInconclusive)

/-- `infer(makeIntegralInferModel(), op, lhsValues, rhsValues)`.  `guard = true` is the current code (commit 8842d71: an
    Impossible bound of a subtraction is only derived from bounds that are claims); `guard = false` is the code before that
    fix, kept for the counterexample theorem `infer_sound_counterexample` (finding F20). -/
def inferG (guard : Bool) (op : Op) (lhsValues rhsValues : List Value) : List Value :=
  let lhsValues := lhsValues.filter (·.isInt)
  if lhsValues.isEmpty then [] else
  let rhsValues := rhsValues.filter (·.isInt)
  if rhsValues.isEmpty then [] else
  let lhs := fromValues lhsValues
  let rhs := fromValues rhsValues
  if op = .sub then
    let diff := lhs.minus rhs
    if diff.isScalar then
      [{ kind := valueKindOf diff.getScalarRef, bound := .point, intvalue := diff.getScalar }]
    else
      (match diff.minvalue with
       | some m => if !guard || isClaim diff.minRef then [{ kind := .impossible, bound := .upper, intvalue := wrap64 (m - 1) }] else []
       | none => []) ++
      (match diff.maxvalue with
       | some m => if !guard || isClaim diff.maxRef then [{ kind := .impossible, bound := .lower, intvalue := wrap64 (m + 1) }] else []
       | none => [])
  else if (op = .ne ∨ op = .eq) ∧ lhs.isScalarOrEmpty ∧ rhs.isScalarOrEmpty then
    if lhs.isScalar && rhs.isScalar then
      let refs := lhs.getScalarRef ++ rhs.getScalarRef
      [{ kind := valueKindOf refs, bound := .point, intvalue := calculateNoErr op lhs.getScalar rhs.getScalar }]
    else
      let refs : List Value :=
        if lhs.isScalar && inferNotEqual rhsValues lhs.getScalar then lhs.getScalarRef
        else if rhs.isScalar && inferNotEqual lhsValues rhs.getScalar then rhs.getScalarRef
        else []
      if !refs.isEmpty then [{ kind := valueKindOf refs, bound := .point, intvalue := b2i (op == .ne) }] else []
  else
    match Interval.compareOp op lhs rhs with
    | (some b, refs) => [{ kind := valueKindOf refs, bound := .point, intvalue := b2i b }]
    | (none, _) => []

/-- the current `infer` -/
def infer (op : Op) (lhsValues rhsValues : List Value) : List Value := inferG true op lhsValues rhsValues

/-- `infer` as it was before commit 8842d71 -/
def inferPreFix (op : Op) (lhsValues rhsValues : List Value) : List Value := inferG false op lhsValues rhsValues

/-- `getMinValue(model, values)` / `getMaxValue(model, values)` -/
def getMinValue (vs : List Value) : Option Int := (fromValues (vs.filter (·.isInt))).minvalue
def getMaxValue (vs : List Value) : Option Int := (fromValues (vs.filter (·.isInt))).maxvalue

end Cppcheck.Infer

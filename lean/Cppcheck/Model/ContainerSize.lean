/-
C02 — container-size facts: what the configured `<container>` actions make the value-flow analysis do with a size fact,
against what the member functions do to the size according to the C++ standard.

Code copied:
  lib/library.h        Library::Container::Action / Yield (the closed enumerations; `actionFrom` / `yieldFrom` spellings)
  lib/vf_analyzers.cpp ContainerExpressionAnalyzer::isWritable / writeValue (PUSH: +1, POP: -1, APPEND: + string length, for calls
                       with fewer than two arguments) and isModified → ValueFlow::isContainerSizeChanged
  lib/valueflow.cpp    isContainerSizeChanged (RESIZE CLEAR PUSH POP CHANGE INSERT ERASE APPEND: changed; NO_ACTION with a yield,
                       FIND FIND_CONST CHANGE_CONTENT CHANGE_INTERNAL: unchanged; NO_ACTION without yield: changed),
                       valueFlowContainerSize (CLEAR ⇒ Known 0, RESIZE(n known) ⇒ Known n, PUSH ⇒ Impossible 0 afterwards)
`absEffect` is the relation between the size before and after a call that these functions assume for a call with at most one
argument (the strongest assumption they make; with two or more arguments PUSH/POP fall back to "changed").
`refEffect` is the reference: the effect of the member function of the C++ standard library class(es) a `<container>` entry of
cfg/std.cfg stands for, written from ISO C++17 [containers], [string.classes], [string.view].
-/
namespace Cppcheck.ContainerSize

/-- `Library::Container::Action` -/
inductive Action
  | resize | clear | push | pop | find | findConst | insert | erase | append | changeContent | change | changeInternal | noAction
  deriving DecidableEq, Repr, Inhabited

/-- `Library::Container::Yield` -/
inductive Yield
  | atIndex | item | buffer | bufferNt | startIterator | endIterator | iterator | size | empty | noYield
  deriving DecidableEq, Repr, Inhabited

/-- `Library::Container::actionFrom` -/
def Action.ofString : String → Option Action
  | "resize" => some .resize | "clear" => some .clear | "push" => some .push | "pop" => some .pop | "find" => some .find
  | "find-const" => some .findConst | "insert" => some .insert | "erase" => some .erase | "append" => some .append
  | "change-content" => some .changeContent | "change-internal" => some .changeInternal | "change" => some .change
  | _ => none

/-- `Library::Container::yieldFrom` -/
def Yield.ofString : String → Option Yield
  | "at_index" => some .atIndex | "item" => some .item | "buffer" => some .buffer | "buffer-nt" => some .bufferNt
  | "start-iterator" => some .startIterator | "end-iterator" => some .endIterator | "iterator" => some .iterator
  | "size" => some .size | "empty" => some .empty
  | _ => none

/-- effect of one member-function call on the number of elements; `arg` is the relevant argument (new size of `resize`,
    length of the appended string) -/
inductive Eff
  | keep                -- n' = n
  | add (k : Nat)       -- n' = n + k
  | addUnique           -- unique-key insertion of one element: n' = n + 1, or n' = n when the key is present (then n > 0)
  | pop                 -- n > 0 and n' = n - 1     (n = 0 is undefined behaviour: no UB-free execution)
  | clear               -- n' = 0
  | setArg              -- n' = arg
  | addArg              -- n' = n + arg
  | grow                -- n' ≥ n
  | shrink              -- n' ≤ n
  | any
  | noMethod            -- the class has no such member function: no execution at all
  deriving DecidableEq, Repr, Inhabited

def Eff.rel : Eff → Nat → Nat → Nat → Prop
  | .keep, _, n, n' => n' = n
  | .add k, _, n, n' => n' = n + k
  | .addUnique, _, n, n' => n' = n + 1 ∨ (n' = n ∧ n > 0)
  | .pop, _, n, n' => n' + 1 = n
  | .clear, _, _, n' => n' = 0
  | .setArg, arg, _, n' => n' = arg
  | .addArg, arg, n, n' => n' = n + arg
  | .grow, _, n, n' => n ≤ n'
  | .shrink, _, n, n' => n' ≤ n
  | .any, _, _, _ => True
  | .noMethod, _, _, _ => False

/-- decidable refinement: every (before, after) pair the reference allows is allowed by the assumed effect -/
def refinesB : Eff → Eff → Bool
  | .noMethod, _ => true
  | _, .any => true
  | .keep, .keep => true
  | .keep, .grow => true
  | .keep, .shrink => true
  | .add k, .add k' => k == k'
  | .add _, .grow => true
  | .add k, .keep => k == 0
  | .add k, .addUnique => k == 1
  | .addUnique, .addUnique => true
  | .addUnique, .grow => true
  | .pop, .pop => true
  | .pop, .shrink => true
  | .clear, .clear => true
  | .clear, .shrink => true
  | .setArg, .setArg => true
  | .addArg, .addArg => true
  | .addArg, .grow => true
  | .grow, .grow => true
  | .shrink, .shrink => true
  | _, _ => false

/-- what the analysis assumes about a call `c.f(x)` (at most one argument) whose configured action / yield are `a` / `y` -/
def absEffect (a : Action) (y : Yield) : Eff :=
  match a with
  | .push => .add 1
  | .pop => .pop
  | .append => .addArg
  | .clear => .clear
  | .resize => .setArg
  | .change | .insert | .erase => .any
  | .find | .findConst | .changeContent | .changeInternal => .keep
  | .noAction => if y = .noYield then .any else .keep

/-- after a PUSH call `valueFlowContainerSize` forwards "size 0 is impossible" -/
def assumesNonEmptyAfter (a : Action) : Bool := a == .push

/-- the reference effect leaves the container non-empty -/
def leavesNonEmpty : Eff → Bool
  | .add k => k ≥ 1
  | .addUnique => true
  | .noMethod => true
  | _ => false

/-! ### reference semantics of the member functions, per `<container id>` of cfg/std.cfg -/

/-- the class templates an id stands for (its `startPattern`) -/
inductive Kind
  | vector | deque | array | bitset | queue | stack | multiset | multimap | set | map | list | string | stringView | initList | span
  deriving DecidableEq, Repr, Inhabited

def kindOf : String → Option Kind
  | "stdVector" => some .vector | "stdDeque" => some .deque | "stdArray" => some .array | "stdBitset" => some .bitset
  | "stdQueue" => some .queue | "stdStack" => some .stack | "stdMultiSet" => some .multiset | "stdMultiMap" => some .multimap
  | "stdSet" => some .set | "stdMap" => some .map | "stdList" => some .list
  | "stdBasicString" | "stdString" => some .string
  | "stdBasicStringView" | "stdStringView" | "stdExperimentalStringView" | "stdExperimentalBasicStringView" => some .stringView
  | "stdInitializerList" => some .initList | "stdSpan" => some .span
  | _ => none

def Kind.isSequence : Kind → Bool
  | .vector | .deque | .list | .string => true
  | _ => false

def Kind.isMulti : Kind → Bool
  | .multiset | .multimap => true
  | _ => false

def Kind.isUnique : Kind → Bool
  | .set | .map => true
  | _ => false

/-- observers and functions that rearrange / reallocate without changing the number of elements -/
def keepMethods : List String :=
  ["size", "empty", "length", "max_size", "begin", "cbegin", "rbegin", "crbegin", "end", "cend", "rend", "crend", "at", "front",
   "back", "data", "c_str", "top", "find", "rfind", "find_last_of", "find_last_not_of", "find_first_of", "find_first_not_of",
   "count", "lower_bound", "upper_bound", "before_begin", "cbefore_begin", "shrink_to_fit", "reserve", "rehash", "fill",
   "reverse", "sort"]

/-- effect of `k.method(…)` on the size, over all overloads; `none` = the reference has never heard of this member name
    (the table obligation then fails closed) -/
def refEffect (k : Kind) (method : String) : Option Eff :=
  if keepMethods.contains method then some .keep
  else match method with
  | "resize" => some (if k.isSequence then .setArg else .noMethod)
  | "clear" => some (if k.isSequence || k.isMulti || k.isUnique then .clear else .noMethod)
  | "erase" => some (if k.isSequence || k.isMulti || k.isUnique then .shrink else .noMethod)
  | "insert" => some (if k.isSequence || k.isMulti then .grow else if k.isUnique then .grow else .noMethod)
  | "emplace" =>
    some (if k == .vector || k == .deque || k == .list || k.isMulti || k == .queue || k == .stack then .add 1
          else if k.isUnique then .addUnique else .noMethod)
  | "emplace_hint" => some (if k.isMulti then .add 1 else if k.isUnique then .addUnique else .noMethod)
  | "try_emplace" | "insert_or_assign" => some (if k == .map then .addUnique else .noMethod)
  | "swap" => some .any
  | "assign" => some (if k.isSequence then .any else .noMethod)
  | "push_back" | "emplace_back" => some (if k.isSequence then .add 1 else .noMethod)
  | "push_front" | "emplace_front" => some (if k == .deque || k == .list then .add 1 else .noMethod)
  | "pop_back" => some (if k.isSequence then .pop else .noMethod)
  | "pop_front" => some (if k == .deque || k == .list then .pop else .noMethod)
  | "push" => some (if k == .queue || k == .stack then .add 1 else .noMethod)
  | "pop" => some (if k == .queue || k == .stack then .pop else .noMethod)
  | "emplace_after" => some (if k == .list then .add 1 else .noMethod)
  | "erase_after" => some (if k == .list then .shrink else .noMethod)
  | "insert_after" => some (if k == .list then .grow else .noMethod)
  | "remove" | "remove_if" | "unique" => some (if k == .list then .shrink else .noMethod)
  | "merge" | "splice" | "splice_after" => some (if k == .list then .grow else .noMethod)
  | "append" => some (if k == .string then .addArg else .noMethod)
  | "replace" => some (if k == .string then .any else .noMethod)
  | "remove_prefix" | "remove_suffix" => some (if k == .stringView then .shrink else .noMethod)
  | _ => none

/-- one row of the flattened table of cfg/std.cfg (Gen.StdCfgContainers) -/
structure Entry where
  container : String
  method : String
  action : Action
  yield : Yield
  deriving DecidableEq, Repr, Inhabited

/-- the configured action of a row is sound w.r.t. the reference effect -/
def entrySound (e : Entry) : Bool :=
  match kindOf e.container with
  | none => false
  | some k =>
    match refEffect k e.method with
    | none => false
    | some r => refinesB r (absEffect e.action e.yield) && (!assumesNonEmptyAfter e.action || leavesNonEmpty r)

/-! ### straight-line forward analysis of a Known size -/

/-- a call site: the assumed effect, the reference effect and the relevant argument -/
structure Call where
  abs : Eff
  ref : Eff
  arg : Nat
  deriving Repr, Inhabited

/-- `writeValue` / invalidation on a Known size (`none` = no Known size any more); sizes are `Int` as in the C++ (`intvalue`) -/
def absStep (e : Eff) (arg : Nat) : Option Int → Option Int
  | none => match e with
    | .clear => some 0
    | .setArg => some arg
    | _ => none
  | some k => match e with
    | .keep => some k
    | .add j => some (k + j)
    | .pop => some (k - 1)
    | .clear => some 0
    | .setArg => some arg
    | .addArg => if arg = 0 then none else some (k + arg)   -- `if (n == 0) val->setPossible()`
    | _ => none

def absRun : List Call → Option Int → Option Int
  | [], s => s
  | c :: r, s => absRun r (absStep c.abs c.arg s)

/-- the concrete executions: sizes reachable through the reference effects -/
inductive RefRun : List Call → Nat → Nat → Prop
  | nil (n : Nat) : RefRun [] n n
  | cons (c : Call) (r : List Call) (n m k : Nat) : c.ref.rel c.arg n m → RefRun r m k → RefRun (c :: r) n k

/-! ### size of a freshly constructed container

`ctorSize` copies lib/valueflow.cpp `getContainerSizeFromConstructor` / `getInitListSize` / `getContainerSizeFromConstructorArgs`
branch by branch, on an abstraction of the constructor arguments that keeps exactly what those functions test (the type class of the
argument: integral / generic char / pointer / iterator / container, Known int value, Known container size, string-literal length)
together with what the arguments *are* at run time, so that the same call can be given its ISO C++17 meaning by `ctorRef`
([string.cons], [sequence.reqmts], [associative.reqmts], [unord.req], and [over.match.list]: for `{…}` an initializer_list constructor
is preferred whenever the list elements convert to the element type without narrowing).  A Known value of an *argument* is taken to
be right (that is C01 / the size facts of the source container); the question here is only what the constructor makes of it. -/

/-- the container being constructed (element type `int` / `char`; maps are not modelled) -/
inductive CKind
  | string          -- std::string, std::wstring (`stdStringLike`)
  | seq             -- std::vector<int>, std::deque<int>, std::list<int>
  | set             -- std::set<int>
  | uset            -- std::unordered_set<int>
  | multiset        -- std::multiset<int>
  deriving DecidableEq, Repr, Inhabited

/-- one constructor argument -/
inductive Arg
  | num (isChar : Bool) (v : Nat) (known : Bool)
      -- integral expression with run-time value v; `isChar`: of type char / wchar_t (astIsGenericChar); `known`: a literal /
      -- constant expression, cppcheck has the Known value v
  | lit (len : Nat)                 -- string literal with `len` characters
  | cptr (len : Nat)                -- `const char *p` pointing at a NUL-terminated string of `len` characters (no Known length)
  | cptrPlus (len k : Nat) (known : Bool)      -- `p + k` for the same `p`; `known`: k is a literal
  | arrB (n : Nat)                  -- `arr` for `int arr[n]` (pointer to the first element)
  | arrE (n k : Nat)                -- `arr + k` for the same array, k ≤ n a literal
  | itBegin (size distinct : Nat) (known : Bool)
      -- `src.begin()` of a container with `size` elements, `distinct` of them pairwise different; `known`: Known size fact on it
  | itEnd                           -- `src.end()` of the same container
  | cont (size distinct : Nat) (known : Bool)    -- a container of the same type
  deriving DecidableEq, Repr, Inhabited

def Arg.isIntegral : Arg → Bool | .num _ _ _ => true | _ => false                  -- astIsIntegral(tok, false)
def Arg.isGenericChar : Arg → Bool | .num c _ _ => c | _ => false                    -- astIsGenericChar
def Arg.isPointer : Arg → Bool | .lit _ | .cptr _ | .cptrPlus _ _ _ | .arrB _ | .arrE _ _ => true | _ => false   -- astIsPointer
def Arg.isIterator : Arg → Bool | .itBegin _ _ _ | .itEnd => true | _ => false      -- astIsIterator
def Arg.isContainer : Arg → Bool | .cont _ _ _ => true | _ => false                 -- astIsContainer

/-- `makeContainerSizeValue(tok, known)`: the Known int value of the argument, if it has one -/
def Arg.knownInt : Arg → Option Nat
  | .num _ v known => if known then some v else none
  | _ => none

/-- `getContainerValues(tok)`: the container-size values on the argument token (here: a Known one or nothing) -/
def Arg.contValues : Arg → Option Nat
  | .cont s _ known => if known then some s else none
  | .itBegin s _ known => if known then some s else none
  | _ => none

/-- astutils.cpp `isIteratorPair`: two pointers, or two iterators of the same container -/
def isIteratorPair : List Arg → Bool
  | [a, b] => (a.isPointer && b.isPointer) || (a.isIterator && b.isIterator)
  | _ => false

/-- valueflow.cpp `getContainerSizeFromConstructorArgs(args, container, known)` (args non-empty) -/
def ctorArgsSize (stringLike : Bool) (args : List Arg) : Option Nat :=
  match args with
  | [] => none
  | a0 :: rest =>
    if a0.isIntegral then                                    -- `{ count, i } or { count }`
      (if rest.isEmpty || !(rest.head?.map Arg.isIntegral).getD false then a0.knownInt else none)
    else if a0.isContainer && rest.isEmpty then a0.contValues  -- copy constructor
    else if isIteratorPair args then
      match a0.contValues with
      | some s => some s
      | none =>
        if a0.isPointer then                                 -- (ptr, ptr + size)
          match a0, rest with
          | .cptr _, [.cptrPlus _ k known] => if known then some k else none
          | .arrB _, [.arrE _ k] => some k
          | _, _ => none
        else none
    else if stringLike then
      if a0.isPointer then
        match a0, rest with
        | .lit len, [] => some len                           -- one string literal
        | _, [a1] => if a1.isIntegral then a1.knownInt else none   -- { char*, count }
        | _, _ => none
      else if a0.isContainer then
        match rest with
        | [_, a2] => a2.knownInt                             -- { str, pos, count }
        | _ => none
      else none
    else none

/-- valueflow.cpp `getInitListSize(tok, valueType, settings, known)`; `braces`: `tok->str() == "{"`.  For the kinds modelled here the
    element type is integral, and a single container argument has the same container type (copy). -/
def initListSize (k : CKind) (braces : Bool) (args : List Arg) : Option Nat :=
  match args with
  | [] => some 0
  | a0 :: _ =>
    let initList : Bool :=
      if braces && args.length < 4 then
        if k == .string then a0.isGenericChar && !a0.isPointer
        else if a0.isIntegral then true                      -- `vt.isIntegral() && astIsIntegral(args[0], false)`
        else if args.length == 1 && a0.isContainer then false   -- copy ctor (valueFlowIsSameContainerType)
        else !isIteratorPair args
      else braces
    if !initList then ctorArgsSize (k == .string) args else some args.length

/-- the Known size valueFlowContainerSize gives `T x(args)` / `T x{args}` (`none` = no size fact) -/
def ctorSize (k : CKind) (braces : Bool) (args : List Arg) : Option Nat :=
  match args with
  | [] => some 0
  | _ => if braces then initListSize k true args else ctorArgsSize (k == .string) args

/-! #### reference: what the constructor call means -/

/-- the pairwise different values of a list (the last occurrence of each is kept) -/
def dedup : List Nat → List Nat
  | [] => []
  | x :: r => if r.contains x then dedup r else x :: dedup r

def numValues : List Arg → Option (List Nat)
  | [] => some []
  | .num _ v _ :: r => (numValues r).map (v :: ·)
  | _ :: _ => none

/-- every element of a braced list converts to the element type without narrowing: for a `char` element type a non-char operand
    must be a constant (whose value fits); for `int` every integral operand does -/
def listConverts (k : CKind) : List Arg → Bool
  | [] => true
  | .num c _ known :: r => (k != .string || c || known) && listConverts k r
  | _ :: _ => false

def allNum : List Arg → Bool
  | [] => true
  | .num _ _ _ :: r => allNum r
  | _ :: _ => false

/-- the non-list constructors; `none` = no such constructor / precondition violated (ill-formed, throws or undefined) -/
def ctorRefPlain (k : CKind) (args : List Arg) : Option Nat :=
  match k, args with
  | _, [] => some 0
  | _, [.cont s _ _] => some s                                                     -- copy
  | .string, [.num _ n _, .num _ _ _] => some n                                    -- (count, ch)
  | .string, [.lit len] => some len
  | .string, [.cptr len] => some len
  | .string, [.lit len, .num _ n _] => if n ≤ len then some n else none           -- (const char*, n): [s, s+n) must be valid
  | .string, [.cptr len, .num _ n _] => if n ≤ len then some n else none
  | .string, [.cptr len, .cptrPlus _ j _] => if j ≤ len then some j else none      -- (first, last)
  | .string, [.itBegin s _ _, .itEnd] => some s
  | .string, [.cont s _ _, .num _ pos _] => if pos ≤ s then some (s - pos) else none          -- (str, pos): throws if pos > size
  | .string, [.cont s _ _, .num _ pos _, .num _ n _] => if pos ≤ s then some (min n (s - pos)) else none
  | .seq, [.num _ n _] => some n
  | .seq, [.num _ n _, .num _ _ _] => some n
  | .multiset, [.itBegin s _ _, .itEnd] => some s
  | .seq, [.itBegin s _ _, .itEnd] => some s
  | .seq, [.arrB n, .arrE _ j] => if j ≤ n then some j else none
  | .multiset, [.arrB n, .arrE _ j] => if j ≤ n then some j else none
  | .set, [.itBegin _ d _, .itEnd] => some d                                       -- unique keys: the distinct elements
  | .uset, [.itBegin _ d _, .itEnd] => some d
  | .uset, [.num _ _ _] => some 0                                                  -- (bucket_count): an empty container
  | _, _ => none

/-- `T x(args)` / `T x{args}` according to [over.match.list] -/
def ctorRef (k : CKind) (braces : Bool) (args : List Arg) : Option Nat :=
  if braces && !args.isEmpty && allNum args then
    -- the initializer_list constructor is viable: it is chosen; narrowing then makes the program ill-formed
    if listConverts k args then
      match numValues args with
      | some vs => some (if k == .set || k == .uset then (dedup vs).length else vs.length)
      | none => none
    else none
  else ctorRefPlain k args

/-- the call forms where the code as it is gives a Known size that the reference does not have -/
def ctorExcluded (k : CKind) (braces : Bool) (args : List Arg) : Bool :=
  (match k, args with
  | .string, [.cont s _ _, .num _ pos _, .num _ n known] => known && decide (pos + n > s)   -- F02c: count beyond the end
  | .uset, [.num _ _ known] => known && !braces                                            -- F02g: bucket count
  | .string, [.num isChar _ known] => known && !isChar && braces                           -- F02h: `std::string s{65}`
  | .set, [.itBegin s d known, .itEnd] => known && decide (d < s)                           -- F02f: duplicates in the range
  | .uset, [.itBegin s d known, .itEnd] => known && decide (d < s)
  | _, _ => false) ||
  ((k == .set || k == .uset) && braces && allNum args &&                                     -- F02b: duplicates in the list
    (match numValues args with | some vs => decide ((dedup vs).length < vs.length) | none => false))

/-- consistency of the run-time data an argument carries -/
def Arg.wf : Arg → Bool
  | .itBegin s d _ => decide (d ≤ s)
  | .cont s d _ => decide (d ≤ s)
  | _ => true

end Cppcheck.ContainerSize

import Cppcheck.Model.VarMap
/-
C06 — typedef / using-alias transparency: the alias-scoping core.

lib/tokenize.cpp has no scoped alias table of its own: `simplifyTypedef` replaces file-scope typedefs in one pass with a
syntactic `canReplace` test (the token before / after decides whether a name is a type use), block-scope typedefs and
`using` aliases go through `simplifyTypedefCpp` / `simplifyUsing` (brace counting, `ScopeInfo3`).  What they have to
implement is lexical scoping of ordinary identifiers (C17 6.2.1, 6.2.3: typedef names and variables share one name space;
an inner declaration of either kind hides an outer one).  This file states that as an executable expander:

  `Item`        a program: file-scope items, function openers with a parameter, nested blocks, typedef / using
                declarations, variable declarations (with initialiser), assignments
  `events`      the scope events of the program in the vocabulary of C08's `VarMap` (enter / leave / decl / use)
  `expandWith`  the program with every alias declaration dropped and every type-position use of a name replaced by the
                (already expanded) type of the declaration the id list binds it to
  `expandImpl`  ids from the undo-log symbol table (`VarMap.run`, the structure of lib/tokenize.cpp's VariableMap)
  `expandSpec`  ids from the stack of scopes (`VarMap.srun` = lexical scoping)
  `printProg`   C / C++ text of a program

The check feeds BOTH texts (program, `expandImpl` program) to the real `Tokenizer::simplifyTokens1` and compares the token
streams.  TemplateSimplifier and macro expansion (C11: `expand_object_macro_eq_subst`) are not part of this model.
-/
namespace Cppcheck.AliasScope
open Cppcheck.VarMap

inductive Ty
  | base (b : Nat)          -- 0 int, 1 char, 2 long, 3 unsigned, 4 short
  | ptr (t : Ty)
  | name (x : VName)        -- an identifier in type position
  deriving DecidableEq, Repr

inductive Ex
  | num (n : Nat)
  | var (x : VName)
  | add (a b : Ex)
  deriving DecidableEq, Repr

inductive Item
  | opn                                             -- `{`
  | cls                                             -- `}`
  | fopen (f : Nat) (param : Option (VName × Ty))   -- `int f<f> ( [ty name] ) {`
  | tdef (isUsing : Bool) (x : VName) (t : Ty)        -- `typedef t x ;`  /  `using x = t ;`
  | vdecl (x : VName) (t : Ty) (init : Option Ex)   -- `t x [= e] ;`
  | assign (x : VName) (e : Ex)                     -- `x = e ;`
  deriving DecidableEq, Repr

def tyEvents : Ty → List Op
  | .base _ => []
  | .ptr t => tyEvents t
  | .name x => [.use x]

def exEvents : Ex → List Op
  | .num _ => []
  | .var x => [.use x]
  | .add a b => exEvents a ++ exEvents b

/-- scope events of one item; `d` = number of open braces (a declaration outside all braces is a file-scope one) -/
def itemEvents (d : Nat) : Item → List Op
  | .opn => [.enter]
  | .cls => [.leave]
  | .fopen _ none => [.enter]
  | .fopen _ (some (x, t)) => .enter :: (tyEvents t ++ [.decl x false])
  | .tdef _ x t => tyEvents t ++ [.decl x (d == 0)]
  | .vdecl x t init => tyEvents t ++ [.decl x (d == 0)] ++ (match init with | some e => exEvents e | none => [])
  | .assign x e => .use x :: exEvents e

def depthAfter (d : Nat) : Item → Nat
  | .opn => d + 1
  | .cls => d - 1
  | .fopen _ _ => d + 1
  | _ => d

def events : Nat → List Item → List Op
  | _, [] => []
  | d, it :: r => itemEvents d it ++ events (depthAfter d it) r

/-! ## expansion along a list of ids (one id per decl / use event, in event order) -/

abbrev Types := List (VId × Ty)      -- id of an alias declaration ↦ its expanded type

def tyOf (ts : Types) (i : VId) : Option Ty :=
  match ts with
  | [] => none
  | (j, t) :: r => if j = i then some t else tyOf r i

def expTy (ts : Types) : Ty → List VId → Ty × List VId
  | .base b, ids => (.base b, ids)
  | .ptr t, ids => let r := expTy ts t ids; (.ptr r.1, r.2)
  | .name x, [] => (.name x, [])
  | .name x, i :: ids => ((tyOf ts i).getD (.name x), ids)

def skipEx : Ex → List VId → List VId
  | .num _, ids => ids
  | .var _, ids => ids.tail
  | .add a b, ids => skipEx b (skipEx a ids)

def expandWith : Types → List Item → List VId → List Item
  | _, [], _ => []
  | ts, .opn :: r, ids => .opn :: expandWith ts r ids
  | ts, .cls :: r, ids => .cls :: expandWith ts r ids
  | ts, .fopen f none :: r, ids => .fopen f none :: expandWith ts r ids
  | ts, .fopen f (some (x, t)) :: r, ids =>
    let e := expTy ts t ids
    .fopen f (some (x, e.1)) :: expandWith ts r e.2.tail
  | ts, .tdef _ _ t :: r, ids =>
    let e := expTy ts t ids
    -- the declaration disappears; its id now stands for the expanded type
    expandWith ((e.2.headD 0, e.1) :: ts) r e.2.tail
  | ts, .vdecl x t init :: r, ids =>
    let e := expTy ts t ids
    let ids' := match init with | some ex => skipEx ex e.2.tail | none => e.2.tail
    .vdecl x e.1 init :: expandWith ts r ids'
  | ts, .assign x ex :: r, ids => .assign x ex :: expandWith ts r (skipEx ex ids.tail)

/-- expansion with the ids of the undo-log symbol table (a second SPECIFICATION, in the style of lib/tokenize.cpp's VariableMap;
not a model of cppcheck's alias handling, which has no such table) -/
def expandImpl (p : List Item) : List Item := expandWith [] p (run VarMap.init (events 0 p))
/-- expansion with the ids of lexical scoping (stack of scopes) -/
def expandSpec (p : List Item) : List Item := expandWith [] p (srun Spec.init (events 0 p))

/-! ## printing -/

def nm (x : VName) : List Char := 'n' :: (toString x).toList

def baseName : Nat → List Char
  | 0 => "int".toList
  | 1 => "char".toList
  | 2 => "long".toList
  | 3 => "unsigned".toList
  | _ => "short".toList

def printTy : Ty → List Char
  | .base b => baseName b
  | .ptr t => printTy t ++ " *".toList
  | .name x => nm x

def printEx : Ex → List Char
  | .num n => (toString n).toList
  | .var x => nm x
  | .add a b => printEx a ++ " + ".toList ++ printEx b

def printItem : Item → List Char
  | .opn => "{".toList
  | .cls => "}".toList
  | .fopen f none => "int f".toList ++ (toString f).toList ++ " ( void ) {".toList
  | .fopen f (some (x, t)) => "int f".toList ++ (toString f).toList ++ " ( ".toList ++ printTy t ++ ' ' :: nm x ++ " ) {".toList
  | .tdef false x t => "typedef ".toList ++ printTy t ++ ' ' :: nm x ++ " ;".toList
  | .tdef true x t => "using ".toList ++ nm x ++ " = ".toList ++ printTy t ++ " ;".toList
  | .vdecl x t none => printTy t ++ ' ' :: nm x ++ " ;".toList
  | .vdecl x t (some e) => printTy t ++ ' ' :: nm x ++ " = ".toList ++ printEx e ++ " ;".toList
  | .assign x e => nm x ++ " = ".toList ++ printEx e ++ " ;".toList

def printProg (p : List Item) : List Char :=
  p.flatMap fun it => printItem it ++ ['\n']

/-! ## probe text for an independent oracle (a C++ compiler)

The declarations of the program (initialisers and assignments removed) and, after every variable / parameter declaration, a
`static_assert ( __is_same ( decltype ( x ) , <type in the expansion> ) , "" ) ;`.  If a compiler accepts the text, every declared
name has, under the compiler's own name lookup, exactly the type the expansion gives it: this validates `events` / `expandWith`
(which positions consume ids, which declaration an id names) independently of the `VarMap` refinement. -/

def assertLine (x : VName) (t : Ty) : List Char :=
  "static_assert ( __is_same ( decltype ( ".toList ++ nm x ++ " ) , ".toList ++ printTy t ++ " ) , \"\" ) ;".toList

/-- walk the program and its expansion in parallel (the expansion has the same items without the alias declarations) -/
def probeLines : List Item → List Item → List (List Char)
  | [], _ => []
  | .tdef u x t :: r, e => printItem (.tdef u x t) :: probeLines r e
  | .assign _ _ :: r, e => probeLines r e.tail
  | .vdecl x t _ :: r, .vdecl _ t' _ :: e => printItem (.vdecl x t none) :: assertLine x t' :: probeLines r e
  | .fopen f (some (x, t)) :: r, .fopen _ (some (_, t')) :: e =>
    printItem (.fopen f (some (x, t))) :: assertLine x t' :: probeLines r e
  | it :: r, e => printItem it :: probeLines r e.tail

def probeText (p : List Item) : List Char :=
  (probeLines p (expandImpl p)).flatMap fun l => l ++ ['\n']

end Cppcheck.AliasScope

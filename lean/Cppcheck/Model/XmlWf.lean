import Cppcheck.Model.Wire
/-
C20 — XmlWf: a character-level recogniser for "tinyxml2 `XMLDocument::LoadFile`/`Parse` succeeds", sufficient for
the documents cppcheck writes into a build directory (and their byte prefixes), plus the data `skipAnalysis` reads from a
loaded document: the first top-level element (`FirstChildElement()`), its name and attributes.

It is a pushdown automaton that consumes ONE byte per step (`step`), so the state after a byte prefix of a file is the
state of the run at that point — which is what the crash theorems need.  The automaton copies externals/tinyxml2:

  Identify          `<?` declaration, `<!--` comment, `<![CDATA[`, `<!` unknown, `<` element, otherwise text; leading
                    whitespace is skipped before every node
  XMLNode::ParseDeep  children until the matching end tag; end of input inside an element is an error; a mismatching end
                    tag is an error; an end tag at document level silently ends the parse (`stopped`); declarations only at
                    document level before everything else
  XMLElement::ParseDeep / ParseAttributes / XMLAttribute::ParseDeep   `< name`, `</name`, attributes `n = "v"` / `'v'`,
                    duplicate attribute names rejected, `/>` (also after `</name`: then treated as a sealed element)
  XMLText::ParseDeep  text runs to the next `<`, which must exist
  XMLDocument::Parse  a document without any non-whitespace byte is an error (XML_ERROR_EMPTY_DOCUMENT)

Not modelled: the byte order mark, the depth limit (TINYXML2_MAX_ELEMENT_DEPTH), NUL bytes, entity decoding of
attribute values (the raw bytes are kept).
-/
namespace Cppcheck.XmlWf
open Cppcheck.Wire

def isWs (c : Char) : Bool :=
  c == ' ' || c == '\t' || c == '\n' || c == Char.ofNat 11 || c == Char.ofNat 12 || c == '\r'

def isAlpha (c : Char) : Bool := ('a' ≤ c && c ≤ 'z') || ('A' ≤ c && c ≤ 'Z')
def isDigit (c : Char) : Bool := '0' ≤ c && c ≤ '9'

/-- `XMLUtil::IsNameStartChar` -/
def isNameStart (c : Char) : Bool := decide (c.toNat ≥ 128) || isAlpha c || c == ':' || c == '_'
/-- `XMLUtil::IsNameChar` -/
def isNameChar (c : Char) : Bool := isNameStart c || isDigit c || c == '.' || c == '-'

abbrev Attrs := List (Str × Str)

/-- the tag being read: `</`? name, attributes so far -/
structure Tag where
  closing : Bool
  name : Str
  attrs : Attrs
  deriving DecidableEq, Repr, Inhabited

inductive Mode where
  /-- between nodes / inside text (`inText`: a text node is open and still needs its terminating `<`) -/
  | content (inText : Bool)
  /-- just after `<` -/
  | lt
  /-- inside `<? … ?>`; `m` = matched prefix length of `?>` -/
  | decl (m : Nat)
  /-- after `<!`: the bytes seen so far still match a prefix of `--` or `[CDATA[` -/
  | bang (seen : Str)
  | comment (m : Nat)
  | cdata (m : Nat)
  | unknown
  /-- after `<` and whitespace, before the name (`/` still allowed) -/
  | elemWs
  /-- after `</`: the name must start here -/
  | nameStart
  | name (t : Tag)
  | attrs (t : Tag)
  /-- after `/` inside a tag: `>` must follow -/
  | slash (t : Tag)
  | attrName (t : Tag) (an : Str)
  | afterAttrName (t : Tag) (an : Str)
  | afterEq (t : Tag) (an : Str)
  | value (t : Tag) (an : Str) (q : Char) (v : Str)
  /-- an end tag at document level: `XMLDocument::Parse` returns without error, the rest is ignored -/
  | stopped
  | error
  deriving DecidableEq, Repr, Inhabited

structure St where
  mode : Mode
  /-- open elements, innermost first -/
  stack : List Str
  /-- a non-whitespace byte was seen -/
  nonEmpty : Bool
  /-- every top-level node so far is a declaration -/
  onlyDecls : Bool
  /-- first top-level element: name and attributes (`FirstChildElement()`) -/
  root : Option (Str × Attrs)
  deriving DecidableEq, Repr, Inhabited

def St.init : St := ⟨.content false, [], false, true, none⟩

def St.err (s : St) : St := { s with mode := .error }

/-- a non-declaration node completes / starts at document level -/
def St.noteNode (s : St) : St := if s.stack.isEmpty then { s with onlyDecls := false } else s

/-- the open tag `<name attrs>` is complete -/
def openTag (s : St) (t : Tag) : St :=
  let s := s.noteNode
  let s := if s.stack.isEmpty && s.root.isNone then { s with root := some (t.name, t.attrs) } else s
  { s with stack := t.name :: s.stack, mode := .content false }

/-- the sealed tag `<name attrs/>` is complete -/
def sealedTag (s : St) (t : Tag) : St :=
  let s := s.noteNode
  let s := if s.stack.isEmpty && s.root.isNone then { s with root := some (t.name, t.attrs) } else s
  { s with mode := .content false }

/-- the end tag `</name>` is complete -/
def closeTag (s : St) (t : Tag) : St :=
  match s.stack with
  | [] => { s with mode := .stopped }
  | top :: rest => if top = t.name then { s with stack := rest, mode := .content false } else s.err

/-- `>` ends the tag -/
def endTag (s : St) (t : Tag) : St := if t.closing then closeTag s t else openTag s t

/-- the declaration `<? … ?>` is complete: allowed only at document level before every other node -/
def endDecl (s : St) : St :=
  if s.stack.isEmpty && s.onlyDecls then { s with mode := .content false } else s.err

/-- a comment / CDATA / unknown node is complete -/
def endMisc (s : St) : St := { s.noteNode with mode := .content false }

def dashdash : Str := ['-', '-']
def cdataHdr : Str := ['[', 'C', 'D', 'A', 'T', 'A', '[']

/-- in tag `t`, at the position where an attribute, `>` or `/>` may start -/
def attrsStep (s : St) (t : Tag) (c : Char) : St :=
  if isWs c then { s with mode := .attrs t }
  else if isNameStart c then { s with mode := .attrName t [c] }
  else if c == '>' then endTag s t
  else if c == '/' then { s with mode := .slash t }
  else s.err

/-- after an attribute name: whitespace, then `=` -/
def afterAttrNameStep (s : St) (t : Tag) (an : Str) (c : Char) : St :=
  if isWs c then { s with mode := .afterAttrName t an }
  else if c == '=' then { s with mode := .afterEq t an }
  else s.err

def step (s0 : St) (c : Char) : St :=
  let s : St := if isWs c then s0 else { s0 with nonEmpty := true }
  match s.mode with
  | .error => s
  | .stopped => s
  | .content inText =>
    if c == '<' then { (if inText then s.noteNode else s) with mode := .lt }
    else if isWs c then s
    else { s with mode := .content true }
  | .lt =>
    if c == '?' then { s with mode := .decl 0 }
    else if c == '!' then { s with mode := .bang [] }
    else if isWs c then { s with mode := .elemWs }
    else if c == '/' then { s with mode := .nameStart }
    else if isNameStart c then { s with mode := .name ⟨false, [c], []⟩ }
    else s.err
  | .elemWs =>
    if isWs c then s
    else if c == '/' then { s with mode := .nameStart }
    else if isNameStart c then { s with mode := .name ⟨false, [c], []⟩ }
    else s.err
  | .nameStart =>
    if isNameStart c then { s with mode := .name ⟨true, [c], []⟩ } else s.err
  | .name t =>
    if isNameChar c then { s with mode := .name { t with name := t.name ++ [c] } }
    else attrsStep s t c
  | .attrs t => attrsStep s t c
  | .slash t => if c == '>' then sealedTag s t else s.err
  | .attrName t an =>
    if isNameChar c then { s with mode := .attrName t (an ++ [c]) }
    else afterAttrNameStep s t an c
  | .afterAttrName t an => afterAttrNameStep s t an c
  | .afterEq t an =>
    if isWs c then s
    else if c == '"' || c == '\'' then { s with mode := .value t an c [] }
    else s.err
  | .value t an q v =>
    if c == q then
      if t.attrs.any (fun a => a.1 == an) then s.err
      else { s with mode := .attrs { t with attrs := t.attrs ++ [(an, v)] } }
    else { s with mode := .value t an q (v ++ [c]) }
  | .decl m =>
    if c == '>' && m == 1 then endDecl s
    else { s with mode := .decl (if c == '?' then 1 else 0) }
  | .bang seen =>
    let seen' := seen ++ [c]
    if seen' == dashdash then { s with mode := .comment 0 }
    else if seen' == cdataHdr then { s with mode := .cdata 0 }
    else if seen'.isPrefixOf dashdash || seen'.isPrefixOf cdataHdr then { s with mode := .bang seen' }
    else if c == '>' then endMisc s
    else { s with mode := .unknown }
  | .unknown => if c == '>' then endMisc s else s
  | .comment m =>
    if c == '>' && m == 2 then endMisc s
    else { s with mode := .comment (if c == '-' then min (m + 1) 2 else 0) }
  | .cdata m =>
    if c == '>' && m == 2 then endMisc s
    else { s with mode := .cdata (if c == ']' then min (m + 1) 2 else 0) }

def run (s : St) (bytes : Str) : St := bytes.foldl step s

/-- `XMLDocument::Parse` ended without error at the end of the input -/
def St.accepting (s : St) : Bool :=
  match s.mode with
  | .stopped => true
  | .content inText => !inText && s.stack.isEmpty && s.nonEmpty
  | _ => false

inductive LoadResult where
  /-- `LoadFile` returns an error code (other than file-not-found) -/
  | error
  /-- XML_SUCCESS; the first top-level element, if any -/
  | ok (root : Option (Str × Attrs))
  deriving DecidableEq, Repr, Inhabited

def load (bytes : Str) : LoadResult :=
  let s := run St.init bytes
  if s.accepting then .ok s.root else .error

/-- `XMLElement::Attribute(name)` -/
def attr (as : Attrs) (n : Str) : Option Str := (as.find? (fun a => a.1 == n)).map (·.2)

/-! ### the documents cppcheck writes (lib/analyzerinfo.cpp) -/

/-- `mOutputStream << "<?xml version=\"1.0\"?>\n" << "<analyzerinfo hash=\"" << hash << "\">\n"` -/
def headerA : Str :=
  ['<', '?', 'x', 'm', 'l', ' ', 'v', 'e', 'r', 's', 'i', 'o', 'n', '=', '"', '1', '.', '0', '"', '?', '>', '\n', '<', 'a', 'n', 'a', 'l', 'y', 'z', 'e', 'r', 'i', 'n', 'f', 'o', ' ', 'h', 'a', 's', 'h', '=', '"']
def headerB : Str := ['"', '>', '\n']
def header (hash : Str) : Str := headerA ++ hash ++ headerB

/-- `close()` -/
def footerA : Str := ['<', '/', 'a', 'n', 'a', 'l', 'y', 'z', 'e', 'r', 'i', 'n', 'f', 'o']
def footer : Str := footerA ++ ['>', '\n']

/-- a complete cache file: header, the items appended by `reportErr` / `setFileInfo`, footer -/
def document (hash : Str) (items : List Str) : Str := header hash ++ items.flatten ++ footer

def rootName : Str := ['a', 'n', 'a', 'l', 'y', 'z', 'e', 'r', 'i', 'n', 'f', 'o']
def hashName : Str := ['h', 'a', 's', 'h']

/-- state inside the root element, between two items -/
def inRoot (hash : Str) : St :=
  ⟨.content false, [rootName], true, false, some (rootName, [(hashName, hash)])⟩

/-- every state of the run over `bytes` (the start state, the state after each byte, the end state) keeps the element
stack at least `depth` deep and is not `stopped` -/
def guardB (depth : Nat) : St → Str → Bool
  | s, [] => decide (depth ≤ s.stack.length) && s.mode != .stopped
  | s, c :: r => decide (depth ≤ s.stack.length) && s.mode != .stopped && guardB depth (step s c) r

/-- An item is *balanced*: read inside the root element it never leaves it and ends between two nodes.
(`msg.toXML() + "\n"` and the `<FileInfo …> … </FileInfo>\n` blocks are checked against this predicate by the tie.) -/
def balancedItem (hash : Str) (item : Str) : Bool :=
  guardB 1 (inRoot hash) item && run (inRoot hash) item == inRoot hash

def hashOk (hash : Str) : Bool := hash.all isDigit

/-- outcome of `analyzeFile`'s look at an existing cache file (`LoadFile` + `skipAnalysis` up to the hash comparison) -/
inductive Decision where
  | reuse | loadError | noRoot | badRoot | noHash | hashMismatch
  deriving DecidableEq, Repr, Inhabited

def decision (bytes : Str) (hash : Str) : Decision :=
  match load bytes with
  | .error => .loadError
  | .ok none => .noRoot
  | .ok (some (n, as)) =>
    if n != rootName then .badRoot
    else match attr as hashName with
      | none => .noHash
      | some h => if h == hash then .reuse else .hashMismatch

end Cppcheck.XmlWf

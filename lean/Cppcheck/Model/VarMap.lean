/-
C08 — executable model of `VariableMap` (lib/tokenize.cpp, anonymous namespace, "class VariableMap") and the
op-level specification it has to refine (a stack of scopes = C lexical scoping).

The C++ object:
  mVariableId         : unordered_map name -> {id, assigned}     current bindings             (`cur`)
  mVariableId_global  : unordered_map name -> {id, assigned}     bindings made outside any `{` (`glob`, read by `::x`)
  mScopeInfo          : stack<vector<pair<name, VarInfo>>>       one undo log per open scope  (`undo`)
  mVarId              : last id handed out                                                   (`next`)

`enterScope`  pushes an empty undo log.
`addVariable` (x, g): no open scope -> cur[x] := ++next (and glob[x] if g);
              else x unbound        -> log (x, {0}) ; cur[x] := ++next (and glob[x] if g)
              else                  -> log (x, cur[x]) ; cur[x].id := ++next           (glob untouched)
`leaveScope`  replays the top log: id != 0 -> cur[x] := logged, id = 0 -> erase x; pops the log.

The order in which `leaveScope` replays the log is the point of finding F4: the main model `restore`
replays NEWEST FIRST (the repaired code); `restoreOld` replays OLDEST FIRST (the code before the fix) and is
kept only for the counterexample theorem.

A map is an association list, newest binding first; `erasev` removes every binding of a name, so a list
behaves exactly like the C++ map it stands for (only `lookup` is observable).
The `assigned` flag of `VarInfo` is not modelled: it only gates the `%type% %name% (` heuristic in
`setVarIdPass1`, a token shape the modelled programs never contain.
-/
namespace Cppcheck.VarMap

abbrev VName := Nat
abbrev VId := Nat
abbrev AMap := List (VName × VId)

def lookup (m : AMap) (x : VName) : Option VId :=
  match m with
  | [] => none
  | (y, i) :: r => if y = x then some i else lookup r x

def setv (m : AMap) (x : VName) (i : VId) : AMap := (x, i) :: m
def erasev (m : AMap) (x : VName) : AMap := m.filter (fun p => p.1 ≠ x)

/-- one undo log: (name, binding to restore — `none` stands for the C++ `VarInfo{}` with id 0 = "erase") -/
abbrev Undo := List (VName × Option VId)

def undo1 (c : AMap) (p : VName × Option VId) : AMap :=
  match p.2 with
  | some i => setv c p.1 i
  | none => erasev c p.1

/-- `leaveScope`, repaired order: the log is replayed newest entry first -/
def restore (cur : AMap) (u : Undo) : AMap := u.reverse.foldl undo1 cur

/-- `leaveScope` before the fix (F4): the log is replayed oldest entry first -/
def restoreOld (cur : AMap) (u : Undo) : AMap := u.foldl undo1 cur

/-- the events of `setVarIdPass1` that touch the `VariableMap`.
`decl x g` = `addVariable(x, g)` (g = `scopeStack.size() <= 1`: not inside any braces) followed by the declared
name token receiving the new id; `use x` = a name token looked up in `map(false)`; `guse x` = `::x`, looked up in
`map(true)`.  `skip`/`hide` are the two halves of `enum { x = e }`: the enumerator token keeps varid 0 (the isEnum test
in setVarIdPass1) and, after its initialiser, the NAME is in scope as a non-variable — the `VariableMap` is not told. -/
inductive Op
  | enter
  | leave
  | decl (x : VName) (g : Bool)
  | use (x : VName)
  | guse (x : VName)
  | skip                    -- a name token setVarIdPass1 deliberately leaves without id (an enumerator being defined)
  | hide (x : VName)        -- an enumerator `x` becomes visible: invisible to `VariableMap`, a binding for lexical scoping
  deriving DecidableEq, Repr

structure VarMap where
  cur : AMap
  glob : AMap
  undo : List Undo
  next : VId
  deriving Repr

def VarMap.init : VarMap := ⟨[], [], [], 0⟩

def VarMap.addVariable (m : VarMap) (x : VName) (g : Bool) : VarMap :=
  let i := m.next + 1
  match m.undo with
  | [] => { m with cur := setv m.cur x i, glob := if g then setv m.glob x i else m.glob, next := i }
  | u :: us =>
    match lookup m.cur x with
    | none => { cur := setv m.cur x i, glob := if g then setv m.glob x i else m.glob,
                undo := (u ++ [(x, none)]) :: us, next := i }
    | some old => { m with cur := setv m.cur x i, undo := (u ++ [(x, some old)]) :: us, next := i }

/-- one event, parametric in the replay function of `leaveScope` -/
def stepWith (rs : AMap → Undo → AMap) (m : VarMap) : Op → VarMap
  | .enter => { m with undo := [] :: m.undo }
  | .leave =>
    match m.undo with
    | [] => m                                   -- `leaveScope` returns false, nothing changes
    | u :: us => { m with cur := rs m.cur u, undo := us }
  | .decl x g => m.addVariable x g
  | .use _ => m
  | .guse _ => m
  | .skip => m
  | .hide _ => m                                -- the table never learns about enumerators (finding F8b)

/-- the ids written to name tokens by one event (0 = the token keeps varid 0) -/
def emit (m : VarMap) : Op → List VId
  | .decl _ _ => [m.next + 1]
  | .use x => [(lookup m.cur x).getD 0]
  | .guse x => [(lookup m.glob x).getD 0]
  | .skip => [0]
  | _ => []

def step : VarMap → Op → VarMap := stepWith restore
def stepOld : VarMap → Op → VarMap := stepWith restoreOld

def execWith (rs : AMap → Undo → AMap) (m : VarMap) (ops : List Op) : VarMap := ops.foldl (stepWith rs) m

def runWith (rs : AMap → Undo → AMap) : VarMap → List Op → List VId
  | _, [] => []
  | m, o :: r => emit m o ++ runWith rs (stepWith rs m o) r

/-- state after a list of events (repaired code) -/
def exec (m : VarMap) (ops : List Op) : VarMap := execWith restore m ops
/-- ids written to the name tokens, in token order (repaired code) -/
def run (m : VarMap) (ops : List Op) : List VId := runWith restore m ops
/-- the same for the code before the fix -/
def runOld (m : VarMap) (ops : List Op) : List VId := runWith restoreOld m ops

/-- the ids handed to declarations only -/
def declIds : VarMap → List Op → List VId
  | _, [] => []
  | m, o :: r => (match o with | .decl _ _ => [m.next + 1] | _ => []) ++ declIds (step m o) r

/-! ## op-level specification: a stack of scopes (C lexical scoping) -/

structure Spec where
  inner : List AMap       -- open block scopes, innermost first
  glob : AMap             -- file scope
  next : VId
  deriving Repr

def Spec.init : Spec := ⟨[], [], 0⟩

def slookup (inner : List AMap) (glob : AMap) (x : VName) : Option VId :=
  match inner with
  | [] => lookup glob x
  | sc :: r =>
    match lookup sc x with
    | some i => some i
    | none => slookup r glob x

def sstep (s : Spec) : Op → Spec
  | .enter => { s with inner := [] :: s.inner }
  | .leave =>
    match s.inner with
    | [] => s
    | _ :: r => { s with inner := r }
  | .decl x _ =>
    match s.inner with
    | [] => { s with glob := setv s.glob x (s.next + 1), next := s.next + 1 }
    | sc :: r => { s with inner := setv sc x (s.next + 1) :: r, next := s.next + 1 }
  | .use _ => s
  | .guse _ => s
  | .skip => s
  -- an enumerator is bound in the enclosing scope as a NON-variable: id 0 (ids of variables start at 1)
  | .hide x =>
    match s.inner with
    | [] => { s with glob := setv s.glob x 0 }
    | sc :: r => { s with inner := setv sc x 0 :: r }

def semit (s : Spec) : Op → List VId
  | .decl _ _ => [s.next + 1]
  | .use x => [(slookup s.inner s.glob x).getD 0]
  | .guse x => [(lookup s.glob x).getD 0]
  | .skip => [0]
  | _ => []

def sexec (s : Spec) (ops : List Op) : Spec := ops.foldl sstep s

def srun : Spec → List Op → List VId
  | _, [] => []
  | s, o :: r => semit s o ++ srun (sstep s o) r

/-- Well-formedness of the `::x` part of an event list (decidable):
a declaration made while no scope is open carries g = true, and `::x` is only used for a name that has a
file-scope declaration earlier in the list.  `d` = number of open scopes, `fs` = names declared at file scope. -/
def globalOK : Nat → List VName → List Op → Bool
  | _, _, [] => true
  | d, fs, .enter :: r => globalOK (d + 1) fs r
  | d, fs, .leave :: r => globalOK (d - 1) fs r
  | d, fs, .decl x g :: r => if d = 0 then g && globalOK d (x :: fs) r else globalOK d fs r
  | d, fs, .use _ :: r => globalOK d fs r
  | d, fs, .guse x :: r => fs.contains x && globalOK d fs r
  | d, fs, .skip :: r => globalOK d fs r
  | d, fs, .hide _ :: r => globalOK d fs r

def noGuse : List Op → Bool
  | [] => true
  | .guse _ :: _ => false
  | _ :: r => noGuse r

/-- event lists without enumerator events (the op language of DESIGN.md Appendix A plus uses) -/
def noHide : List Op → Bool
  | [] => true
  | .hide _ :: _ => false
  | _ :: r => noHide r

/-- classifier of finding F4: some scope with an undo log declares one name twice (`st` = names declared so far
in each open scope, innermost first) -/
def dupInScope : List (List VName) → List Op → Bool
  | _, [] => false
  | st, .enter :: r => dupInScope ([] :: st) r
  | st, .leave :: r => dupInScope st.tail r
  | [], .decl _ _ :: r => dupInScope [] r
  | sc :: st, .decl x _ :: r => sc.contains x || dupInScope ((x :: sc) :: st) r
  | st, .use _ :: r => dupInScope st r
  | st, .guse _ :: r => dupInScope st r
  | st, .skip :: r => dupInScope st r
  | st, .hide _ :: r => dupInScope st r

/-- Hypothesis of the partial theorems (decidable; evaluated along the specification): whenever an enumerator `x`
becomes visible, no VARIABLE named `x` is visible at that point.  The excluded programs are exactly those in which an
enumerator hides a variable (finding F8b: `int x; int f(void){ enum { x = 5 }; return x; }`). -/
def noVarHidden : Spec → List Op → Bool
  | _, [] => true
  | s, o :: r =>
    (match o with
     | .hide x => (slookup s.inner s.glob x).getD 0 == 0
     | _ => true) && noVarHidden (sstep s o) r

end Cppcheck.VarMap

import Cppcheck.Model.CondExpr
/-
C03 — branch-for-branch model of lib/astutils.cpp
  * `isSameExpression(macro=true, tok1, tok2, settings, pure=true, followVar=false)`        (`isSame`)
  * `isOppositeCond(isNot, cond1, cond2, settings, pure=true, followVar=false)`              (`isOpp`)
  * `isOppositeExpression(tok1, tok2, …)`                                                     (`isOppExpr`)
  * `isUsedAsBool` / `astIsBoolLike`, `isEqualKnownValue` / `isDifferentKnownValues`, `isSameConstantValue`
restricted to the tokens of `Expr` (no calls, casts, references, macros, containers: those branches of the C++ are not
reachable on such tokens and are left out; DESIGN "outside the model").

`isUsedAsBool` looks at the *parent* of a token; the model passes the parent kind down as a `Ctx`.
Recursion is by fuel; the entry points use `size e1 + size e2`, which every recursive call strictly decreases.
-/
namespace Cppcheck.CondExpr

/-- kind of the AST parent of an occurrence: `( ` of `if`, `!`, `&&`/`||`, or any other operator of the language
    (all of which are `%cop%`: arithmetic, bitwise, comparison) -/
inductive Ctx | cond | lnot | logic | cop
  deriving DecidableEq, Repr, Inhabited

def Ctx.isBool : Ctx → Bool
  | .cop => false
  | _ => true

def childCtxU : UnOp → Ctx
  | .lnot => .lnot
  | _ => .cop

def childCtxB : BinOp → Ctx
  | .land | .lor => .logic
  | _ => .cop

/-- `Token::Match(tok, "!|&&|%oror%|%comp%")` -/
def Expr.isBoolVal : Expr → Bool
  | .un _ .lnot _ => true
  | .bin _ op _ _ => op.isCmp || op.isLogic
  | _ => false

/-- `astIsBool(tok)` -/
def astIsBool (e : Expr) : Bool :=
  match e.ann.vt with
  | some vt => vt.type == 0
  | none => false

/-- `isUsedAsBool(tok, settings)` (= `astIsBoolLike`, which only adds `astIsBool` in front) for a token whose parent
    has kind `c` -/
def boolLike (c : Ctx) (e : Expr) : Bool := astIsBool e || e.isBoolVal || c.isBool

/-- `tok1->str() == tok2->str()` (two variable tokens of one function have the same spelling iff the same varId) -/
def Expr.strEq : Expr → Expr → Bool
  | .lit _ s1, .lit _ s2 => s1 == s2
  | .var _ i, .var _ j => i == j
  | .un _ o1 _, .un _ o2 _ => o1 == o2
  | .bin _ o1 _ _, .bin _ o2 _ _ => o1 == o2
  | .un _ .neg _, .bin _ .sub _ _ => true
  | .bin _ .sub _ _, .un _ .neg _ => true
  | _, _ => false

/-- `isDifferentKnownValues` -/
def diffKnown (e1 e2 : Expr) : Bool :=
  match e1.ann.first, e2.ann.first with
  | some a, some b => a != b
  | _, _ => false

/-- `isEqualKnownValue` -/
def equalKnown (e1 e2 : Expr) : Bool :=
  match e1.ann.first, e2.ann.first with
  | some a, some b => a == b
  | _, _ => false

/-- `isSameConstantValue(macro, tok1, tok2)` -/
def sameConst (e1 e2 : Expr) : Bool :=
  match e1, e2 with
  | .lit a1 _, .lit a2 _ =>
    (match a1.vt, a2.vt with
     | some v1, some v2 => v1.sign == v2.sign && v1.type == v2.type
     | _, _ => false) && equalKnown e1 e2
  | _, _ => false

/-- `!!x` ↦ `x` -/
def Expr.dblNot : Expr → Option Expr
  | .un _ .lnot (.un _ .lnot x) => some x
  | _ => none

def flipPair (o1 o2 : BinOp) : Bool :=
  ((o1 == .lt || o1 == .gt) && (o2 == .lt || o2 == .gt)) || ((o1 == .le || o1 == .ge) && (o2 == .le || o2 == .ge))

/-- astutils.cpp:1667 — `<` against `>` (`<=` against `>=`): the operand pairs compared crosswise -/
def flipPick (e1 e2 : Expr) : Option (Expr × Expr × Expr × Expr) :=
  match e1, e2 with
  | .bin _ o1 l1 r1, .bin _ o2 l2 r2 => if flipPair o1 o2 then some (l1, r2, r1, l2) else none
  | _, _ => none

/-- `exprTok` is `!x` -/
def Expr.notArg : Expr → Option Expr
  | .un _ .lnot x => some x
  | _ => none

/-- astutils.cpp:1685-1691: the Known int value on one side of the `==`/`!=`, and the other side -/
def eqNeKnown (l r : Expr) : Option (Int × Expr) :=
  match l.ann.known with
  | some k => some (k, r)
  | none =>
    match r.ann.known with
    | some k => some (k, l)
    | none => none

/-- astutils.cpp:1696-1705 (since e3a434e: only a comparison with 1 stands for the boolean itself) -/
def eqNeCompare (k : Int) (exprIsNot : Bool) (op : BinOp) : Bool :=
  (k == 0 && exprIsNot && op == .eq) || (k == 0 && !exprIsNot && op == .ne) ||
  (k == 1 && exprIsNot && op == .ne) || (k == 1 && !exprIsNot && op == .eq)

def Expr.isCmp : Expr → Bool
  | .bin _ o _ _ => o.isCmp
  | _ => false

/-- astutils.cpp:1672–1709 for `condTok` (an `==`/`!=` token) against `exprTok` (with parent kind `ce`): the pair
    (`varTok1`, `varTok2`) on which `isSameExpression` recurses, with their parent kinds -/
def eqNeCond (cond : Expr) (ce : Ctx) (expr : Expr) : Option (Ctx × Expr × Ctx × Expr) :=
  match cond with
  | .bin _ op l r =>
    if expr.isCmp then none
    else
      match eqNeKnown l r with
      | none => none
      | some (k, varTok1) =>
        match expr.notArg with
        | some x =>
          if eqNeCompare k true op && boolLike .cop varTok1 && boolLike .lnot x then some (.cop, varTok1, .lnot, x) else none
        | none =>
          if eqNeCompare k false op && boolLike .cop varTok1 && boolLike ce expr then some (.cop, varTok1, ce, expr) else none
  | _ => none

def Expr.isEqNe : Expr → Bool
  | .bin _ .eq _ _ => true
  | .bin _ .ne _ _ => true
  | _ => false

def eqNePick (c1 : Ctx) (e1 : Expr) (c2 : Ctx) (e2 : Expr) : Option (Ctx × Expr × Ctx × Expr) :=
  if e1.isEqNe then eqNeCond e1 c2 e2
  else if e2.isEqNe then eqNeCond e2 c1 e1
  else none

/-- `Token::Match(tok1, "%or%|%oror%|+|*|&|&&|^|==|!=")` -/
def BinOp.commutative : BinOp → Bool
  | .bor | .lor | .add | .mul | .band | .land | .bxor | .eq | .ne => true
  | _ => false

/-- astutils.cpp:1795 "in c++, a+b might be different to b+a": passes iff both operands have a value type
    (every value type of the language is `>= ValueType::VOID`) -/
def plusOk (cpp : Bool) (op : BinOp) (l r : Expr) : Bool :=
  !(cpp && op == .add) || (l.ann.vt.isSome && r.ann.vt.isSome)

def isSameF (cpp : Bool) : Nat → Ctx → Expr → Ctx → Expr → Bool
  | 0, _, _, _, _ => false
  | n + 1, c1, e1, c2, e2 =>
    -- "Skip double not"
    match (if boolLike c2 e2 then e1.dblNot else none) with
    | some x => isSameF cpp n .lnot x c2 e2
    | none =>
    match (if boolLike c1 e1 then e2.dblNot else none) with
    | some y => isSameF cpp n c1 e1 .lnot y
    | none =>
    if !(e1.strEq e2) && diffKnown e1 e2 then false
    else if sameConst e1 e2 then true
    else if !(e1.strEq e2) then
      match flipPick e1 e2 with
      | some (a, b, c, d) => isSameF cpp n .cop a .cop b && isSameF cpp n .cop c .cop d
      | none =>
        match eqNePick c1 e1 c2 e2 with
        | some (ca, a, cb, b) => isSameF cpp n ca a cb b
        | none => false
    else
      match e1, e2 with
      | .lit _ _, .lit _ _ => true
      | .var _ _, .var _ _ => true
      | .un _ o1 x1, .un _ _ x2 => isSameF cpp n (childCtxU o1) x1 (childCtxU o1) x2
      | .bin _ o1 l1 r1, .bin _ _ l2 r2 =>
        let cc := childCtxB o1
        (isSameF cpp n cc l1 cc l2 && isSameF cpp n cc r1 cc r2) ||
        (plusOk cpp o1 l1 r1 && o1.commutative && isSameF cpp n cc r1 cc l2 && isSameF cpp n cc l1 cc r2)
      | _, _ => false

def isSame (cpp : Bool) (c1 : Ctx) (e1 : Expr) (c2 : Ctx) (e2 : Expr) : Bool :=
  isSameF cpp (e1.size + e2.size) c1 e1 c2 e2

def Expr.isZeroStr : Expr → Bool
  | .lit _ sp => sp == ['0']
  | _ => false

/-- astutils.cpp:1885-1887 -/
def notGeneric (cpp : Bool) (x : Expr) (c2 : Ctx) (cond2 : Expr) : Bool :=
  if !boolLike c2 cond2 then false else isSame cpp .lnot x c2 cond2

/-- astutils.cpp:1878–1888: `cond1` is `!x` -/
def notBranch (cpp : Bool) (x : Expr) (c2 : Ctx) (cond2 : Expr) : Bool :=
  match cond2 with
  | .bin _ .ne l r =>
    if l.isZeroStr then isSame cpp .lnot x .cop r
    else if r.isZeroStr then isSame cpp .lnot x .cop l
    else notGeneric cpp x c2 cond2
  | _ => notGeneric cpp x c2 cond2

/-- astutils.cpp:1894–1899 -/
def eqEqRule (cpp : Bool) (cond1 cond2 : Expr) : Option Bool :=
  match cond1, cond2 with
  | .bin _ .eq l1 r1, .bin _ .eq l2 r2 =>
    if isSame cpp .cop l1 .cop l2 then some (diffKnown r1 r2)
    else if isSame cpp .cop r1 .cop r2 then some (diffKnown l1 l2)
    else none
  | _, _ => none

def flipOp : BinOp → BinOp
  | .lt => .gt | .gt => .lt | .le => .ge | .ge => .le | o => o

/-- astutils.cpp:1956–1968 "get comparator" -/
def comp2 (cpp : Bool) (cond1 cond2 : Expr) : Option BinOp :=
  match cond1, cond2 with
  | .bin _ _ l1 r1, .bin _ o2 l2 r2 =>
    if isSame cpp .cop l1 .cop l2 && isSame cpp .cop r1 .cop r2 then some o2
    else if isSame cpp .cop l1 .cop r2 && isSame cpp .cop r1 .cop l2 then some (flipOp o2)
    else none
  | _, _ => none

/-- the operand with the Known int value, the other operand, the comparator read with the value on the right -/
def valueSide (o : BinOp) (l r : Expr) : Option (Expr × Expr × BinOp) :=
  if r.ann.known.isSome then some (l, r, o)
  else if l.ann.known.isSome then some (r, l, flipOp o)
  else none

/-- astutils.cpp:1970–2010 -/
def knownRule (cpp : Bool) (cond1 cond2 : Expr) : Bool :=
  match cond1, cond2 with
  | .bin _ o1 l1 r1, .bin _ o2 l2 r2 =>
    match valueSide o1 l1 r1, valueSide o2 l2 r2 with
    | some (x1, v1, op1), some (x2, v2, op2) =>
      if !isSame cpp .cop x1 .cop x2 then false
      else
        let a := v1.ann.front.getD 0
        let b := v2.ann.front.getD 0
        if op1 == .lt || op1 == .le then (op2 == .eq || op2 == .gt || op2 == .ge) && decide (a < b)
        else if op1 == .ge || op1 == .gt then (op2 == .eq || op2 == .lt || op2 == .le) && decide (a > b)
        else false
    | _, _ => false
  | _, _ => false

/-- astutils.cpp:2013–2023 "is condition opposite?" -/
def oppTable (isNot : Bool) (c1 c2 : BinOp) : Bool :=
  (c1 == .eq && c2 == .ne) || (c1 == .ne && c2 == .eq) || (c1 == .lt && c2 == .ge) || (c1 == .le && c2 == .gt) ||
  (c1 == .gt && c2 == .le) || (c1 == .ge && c2 == .lt) ||
  (!isNot && ((c1 == .lt && c2 == .gt) || (c1 == .gt && c2 == .lt) ||
              (c1 == .eq && (c2 == .ne || c2 == .gt || c2 == .lt)) ||
              ((c1 == .ne || c1 == .gt || c1 == .lt) && c2 == .eq)))

def Expr.binOp? : Expr → Option BinOp
  | .bin _ o _ _ => some o
  | _ => none

/-- astutils.cpp:1893–2023, the part after the `!` cases -/
def cmpPart (cpp isNot : Bool) (cond1 cond2 : Expr) : Bool :=
  match (if isNot then none else eqEqRule cpp cond1 cond2) with
  | some b => b
  | none =>
    if !cond1.isCmp || !cond2.isCmp then false
    else
      match comp2 cpp cond1 cond2 with
      | none => if isNot then false else knownRule cpp cond1 cond2
      | some c2 =>
        match cond1.binOp? with
        | some c1 => oppTable isNot c1 c2
        | none => false

def Expr.isLor : Expr → Bool
  | .bin _ .lor _ _ => true
  | _ => false

/-- both conditions are `&&`: their operands -/
def andPair (cond1 cond2 : Expr) : Option (Expr × Expr × Expr × Expr) :=
  match cond1, cond2 with
  | .bin _ .land l1 r1, .bin _ .land l2 r2 => some (l1, r1, l2, r2)
  | _, _ => none

/-- astutils.cpp:1848-1861: a common operand and opposite siblings (`rec` = the recursive call of `isOppositeCond`) -/
def andHit (rec : Ctx → Expr → Ctx → Expr → Bool) (cpp : Bool) (cond1 cond2 : Expr) : Bool :=
  match andPair cond1 cond2 with
  | some (l1, r1, l2, r2) =>
    (isSame cpp .logic l1 .logic l2 && rec .logic r1 .logic r2) ||
    (isSame cpp .logic l1 .logic r2 && rec .logic r1 .logic l2) ||
    (isSame cpp .logic r1 .logic l2 && rec .logic l1 .logic r2) ||
    (isSame cpp .logic r1 .logic r2 && rec .logic l1 .logic l2)
  | none => false

/-- astutils.cpp:1863-1876: the token strings differ and one condition is `||`: its operands, and the other condition
    (`cond2` is looked at last, so it wins) -/
def lorPick (c1 : Ctx) (cond1 : Expr) (c2 : Ctx) (cond2 : Expr) : Option (Expr × Expr × Ctx × Expr) :=
  if !(cond1.strEq cond2) && (cond1.isLor || cond2.isLor) then
    match cond2 with
    | .bin _ .lor l r => some (l, r, c1, cond1)
    | _ =>
      match cond1 with
      | .bin _ .lor l r => some (l, r, c2, cond2)
      | _ => none
  else none

def isOppF (cpp isNot : Bool) : Nat → Ctx → Expr → Ctx → Expr → Bool
  | 0, _, _, _, _ => false
  | n + 1, c1, cond1, c2, cond2 =>
    if isSame cpp c1 cond1 c2 cond2 then false
    else if !isNot && andHit (isOppF cpp isNot n) cpp cond1 cond2 then true
    else
      match lorPick c1 cond1 c2 cond2 with
      | some (l, r, co, other) => isOppF cpp isNot n .logic l co other && isOppF cpp isNot n .logic r co other
      | none =>
        match cond1.notArg with
        | some x => notBranch cpp x c2 cond2
        | none =>
          match cond2.notArg with
          | some y =>
            -- `return isOppositeCond(isNot, cond2, cond1, …)`: only the same-expression test and the `!` case are
            -- reachable in the swapped call
            if isSame cpp c2 cond2 c1 cond1 then false else notBranch cpp y c1 cond1
          | none => cmpPart cpp isNot cond1 cond2

def isOpp (cpp isNot : Bool) (c1 : Ctx) (e1 : Expr) (c2 : Ctx) (e2 : Expr) : Bool :=
  isOppF cpp isNot (e1.size + e2.size) c1 e1 c2 e2

/-- `isOppositeExpression` for two tokens whose parents are not bit operators (the harness passes whole conditions) -/
def isOppExpr (cpp : Bool) (c1 : Ctx) (e1 : Expr) (c2 : Ctx) (e2 : Expr) : Bool :=
  if isOpp cpp true c1 e1 c2 e2 then true
  else
    match e1 with
    | .un _ .neg x => isSame cpp .cop x c2 e2
    | _ =>
      match e2 with
      | .un _ .neg y => isSame cpp .cop y c1 e1
      | _ => false

/-! ### when the annotations say what the C compiler sees (decidable; hypothesis of the theorems) -/

/-- Known-value annotation of an operator node: absent, or the node is a constant expression with that value -/
def knownOK (S : Sem) (e : Expr) : Bool :=
  match e.ann.known with
  | none => e.ann.first == none
  | some k =>
    e.closed && (match eval S (fun _ => 0) e with | some v => k == toI64 v | none => false) &&
    e.ann.first == some k && e.ann.front == some k

/-- the annotations of every token agree with the C semantics `S`:
    number token: value type = its C type, Known value = its value (as `MathLib::bigint`), `toBigNumber` likewise;
    variable: value type = its C type, no Known value; operator: Known value only on constant expressions and then the
    right one; value type `bool` only on `!`, comparisons, `&&`, `||` -/
def annOK (S : Sem) : Expr → Bool
  | .lit a sp =>
    decide (inRange (S.lty sp) (S.lval sp)) && a.vt == some (toVT (S.lty sp)) &&
    a.known == some (toI64 (S.lval sp)) && a.first == a.known && a.front == a.known && a.num == a.known
  | .var a x => a.vt == some (toVT (S.vty x)) && a.known == none && a.first == none
  | .un a op e => annOK S e && knownOK S (.un a op e) && (!astIsBool (.un a op e) || op == .lnot)
  | .bin a op l r =>
    annOK S l && annOK S r && knownOK S (.bin a op l r) && (!astIsBool (.bin a op l r) || op.isCmp || op.isLogic)

def subRange (a b : Ty) : Bool := decide (tmin b ≤ tmin a) && decide (tmax a ≤ tmax b)

/-- the operand keeps its value when converted to `T`: a constant expression by its value (which must also be a
    `long long`), any other expression by the range of its type -/
def fits (S : Sem) (T : Ty) (e : Expr) : Bool :=
  if e.closed then
    (match eval S (fun _ => 0) e with
     | some v => decide (inRange T v) && decide (toI64 v = v)
     | none => true)
  else subRange (tyOf S e) T

/-- excludes the inputs on which the Known-value rules of `isOppositeCond` (astutils.cpp:1894-1899, 1970-2010) are
    unsound (finding F03b): every comparison with a Known operand is *exact*, i.e. the usual arithmetic conversions
    change neither operand (no negative value converted to unsigned) -/
def cmpSafe (S : Sem) : Expr → Bool
  | .lit _ _ => true
  | .var _ _ => true
  | .un _ _ e => cmpSafe S e
  | .bin _ op l r =>
    cmpSafe S l && cmpSafe S r &&
    (!(op.isCmp && (l.ann.known.isSome || r.ann.known.isSome)) ||
      (fits S (uac (tyOf S l) (tyOf S r)) l && fits S (uac (tyOf S l) (tyOf S r)) r))

/-! ### the `==|!=` rule before e3a434e (finding F03a, fixed): kept only for the counterexample theorem
`same_sound_prefix_counterexample` of Props/C03.lean -/

/-- astutils.cpp:1696-1705 before e3a434e: any Known value other than 0 was treated like 1 -/
def eqNeCompareOld (k : Int) (exprIsNot : Bool) (op : BinOp) : Bool :=
  (k == 0 && exprIsNot && op == .eq) || (k == 0 && !exprIsNot && op == .ne) ||
  (k != 0 && exprIsNot && op == .ne) || (k != 0 && !exprIsNot && op == .eq)

def eqNeCondOld (cond : Expr) (ce : Ctx) (expr : Expr) : Option (Ctx × Expr × Ctx × Expr) :=
  match cond with
  | .bin _ op l r =>
    if expr.isCmp then none
    else
      match eqNeKnown l r with
      | none => none
      | some (k, varTok1) =>
        match expr.notArg with
        | some x =>
          if eqNeCompareOld k true op && boolLike .cop varTok1 && boolLike .lnot x then some (.cop, varTok1, .lnot, x) else none
        | none =>
          if eqNeCompareOld k false op && boolLike .cop varTok1 && boolLike ce expr then some (.cop, varTok1, ce, expr) else none
  | _ => none

def eqNePickOld (c1 : Ctx) (e1 : Expr) (c2 : Ctx) (e2 : Expr) : Option (Ctx × Expr × Ctx × Expr) :=
  if e1.isEqNe then eqNeCondOld e1 c2 e2
  else if e2.isEqNe then eqNeCondOld e2 c1 e1
  else none

/-- `isSameExpression` before e3a434e -/
def isSameFOld (cpp : Bool) : Nat → Ctx → Expr → Ctx → Expr → Bool
  | 0, _, _, _, _ => false
  | n + 1, c1, e1, c2, e2 =>
    match (if boolLike c2 e2 then e1.dblNot else none) with
    | some x => isSameFOld cpp n .lnot x c2 e2
    | none =>
    match (if boolLike c1 e1 then e2.dblNot else none) with
    | some y => isSameFOld cpp n c1 e1 .lnot y
    | none =>
    if !(e1.strEq e2) && diffKnown e1 e2 then false
    else if sameConst e1 e2 then true
    else if !(e1.strEq e2) then
      match flipPick e1 e2 with
      | some (a, b, c, d) => isSameFOld cpp n .cop a .cop b && isSameFOld cpp n .cop c .cop d
      | none =>
        match eqNePickOld c1 e1 c2 e2 with
        | some (ca, a, cb, b) => isSameFOld cpp n ca a cb b
        | none => false
    else
      match e1, e2 with
      | .lit _ _, .lit _ _ => true
      | .var _ _, .var _ _ => true
      | .un _ o1 x1, .un _ _ x2 => isSameFOld cpp n (childCtxU o1) x1 (childCtxU o1) x2
      | .bin _ o1 l1 r1, .bin _ _ l2 r2 =>
        let cc := childCtxB o1
        (isSameFOld cpp n cc l1 cc l2 && isSameFOld cpp n cc r1 cc r2) ||
        (plusOk cpp o1 l1 r1 && o1.commutative && isSameFOld cpp n cc r1 cc l2 && isSameFOld cpp n cc l1 cc r2)
      | _, _ => false

def isSameOld (cpp : Bool) (c1 : Ctx) (e1 : Expr) (c2 : Ctx) (e2 : Expr) : Bool :=
  isSameFOld cpp (e1.size + e2.size) c1 e1 c2 e2

end Cppcheck.CondExpr

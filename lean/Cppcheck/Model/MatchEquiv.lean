import Cppcheck.Model.Match
/-
C05 (1) — renaming of token spellings and the literals a pattern can see.

A pattern of the token-pattern language (`Cppcheck.Match`) reads the *spelling* of a token only
through equality tests against strings written in the pattern:
  * a literal atom        `foo`            (`Atom.lit`)
  * a negation            `!!foo`          (`Word.neg`)
  * a character class     `[;,]`           (one-character spellings)
  * `%or%` / `%oror%`                      (spellings `|` and `||`)
`lits` collects exactly those strings.  Everything else a pattern reads (tokType, isName, varId) is
a separate field of `Tok` and is kept by `mapTok`.
-/
namespace Cppcheck.MatchEquiv
open Cppcheck.Wire Cppcheck.Match

def cmdLits : Cmd → List Str
  | .or => [['|']]
  | .oror => [['|', '|']]
  | _ => []

def atomLits : Atom → List Str
  | .cmd c => cmdLits c
  | .lit s => [s]

def wordLits : Word → List Str
  | .cls cs => cs.map (fun c => [c])
  | .alts as _ => as.flatMap atomLits
  | .neg s => [s]
  | .one a => atomLits a

/-- every string a parsed pattern compares a token spelling with -/
def lits (ws : List Word) : List Str := ws.flatMap wordLits

/-- the spellings a pattern string can see -/
def patLits (p : Str) : List Str := lits (parse p)

/-- apply a spelling map to one token: only the spelling changes -/
def mapTok (f : Str → Str) (t : Tok) : Tok := { t with str := f t.str }

/-- a finite renaming: association list old spelling ↦ new spelling, identity elsewhere -/
structure Renaming where
  map : List (Str × Str)
  deriving Repr, Inhabited

def Renaming.f (σ : Renaming) (x : Str) : Str :=
  match σ.map.lookup x with
  | some y => y
  | none => x

def Renaming.tok (σ : Renaming) (t : Tok) : Tok := mapTok σ.f t

/-- neither a renamed spelling nor its replacement is reserved (decidable, executable) -/
def Renaming.avoids (σ : Renaming) (R : List Str) : Bool :=
  σ.map.all fun kv => !R.contains kv.1 && !R.contains kv.2

/-- the renaming is injective on the given spellings (consistent renaming never merges two names) -/
def Renaming.injOn (σ : Renaming) (names : List Str) : Bool :=
  names.all fun a => names.all fun b => σ.f a != σ.f b || a == b

/-- reserved set induced by a list of pattern strings and a list of further compared literals;
    the keys of the match compiler's `tokTypes` table are always reserved (a token spelled like
    one of them carries a token-type guard in compiled patterns) -/
def reservedOf (patterns : List Str) (extra : List Str) : List Str :=
  patterns.flatMap patLits ++ extra ++ tokTypes.map (·.1.toList)

end Cppcheck.MatchEquiv

import Cppcheck.Model.Wire
import Cppcheck.Model.CharLit
/-
C10 — model of the literal classification / conversion functions of lib/mathlib.cpp.

Copied state for state from the C++ (bugs and leniencies included):
  * `isValidIntegerSuffix`  the 18-state machine `isValidIntegerSuffixIt`
  * `isDec / isIntHex / isOct / isBin / isInt`   (optional sign, prefix, digit run, then suffix machine)
  * `isDecimalFloat / isFloatHex / isFloat`      (classification only — float VALUES are outside the model)
  * `stoull`                std::stoull = strtoull by its documented behaviour (see CharLit.strtoull)
  * `toBigNumber / toBigUNumber`  branch order hex → oct → bin → float → char → decimal fallback
A byte string is a `List Char` with all codes < 256.
-/
namespace Cppcheck.MathLit
open Cppcheck.Wire Cppcheck.CharLit

/-! ## suffix state machine (`isValidIntegerSuffixIt`) -/

inductive SufSt
  | start | u | ul | ull | uz | l | lu | ll | llu | i | i6 | i64 | ui | ui6 | ui64 | z | litLeader | lit
  deriving DecidableEq, Repr, Inhabited

def isU (c : Char) : Bool := c == 'u' || c == 'U'
def isL (c : Char) : Bool := c == 'l' || c == 'L'
def isZ (c : Char) : Bool := c == 'z' || c == 'Z'
def isI (c : Char) : Bool := c == 'i' || c == 'I'

/-- one transition; `none` = `return false` -/
def sufStep (ms : Bool) : SufSt → Char → Option SufSt
  | .start, c =>
    if isU c then some .u else if isL c then some .l else if isZ c then some .z
    else if ms && isI c then some .i else if c == '_' then some .litLeader else none
  | .u, c =>
    if isL c then some .ul else if isZ c then some .uz else if ms && isI c then some .ui else none
  | .ul, c => if isL c then some .ull else none
  | .l, c => if isU c then some .lu else if isL c then some .ll else none
  | .lu, _ => none
  | .ll, c => if isU c then some .llu else none
  | .i, c => if c == '6' then some .i6 else none
  | .i6, c => if c == '4' then some .i64 else none
  | .ui, c => if c == '6' then some .ui6 else none
  | .ui6, c => if c == '4' then some .ui64 else none
  | .z, c => if isU c then some .uz else none
  | .lit, _ => some .lit
  | .litLeader, _ => some .lit
  | _, _ => none   -- `default: return false` (ull, uz, llu, i64, ui64)

def sufAccept : SufSt → Bool
  | .u | .l | .z | .ul | .uz | .lu | .ll | .ull | .llu | .i64 | .ui64 | .lit => true
  | _ => false

def sufRun (ms : Bool) : SufSt → Str → Bool
  | st, [] => sufAccept st
  | st, c :: r => match sufStep ms st c with
    | some st' => sufRun ms st' r
    | none => false

/-- `MathLib::isValidIntegerSuffix(str, supportMicrosoftExtensions)` -/
def isValidIntegerSuffix (s : Str) (ms : Bool := true) : Bool := sufRun ms .start s

/-! ## integer classification -/

def isBinDigit (c : Char) : Bool := c == '0' || c == '1'

/-- skip one leading `+`/`-` (`if ('+' == *it || '-' == *it) ++it;`) -/
def stripSign : Str → Str
  | c :: r => if c == '+' || c == '-' then r else c :: r
  | [] => []

/-- the common tail of the four machines: states START(`seen=false`)/DIGIT(`seen=true`) over digit class `p`;
    the first non-digit in state DIGIT hands the rest to the suffix machine -/
def digSuf (p : Char → Bool) : Bool → Str → Bool
  | seen, [] => seen
  | false, c :: r => if p c then digSuf p true r else false
  | true, c :: r => if p c then digSuf p true r else isValidIntegerSuffix (c :: r)

def isDec (s : Str) : Bool := digSuf isDigit false (stripSign s)

def isIntHex (s : Str) : Bool :=
  match stripSign s with
  | '0' :: x :: r => (x == 'x' || x == 'X') && digSuf isXDigit false r
  | _ => false

def isOct (s : Str) : Bool :=
  match stripSign s with
  | '0' :: r => digSuf isOctDigit false r
  | _ => false

def isBin (s : Str) : Bool :=
  match stripSign s with
  | '0' :: b :: r => (b == 'b' || b == 'B') && digSuf isBinDigit false r
  | _ => false

def isInt (s : Str) : Bool := isDec s || isIntHex s || isOct s || isBin s

def isNegative (s : Str) : Bool := match s with | '-' :: _ => true | _ => false
def isPositive (s : Str) : Bool := !s.isEmpty && !isNegative s

/-! ## float classification (`isDecimalFloat`, `isFloatHex`) -/

inductive DfSt
  | start | baseDigits1 | leadingDecimal | trailingDecimal | baseDigits2 | e | mantissaPlusMinus | mantissaDigits
  | suffixF | suffixL | suffixLiteralLeader | suffixLiteral
  deriving DecidableEq, Repr, Inhabited

def isE (c : Char) : Bool := c == 'e' || c == 'E'
def isF (c : Char) : Bool := c == 'f' || c == 'F'

def dfStep : DfSt → Char → Option DfSt
  | .start, c => if c == '.' then some .leadingDecimal else if isDigit c then some .baseDigits1 else none
  | .leadingDecimal, c => if isDigit c then some .baseDigits2 else none
  | .baseDigits1, c =>
    if isE c then some .e else if c == '.' then some .trailingDecimal else if !isDigit c then none else some .baseDigits1
  | .trailingDecimal, c =>
    if isE c then some .e else if isF c then some .suffixF else if isL c then some .suffixL
    else if c == '_' then some .suffixLiteralLeader else if isDigit c then some .baseDigits2 else none
  | .baseDigits2, c =>
    if isE c then some .e else if isF c then some .suffixF else if isL c then some .suffixL
    else if c == '_' then some .suffixLiteralLeader else if !isDigit c then none else some .baseDigits2
  | .e, c => if c == '+' || c == '-' then some .mantissaPlusMinus else if isDigit c then some .mantissaDigits else none
  | .mantissaPlusMinus, c => if !isDigit c then none else some .mantissaDigits
  | .mantissaDigits, c =>
    if isF c then some .suffixF else if isL c then some .suffixL else if !isDigit c then none else some .mantissaDigits
  | .suffixLiteral, _ => some .suffixLiteral
  | .suffixLiteralLeader, _ => some .suffixLiteral
  | .suffixF, _ => none
  | .suffixL, _ => none

def dfAccept : DfSt → Bool
  | .baseDigits2 | .mantissaDigits | .trailingDecimal | .suffixF | .suffixL | .suffixLiteral => true
  | _ => false

def dfRun : DfSt → Str → Bool
  | st, [] => dfAccept st
  | st, c :: r => match dfStep st c with
    | some st' => dfRun st' r
    | none => false

def isDecimalFloat (s : Str) : Bool := !s.isEmpty && dfRun .start (stripSign s)

inductive FhSt
  | start | hex0 | hexX | whole | point | fraction | expP | expSign | expDigits | expSuffix
  deriving DecidableEq, Repr, Inhabited

def isP (c : Char) : Bool := c == 'p' || c == 'P'

def fhStep : FhSt → Char → Option FhSt
  | .start, c => if c == '0' then some .hex0 else none
  | .hex0, c => if c == 'x' || c == 'X' then some .hexX else none
  | .hexX, c => if isXDigit c then some .whole else if c == '.' then some .point else none
  | .whole, c => if isXDigit c then some .whole else if c == '.' then some .fraction else if isP c then some .expP else none
  | .point, c => if isXDigit c then some .fraction else if isP c then some .expP else none
  | .fraction, c => if isXDigit c then some .fraction else if isP c then some .expP else none
  | .expP, c => if isDigit c then some .expDigits else if c == '+' || c == '-' then some .expSign else none
  | .expSign, c => if isDigit c then some .expDigits else none
  | .expDigits, c => if isDigit c then some .expDigits else if isF c || isL c then some .expSuffix else none
  | .expSuffix, _ => none

def fhAccept : FhSt → Bool
  | .expDigits | .expSuffix => true
  | _ => false

def fhRun : FhSt → Str → Bool
  | st, [] => fhAccept st
  | st, c :: r => match fhStep st c with
    | some st' => fhRun st' r
    | none => false

def isFloatHex (s : Str) : Bool := !s.isEmpty && fhRun .start (stripSign s)

def isFloat (s : Str) : Bool := isDecimalFloat s || isFloatHex s

/-! ## `isCharLiteral` (lib/utils.h) -/

def isPrefixStringCharLiteral (s : Str) (q : Char) (p : Str) : Bool :=
  decide (p.length + 2 ≤ s.length) && s.getLast? == some q && (s.drop p.length).head? == some q && s.take p.length == p

def isCharLiteral (s : Str) : Bool :=
  [[], ['u', '8'], ['u'], ['U'], ['L']].any (isPrefixStringCharLiteral s '\'')

/-! ## `Token::isCChar` / `isCMultiChar` (lib/token.h) via `replaceEscapeSequences` (lib/utils.cpp)

`\n \r \t`, `\x` with at most two hex digits and octal escapes of up to three digits (any first digit since 3fa1f26; before
that commit only those starting with `0`, so `'\200'` counted as three characters) are folded into one character; any
other backslash pair yields its second character. -/

def hexNib (c : Char) : Nat := if CharLit.isDigit c then c.toNat - 48 else if 97 ≤ c.toNat then c.toNat - 87 else c.toNat - 55

def replaceEscapeSequencesGo : Nat → Str → Str
  | 0, _ => []
  | _, [] => []
  | _, [c] => [c]                                   -- `i + 1 >= source.size()`
  | fuel + 1, c :: e :: r =>
    if c != '\\' then c :: replaceEscapeSequencesGo fuel (e :: r)
    else if e == 'n' then '\n' :: replaceEscapeSequencesGo fuel r
    else if e == 'r' then '\r' :: replaceEscapeSequencesGo fuel r
    else if e == 't' then '\t' :: replaceEscapeSequencesGo fuel r
    else if e == 'x' then
      match r with
      | h1 :: h2 :: r' =>
        if isXDigit h1 then
          if isXDigit h2 then Char.ofNat ((hexNib h1 * 16 + hexNib h2) % 256) :: replaceEscapeSequencesGo fuel r'
          else Char.ofNat (hexNib h1) :: replaceEscapeSequencesGo fuel (h2 :: r')
        else Char.ofNat 0 :: replaceEscapeSequencesGo fuel r
      | [h1] => if isXDigit h1 then [Char.ofNat (hexNib h1)] else Char.ofNat 0 :: replaceEscapeSequencesGo fuel r
      | [] => [Char.ofNat 0]
    else if isOctDigit e then                       -- since 3fa1f26 every octal digit starts an escape (before: only '0')
      match r with
      | o1 :: o2 :: r' =>
        if isOctDigit o1 then
          if isOctDigit o2 then Char.ofNat (((hexNib e * 8 + hexNib o1) * 8 + hexNib o2) % 256) :: replaceEscapeSequencesGo fuel r'
          else Char.ofNat (hexNib e * 8 + hexNib o1) :: replaceEscapeSequencesGo fuel (o2 :: r')
        else Char.ofNat (hexNib e) :: replaceEscapeSequencesGo fuel r
      | [o1] => if isOctDigit o1 then [Char.ofNat (hexNib e * 8 + hexNib o1)] else Char.ofNat (hexNib e) :: replaceEscapeSequencesGo fuel r
      | [] => [Char.ofNat (hexNib e)]
    else e :: replaceEscapeSequencesGo fuel r

def replaceEscapeSequences (s : Str) : Str := replaceEscapeSequencesGo (s.length + 1) s

/-- `getCharLiteral` for an unprefixed literal: the text between the quotes -/
def charBody (s : Str) : Str := (s.drop 1).take (s.length - 2)

/-- `Token::isCChar()` of a token whose text is `s` (tokType eChar ⇔ `isCharLiteral s`) -/
def isCChar (s : Str) : Bool :=
  isCharLiteral s && isPrefixStringCharLiteral s '\'' [] && (replaceEscapeSequences (charBody s)).length == 1

def isCMultiChar (s : Str) : Bool :=
  isCharLiteral s && isPrefixStringCharLiteral s '\'' [] && decide ((replaceEscapeSequences (charBody s)).length > 1)

/-! ## conversion -/

inductive Err
  | outOfRange | invalidArgument | notConsumed | badChar
  deriving DecidableEq, Repr, Inhabited

/-- result of `toBigNumber`/`toBigUNumber`: a value, the float branch (value outside the model), or InternalError -/
inductive Res
  | ok (v : Int)
  | float
  | err (e : Err)
  deriving DecidableEq, Repr, Inhabited

/-- `std::stoull(str, &idx, base)`: value and idx, or the exception -/
def stoull (base : Nat) (s : Str) : Except Err (Nat × Nat) :=
  let r := strtoull base s
  if r.consumed = 0 then .error .invalidArgument
  else if r.overflow then .error .outOfRange
  else .ok (r.value, r.consumed)

/-- the binary loop: shift in `0`/`1` until the first other character (no overflow check: wraps at 64 bits) -/
def binLoop : Nat → Str → Nat
  | acc, [] => acc
  | acc, c :: r =>
    if c == '1' then binLoop ((acc * 2 + 1) % 2 ^ 64) r
    else if c == '0' then binLoop ((acc * 2) % 2 ^ 64) r
    else acc

def binStart (s : Str) : Str := match s with
  | '0' :: _ => s.drop 2
  | _ => s.drop 3

/-- `MathLib::toBigUNumber(str)`; values are in [0, 2^64) -/
def toBigUNumber (s : Str) : Res :=
  if isIntHex s then
    match stoull 16 s with
    | .ok (v, _) => .ok v
    | .error e => .err e
  else if isOct s then
    match stoull 8 s with
    | .ok (v, _) => .ok v
    | .error e => .err e
  else if isBin s then
    let v := binLoop 0 (binStart s)
    .ok (if isNegative s then ((2 ^ 64 - v) % 2 ^ 64 : Nat) else v)
  else if isFloat s then .float
  else if isCharLiteral s then
    match characterLiteralToLL s with
    | .ok v => .ok (toU64 v)
    | .error _ => .err .badChar
  else
    match stoull 10 s with
    | .ok (v, idx) =>
      if idx ≠ s.length && !isValidIntegerSuffix (s.drop idx) then .err .notConsumed else .ok v
    | .error e => .err e

/-- `MathLib::toBigNumber(str)`; values are in [-2^63, 2^63) -/
def toBigNumber (s : Str) : Res :=
  if isIntHex s then
    match stoull 16 s with
    | .ok (v, _) => .ok (toI64 v)
    | .error e => .err e
  else if isOct s then
    match stoull 8 s with
    | .ok (v, _) => .ok (toI64 v)
    | .error e => .err e
  else if isBin s then
    let v := toI64 (binLoop 0 (binStart s))
    .ok (if isNegative s then toI64 (toU64 (-v)) else v)
  else if isFloat s then .float
  else if isCharLiteral s then
    match characterLiteralToLL s with
    | .ok v => .ok v
    | .error _ => .err .badChar
  else
    match stoull 10 s with
    | .ok (v, idx) =>
      if idx ≠ s.length && !isValidIntegerSuffix (s.drop idx) then .err .notConsumed else .ok (toI64 v)
    | .error e => .err e

/-- `MathLib::getSuffix` -/
def getSuffixGo : Bool → Nat → List Char → Bool × Nat
  | u, l, [] => (u, l)
  | u, l, c :: r => if isU c then getSuffixGo true l r else if isL c then getSuffixGo u (l + 1) r else (u, l)

def getSuffix (value : Str) : Str :=
  let n := value.length
  if n > 3 && value.drop (n - 3) == ['i', '6', '4'] then
    if (value.drop (n - 4)).head? == some 'u' then "ULL".toList else "LL".toList
  else
    -- the loop reads value[size-1] … value[1] (never value[0])
    let (u, l) := getSuffixGo false 0 (value.drop 1).reverse
    if l = 0 then (if u then "U".toList else [])
    else if l = 1 then (if u then "UL".toList else "L".toList)
    else if l = 2 then (if u then "ULL".toList else "LL".toList)
    else []

/-! ## Specification side: the literal grammar and its positional value

`Lit` is the abstract syntax of an integer literal as the tokenizer hands it to MathLib (digit separators
are already removed by the simplecpp lexer, a sign may have been glued on by the tokenizer):
  sign? · (decimal | 0x hex | 0 octal | 0b binary) digits · suffix?
`render` is its spelling, `value` its mathematical value (Σ dᵢ·rⁿ⁻¹⁻ⁱ, negated under a minus sign). -/

inductive Base | dec | hex | oct | bin
  deriving DecidableEq, Repr, Inhabited

def Base.radix : Base → Nat
  | .dec => 10 | .hex => 16 | .oct => 8 | .bin => 2

def Base.isDigit : Base → Char → Bool
  | .dec => CharLit.isDigit | .hex => isXDigit | .oct => isOctDigit | .bin => isBinDigit

def Base.pfx (upper : Bool) : Base → Str
  | .dec => [] | .hex => ['0', if upper then 'X' else 'x'] | .oct => ['0'] | .bin => ['0', if upper then 'B' else 'b']

structure Lit where
  /-- `none`, `some false` = '+', `some true` = '-' -/
  sign : Option Bool
  base : Base
  /-- upper-case prefix letter (`0X`, `0B`) -/
  upper : Bool
  digits : Str
  suffix : Str
  deriving DecidableEq, Repr, Inhabited

def signStr : Option Bool → Str
  | none => [] | some false => ['+'] | some true => ['-']

def render (l : Lit) : Str := signStr l.sign ++ l.base.pfx l.upper ++ l.digits ++ l.suffix

/-- well-formed: at least one digit, all digits of the base, suffix empty or accepted by the suffix machine -/
def Lit.WF (l : Lit) : Bool :=
  !l.digits.isEmpty && l.digits.all l.base.isDigit && (l.suffix.isEmpty || isValidIntegerSuffix l.suffix)

/-- a decimal literal does not start with `0` unless it is `0` itself (otherwise the spelling is an octal literal) -/
def Lit.canonical (l : Lit) : Bool :=
  l.base != .dec || l.digits.head? != some '0' || l.digits == ['0']

def Lit.magnitude (l : Lit) : Nat := positional l.base.radix l.digits
def Lit.value (l : Lit) : Int := if l.sign = some true then -(l.magnitude : Int) else l.magnitude

/-- the suffix set as a table: u l z | ul uz lu ll zu | ull llu i64 | ui64 (letters in either case) | _x… -/
def specSuffix (s : Str) : Bool :=
  match s with
  | '_' :: _ :: _ => true
  | [a] => isU a || isL a || isZ a
  | [a, b] => (isU a && (isL b || isZ b)) || (isL a && (isU b || isL b)) || (isZ a && isU b)
  | [a, b, c] => (isU a && isL b && isL c) || (isL a && isL b && isU c) || (isI a && b == '6' && c == '4')
  | [a, b, c, d] => isU a && isI b && c == '6' && d == '4'
  | _ => false

/-- the suffix table without the Microsoft extensions (`supportMicrosoftExtensions = false`): no `i64` / `ui64` -/
def specSuffixStd (s : Str) : Bool :=
  match s with
  | '_' :: _ :: _ => true
  | [a] => isU a || isL a || isZ a
  | [a, b] => (isU a && (isL b || isZ b)) || (isL a && (isU b || isL b)) || (isZ a && isU b)
  | [a, b, c] => (isU a && isL b && isL c) || (isL a && isL b && isU c)
  | _ => false

end Cppcheck.MathLit

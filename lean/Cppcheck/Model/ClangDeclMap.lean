import Cppcheck.Model.ClangLine
import Cppcheck.Model.AstStore
/-
C35 — the address-keyed declaration map of the clang importer (`clangimport::Data`) and the importer itself.

Part 1 (`Data`, `Ev`, `runEvents`): copied from `struct Data` in lib/clangimport.cpp.

    std::map<std::string, Decl> mDeclMap;                       -- `emplace` = insert unless the key exists
    std::map<std::string, std::vector<Token *>> mNotFound;      -- uses seen before their declaration
    int mVarId;
    varDecl(addr, def, var)   : emplace; def->varId(++mVarId); def->variable(var); notFound(addr)
    funcDecl / enumDecl       : emplace; nameToken->function(f) / ->enumerator(e); notFound(addr)
    scopeDecl(addr, scope)    : emplace                          (no notFound)
    ref(addr, tok)            : found ? decl.ref(tok) : mNotFound[addr].push_back(tok)
    Decl::ref(tok)            : enumerator → tok->enumerator(e); function → tok->function(f);
                                var → tok->variable(var), tok->varId(var->declarationId())   (= varId of var's name token)
    notFound(addr)            : for every pending token of addr: ref(addr, tok); erase
    replaceVarDecl(from, to)  : every map entry whose var is `from` now holds `to` (`to` is a copy of `from`: same name token)

A token is a natural number (creation index); a Variable / Function / Enumerator / Scope object is a natural number as well.

Part 2 (`Import`): the tree construction of `parseClangAstDump` and `AstNode::createTokens*` for the node kinds listed in
`supported`, producing the token list (string, file, line, column), the bracket links, the sequence of `astOperand1/2` calls
(as `AstStore.Op`s) and the declaration-map events.  Everything the C++ does to scopes, types and value types is left out (it does not
influence tokens, links, AST or variable links of the supported kinds); a node kind outside the list makes the model answer
`unsupported` instead of guessing.
-/
namespace Cppcheck.ClangDeclMap
open Cppcheck.ClangLine

abbrev Addr := Str

inductive DKind where
  | var | func | enumr | scope
deriving DecidableEq, Repr

/-- `Data::Decl`: the token `def`, and one of the four object pointers -/
structure Decl where
  kind : DKind
  dtok : Nat      -- `def` (unused for scopes)
  obj : Nat
deriving DecidableEq, Repr

/-- `Token::mTokType` as far as the links depend on it -/
inductive TT where
  | name | variable | function | enumerator
deriving DecidableEq, Repr

/-- what the map can write on a token.  `Token` keeps the Variable / Function / Enumerator pointer in ONE union member and tells
    them apart by `mTokType`; the model keeps that (a token that is given a function after a variable forgets the variable).
    `isName`: the token is spelt like an identifier (`update_property_info` derives `eVariable` from a non-zero varId only then; the
    other string classes are folded into `name`, they answer nullptr to all three getters alike). -/
structure Attr where
  varId : Nat := 0
  ty : TT := .name
  ptr : Option Nat := none
  isName : Bool := true
deriving DecidableEq, Repr

/-- `Token::variable()` -/
def Attr.var (a : Attr) : Option Nat := if a.ty = .variable then a.ptr else none
/-- `Token::function()` -/
def Attr.func (a : Attr) : Option Nat := if a.ty = .function then a.ptr else none
/-- `Token::enumerator()` -/
def Attr.enumr (a : Attr) : Option Nat := if a.ty = .enumerator then a.ptr else none
/-- `Token::variable(v)`, `v != nullptr` -/
def Attr.setVariable (a : Attr) (v : Nat) : Attr := { a with ptr := some v, ty := .variable }
def Attr.setFunction (a : Attr) (f : Nat) : Attr := { a with ptr := some f, ty := .function }
def Attr.setEnumerator (a : Attr) (e : Nat) : Attr := { a with ptr := some e, ty := .enumerator }
/-- `Token::varId(id)`: nothing when unchanged, else `update_property_info()` -/
def Attr.setVarId (a : Attr) (id : Nat) : Attr :=
  if a.varId = id then a else { a with varId := id, ty := if id ≠ 0 ∧ a.isName then .variable else .name }

structure Data where
  declMap : List (Addr × Decl) := []
  notFound : List (Addr × List Nat) := []
  varId : Nat := 0
  attrs : Nat → Attr := fun _ => {}
  varDef : Nat → Nat := fun o => o      -- Variable object ↦ its name token (`Variable::nameToken()`)

def updAttr (f : Nat → Attr) (t : Nat) (g : Attr → Attr) : Nat → Attr :=
  fun u => if u = t then g (f u) else f u

def lookup (m : List (Addr × α)) (a : Addr) : Option α :=
  match m with
  | [] => none
  | (k, v) :: r => if k = a then some v else lookup r a

/-- `std::map::emplace`: no effect when the key exists -/
def emplace (m : List (Addr × Decl)) (a : Addr) (d : Decl) : List (Addr × Decl) :=
  match lookup m a with
  | some _ => m
  | none => m ++ [(a, d)]

def eraseKey (m : List (Addr × α)) (a : Addr) : List (Addr × α) := m.filter (fun kv => kv.1 ≠ a)

/-- `Decl::ref(tok)` -/
def Decl.ref (dt : Data) (d : Decl) (t : Nat) : Data :=
  match d.kind with
  | .enumr => { dt with attrs := updAttr dt.attrs t (fun a => a.setEnumerator d.obj) }
  | .func => { dt with attrs := updAttr dt.attrs t (fun a => a.setFunction d.obj) }
  | .var =>
    let id := (dt.attrs (dt.varDef d.obj)).varId
    { dt with attrs := updAttr dt.attrs t (fun a => (a.setVariable d.obj).setVarId id) }
  | .scope => dt

/-- `Data::ref(addr, tok)` -/
def Data.ref (dt : Data) (a : Addr) (t : Nat) : Data :=
  match lookup dt.declMap a with
  | some d => d.ref dt t
  | none =>
    match lookup dt.notFound a with
    | some l => { dt with notFound := (eraseKey dt.notFound a) ++ [(a, l ++ [t])] }
    | none => { dt with notFound := dt.notFound ++ [(a, [t])] }

/-- `Data::notFound(addr)` -/
def Data.resolve (dt : Data) (a : Addr) : Data :=
  match lookup dt.notFound a with
  | none => dt
  | some l =>
    let dt1 := l.foldl (fun d t => d.ref a t) dt
    { dt1 with notFound := eraseKey dt1.notFound a }

/-- `Data::varDecl(addr, def, var)`; `var` is a fresh Variable whose name token is `def` -/
def Data.varDecl (dt : Data) (a : Addr) (dtok obj : Nat) : Data :=
  let dt1 := { dt with declMap := emplace dt.declMap a ⟨.var, dtok, obj⟩, varId := dt.varId + 1,
                       varDef := fun o => if o = obj then dtok else dt.varDef o }
  let dt2 := { dt1 with attrs := updAttr dt1.attrs dtok (fun x => (x.setVarId (dt.varId + 1)).setVariable obj) }
  dt2.resolve a

def Data.funcDecl (dt : Data) (a : Addr) (tok obj : Nat) : Data :=
  let dt1 := { dt with declMap := emplace dt.declMap a ⟨.func, tok, obj⟩ }
  let dt2 := { dt1 with attrs := updAttr dt1.attrs tok (fun x => x.setFunction obj) }
  dt2.resolve a

def Data.enumDecl (dt : Data) (a : Addr) (tok obj : Nat) : Data :=
  let dt1 := { dt with declMap := emplace dt.declMap a ⟨.enumr, tok, obj⟩ }
  let dt2 := { dt1 with attrs := updAttr dt1.attrs tok (fun x => x.setEnumerator obj) }
  dt2.resolve a

def Data.scopeDecl (dt : Data) (a : Addr) (obj : Nat) : Data :=
  { dt with declMap := emplace dt.declMap a ⟨.scope, 0, obj⟩ }

/-- `Data::replaceVarDecl(from, to)`; `to` is a copy of `from` -/
def Data.replaceVarDecl (dt : Data) (frm to : Nat) : Data :=
  { dt with declMap := dt.declMap.map (fun kv => if kv.2.kind = .var ∧ kv.2.obj = frm then (kv.1, { kv.2 with obj := to }) else kv),
            varDef := fun o => if o = to then dt.varDef frm else dt.varDef o }

def Data.hasDecl (dt : Data) (a : Addr) : Bool := (lookup dt.declMap a).isSome

/-- `Data::getScope(addr)` -/
def Data.getScope (dt : Data) (a : Addr) : Option Nat :=
  match lookup dt.declMap a with
  | some d => if d.kind = .scope then some d.obj else none
  | none => none

inductive Ev where
  | varDecl (a : Addr) (t o : Nat)
  | funcDecl (a : Addr) (t o : Nat)
  | enumDecl (a : Addr) (t o : Nat)
  | scopeDecl (a : Addr) (o : Nat)
  | ref (a : Addr) (t : Nat)
  | replace (frm to : Nat)
deriving DecidableEq, Repr

def Data.step (dt : Data) : Ev → Data
  | .varDecl a t o => dt.varDecl a t o
  | .funcDecl a t o => dt.funcDecl a t o
  | .enumDecl a t o => dt.enumDecl a t o
  | .scopeDecl a o => dt.scopeDecl a o
  | .ref a t => dt.ref a t
  | .replace f t => dt.replaceVarDecl f t

def runEvents (dt : Data) (evs : List Ev) : Data := evs.foldl Data.step dt

/-! ### the hypotheses of `use_links_referenced` (evaluated by the driver on the event sequence of every real dump) -/

/-- the (address, declaration) pair a declaration event registers -/
def Ev.pair? : Ev → Option (Addr × Decl)
  | .varDecl a t o => some (a, ⟨.var, t, o⟩)
  | .funcDecl a t o => some (a, ⟨.func, t, o⟩)
  | .enumDecl a t o => some (a, ⟨.enumr, t, o⟩)
  | .scopeDecl a o => some (a, ⟨.scope, 0, o⟩)
  | _ => none

/-- the token an event writes on or registers -/
def Ev.tok? : Ev → Option Nat
  | .varDecl _ t _ | .funcDecl _ t _ | .enumDecl _ t _ | .ref _ t => some t
  | _ => none

def declPairs (evs : List Ev) : List (Addr × Decl) := evs.filterMap Ev.pair?
def evToks (evs : List Ev) : List Nat := evs.filterMap Ev.tok?
def varObjs (evs : List Ev) : List Nat := evs.filterMap fun e => match e with | .varDecl _ _ o => some o | _ => none
/-- the tokens that look an address up, in order -/
def refToks (evs : List Ev) (a : Addr) : List Nat := evs.filterMap fun e => match e with | .ref b t => if b = a then some t else none | _ => none
def isReplace : Ev → Bool
  | .replace _ _ => true
  | _ => false

/-- every clang address is declared at most once -/
def addrsUnique (evs : List Ev) : Prop := ((declPairs evs).map (·.1)).Nodup
/-- every event has a token of its own (`addtoken` creates it just before) -/
def toksFresh (evs : List Ev) : Prop := (evToks evs).Nodup
/-- every variable declaration has a Variable object of its own -/
def objsFresh (evs : List Ev) : Prop := (varObjs evs).Nodup

instance (evs : List Ev) : Decidable (addrsUnique evs) := by unfold addrsUnique; infer_instance
instance (evs : List Ev) : Decidable (toksFresh evs) := by unfold toksFresh; infer_instance
instance (evs : List Ev) : Decidable (objsFresh evs) := by unfold objsFresh; infer_instance

/-! ## Part 2: the importer -/

structure NodeRec where
  nodeType : String
  ext : List Str               -- mExtTokens
  children : List (Option Nat) -- indices into the node array; `none` = nullptr (`<<<NULL>>>`)
  pos : Pos := ⟨0, 1, 1⟩        -- mFile, mLine, mCol
deriving Repr

structure Tok where
  str : Str
  file : Nat
  line : Int
  col : Int
  link : Option Nat := none
  deleted : Bool := false
deriving Repr

structure Func where
  tokenDef : Nat
  isConst : Bool
deriving Repr

inductive Err where
  | internal (cls : String)     -- InternalError, classified as the harness does
  | conv                        -- std::runtime_error from strToInt
  | unsupported (what : String) -- outside the model
  | ub (what : String)          -- the C++ would index out of range / dereference nullptr
  | hang
deriving Repr

/-- one `x->astOperand1(t)` / `x->astOperand2(t)` call -/
structure SetOp where
  side : AstStore.Side
  x : Nat
  t : Option Nat
deriving Repr

def SetOp.toOp (o : SetOp) : AstStore.Op :=
  match o.side with
  | .one => .o1 o.x o.t
  | .two => .o2 o.x o.t

/-- Whether `update_property_info` treats a token as a name is a property of its spelling, fixed when the token is created.  In the
    declaration map of the import a token is therefore named `2 * index` when it is spelt like an identifier and `2 * index + 1`
    otherwise, and the map starts from the state in which every even token has `isName = true`, every odd one `false`. -/
def initData : Data := { attrs := fun t => { isName := t % 2 == 0 } }

def encTok (isName : Bool) (t : Nat) : Nat := 2 * t + (if isName then 0 else 1)

def Ev.mapTok (f : Nat → Nat) : Ev → Ev
  | .varDecl a t o => .varDecl a (f t) o
  | .funcDecl a t o => .funcDecl a (f t) o
  | .enumDecl a t o => .enumDecl a (f t) o
  | .ref a t => .ref a (f t)
  | e => e

/-- the declaration map of the import together with the calls that produced it: the only way to change `data` is `emit`, so the state is
    by construction the result of running the logged events (`ok`) -/
structure Log where
  evs : Array Ev
  data : Data
  ok : data = runEvents initData evs.toList

def Log.empty : Log := ⟨#[], initData, rfl⟩

def Log.emit (l : Log) (e : Ev) : Log :=
  ⟨l.evs.push e, l.data.step e, by rw [l.ok]; simp [runEvents, List.foldl_append]⟩

structure St where
  nodes : Array NodeRec := #[]
  files : List Str := []
  toks : Array Tok := #[]
  back : Option Nat := none       -- tokenList.back()
  ops : Array SetOp := #[]       -- the importer touches the AST only through `astOperand1` / `astOperand2`
  log : Log := Log.empty          -- mDeclMap / mNotFound / mVarId and the token attributes they write
  funcs : Array Func := #[]
  nVars : Nat := 0
  nEnums : Nat := 0
  nScopes : Nat := 0

def St.data (st : St) : Data := st.log.data

abbrev M := StateT St (Except Err)

def lit (s : String) : Str := s.toList

def failM (e : Err) : M α := throw e

def node (i : Nat) : M NodeRec := do
  match (← get).nodes[i]? with
  | some n => pure n
  | none => failM (.ub "node index")

def extAt (n : NodeRec) (i : Nat) : M Str :=
  match n.ext[i]? with
  | some s => pure s
  | none => failM (.ub s!"mExtTokens[{i}] of {n.nodeType}")

def extBack (n : NodeRec) : M Str :=
  match n.ext.getLast? with
  | some s => pure s
  | none => failM (.ub s!"mExtTokens.back() of {n.nodeType}")

/-- `getChild(c)`: throws InternalError when out of bounds; a nullptr child is returned as such (`none`) -/
def getChild (n : NodeRec) (c : Nat) : M (Option Nat) :=
  match n.children[c]? with
  | some ch => pure ch
  | none => failM (.internal "getChild")

/-- an access past `children`: every such access goes through `getChild` (commit 683485c) and ends in its InternalError -/
def oob (_what : String) : M α := failM (.internal "getChild")

/-- `getChild(c)` where the code used to say `children[c]` -/
def childAt (n : NodeRec) (c : Nat) : M (Option Nat) :=
  match n.children[c]? with
  | some ch => pure ch
  | none => oob s!"children[{c}] of {n.nodeType}"

/-- dereference of a child pointer -/
def deref (what : String) : Option Nat → M Nat
  | some i => pure i
  | none => failM (.ub s!"nullptr dereference: {what}")

def startsWith (s : Str) (p : String) : Bool := p.toList.isPrefixOf s
def endsWith (s : Str) (p : String) : Bool := p.toList.isSuffixOf s
def hasTok (n : NodeRec) (w : String) : Bool := n.ext.contains w.toList
/-- `s[0]` of a std::string (`'\0'` when empty) -/
def ch0 (s : Str) : Char := s.headD (Char.ofNat 0)

/-- `unquote` -/
def unquote (s : Str) : Str := if ch0 s == '\'' then (s.drop 1).take (s.length - 2) else s

/-- first index ≥ `i` whose token starts with a quote (or `size`) -/
def nextQuoted (ext : List Str) (i : Nat) : Nat :=
  match (ext.drop i).findIdx? (fun t => ch0 t == '\'') with
  | some k => i + k
  | none => ext.length

/-- `getFullType(index)` -/
def getFullType (n : NodeRec) (index : Nat) : Str :=
  let ti := nextQuoted n.ext 1
  match n.ext[ti]? with
  | none => []
  | some ty =>
    match findSub tick3 ty with
    | none => ty
    | some p => if index == 0 then ty.take (p + 1) else ty.drop (p + 2)

/-- `type[pos] = '\''; type.erase(pos+1)` at the first occurrence of `pat`, `pos = find(pat) + off` -/
def cutAt (ty : Str) (pat : String) (off : Nat) : Str :=
  match findSub pat.toList ty with
  | none => ty
  | some p => ty.take (p + off) ++ ['\'']

/-- `getType(index)` -/
def getType (n : NodeRec) (index : Nat) : Str :=
  let t0 := getFullType n index
  let t1 := cutAt t0 " (" 0
  let t2 := cutAt t1 " *(" 2
  let t3 := cutAt t2 " &(" 2
  unquote t3

/-- last index `≤ i` (scanning down, stopping above `lo`) whose token does not satisfy `p`; mirrors `while (idx > lo && p(ext[idx])) idx--` on `int` -/
def scanDown (ext : List Str) (p : Str → Bool) (lo : Int) : Nat → Int → Int
  | 0, i => i
  | fuel + 1, i =>
    if i > lo && (match ext[i.toNat]? with | some t => p t | none => false) then scanDown ext p lo fuel (i - 1) else i

def isAlphaTok (t : Str) : Bool := isAlpha (ch0 t)
def notQuoted (t : Str) : Bool := ch0 t != '\''

/-- `getSpelling()` -/
def getSpelling (n : NodeRec) : M Str := do
  let ext := n.ext
  let sz := ext.length
  if n.nodeType == "CompoundAssignOperator" then
    let ti := nextQuoted ext 1
    let ni := nextQuoted ext (ti + 1)
    return (match ext[ni]? with | some t => unquote t | none => [])
  if n.nodeType == "UnaryExprOrTypeTraitExpr" then
    let ti := nextQuoted ext 1
    return (match ext[ti + 1]? with | some t => unquote t | none => [])
  let mut typeIndex : Int := (sz : Int) - 1
  if n.nodeType == "FunctionDecl" || n.nodeType == "CXXConstructorDecl" || n.nodeType == "CXXMethodDecl" then
    typeIndex := scanDown ext notQuoted (-1) (sz + 1) typeIndex
    if typeIndex ≤ 0 then return []
  if n.nodeType == "DeclRefExpr" then
    typeIndex := scanDown ext isAlphaTok 0 (sz + 1) typeIndex
    if typeIndex ≤ 0 then return []
  if typeIndex - 1 < 0 then failM (.ub s!"mExtTokens[{typeIndex - 1}] in getSpelling of {n.nodeType}")
  let str ← extAt n (typeIndex - 1).toNat
  if startsWith str "col:" then return []
  if startsWith str "<invalid" then return []
  if n.nodeType == "RecordDecl" && str == lit "struct" then return []
  return str

def isDefinition (n : NodeRec) : Bool := hasTok n "definition"

/-- `getTemplateParameters()` -/
def getTemplateParameters (n : NodeRec) : M Str := do
  match n.children.head? with
  | none => return []
  | some c0 =>
    let c0 ← deref "children[0] in getTemplateParameters" c0
    if (← node c0).nodeType != "TemplateArgument" then return []
    let mut tp : Str := []
    for c in n.children do
      let ci ← deref "child in getTemplateParameters" c
      let cn ← node ci
      if cn.nodeType == "TemplateArgument" then
        tp := (if tp.isEmpty then ['<'] else tp ++ [',']) ++ unquote (← extBack cn)
    return tp ++ ['>']

def identLike (s : Str) : Bool := match s with | c :: _ => isAlpha c || c == '_' || c == '$' | [] => false

/-- `tokenList.addtoken(str, mLine, mCol, mFile)` + `tokenList.back()`; an empty string adds nothing -/
def addtoken (n : NodeRec) (s : Str) : M Nat := do
  let st ← get
  if s.isEmpty then
    match st.back with
    | some b => return b
    | none => failM (.ub "tokenList.back() is null after addtoken(\"\")")
  else
    let id := st.toks.size
    set { st with toks := st.toks.push { str := s, file := n.pos.file, line := n.pos.line, col := n.pos.col }, back := some id }
    return id

def backTok : M (Option Tok) := do
  let st ← get
  match st.back with
  | some b => return st.toks[b]?
  | none => return none

def backIs (ss : List String) : M Bool := do
  match ← backTok with
  | some t => return ss.any (fun s => t.str == s.toList)
  | none => return false

def setLink (a b : Nat) : M Unit :=
  modify fun st => { st with toks := (st.toks.modify a (fun t => { t with link := some b })).modify b (fun t => { t with link := some a }) }

def op1 (x : Nat) (t : Option Nat) : M Unit := modify fun st => { st with ops := st.ops.push ⟨.one, x, t⟩ }
def op2 (x : Nat) (t : Option Nat) : M Unit := modify fun st => { st with ops := st.ops.push ⟨.two, x, t⟩ }

/-- the name of token `i` in the declaration map -/
def encOf (toks : Array Tok) (i : Nat) : Nat := encTok (match toks[i]? with | some t => identLike t.str | none => true) i

/-- a call of `Data` by the importer; the event is given with token indices -/
def emitEv (e : Ev) : M Unit := modify fun st => { st with log := st.log.emit (e.mapTok (encOf st.toks)) }

/-- the attributes the map has written on token `i` so far -/
def tokAttr (i : Nat) : M Attr := do
  let st ← get
  return st.data.attrs (encOf st.toks i)

/-- `addTypeTokens(tokenList, str)` (the tokens only) -/
def addTypeTokens (n : NodeRec) : Nat → Str → M Unit
  | 0, _ => failM .hang
  | fuel + 1, str => do
    match findSub tick3 str with
    | some p => addTypeTokens n fuel (str.take (p + 1))
    | none =>
      if startsWith str "'enum (anonymous" then return
      let ty0 : Str :=
        match findSub (lit " (") str with
        | some p =>
          match findP (· == '<') str with
          | some q => (str.drop 1).take q ++ lit "...>"
          | none => (str.drop 1).take (p - 1)
        | none => unquote str
      let ty1 := match findSub (lit "(*)(") ty0 with | some p => ty0.take p ++ ['*'] | none => ty0
      let ty2 := match findP (· == '(') ty1 with | some p => ty1.take p | none => ty1
      match splitString ty2 with
      | none => failM .hang
      | some parts =>
        let mut lpar : List Nat := []
        for s in parts do
          let before := (← get).toks.size
          let t ← addtoken n s
          -- `tok->str()` of the returned token (the previous token when `s` is empty)
          let tstr := match (← get).toks[t]? with | some tk => tk.str | none => []
          let _ := before
          if tstr == ['('] then lpar := t :: lpar
          else if tstr == [')'] then
            match lpar with
            | l :: r => setLink t l; lpar := r
            | [] => failM (.ub "lpar.top() on an empty stack")

def charLit (c : Int) : Str :=
  if c == 0 then lit "'\\0'"
  else if c == 13 then lit "'\\r'"
  else if c == 10 then lit "'\\n'"
  else if c == 9 then lit "'\\t'"
  else if c == 92 then lit "'\\\\'"
  else if c < 32 || c ≥ 128 then
    let hexd (v : Int) : Str := (Nat.toDigits 16 v.toNat)
    lit "'\\x" ++ hexd ((c / 16) % 16) ++ hexd (c % 16) ++ ['\'']
  else ['\'', Char.ofNat c.toNat, '\'']

/-- node kinds `createTokens` of the model handles -/
def supported : List String :=
  ["ArraySubscriptExpr", "BinaryOperator", "BreakStmt", "CharacterLiteral", "CallExpr", "CaseStmt", "ConditionalOperator",
   "CompoundAssignOperator", "CompoundStmt", "ConstantExpr", "ContinueStmt", "CStyleCastExpr", "CXXBindTemporaryExpr",
   "CXXBoolLiteralExpr", "CXXConstructExpr", "CXXConstructorDecl", "CXXDeleteExpr", "CXXDestructorDecl", "CXXMethodDecl",
   "CXXMemberCallExpr", "CXXNewExpr", "CXXNullPtrLiteralExpr", "CXXOperatorCallExpr", "CXXRecordDecl", "CXXStaticCastExpr",
   "CXXFunctionalCastExpr", "CXXStdInitializerListExpr", "CXXTemporaryObjectExpr", "CXXThisExpr", "CXXThrowExpr", "DeclRefExpr",
   "DeclStmt", "DefaultStmt", "DoStmt", "EnumConstantDecl", "EnumDecl", "ExprWithCleanups", "FieldDecl", "FloatingLiteral", "ForStmt",
   "FunctionDecl", "GotoStmt", "IfStmt", "ImplicitCastExpr", "InitListExpr", "IntegerLiteral", "LabelStmt", "LinkageSpecDecl",
   "MaterializeTemporaryExpr", "MemberExpr", "NamespaceDecl", "NullStmt", "ParenExpr", "RecordDecl", "ReturnStmt", "StringLiteral",
   "SwitchStmt", "TypedefDecl", "UnaryOperator", "UnaryExprOrTypeTraitExpr", "VarDecl", "WhileStmt"]

/-- kinds with their own branch in the C++ that the model does not follow -/
def unsupportedKinds : List String :=
  ["ClassTemplateDecl", "ClassTemplateSpecializationDecl", "CXXForRangeStmt", "FunctionTemplateDecl"]

mutual

/-- `createScope(tokenList, scopeType, children2, def)`: the tokens -/
def createScope (fuel : Nat) (self : NodeRec) (isEnum : Bool) (children2 : List (Option Nat)) : M Unit :=
  match fuel with
  | 0 => failM .hang
  | fuel + 1 => do
    let b1 ← addtoken self ['{']
    for c in children2 do
      let ci ← deref "astNode in createScope" c
      let cn ← node ci
      if cn.nodeType == "VisibilityAttr" then continue
      if cn.nodeType == "AccessSpecDecl" then continue
      let _ ← createTokens fuel ci
      if isEnum then
        let _ ← addtoken cn [',']
      else if !(← backIs [";", "{", "}"]) then
        let _ ← addtoken cn [';']
    let b2 ← addtoken self ['}']
    setLink b1 b2

/-- `createTokensCall` -/
def createTokensCall (fuel : Nat) (self : NodeRec) : M (Option Nat) :=
  match fuel with
  | 0 => failM .hang
  | fuel + 1 => do
    let mut firstParam := 1
    let mut f : Option Nat := none
    if self.nodeType == "CXXOperatorCallExpr" then
      firstParam := 2
      let obj ← createTokens fuel (← deref "getChild(1)" (← getChild self 1))
      let dot ← addtoken self ['.']
      let op ← createTokens fuel (← deref "getChild(0)" (← getChild self 0))
      op1 dot obj
      op2 dot op
      f := some dot
    else
      f ← createTokens fuel (← deref "getChild(0)" (← getChild self 0))
    let _ ← deref "f->setValueType(nullptr)" f
    let par1 ← addtoken self ['(']
    op1 par1 f
    -- args = index of the first CXXDefaultArgExpr child (or size)
    let mut args := 0
    let mut stop := false
    for c in self.children do
      if !stop then
        let ci ← deref "children[args] in createTokensCall" c
        if (← node ci).nodeType == "CXXDefaultArgExpr" then stop := true else args := args + 1
    let mut child : Option Nat := none
    for c in [firstParam:args] do
      let ci ← deref "children[c] in createTokensCall" (← childAt self c)
      if child.isSome then
        let comma ← addtoken self [',']
        op1 comma child
        let r ← createTokens fuel ci
        op2 comma r
        child := some comma
      else
        child ← createTokens fuel ci
    op2 par1 child
    let par2 ← addtoken self [')']
    setLink par1 par2
    return some par1

/-- `createTokensFunctionDecl` -/
def createTokensFunctionDecl (fuel : Nat) (self : NodeRec) : M Unit :=
  match fuel with
  | 0 => failM .hang
  | fuel + 1 => do
    let prev := hasTok self "prev"
    let hasBody ← (do
      match self.children.getLast? with
      | none => pure false
      | some c => pure ((← node (← deref "children.back() in createTokensFunctionDecl" c)).nodeType == "CompoundStmt"))
    let isCtorDtor := self.nodeType == "CXXConstructorDecl" || self.nodeType == "CXXDestructorDecl"
    if !isCtorDtor then
      if hasTok self "static" then let _ ← addtoken self (lit "static")
      if hasTok self "inline" then let _ ← addtoken self (lit "inline")
      addTypeTokens self 4 (['\''] ++ getType self 0 ++ ['\''])
    if self.ext.length > 4 && self.ext[1]? == some (lit "parent") then
      match (← get).data.getScope ((self.ext[2]?).getD []) with
      | none => pure ()
      | some _ => failM (.unsupported "addFullScopeNameTokens")
    let nameTok ← addtoken self ((← getSpelling self) ++ (← getTemplateParameters self))
    if prev then
      match self.ext.idxOf? (lit "prev") with
      | some i => emitEv (.ref (← extAt self (i + 1)) nameTok)
      | none => pure ()
    if (← tokAttr nameTok).func.isNone then
      let fobj := (← get).funcs.size
      modify fun st => { st with funcs := st.funcs.push { tokenDef := nameTok, isConst := endsWith (unquote (getFullType self 0)) " const" } }
      emitEv (.funcDecl (← extAt self 0) nameTok fobj)
    let fobj ← deref "nameToken->function()" (← tokAttr nameTok).func
    let par1 ← addtoken self ['(']
    for c in self.children do
      let ci ← deref "child in createTokensFunctionDecl" c
      let cn ← node ci
      if cn.nodeType != "ParmVarDecl" then continue
      if (← get).back != some par1 then
        let _ ← addtoken self [',']
      addTypeTokens self 4 (← extBack cn)
      let spelling ← getSpelling cn
      if !spelling.isEmpty then
        let vartok ← addtoken cn spelling
        if !prev then
          let vobj := (← get).nVars
          modify fun st => { st with nVars := st.nVars + 1 }
          emitEv (.varDecl (← extAt cn 0) vartok vobj)
        else
          emitEv (.ref (← extAt cn 0) vartok)
      else if !prev then
        modify fun st => { st with nVars := st.nVars + 1 }
    let par2 ← addtoken self [')']
    setLink par1 par2
    let isConst := match (← get).funcs[fobj]? with | some f => f.isConst | none => false
    if isConst then let _ ← addtoken self (lit "const")
    if hasBody then
      let b1 ← addtoken self ['{']
      match self.children.getLast? with
      | some (some bi) => let _ ← createTokens fuel bi
      | _ => pure ()
      let b2 ← addtoken self ['}']
      setLink b1 b2
    else
      if self.nodeType == "CXXConstructorDecl" && hasTok self "default" then
        let _ ← addtoken self ['=']
        let _ ← addtoken self (lit "default")
      let _ ← addtoken self [';']

/-- `createTokensForCXXRecord` -/
def createTokensForCXXRecord (fuel : Nat) (self : NodeRec) : M Unit :=
  match fuel with
  | 0 => failM .hang
  | fuel + 1 => do
    let isStruct := hasTok self "struct"
    let kw := if isStruct then lit "struct" else lit "class"
    let _ ← addtoken self kw
    let sz := self.ext.length
    if sz < 2 then failM (.ub "mExtTokens[size-2] in createTokensForCXXRecord")
    let className0 ← (do
      if (← extAt self (sz - 2)) == kw then extBack self else extAt self (sz - 2))
    let className := className0 ++ (← getTemplateParameters self)
    let _ ← addtoken self className
    let mut firstBase := true
    for c in self.children do
      let cn ← node (← deref "child in createTokensForCXXRecord" c)
      if cn.nodeType == "public" || cn.nodeType == "protected" || cn.nodeType == "private" then
        let _ ← addtoken self (if firstBase then [':'] else [','])
        let _ ← addtoken self cn.nodeType.toList
        let _ ← addtoken self (unquote (← extBack cn))
        firstBase := false
    if isDefinition self then
      let mut children2 : List (Option Nat) := []
      for c in self.children do
        let cn ← node (← deref "child in createTokensForCXXRecord" c)
        if ["CXXConstructorDecl", "CXXDestructorDecl", "CXXMethodDecl", "FieldDecl", "VarDecl", "AccessSpecDecl", "TypedefDecl"].contains cn.nodeType then
          children2 := children2 ++ [c]
      createScope fuel self false children2
      let sobj := (← get).nScopes
      modify fun st => { st with nScopes := st.nScopes + 1 }
      emitEv (.scopeDecl (← extAt self 0) sobj)
    let _ ← addtoken self [';']

/-- `createTokensVarDecl` -/
def createTokensVarDecl (fuel : Nat) (self : NodeRec) : M (Option Nat) :=
  match fuel with
  | 0 => failM .hang
  | fuel + 1 => do
    let addr ← extAt self 0
    if hasTok self "static" then let _ ← addtoken self (lit "static")
    let sz := self.ext.length
    let typeIndex := scanDown self.ext isAlphaTok 1 (sz + 1) ((sz : Int) - 1)
    if typeIndex < 1 then failM (.ub "mExtTokens[typeIndex] in createTokensVarDecl")
    let type ← extAt self typeIndex.toNat
    let name ← extAt self (typeIndex.toNat - 1)
    addTypeTokens self 4 type
    let vartok1 ← addtoken self name
    let vobj := (← get).nVars
    modify fun st => { st with nVars := st.nVars + 1 }
    emitEv (.varDecl addr vartok1 vobj)
    let last ← extBack self
    if last == lit "cinit" && !self.children.isEmpty then
      let eq ← addtoken self ['=']
      op1 eq (some vartok1)
      let r ← createTokens fuel (← deref "children.back()" (self.children.getLast?.getD none))
      op2 eq r
      return some eq
    if last == lit "callinit" then
      let par1 ← addtoken self ['(']
      op1 par1 (some vartok1)
      let r ← createTokens fuel (← deref "getChild(0)" (← getChild self 0))
      op2 par1 r
      let par2 ← addtoken self [')']
      setLink par1 par2
      return some par1
    if last == lit "listinit" then
      return ← createTokens fuel (← deref "getChild(0)" (← getChild self 0))
    return some vartok1

/-- `AstNode::createTokens`: returns the token the C++ returns (`none` = nullptr) -/
def createTokens (fuel : Nat) (i : Nat) : M (Option Nat) :=
  match fuel with
  | 0 => failM .hang
  | fuel + 1 => do
    let self ← node i
    let nt := self.nodeType
    let child0 : M Nat := do deref "getChild(0)" (← getChild self 0)
    let childN (c : Nat) : M Nat := do deref s!"children[{c}]" (← childAt self c)
    let backChild : M Nat := do
      match self.children.getLast? with
      | some c => deref "children.back()" c
      | none => oob s!"children.back() of {nt}"
    if unsupportedKinds.contains nt then failM (.unsupported nt)
    if nt == "ArraySubscriptExpr" then
      let array ← createTokens fuel (← child0)
      let b1 ← addtoken self ['[']
      let index ← createTokens fuel (← childN 1)
      let b2 ← addtoken self [']']
      op1 b1 array
      op2 b1 index
      setLink b1 b2
      return some b1
    if nt == "BinaryOperator" then
      let t1 ← createTokens fuel (← child0)
      let binop ← addtoken self (unquote (← extBack self))
      let t2 ← createTokens fuel (← childN 1)
      op1 binop t1
      op2 binop t2
      return some binop
    if nt == "BreakStmt" then return some (← addtoken self (lit "break"))
    if nt == "CharacterLiteral" then
      let v ← extBack self
      if v.isEmpty || !v.all isDigit then failM (.unsupported "CharacterLiteral value")
      -- static_cast<int>(MathLib::toBigNumber(..))
      let c : Int := ((digitsVal v 0 % 4294967296 : Nat) : Int)
      let c := if c ≥ 2147483648 then c - 4294967296 else c
      return some (← addtoken self (charLit c))
    if nt == "CallExpr" || nt == "CXXMemberCallExpr" || nt == "CXXOperatorCallExpr" then return ← createTokensCall fuel self
    if nt == "CaseStmt" then
      let caseTok ← addtoken self (lit "case")
      let e ← createTokens fuel (← child0)
      op1 caseTok e
      let _ ← addtoken self [':']
      let _ ← createTokens fuel (← backChild)
      return none
    if nt == "ConditionalOperator" then
      let e1 ← createTokens fuel (← child0)
      let t1 ← addtoken self ['?']
      let e2 ← createTokens fuel (← childN 1)
      let t2 ← addtoken self [':']
      let e3 ← createTokens fuel (← childN 2)
      op1 t2 e2
      op2 t2 e3
      op1 t1 e1
      op2 t1 (some t2)
      return some t1
    if nt == "CompoundAssignOperator" then
      let lhs ← createTokens fuel (← child0)
      let assign ← addtoken self (← getSpelling self)
      let rhs ← createTokens fuel (← childN 1)
      op1 assign lhs
      op2 assign rhs
      return some assign
    if nt == "CompoundStmt" then
      for c in self.children do
        let ci ← deref "child of CompoundStmt" c
        let _ ← createTokens fuel ci
        if !(← backIs [";", "{", "}"]) then
          let _ ← addtoken (← node ci) [';']
      return none
    if nt == "ConstantExpr" then return ← createTokens fuel (← backChild)
    if nt == "ContinueStmt" then return some (← addtoken self (lit "continue"))
    if nt == "CStyleCastExpr" then
      let p1 ← addtoken self ['(']
      addTypeTokens self 4 (['\''] ++ getType self 0 ++ ['\''])
      let p2 ← addtoken self [')']
      setLink p1 p2
      let r ← createTokens fuel (← child0)
      op1 p1 r
      return some p1
    if nt == "CXXBindTemporaryExpr" then return ← createTokens fuel (← child0)
    if nt == "CXXBoolLiteralExpr" then return some (← addtoken self (← extBack self))
    if nt == "CXXConstructExpr" then
      if !self.children.isEmpty then return ← createTokens fuel (← child0)
      addTypeTokens self 4 (['\''] ++ getType self 0 ++ ['\''])
      let ty ← deref "tokenList.back() in CXXConstructExpr" (← get).back
      let p1 ← addtoken self ['(']
      let p2 ← addtoken self [')']
      setLink p1 p2
      op1 p1 (some ty)
      return some p1
    if nt == "CXXConstructorDecl" || nt == "CXXDestructorDecl" || nt == "FunctionDecl" then
      createTokensFunctionDecl fuel self
      return none
    if nt == "CXXDeleteExpr" then
      let _ ← addtoken self (lit "delete")
      let _ ← createTokens fuel (← child0)
      return none
    if nt == "CXXMethodDecl" then
      let mut i := 0
      for t in self.ext do
        if t == lit "prev" && i + 1 < self.ext.length then
          if !(← get).data.hasDecl ((self.ext[i + 1]?).getD []) then return none
        i := i + 1
      createTokensFunctionDecl fuel self
      return none
    if nt == "CXXNewExpr" then
      let newtok ← addtoken self (lit "new")
      if self.children.length == 1 then
        let c0 ← child0
        if (← node c0).nodeType == "CXXConstructExpr" then
          let r ← createTokens fuel c0
          op1 newtok r
          return some newtok
      let ty0 := getType self 0
      let ty := match (ty0.reverse.findIdx? (· == '*')) with
        | some k => ty0.take (ty0.length - 1 - k)
        | none => ty0
      addTypeTokens self 4 ty
      if !self.children.isEmpty then
        let b1 ← addtoken self ['[']
        let _ ← createTokens fuel (← child0)
        let b2 ← addtoken self [']']
        setLink b1 b2
      return some newtok
    if nt == "CXXNullPtrLiteralExpr" then return some (← addtoken self (lit "nullptr"))
    if nt == "CXXRecordDecl" then
      createTokensForCXXRecord fuel self
      return none
    if nt == "CXXStaticCastExpr" || nt == "CXXFunctionalCastExpr" then
      let cast ← addtoken self (← getSpelling self)
      let p1 ← addtoken self ['(']
      let e ← createTokens fuel (← child0)
      let p2 ← addtoken self [')']
      setLink p1 p2
      op1 p1 (some cast)
      op2 p1 e
      return some p1
    if nt == "CXXStdInitializerListExpr" then return ← createTokens fuel (← child0)
    if nt == "CXXTemporaryObjectExpr" && !self.children.isEmpty then return ← createTokens fuel (← child0)
    if nt == "CXXThisExpr" then return some (← addtoken self (lit "this"))
    if nt == "CXXThrowExpr" then
      let t ← addtoken self (lit "throw")
      let r ← createTokens fuel (← child0)
      op1 t r
      return some t
    if nt == "DeclRefExpr" then
      let sz := self.ext.length
      let addrIndex := scanDown self.ext (fun t => !startsWith t "0x") 1 (sz + 1) ((sz : Int) - 1)
      if addrIndex < 0 then failM (.ub "mExtTokens[addrIndex] in DeclRefExpr")
      let addr ← extAt self addrIndex.toNat
      let name := unquote (← getSpelling self)
      let reftok ← addtoken self (if name.isEmpty then lit "<NoName>" else name)
      emitEv (.ref addr reftok)
      return some reftok
    if nt == "DeclStmt" then return ← createTokens fuel (← child0)
    if nt == "DefaultStmt" then
      let _ ← addtoken self (lit "default")
      let _ ← addtoken self [':']
      let _ ← createTokens fuel (← backChild)
      return none
    if nt == "DoStmt" then
      let _ ← addtoken self (lit "do")
      createScope fuel self false [← getChild self 0]
      let t1 ← addtoken self (lit "while")
      let p1 ← addtoken self ['(']
      let e ← createTokens fuel (← childN 1)
      let p2 ← addtoken self [')']
      setLink p1 p2
      op1 p1 (some t1)
      op2 p1 e
      return none
    if nt == "EnumConstantDecl" then
      let nameTok ← addtoken self (← getSpelling self)
      let eobj := (← get).nEnums
      modify fun st => { st with nEnums := st.nEnums + 1 }
      emitEv (.enumDecl (← extAt self 0) nameTok eobj)
      return some nameTok
    if nt == "EnumDecl" then
      let sz := self.ext.length
      let colIndex := scanDown self.ext (fun t => !startsWith t "col:" && !startsWith t "line:") 0 (sz + 1) ((sz : Int) - 1)
      if colIndex ≤ 0 then return none
      let _ ← addtoken self (lit "enum")
      let nameIndex := scanDown self.ext (fun t => ch0 t == '\'') colIndex (sz + 1) ((sz : Int) - 1)
      if nameIndex > colIndex then
        let _ ← addtoken self (← extAt self nameIndex.toNat)
      if ch0 (← extBack self) == '\'' then
        let _ ← addtoken self [':']
        addTypeTokens self 4 (← extBack self)
      createScope fuel self true self.children
      -- `if (Token::simpleMatch(bodyEnd->previous(), ", }")) bodyEnd->deletePrevious();`
      let st ← get
      match st.back with
      | some b2 =>
        if b2 > 0 then
          match st.toks[b2 - 1]? with
          | some pt => if pt.str == [','] && !pt.deleted then set { st with toks := st.toks.modify (b2 - 1) (fun t => { t with deleted := true }) }
          | none => pure ()
      | none => pure ()
      return none
    if nt == "ExprWithCleanups" then return ← createTokens fuel (← child0)
    if nt == "FieldDecl" || nt == "VarDecl" then return ← createTokensVarDecl fuel self
    if nt == "FloatingLiteral" || nt == "IntegerLiteral" || nt == "StringLiteral" then return some (← addtoken self (← extBack self))
    if nt == "ForStmt" then
      let forTok ← addtoken self (lit "for")
      let p1 ← addtoken self ['(']
      let e1 ← (do match ← getChild self 0 with | some c => createTokens fuel c | none => pure none)
      let sep1 ← addtoken self [';']
      let e2 ← (do match ← childAt self 2 with | some c => createTokens fuel c | none => pure none)
      let sep2 ← addtoken self [';']
      let e3 ← (do match ← childAt self 3 with | some c => createTokens fuel c | none => pure none)
      let p2 ← addtoken self [')']
      setLink p1 p2
      op1 p1 (some forTok)
      op2 p1 (some sep1)
      op1 sep1 e1
      op2 sep1 (some sep2)
      op1 sep2 e2
      op2 sep2 e3
      createScope fuel self false [← childAt self 4]
      return none
    if nt == "GotoStmt" then
      let _ ← addtoken self (lit "goto")
      if self.ext.length < 2 then failM (.ub "mExtTokens[size-2] in GotoStmt")
      let _ ← addtoken self (unquote (← extAt self (self.ext.length - 2)))
      let _ ← addtoken self [';']
      return none
    if nt == "IfStmt" then
      let k := self.children.length
      if k < 2 then oob "children[size-2] in IfStmt"
      let (cond, thenC, elseC) ← (do
        if k == 2 then pure (← childAt self 0, ← childAt self 1, (none : Option (Option Nat)))
        else pure (← childAt self (k - 3), ← childAt self (k - 2), some (← childAt self (k - 1))))
      let iftok ← addtoken self (lit "if")
      let p1 ← addtoken self ['(']
      op1 p1 (some iftok)
      let c ← createTokens fuel (← deref "cond of IfStmt" cond)
      op2 p1 c
      let p2 ← addtoken self [')']
      setLink p1 p2
      createScope fuel self false [thenC]
      match elseC with
      | some (some ei) =>
        let _ ← addtoken (← node ei) (lit "else")
        createScope fuel self false [some ei]
      | _ => pure ()
      return none
    if nt == "ImplicitCastExpr" then
      let e ← createTokens fuel (← child0)
      let _ ← deref "expr->valueType() in ImplicitCastExpr" e
      return e
    if nt == "InitListExpr" then
      let _ ← deref "tokenList.back()->scope() in InitListExpr" (← get).back
      let start ← addtoken self ['{']
      for c in self.children do
        if !(← backIs ["{"]) then
          let _ ← addtoken self [',']
        let _ ← createTokens fuel (← deref "child of InitListExpr" c)
      let e ← addtoken self ['}']
      setLink start e
      return some start
    if nt == "LabelStmt" then
      let _ ← addtoken self (unquote (← extBack self))
      let _ ← addtoken self [':']
      for c in self.children do
        let _ ← createTokens fuel (← deref "child of LabelStmt" c)
      return none
    if nt == "LinkageSpecDecl" then return none
    if nt == "MaterializeTemporaryExpr" then return ← createTokens fuel (← child0)
    if nt == "MemberExpr" then
      let s ← createTokens fuel (← child0)
      let dot ← addtoken self ['.']
      -- `… ->name 0xaddr [flag]`: the address field is located first (commit 62b103f), the name is the field before it
      let sz := self.ext.length
      let addrIndex := scanDown self.ext (fun t => !startsWith t "0x") 1 (sz + 1) ((sz : Int) - 1)
      let sp ← (do if addrIndex ≥ 1 then extAt self (addrIndex.toNat - 1) else pure [])
      let mn0 := if startsWith sp "->" then sp.drop 2 else if startsWith sp "." then sp.drop 1 else sp
      let mn := if mn0.isEmpty then lit "<unknown>" else mn0
      let member ← addtoken self mn
      let addr ← (do if addrIndex ≥ 0 then extAt self addrIndex.toNat else failM (.ub "mExtTokens[addrIndex] in MemberExpr"))
      emitEv (.ref addr member)
      op1 dot s
      op2 dot (some member)
      return some dot
    if nt == "NamespaceDecl" then
      if self.children.isEmpty then return none
      let _ ← addtoken self (lit "namespace")
      if self.ext.length < 2 then failM (.ub "mExtTokens[size-2] in NamespaceDecl")
      let s ← extAt self (self.ext.length - 2)
      if startsWith s "col:" || startsWith s "line:" then
        let _ ← addtoken self (← extBack self)
      createScope fuel self false self.children
      return none
    if nt == "NullStmt" then return some (← addtoken self [';'])
    if nt == "ParenExpr" then
      let p1 ← addtoken self ['(']
      let e ← createTokens fuel (← child0)
      let p2 ← addtoken self [')']
      setLink p1 p2
      return e
    if nt == "RecordDecl" then
      let _ ← addtoken self (lit "struct")
      let rn ← getSpelling self
      if !rn.isEmpty then let _ ← addtoken self rn
      if !isDefinition self then
        let _ ← addtoken self [';']
        return none
      createScope fuel self false self.children
      return none
    if nt == "ReturnStmt" then
      let t1 ← addtoken self (lit "return")
      if !self.children.isEmpty then
        let r ← createTokens fuel (← child0)
        op1 t1 r
      return some t1
    if nt == "SwitchStmt" then
      let k := self.children.length
      if k < 2 then oob "children[size-2] in SwitchStmt"
      let t1 ← addtoken self (lit "switch")
      let p1 ← addtoken self ['(']
      let e ← createTokens fuel (← deref "cond of SwitchStmt" (← childAt self (k - 2)))
      let p2 ← addtoken self [')']
      setLink p1 p2
      op1 p1 (some t1)
      op2 p1 e
      createScope fuel self false [← childAt self (k - 1)]
      return none
    if nt == "TypedefDecl" then
      let _ ← addtoken self (lit "typedef")
      addTypeTokens self 4 (getType self 0)
      return some (← addtoken self (← getSpelling self))
    if nt == "UnaryOperator" then
      let sz := self.ext.length
      let index := scanDown self.ext notQuoted 0 (sz + 1) ((sz : Int) - 1)
      if index < 0 then failM (.ub "mExtTokens[index] in UnaryOperator")
      let unop ← addtoken self (unquote (← extAt self index.toNat))
      let r ← createTokens fuel (← child0)
      op1 unop r
      return some unop
    if nt == "UnaryExprOrTypeTraitExpr" then
      let t1 ← addtoken self (← getSpelling self)
      let p1 ← addtoken self ['(']
      if self.children.isEmpty then
        addTypeTokens self 4 (← extBack self)
      else
        let mut c ← child0
        if (← node c).nodeType == "ParenExpr" then
          c ← deref "getChild(0) of ParenExpr" (← getChild (← node c) 0)
        let e ← createTokens fuel c
        let _ ← deref "child->setValueType(expr)" e
        op2 p1 e
      let p2 ← addtoken self [')']
      setLink p1 p2
      op1 p1 (some t1)
      -- `par1->astOperand2(par1->next())`
      op2 p1 (some (p1 + 1))
      return some p1
    if nt == "WhileStmt" then
      let k := self.children.length
      if k < 2 then oob "children[size-2] in WhileStmt"
      let wt ← addtoken self (lit "while")
      let p1 ← addtoken self ['(']
      op1 p1 (some wt)
      let c ← createTokens fuel (← deref "cond of WhileStmt" (← childAt self (k - 2)))
      op2 p1 c
      let p2 ← addtoken self [')']
      setLink p1 p2
      createScope fuel self false [← childAt self (k - 1)]
      return none
    return some (← addtoken self (lit "?" ++ nt.toList ++ lit "?"))

end

/-- `isPrologueTypedefDecl()` (evaluated before `setLocations`, so `mFile, mLine, mCol` are still `0, 1, 1`) -/
def isPrologueTypedefDecl (nodes : Array NodeRec) : Bool :=
  match nodes[0]? with
  | none => false
  | some r =>
    if r.nodeType != "TypedefDecl" then false
    else
      match r.children.head? with
      | some (some c0) =>
        match nodes[c0]? with
        | some cn =>
          match cn.ext[1]? with
          | some ty => ["'__int128'", "'unsigned __int128'", "'struct __NSConstantString_tag'", "'char *'", "'struct __va_list_tag[1]'"].any (fun s => ty == s.toList)
          | none => false
        | none => false
      | _ => false

/-- `setLocations` on the node array (children inherit the resolved position of their parent) -/
def setLocations : Nat → Nat → Pos → M Unit
  | 0, _, _ => failM .hang
  | fuel + 1, i, inh => do
    let n ← node i
    let st ← get
    match setLocNode st.files n.ext inh with
    | .error .ast => failM (.internal "invalid-location")
    | .error .conv => failM .conv
    | .ok (files, p) =>
      set { st with files := files, nodes := st.nodes.modify i (fun r => { r with pos := p }) }
      for c in n.children do
        match c with
        | some ci => setLocations fuel ci p
        | none => pure ()

/-- `createTokens1` for the tree in `st.nodes` (root = node 0) -/
def createTokens1 : M Unit := do
  let st ← get
  if st.nodes.isEmpty then return
  if isPrologueTypedefDecl st.nodes then return
  let fuel := st.nodes.size + 2
  let init : Pos := match st.back.bind (fun b => st.toks[b]?) with
    | some t => ⟨t.file, t.line, 1⟩
    | none => ⟨0, 1, 1⟩
  setLocations fuel 0 init
  let _ ← createTokens (fuel * 4) 0
  let root ← node 0
  if root.nodeType == "VarDecl" || root.nodeType == "RecordDecl" || root.nodeType == "TypedefDecl" then
    let _ ← addtoken root [';']

/-- the `tree` vector: indices of the open node per level -/
structure Builder where
  tree : List Nat := []

/-- the line loop of `parseClangAstDump` -/
def lineLoop : List Str → List Nat → M Unit
  | [], tree => do
    if !tree.isEmpty then createTokens1
  | line :: rest, tree => do
    match classifyLine tree.isEmpty line with
    | .skip => lineLoop rest tree
    | .null level =>
      -- `tree[level - 1]->children.push_back(nullptr)`
      if level == 0 then failM (.ub "tree[level - 1] with level 0")
      match tree[level - 1]? with
      | none => failM (.ub "tree[level - 1] out of range")
      | some pi =>
        modify fun st => { st with nodes := st.nodes.modify pi (fun r => { r with children := r.children ++ [none] }) }
        lineLoop rest tree
    | .node pos1 nodeType ext =>
      match splitString ext with
      | none => failM .hang
      | some toks =>
        let rec_ : NodeRec := { nodeType := String.ofList nodeType, ext := toks, children := [] }
        if pos1 == 1 && endsWith nodeType "Decl" then
          if !tree.isEmpty then createTokens1
          modify fun st => { st with nodes := #[rec_] }
          lineLoop rest [0]
        else
          let level := (pos1 - 1) / 2
          if level == 0 || level > tree.length then lineLoop rest tree
          else
            match tree[level - 1]? with
            | none => failM (.ub "tree[level - 1]")
            | some pi =>
              let id := (← get).nodes.size
              modify fun st => { st with nodes := (st.nodes.push rec_).modify pi (fun r => { r with children := r.children ++ [some id] }) }
              let tree' := if level ≥ tree.length then tree ++ [id] else tree.set level id
              lineLoop rest tree'

def splitLines (s : Str) : List Str :=
  let rec go : Str → Str → List Str
    | [], cur => if cur.isEmpty then [] else [cur.reverse]
    | c :: t, cur => if c == '\n' then cur.reverse :: go t [] else go t (c :: cur)
  go s []

structure Imported where
  toks : Array Tok
  store : AstStore.Store
  rawAttrs : Nat → Attr            -- attributes by map name (`encOf`) = `(runEvents initData events).attrs` (Proofs: `importDump_data`)
  rawVarDef : Nat → Nat
  funcs : Array Func
  ops : List AstStore.Op
  events : List Ev                 -- tokens by map name
  
/-- attributes by token index -/
def Imported.attrs (im : Imported) (i : Nat) : Attr := im.rawAttrs (encOf im.toks i)
/-- Variable object ↦ index of its name token -/
def Imported.varDef (im : Imported) (o : Nat) : Nat := im.rawVarDef o / 2
/-- enumerator object ↦ index of its name token -/
def Imported.enumName (im : Imported) (o : Nat) : Option Nat :=
  im.events.findSome? fun e => match e with | .enumDecl _ t o' => if o' = o then some (t / 2) else none | _ => none

/-- run the AST setter calls; an InternalError of the cycle check aborts the import -/
def runOps (s : AstStore.Store) : List AstStore.Op → Except Err AstStore.Store
  | [] => .ok s
  | o :: r =>
    match AstStore.step s o with
    | (s1, .ok) => runOps s1 r
    | (_, .throw) => .error (.internal "ast-cycle")
    | (_, .hang) => .error .hang

/- `setTypes(tokenList)` gives the tokens between `sizeof (` and `)` that carry no type, variable, function or enumerator the result of
   `findType` (commit 4904769 skips linked tokens): it changes nothing the model observes. -/

def isBracket (s : Str) : Bool := s == ['('] || s == [')'] || s == ['['] || s == [']'] || s == ['{'] || s == ['}']

/-- `parseClangAstDump` up to and including the link validation; `file0` = the file the TokenList already knows -/
def importDump (file0 : Str) (text : Str) : Except Err Imported :=
  match (lineLoop (splitLines text) []).run { files := [file0] } with
  | .error e => .error e
  | .ok (_, st) =>
    -- "Validation": every bracket token has a link
    if (st.toks.toList.filter (fun t => !t.deleted)).any (fun t => isBracket t.str && t.link.isNone) then .error (.internal "link-not-set")
    else
      match runOps (AstStore.init st.toks.size) (st.ops.toList.map SetOp.toOp) with
      | .error e => .error e
      | .ok store =>
        .ok { toks := st.toks, store := store, rawAttrs := st.log.data.attrs, rawVarDef := st.log.data.varDef, funcs := st.funcs,
              ops := st.ops.toList.map SetOp.toOp, events := st.log.evs.toList }

/-! ## Part 3: the invariant checker run on the token list the REAL importer produced

`Proofs/ClangDeclMap.lean` shows `checkInv … = true → AstStore.Inv (storeOf …)`; the link vector is checked by running the verified
bracket linker of C14 on the first characters and comparing (`Links.createLinks ts = .ok L`), so that
`C14.links_symmetric_nested` applies to it. -/

def getO (l : List (Option Nat)) (i : Nat) : Option Nat := (l[i]?).getD none

/-- the pointer store given by three arrays (out of range = nullptr) -/
def storeOf (parent op1 op2 : List (Option Nat)) : AstStore.Store :=
  ⟨max parent.length (max op1.length op2.length), getO parent, getO op1, getO op2, fun _ => none⟩

/-- following parent pointers from `i` reaches a root within `fuel` steps -/
def climbOut (par : Nat → Option Nat) : Nat → Nat → Bool
  | 0, _ => false
  | f + 1, i =>
    match par i with
    | none => true
    | some p => climbOut par f p

def checkNode (s : AstStore.Store) (i : Nat) : Bool :=
  climbOut s.parent (s.n + 1) i &&
  (match s.op1 i with | some c => s.parent c == some i | none => true) &&
  (match s.op2 i with | some c => s.parent c == some i | none => true) &&
  (match s.op1 i, s.op2 i with | some c, some c' => c != c' | _, _ => true) &&
  (match s.parent i with | some p => s.op1 p == some i || s.op2 p == some i | none => true)

def checkInv (parent op1 op2 : List (Option Nat)) : Bool :=
  let s := storeOf parent op1 op2
  (List.range s.n).all (checkNode s)

end Cppcheck.ClangDeclMap

import Cppcheck.Model.PathCanon
/-
C31 — `PathMatch::match` (lib/pathmatch.cpp) and the documented matching rules (lib/pathmatch.h).

  * `matchLoopF` copy of the `for (;;)` loop with its backtrack stack.  The two `PathIterator`s are
    represented by the character streams they produce (`Iter.stream`: `*it` = head, `++it` = tail,
    `getpos/setpos` = keeping/restoring the list), i.e. the reversed canonical pattern / path.
    One unit of fuel per loop iteration; `matchFuel` is the exact iteration count (`costC`).
  * `pathMatch` copy of the static `PathMatch::match(pattern, path, basepath, mode, syntax)`,
    `pathMatchList` of the member `match(path, mode)`.
  * `tokens`, `Glob`, `SpecMatch`, `PathMatchSpec`: the documented rules, declaratively (forward direction).
  * `globB`, `specMatchB`, `pathMatchSpecB`: the same rules as executable decision procedures.
-/
namespace Cppcheck.PathMatch
open Cppcheck.Wire Cppcheck.PathCanon

inductive Filemode | regular | directory
  deriving DecidableEq, Repr, Inhabited

/-- `PathMatch::isRelativePattern` -/
def isRelativePattern (p : Str) : Bool :=
  if p.isEmpty || cat p 0 != '.' then false
  else if p.length < 2 || cat p 1 == '/' || cat p 1 == '\\' then true
  else if cat p 1 != '.' then false
  else if p.length < 3 || cat p 2 == '/' || cat p 2 == '\\' then true
  else false

/-- `PathMatch::joinRelativePattern` -/
def joinRelativePattern (base pattern : Str) : Str :=
  if isRelativePattern pattern then PathCanon.join base pattern else pattern

/-- `PathIterator::fromPattern` -/
def fromPattern (v : Variant) (syn : Syntax) (pattern base : Str) : Iter :=
  if isRelativePattern pattern then Iter.mk' v syn base pattern else Iter.mk' v syn pattern []

/-- `PathIterator::fromPath` -/
def fromPath (v : Variant) (syn : Syntax) (path base : Str) : Iter :=
  if isAbsolute path then Iter.mk' v syn path [] else Iter.mk' v syn base path

abbrev Stack := List (Str × Str)

/-- `*s == *t` (repaired: `*s == *t || *s == '?' || *s == '*'`): is a backtrack position recorded? -/
def pushOk (fx : Bool) (h c : Char) : Bool := h == c || (fx && (h == '?' || h == '*'))

/-- the scan of a star: `while (*t != '\0' && (slash || *t != '/')) { if (*s == *t) b.emplace(s, t); ++t; }` -/
def starScan (fx : Bool) (slash : Bool) (s : Str) : Str → Stack → Str × Stack
  | [], b => ([], b)
  | c :: t, b =>
    if c != NUL && (slash || c != '/') then
      starScan fx slash s t (if pushOk fx (hd s) c then (s, c :: t) :: b else b)
    else (c :: t, b)

/-- `while (*q != '\0' && *q != '/') ++q;` -/
def skipToSep : Str → Str
  | [] => []
  | c :: q => if c != NUL && c != '/' then skipToSep q else c :: q

/-- the matching loop.  `p`: pattern restart position, `s`/`t`: pattern/path position, `q`: path restart
    position, `b`: backtrack stack (top = head).  `none` = out of fuel (never for `matchFuel`). -/
def matchLoopF (fx : Bool) : Nat → Bool → Str → Str → Str → Str → Stack → Option Bool
  | 0, _, _, _, _, _, _ => none
  | fuel + 1, real, p, s, t, q, b =>
    let c := hd s
    if c == '*' then
      let s1 := s.tail
      let slash := hd s1 == '*'
      let s2 := if slash then s1.tail else s1
      let (t', b') := starScan fx slash s2 t b
      matchLoopF fx fuel real p s2 t' q b'
    else if c == '?' && (hd t != NUL && hd t != '/') then
      matchLoopF fx fuel real p s.tail t.tail q b
    else if c == NUL && (hd t == NUL || (hd t == '/' && !real)) then
      some true
    else if c != '?' && c != NUL && c == hd t then
      matchLoopF fx fuel real p s.tail t.tail q b
    else
      -- no match, try to backtrack
      match b with
      | (s', t') :: b' => matchLoopF fx fuel real p s' t' q b'
      | [] =>
        -- couldn't backtrack, try matching from the next path separator
        let q1 := skipToSep q
        if hd q1 == '/' then
          let q2 := q1.tail
          matchLoopF fx fuel real p p q2 q2 []
        else some false

/-! ### the recursive reading of the loop and its iteration count -/

/-- the positions a star leaves behind: the code pushes only positions with `pushOk` -/
def scanC (fx : Bool) (k : Str → Bool) (slash : Bool) (h : Char) : Str → Bool
  | [] => k []
  | c :: t =>
    if c != NUL && (slash || c != '/') then (pushOk fx h c && k (c :: t)) || scanC fx k slash h t
    else k (c :: t)

/-- does the search started at pattern position `s`, path position `t` (empty stack) reach `return true`? -/
def mC (fx : Bool) (real : Bool) : Str → Str → Bool
  | [], t => hd t == NUL || (hd t == '/' && !real)
  | c :: s', t =>
    if c == '*' then
      match s' with
      | [] => scanC fx (mC fx real []) false NUL t
      | c2 :: s2 =>
        if c2 == '*' then scanC fx (mC fx real s2) true (hd s2) t else scanC fx (mC fx real (c2 :: s2)) false c2 t
    else if c == '?' then
      match t with
      | [] => false
      | d :: t' => d != NUL && d != '/' && mC fx real s' t'
    else if c == NUL then hd t == NUL || (hd t == '/' && !real)
    else
      match t with
      | [] => false
      | d :: t' => c == d && mC fx real s' t'

def scanCost (fx : Bool) (k : Str → Nat) (slash : Bool) (h : Char) : Str → Nat
  | [] => k []
  | c :: t =>
    if c != NUL && (slash || c != '/') then (if pushOk fx h c then k (c :: t) else 0) + scanCost fx k slash h t
    else k (c :: t)

/-- number of loop iterations spent below `(s, t)` when no branch succeeds (upper bound otherwise) -/
def costC (fx : Bool) : Str → Str → Nat
  | [], _ => 1
  | c :: s', t =>
    if c == '*' then
      match s' with
      | [] => 1 + scanCost fx (costC fx []) false NUL t
      | c2 :: s2 =>
        if c2 == '*' then 1 + scanCost fx (costC fx s2) true (hd s2) t else 1 + scanCost fx (costC fx (c2 :: s2)) false c2 t
    else if c == '?' then
      match t with
      | [] => 1
      | d :: t' => if d != NUL && d != '/' then 1 + costC fx s' t' else 1
    else if c == NUL then 1
    else
      match t with
      | [] => 1
      | d :: t' => if c == d then 1 + costC fx s' t' else 1

/-- the restart positions: every position of `q` that directly follows a separator -/
def afterSeps : Str → List Str
  | [] => []
  | c :: q => if c == '/' then q :: afterSeps q else afterSeps q

def matchFuel (fx : Bool) (s t : Str) : Nat :=
  costC fx s t + ((afterSeps t).map (costC fx s)).sum + 1

/-- the loop on two streams -/
def matchStreams (fx : Bool) (real : Bool) (s t : Str) : Option Bool :=
  matchLoopF fx (matchFuel fx s t) real s s t t []

/-- "Final component can't match, so skip it." (repaired: the separator in front of it as well) -/
def skipLast (fx : Bool) (t : Str) : Str :=
  let t1 := skipToSep t
  if fx && hd t1 == '/' then t1.tail else t1

/-- `PathMatch::match(pattern, path, basepath, mode, syntax)` -/
def pathMatch (v : Variant) (syn : Syntax) (mode : Filemode) (pattern path base : Str) : Bool :=
  if pattern.isEmpty then false
  else if pattern == ['*'] || pattern == ['*', '*'] then true
  else
    let dirMismatch := issep syn (pattern.getLastD NUL) && mode != .directory
    if !dirMismatch && pattern == path then true
    else
      let real := isAbsolute pattern || isRelativePattern pattern
      let s := (fromPattern v syn pattern base).stream v
      let t := (fromPath v syn path base).stream v
      let t := if dirMismatch then skipLast v.dirsep t else t
      (matchStreams v.star real s t).getD false

/-- `PathMatch::match(path, mode)` of an object built from `(patterns, basepath, syntax)` -/
def pathMatchList (v : Variant) (syn : Syntax) (patterns : List Str) (base : Str) (path : Str) (mode : Filemode) : Bool :=
  patterns.any (fun pattern => pathMatch v syn mode pattern path base)

/-! ## the documented rules -/

/-- "Patterns can contain globs: `**` matches any number of characters including path separators, `*` matches any
    number of characters except path separators, `?` matches any single character except path separators";
    every other pattern character stands for itself.  `Glob p w`: the text `w` is matched by the pattern `p`. -/
inductive Glob : Str → Str → Prop
  | nil : Glob [] []
  | lit {c : Char} {p w : Str} : c ≠ '*' → c ≠ '?' → Glob p w → Glob (c :: p) (c :: w)
  | any1 {c : Char} {p w : Str} : c ≠ '/' → Glob p w → Glob ('?' :: p) (c :: w)
  | star {p w : Str} (u : Str) : '/' ∉ u → Glob p w → Glob ('*' :: p) (u ++ w)
  | sstar {p w : Str} (u : Str) : Glob p w → Glob ('*' :: '*' :: p) (u ++ w)

/-- the canonical pattern `P` matches the canonical path `Y`: some part `mid` of `Y` that ends at a separator
    or at the end of `Y`, and starts at the start of `Y` (always allowed; the only choice for an absolute or
    base-relative ("real") pattern) or directly behind a separator, is matched by the glob. -/
def SpecMatch (real : Bool) (P Y : Str) : Prop :=
  ∃ pre mid post : Str, Y = pre ++ mid ++ post ∧
    (post = [] ∨ post.head? = some '/') ∧
    (pre = [] ∨ (real = false ∧ pre.getLast? = some '/')) ∧
    Glob P mid

/-- the directory that contains the file: everything in front of the last separator -/
def parentOf (X : Str) : Str := (skipToSep X.reverse).tail.reverse

def canonPattern (syn : Syntax) (pattern base : Str) : Str :=
  if isRelativePattern pattern then canonOf syn base pattern else canonOf syn pattern []

def canonPath (syn : Syntax) (path base : Str) : Str :=
  if isAbsolute path then canonOf syn path [] else canonOf syn base path

def dirMismatch (syn : Syntax) (mode : Filemode) (pattern : Str) : Bool :=
  issep syn (pattern.getLastD NUL) && mode != .directory

def isReal (pattern : Str) : Bool := isAbsolute pattern || isRelativePattern pattern

/-- the rule list of pathmatch.h for one pattern (an empty pattern matches nothing) -/
def PathMatchSpec (syn : Syntax) (mode : Filemode) (pattern path base : Str) : Prop :=
  pattern ≠ [] ∧
    SpecMatch (isReal pattern) (canonPattern syn pattern base)
      (if dirMismatch syn mode pattern then parentOf (canonPath syn path base) else canonPath syn path base)

/-- where the `pattern == path` shortcut of the code is covered by the rule: the pattern is absolute / relative to the
    base path, or the base path is empty, or it is absolute and the pattern has no root of its own (always so on unix) -/
def FastPathOk (syn : Syntax) (pattern base : Str) : Bool :=
  isReal pattern || base.isEmpty || (isAbsolute base && rootLen syn (cstr pattern) == 0)

/-! ### executable form of the rules -/

def starLoopB (k : Str → Bool) (slash : Bool) : Str → Bool
  | [] => k []
  | c :: w => k (c :: w) || ((slash || c != '/') && starLoopB k slash w)

/-- decision procedure for `Glob` (one disjunct per rule) -/
def globB : Str → Str → Bool
  | [], w => w.isEmpty
  | c :: p, w =>
    if c == '*' then
      starLoopB (globB p) false w ||
        (match p with
         | c2 :: p2 => c2 == '*' && starLoopB (globB p2) true w
         | [] => false)
    else if c == '?' then
      match w with | d :: w' => d != '/' && globB p w' | [] => false
    else
      match w with | d :: w' => c == d && globB p w' | [] => false

/-- is some prefix of `w` that ends at a separator or at the end of `w` matched? -/
def prefixB (P : Str) : Str → Str → Bool
  | acc, [] => globB P acc.reverse
  | acc, c :: w => (c == '/' && globB P acc.reverse) || prefixB P (c :: acc) w

/-- all suffixes of `Y` that start directly behind a separator -/
def startsB : Str → List Str := afterSeps

def specMatchB (real : Bool) (P Y : Str) : Bool :=
  prefixB P [] Y || (!real && (startsB Y).any (prefixB P []))

def pathMatchSpecB (syn : Syntax) (mode : Filemode) (pattern path base : Str) : Bool :=
  !pattern.isEmpty &&
     specMatchB (isReal pattern) (canonPattern syn pattern base)
      (if dirMismatch syn mode pattern then parentOf (canonPath syn path base) else canonPath syn path base)

/-! ### input classes on which `PathMatch::match` before the repair leaves the documented rules -/

/-- reading the pattern backwards (as the loop does): no star (`*` or `**`) is directly followed by `?` or `*` -/
def starOkR : Str → Bool
  | [] => true
  | c :: r =>
    (if c == '*' then (if hd r == '*' then hd r.tail != '*' && hd r.tail != '?' else hd r != '?') else true) && starOkR r

/-- a pattern that ends with a separator tested against a regular file: the canonical pattern must not
    end with `*` or consist of the root only -/
def dirSepOk (syn : Syntax) (mode : Filemode) (pattern base : Str) : Bool :=
  !dirMismatch syn mode pattern ||
    ((canonPattern syn pattern base).getLast? != some '*' && (canonPattern syn pattern base).getLast? != some '/')

/-- root length and raw string of the iterator built for the pattern / for the path -/
def rawPattern (syn : Syntax) (pattern base : Str) : Nat × Str :=
  if isRelativePattern pattern then rawOf syn base pattern else rawOf syn pattern []

def rawPath (syn : Syntax) (path base : Str) : Nat × Str :=
  if isAbsolute path then rawOf syn path [] else rawOf syn base path

/-- the hypothesis of `pathMatch_eq_spec`: pattern and path inside the documented domain (`CanonDomain`) and, for
    each repair the code does not contain, outside the input class that repair is about -/
def MatchOk (v : Variant) (syn : Syntax) (mode : Filemode) (pattern path base : Str) : Bool :=
  CanonOk v (rawPattern syn pattern base).1 (rawPattern syn pattern base).2 &&
  CanonOk v (rawPath syn path base).1 (rawPath syn path base).2 &&
  (pattern != path || FastPathOk syn pattern base) &&
  (v.star || starOkR (canonPattern syn pattern base).reverse) &&
  (v.dirsep || dirSepOk syn mode pattern base)

end Cppcheck.PathMatch

import Cppcheck.Model.PathMatch
/-
C31 — file selection: `Path::getFilenameExtension` / `identify` / `acceptFile` (lib/path.cpp, non-windows,
case-sensitive file system, `cppHeaderProbe = false`) and the POSIX `addFiles2` / `FileLister::addFiles`
(cli/filelister.cpp) over an abstract directory tree (symlinks, `stat`/`opendir` failures outside the model).

`collectPath` / `collectEntries` copy the recursion of `addFiles2` (the order of `readdir` = the order of the
children list, arbitrary); `allFiles` + `ignoredAlong` + `accepted` state which files are selected.
-/
namespace Cppcheck.FileLister
open Cppcheck.Wire Cppcheck.PathCanon Cppcheck.PathMatch

inductive Lang | none | c | cpp
  deriving DecidableEq, Repr, Inhabited

def Lang.code : Lang → Nat
  | .none => 0 | .c => 1 | .cpp => 2

/-- `path.find_last_of('.')` … `path.substr(dotLocation)` -/
def extAux : Str → Option Str → Str
  | [], acc => acc.getD []
  | c :: r, acc => extAux r (if c == '.' then some (c :: r) else acc)

/-- `Path::getFilenameExtension(path)` (lowercase = false, case-sensitive file system) -/
def getFilenameExtension (path : Str) : Str := extAux path none

def strToLower (s : Str) : Str := s.map toLowerAscii

def cppSrcExts : List Str := [".cpp", ".cxx", ".cc", ".c++", ".tpp", ".txx", ".ipp", ".ixx"].map String.toList
def cSrcExts : List Str := [".c", ".cl"].map String.toList
def headerExts : List Str := [".h", ".hpp", ".h++", ".hxx", ".hh"].map String.toList

/-- `Path::identify(path, false, &header)` -/
def identify (path : Str) : Lang × Bool :=
  let ext := getFilenameExtension path
  if ext == ".C".toList then (.cpp, false)
  else if cSrcExts.contains ext then (.c, false)
  else
    let ext := strToLower ext
    if ext == ".h".toList then (.c, true)
    else if cppSrcExts.contains ext then (.cpp, false)
    else if headerExts.contains ext then (.cpp, true)
    else (.none, false)

/-- `Path::acceptFile(path, extra, &lang)` -/
def acceptFile (extra : List Str) (path : Str) : Bool × Lang :=
  let (l, header) := identify path
  ((l != .none && !header) || extra.contains (getFilenameExtension path), l)

/-! ## directory trees -/

inductive Tree
  | file (name : Str)
  | dir (name : Str) (children : List Tree)
  deriving Repr, Inhabited

def Tree.name : Tree → Str
  | .file n => n
  | .dir n _ => n

def childPath (path name : Str) : Str := path ++ '/' :: name

mutual
/-- `addFiles2(files, path, …)` for an existing `path` that names `node` -/
def collectPath (ign : Str → Filemode → Bool) (acc : Str → Bool × Lang) (path : Str) : Tree → List (Str × Lang)
  | .file _ => if ign path .regular then [] else [(path, .none)]
  | .dir _ ch => if ign path .regular then [] else collectEntries ign acc path ch
/-- the `readdir` loop over the entries of directory `path` -/
def collectEntries (ign : Str → Filemode → Bool) (acc : Str → Bool × Lang) (path : Str) : List Tree → List (Str × Lang)
  | [] => []
  | .file name :: rest =>
    let np := childPath path name
    (if (acc np).1 && !ign np .regular then [(np, (acc np).2)] else []) ++ collectEntries ign acc path rest
  | .dir name ch :: rest =>
    let np := childPath path name
    (if !ign np .directory then collectPath ign acc np (.dir name ch) else []) ++ collectEntries ign acc path rest
end

/-- `a.path() < b.path()` on `std::string` (unsigned bytes) -/
def strLt : Str → Str → Bool
  | [], [] => false
  | [], _ :: _ => true
  | _ :: _, [] => false
  | a :: r, b :: s => a.toNat < b.toNat || (a == b && strLt r s)

def pathLe (a b : Str × Lang) : Bool := !strLt b.1 a.1

/-- `filesSorted.sort(...)` (stable merge sort) -/
def sortFiles (l : List (Str × Lang)) : List (Str × Lang) := l.mergeSort pathLe

/-- `if (endsWith(corrected_path, '/')) corrected_path.erase(corrected_path.end() - 1);` -/
def correctedPath (path : Str) : Str := if path.getLast? == some '/' then path.dropLast else path

/-- `FileLister::addFiles(files, path, extra, recursive = true, ignored)` started on an empty `files` list;
    `node = none`: `stat(path)` fails.  Result: error text and the list appended to `files`. -/
def addFiles (ign : Str → Filemode → Bool) (acc : Str → Bool × Lang) (path : Str) (node : Option Tree) :
    String × List (Str × Lang) :=
  if path.isEmpty then ("no path specified", [])
  else
    match node with
    | none => ("", [])
    | some n => ("", sortFiles (collectPath ign acc (correctedPath path) n))

/-! ## which files are selected -/

mutual
/-- every regular file below `path` (naming `node`) with the directories passed on the way (root first) -/
def allFiles (path : Str) (chain : List Str) : Tree → List (Str × List Str)
  | .file _ => [(path, chain)]
  | .dir _ ch => allFilesL path (chain ++ [path]) ch
def allFilesL (path : Str) (chain : List Str) : List Tree → List (Str × List Str)
  | [] => []
  | .file name :: rest => (childPath path name, chain) :: allFilesL path chain rest
  | .dir name ch :: rest => allFiles (childPath path name) chain (.dir name ch) ++ allFilesL path chain rest
end

/-- is `f` (found below the start path `root` through the directories `chain`) cut off by an ignore pattern?
    The start path is tested as a regular file only; every directory below it as a directory and (on entry
    of `addFiles2`) as a regular file; the file itself as a regular file. -/
def ignoredAlong (ign : Str → Filemode → Bool) (root : Str) (f : Str × List Str) : Bool :=
  ign root .regular ||
  f.2.any (fun d => d != root && (ign d .directory || ign d .regular)) ||
  (f.1 != root && ign f.1 .regular)

/-- extension test: not applied to a file named explicitly as start path -/
def accepted (acc : Str → Bool × Lang) (root : Str) (f : Str × List Str) : Bool :=
  f.1 == root || (acc f.1).1

def langOf (acc : Str → Bool × Lang) (root : Str) (f : Str) : Lang :=
  if f == root then .none else (acc f).2

/-- well-formed directory content: names are non-empty, contain no separator, are not `.`/`..`, siblings differ -/
def nameOk (n : Str) : Bool := !n.isEmpty && !n.contains '/' && n != dot && n != dotdot

mutual
def Tree.wf : Tree → Bool
  | .file _ => true
  | .dir _ ch => wfL ch && decide ((ch.map Tree.name).Nodup)
def wfL : List Tree → Bool
  | [] => true
  | t :: r => nameOk t.name && t.wf && wfL r
end

/-! ## the command line: `-i <str>` (cli/cmdlineparser.cpp, `CmdLineParser::parseFromArgs`) -/

/-- `Path::removeQuotationMarks` -/
def removeQuotationMarks (p : Str) : Str := p.filter (· != '"')

/-- what `parseFromArgs` does to every collected `-i` value after the argument loop:
    `path = Path::removeQuotationMarks(path); path = Path::fromNativeSeparators(path);` -/
def normalizeIgnored (p : Str) : Str := fromNativeSeparators (removeQuotationMarks p)

/-- the options of this model as the user wrote them -/
structure CliArgs where
  /-- the `-i` values (empty ones are dropped by the loop) -/
  ignored : List Str
  /-- the `--file-filter=` values -/
  filters : List Str
  /-- the path names -/
  paths : List Str
  deriving Repr, DecidableEq

def fileFilterPrefix : Str := ['-', '-', 'f', 'i', 'l', 'e', '-', 'f', 'i', 'l', 't', 'e', 'r', '=']

/-- the argument loop restricted to `-i <str>`, `-i<str>`, `--file-filter=<str>` and path names (`argv[1..]`), values as
    written; `none` = `Result::Fail` ("argument to '-i' is missing") or an option outside this model (also
    `--file-filter=-` = read from stdin and `--file-filter=+` = use the path names as filters) -/
def splitArgs : List Str → Option CliArgs
  | [] => some ⟨[], [], []⟩
  | a :: rest =>
    if hd a != '-' then (splitArgs rest).map (fun r => { r with paths := a :: r.paths })
    else if a == ['-', 'i'] then
      match rest with
      | [] => none
      | v :: rest' =>
        if hd v == '-' then none
        else (splitArgs rest').map (fun r => if v.isEmpty then r else { r with ignored := v :: r.ignored })
    else if ['-', 'i'].isPrefixOf a then (splitArgs rest).map (fun r => { r with ignored := a.drop 2 :: r.ignored })
    else if fileFilterPrefix.isPrefixOf a then
      let f := a.drop 14
      if f == ['-'] || f == ['+'] then none
      else (splitArgs rest).map (fun r => { r with filters := f :: r.filters })
    else none

/-- `mIgnoredPaths`, `mSettings.fileFilters`, `mPathNames` after `parseFromArgs`: the `-i` values and the path names
    normalised, the filters verbatim; `none`: `Result::Fail` (also "no C or C++ source files found") -/
def parseIgnoreArgs (args : List Str) : Option (List Str × List Str × List Str) :=
  match splitArgs args with
  | none => none
  | some a => if a.paths.isEmpty then none else some (a.ignored.map normalizeIgnored, a.filters, a.paths.map normalizeIgnored)

/-! ### the documented rule for an ignore pattern as the user wrote it -/

/-- both separators count on the command line -/
def isSepU (c : Char) : Bool := c == '/' || c == '\\'

/-- "If a pattern looks like a relative path, i.e. is '.' or '..', or starts with '.' or '..' followed by a path
    separator": decided on the text the user wrote (quotation marks dropped) -/
def relativeU (q : Str) : Bool :=
  q == ['.'] || q == ['.', '.'] ||
  (cat q 0 == '.' && isSepU (cat q 1)) || (cat q 0 == '.' && cat q 1 == '.' && isSepU (cat q 2))

/-- "If a pattern looks like an absolute path": it starts with a separator -/
def absoluteU (q : Str) : Bool := isSepU (cat q 0)

/-- "If a pattern ends with a path separator before canonicalization …" -/
def dirPatternU (q : Str) : Bool := isSepU (q.getLastD NUL)

/-- the canonical pattern: separators unified, a relative pattern resolved against the current directory -/
def canonPatternU (q cwd : Str) : Str :=
  if relativeU q then canonOf .unix cwd (fromNativeSeparators q) else canonOf .unix (fromNativeSeparators q) []

/-- the rule list of pathmatch.h / the manual for `-i <u>`, every decision taken on the user's text `u` -/
def UserIgnoreSpec (mode : Filemode) (u path cwd : Str) : Prop :=
  let q := removeQuotationMarks u
  q ≠ [] ∧
     SpecMatch (absoluteU q || relativeU q) (canonPatternU q cwd)
      (if dirPatternU q && mode != .directory then parentOf (canonPath .unix path cwd) else canonPath .unix path cwd)

/-- executable form -/
def userIgnoreSpecB (mode : Filemode) (u path cwd : Str) : Bool :=
  let q := removeQuotationMarks u
  !q.isEmpty &&
     specMatchB (absoluteU q || relativeU q) (canonPatternU q cwd)
      (if dirPatternU q && mode != .directory then parentOf (canonPath .unix path cwd) else canonPath .unix path cwd)

/-- the ignore test `cppcheck -i u₁ -i u₂ … <paths>` applies during the traversal (current directory `cwd`) -/
def cliIgnored (us : List Str) (cwd : Str) (path : Str) (mode : Filemode) : Bool :=
  pathMatchList .fixed .unix (us.map normalizeIgnored) cwd path mode

/-- `CmdLineParser::filterFiles`: `PathMatch filtermatcher(fileFilters, cwd); copy_if(… filtermatcher.match(entry.path()))` -/
def filterFiles (ffs : List Str) (cwd : Str) (files : List (Str × Lang)) : List (Str × Lang) :=
  files.filter (fun f => pathMatchList .fixed .unix ffs cwd f.1 .regular)

/-- "de-duplicate files": every later entry with the same key as an earlier one is erased (first occurrence stays) -/
def dedupBy (key : Str → Str) : List (Str × Lang) → List (Str × Lang)
  | [] => []
  | x :: r => x :: (dedupBy key r).filter (fun y => key y.1 != key x.1)

/-- `FileWithDetails::abspath()` for an existing file below the absolute current directory, no symbolic links -/
def absKey (cwd path : Str) : Str := canonPath .unix path cwd

def mapSpath : List (Str × Lang) → Option (List Str)
  | [] => some []
  | f :: r =>
    match simplifyPathO f.1, mapSpath r with
    | some p, some ps => some (p :: ps)
    | _, _ => none

/-- the selection part of `fillSettingsFromArgs` for path names: list every path name, (optionally) filter, de-duplicate;
    result: the `spath()`s in the order of `mFiles`; `none` = `false` is returned ("could not find or open any of the paths
    given", "could not find any files matching the filter") or a limit of the model was hit -/
def cliSelect (args : List Str) (cwd : Str) (resolve : Str → Option Tree) : Option (List Str) :=
  match parseIgnoreArgs args with
  | none => none
  | some (ig, ffs, pn) =>
    let resolved := pn.flatMap (fun p => (addFiles (pathMatchList .fixed .unix ig cwd) (acceptFile []) p (resolve p)).2)
    if resolved.isEmpty then none
    else
      let files := if ffs.isEmpty then resolved else filterFiles ffs cwd resolved
      if files.isEmpty then none
      else mapSpath (dedupBy (absKey cwd) files)

end Cppcheck.FileLister

import Cppcheck.Model.Wire
/-
C18 / C19 — model of the incremental-analysis cache (`--cppcheck-build-dir`).

Executable copies of what the code does:

  * `renderToolinfo`   CppCheck::calculateHash (lib/cppcheck.cpp): the `toolinfo << …` chain, driven by the item list
                       the translator extracts (`Gen.HashInput.toolinfoItems`).
  * `hashInput`        Preprocessor::calculateHash (lib/preprocessor.cpp): the byte string handed to
                       `std::hash<std::string>` – toolinfo, then for every non-comment raw token of the source file
                       and of every loaded header the fields the translator extracts (`Gen.HashInput.encoding`).
                       `Encoding.legacy` is the composition of the pinned commit (`str`, `static_cast<char>(line)`,
                       `static_cast<char>(col)`, nothing between files); `Encoding.fixed` is the composition of
                       /verif/proposed/C18-hash-linecol.diff (length-prefixed, decimal, header names).
  * `getFilename`, `filesTxt`, `lookup`, `cacheFile`
                       AnalyzerInformation::getFilesTxt / getAnalyzerInfoFileFromFilesTxt / getAnalyzerInfoFile.
  * `hasInternal`, `runFile`, `runWithCache`, `runFresh`, `execCached`, `execFresh`
                       AnalyzerInformation::analyzeFile + skipAnalysis (reuse decision), the replay of cached findings
                       through the suppression-aware logger (CppCheckLogger::reportErr, lib/cppcheck.cpp), the
                       whole-program pass over files.txt (CppCheck::analyseWholeProgram(buildDir,…)).

The per-file analysis proper is a parameter (`World.analyze`, `World.summary`, `World.wp`): every theorem holds for every
such function of its declared input (`View`).
-/
namespace Cppcheck.Cache
open Cppcheck.Wire

/-! ## 1. hash preimage -/

/-- `std::to_string(unsigned)` / `ostream << unsigned` -/
def dec (n : Nat) : Str := Nat.toDigits 10 n

/-- `ostream << int` -/
def decInt (i : Int) : Str := if i < 0 then '-' :: dec i.natAbs else dec i.natAbs

/-- `static_cast<char>(n)` seen as a byte -/
def byteOf (n : Nat) : Char := Char.ofNat (n % 256)

/-- a simplecpp raw token: spelling, `location.line`, `location.col`, `comment` -/
structure RawTok where
  str : Str
  line : Nat
  col : Nat
  comment : Bool := false
  deriving DecidableEq, Repr, Inhabited

/-- what is appended to `hashData` per token, in order -/
inductive TokField where
  | str | strLen | lineChar | colChar | lineDec | colDec
  | lit (c : Char)
  deriving DecidableEq, Repr

/-- what is appended per loaded header before its tokens -/
inductive HdrField where
  | name | nameLen
  | lit (c : Char)
  deriving DecidableEq, Repr

/-- how `toolinfo` starts `hashData` -/
inductive PreField where
  | toolinfo | toolinfoLen
  | lit (c : Char)
  deriving DecidableEq, Repr

structure Encoding where
  pre : List PreField
  tok : List TokField
  hdr : List HdrField
  deriving DecidableEq, Repr

/-- Preprocessor::calculateHash at the pinned commit -/
def Encoding.legacy : Encoding :=
  { pre := [.toolinfo], tok := [.str, .lineChar, .colChar], hdr := [] }

/-- Preprocessor::calculateHash after /verif/proposed/C18-hash-linecol.diff -/
def Encoding.fixed : Encoding :=
  { pre := [.toolinfoLen, .lit ':', .toolinfo],
    tok := [.strLen, .lit ':', .str, .lineDec, .lit ':', .colDec, .lit ';'],
    hdr := [.lit 'F', .nameLen, .lit ':', .name] }

def encTokField (t : RawTok) : TokField → Str
  | .str => t.str
  | .strLen => dec t.str.length
  | .lineChar => [byteOf t.line]
  | .colChar => [byteOf t.col]
  | .lineDec => dec t.line
  | .colDec => dec t.col
  | .lit c => [c]

def encTok (fs : List TokField) (t : RawTok) : Str := fs.flatMap (encTokField t)

/-- `if (!tok->comment)` -/
def codeToks (ts : List RawTok) : List RawTok := ts.filter (fun t => !t.comment)

def encToks (fs : List TokField) (ts : List RawTok) : Str := (codeToks ts).flatMap (encTok fs)

/-- one entry of `mFileCache`: canonical file name and raw tokens -/
structure Header where
  name : Str
  toks : List RawTok
  deriving DecidableEq, Repr, Inhabited

def encHdrField (h : Header) : HdrField → Str
  | .name => h.name
  | .nameLen => dec h.name.length
  | .lit c => [c]

def encHdr (E : Encoding) (h : Header) : Str := E.hdr.flatMap (encHdrField h) ++ encToks E.tok h.toks

def encPreField (ti : Str) : PreField → Str
  | .toolinfo => ti
  | .toolinfoLen => dec ti.length
  | .lit c => [c]

/-- everything the cache key of one source file is computed from -/
structure FileInput where
  /-- `file.spath()` -/
  path : Str
  /-- the string CppCheck::calculateHash hands to Preprocessor::calculateHash -/
  toolinfo : Str
  /-- raw tokens of the source file (comments included) -/
  main : List RawTok
  /-- `mFileCache` in iteration order -/
  headers : List Header
  /-- the values of the analysis options of the run (whatever the analysis reads from `Settings`, `file.lang()`, the
      loaded libraries and platform besides the tokens); constant along a C18 history, edited along a C19 history -/
  opts : Str := []
  deriving DecidableEq, Repr, Inhabited

/-- Preprocessor::calculateHash: the argument of `std::hash<std::string>` -/
def hashInput (E : Encoding) (i : FileInput) : Str :=
  E.pre.flatMap (encPreField i.toolinfo) ++ (encToks E.tok i.main ++ i.headers.flatMap (encHdr E))

/-! ## 2. toolinfo (CppCheck::calculateHash) -/

/-- one `toolinfo << …` statement -/
inductive ToolItem where
  /-- `cppcheckCfgProductName.empty() ? CPPCHECK_VERSION_STRING : cppcheckCfgProductName` -/
  | productOrVersion
  /-- `severity.isEnabled(Severity::s) ? c : ' '` -/
  | sevFlag (sev : String) (c : Char)
  /-- `mSettings.f ? c : ' '` -/
  | boolFlag (field : String) (c : Char)
  /-- `mSettings.f` (std::string) -/
  | strField (field : String)
  /-- `mSettings.f` (int) -/
  | intField (field : String)
  /-- `std::to_string(static_cast<std::uint8_t>(mSettings.f))` -/
  | enumField (field : String)
  /-- `for (a : mSettings.addonInfos) { toolinfo << a.f1; toolinfo << a.f2; … }` -/
  | addonInfos (fields : List String)
  /-- `mSuppressions.nomsg.dump(toolinfo, filePath)` -/
  | supprDump
  /-- `filePath` -/
  | filePath
  /-- `filePath.size()` -/
  | filePathLen
  /-- `mSettings.g.isEnabled(E::m) ? c : ' '` for the groups `certainty` and `checks` -/
  | groupFlag (group member : String) (c : Char)
  /-- `for (const std::string &x : mSettings.f) toolinfo << x << sep` -/
  | strSetField (field : String) (sep : Char)
  /-- `mSettings.f.call()` returning a string (`standards.getC()`, `standards.getCPP()`, `platform.toString()`) -/
  | callField (field call : String)
  | lit (c : Char)
  deriving DecidableEq, Repr

/-- the part of `Settings` (and of the call) the chain reads, by field name -/
structure SettingsView where
  version : Str
  product : Str
  sevs : List (String × Bool)
  bools : List (String × Bool)
  strs : List (String × Str)
  ints : List (String × Int)
  enums : List (String × Nat)
  addons : List (List (String × Str))
  dump : Str
  filePath : Str
  lists : List (String × List Str) := []
  deriving DecidableEq, Repr, Inhabited

def assoc? {β} (k : String) : List (String × β) → Option β
  | [] => none
  | (k', v) :: r => if k = k' then some v else assoc? k r

def renderAddon (fields : List String) (a : List (String × Str)) : Option Str :=
  fields.foldr (fun f acc => match assoc? f a, acc with
    | some v, some r => some (v ++ r)
    | _, _ => none) (some [])

/-- `none`: the chain names a field the view does not carry (the translation is then not covered) -/
def renderItem (s : SettingsView) : ToolItem → Option Str
  | .productOrVersion => some (if s.product.isEmpty then s.version else s.product)
  | .sevFlag n c => (assoc? n s.sevs).map fun b => [if b then c else ' ']
  | .boolFlag n c => (assoc? n s.bools).map fun b => [if b then c else ' ']
  | .strField n => assoc? n s.strs
  | .intField n => (assoc? n s.ints).map decInt
  | .enumField n => (assoc? n s.enums).map fun v => dec (v % 256)
  | .addonInfos fs => s.addons.foldr (fun a acc => match renderAddon fs a, acc with
      | some v, some r => some (v ++ r)
      | _, _ => none) (some [])
  | .supprDump => some s.dump
  | .filePath => some s.filePath
  | .filePathLen => some (dec s.filePath.length)
  | .groupFlag g m c => (assoc? (g ++ ":" ++ m) s.bools).map fun b => [if b then c else ' ']
  | .strSetField n sep => (assoc? n s.lists).map fun l => l.flatMap fun v => v ++ [sep]
  | .callField f c => assoc? (f ++ "." ++ c) s.strs
  | .lit c => some [c]

def renderToolinfo (items : List ToolItem) (s : SettingsView) : Option Str :=
  items.foldr (fun it acc => match renderItem s it, acc with
    | some v, some r => some (v ++ r)
    | _, _ => none) (some [])

/-- names of the `Settings` fields an item reads -/
def ToolItem.fields : ToolItem → List String
  | .productOrVersion => ["cppcheckCfgProductName"]
  | .sevFlag n _ => ["severity:" ++ n]
  | .boolFlag n _ => [n]
  | .strField n => [n]
  | .intField n => [n]
  | .enumField n => [n]
  | .addonInfos _ => ["addonInfos"]
  | .supprDump => ["suppressions"]
  | .groupFlag g m _ => [g ++ ":" ++ m]
  | .strSetField n _ => [n]
  | .callField f _ => [f]
  | _ => []

/-- the cache-key input of the file `sv.filePath` as CppCheck::checkInternal builds it: toolinfo rendered from the settings by the
    chain `items` (`none`: the chain names a field the view does not carry) -/
def FileInput.ofSettings (items : List ToolItem) (sv : SettingsView) (main : List RawTok) (headers : List Header) (opts : Str) :
    Option FileInput :=
  (renderToolinfo items sv).map fun ti => { path := sv.filePath, toolinfo := ti, main := main, headers := headers, opts := opts }

/-! ## 2b. which option reaches the key (C19) -/

/-- an analysis option and the `Settings` fields (or command line parser targets) its handler writes -/
structure OptionUse where
  name : String
  fields : List String
  deriving DecidableEq, Repr

/-- why a field that is not hashed itself cannot make a cached result stale (each case read off the code) -/
inductive FieldRole where
  /-- re-applied when cached findings are replayed: the suppression lists (CppCheckLogger::reportErr runs for cached findings too) -/
  | afterCache
  /-- visible in the hashed token stream: the include paths decide which header files are loaded into `mFileCache` -/
  | throughTokens
  /-- acts only through / is a function of the named hashed field:
      `inlineSuppressions` – inline suppressions enter `nomsg` only when the flag is set (Preprocessor::inlineSuppressions) and
      `nomsg` is dumped into toolinfo; `vfOptions` – Settings::setCheckLevel assigns constants per `checkLevel` -/
  | via (hashed : String)
  /-- switching the field *off* (field name with a trailing `-`) cannot expose stale data because what the field produces is
      consumed only by runs that have it on: the per-file unusedFunction data is read by
      CheckUnusedFunctions::analyseWholeProgram, which CppCheck::analyseWholeProgram calls only under
      `checks.isEnabled(Checks::unusedFunction)` -/
  | consumerGated
  deriving DecidableEq, Repr

def fieldRole : String → Option FieldRole
  | "suppressions" => some .afterCache
  | "includePaths" => some .throughTokens
  | "inlineSuppressions" => some (.via "suppressions")
  | "vfOptions" => some (.via "checkLevel")
  | "checks:unusedFunction-" => some .consumerGated
  | _ => none

/-- a `--disable=` handler writes the same member as `--enable=`; the translator marks the switch-off direction with a trailing `-` -/
def baseField (f : String) : String :=
  match f.toList.reverse with
  | '-' :: r => String.ofList r.reverse
  | _ => f

/-- `f` cannot make a cached result stale, given the hashed fields and the severities any code asks about -/
def fieldCovered (hashFields readSev : List String) (f : String) : Bool :=
  hashFields.contains (baseField f)
  || (match fieldRole f with
      | some (.via g) => hashFields.contains g
      | some _ => true
      | none => false)
  || ("severity:".toList.isPrefixOf f.toList && !readSev.contains (baseField f))

def optionCovered (hashFields readSev : List String) (o : OptionUse) : Bool := o.fields.all (fieldCovered hashFields readSev)

def hashFieldsOf (items : List ToolItem) : List String := items.flatMap ToolItem.fields

/-- the fields hashed at the pinned commit (the toolinfo chain of CppCheck::calculateHash before any repair) -/
def legacyHashFields : List String :=
  ["cppcheckCfgProductName", "severity:warning", "severity:style", "severity:performance", "severity:portability",
   "severity:information", "userDefines", "checkConfiguration", "force", "maxConfigsOption", "checkLevel", "addonInfos",
   "premiumArgs", "suppressions"]

/-! ## 3. files.txt -/

def lastIdx (p : Char → Bool) (s : Str) : Option Nat :=
  let rec go (i : Nat) (best : Option Nat) : Str → Option Nat
    | [] => best
    | c :: r => go (i + 1) (if p c then some i else best) r
  go 0 none s

/-- static `getFilename` of analyzerinfo.cpp: the part after the last `/` or `\`, without the last extension -/
def getFilename (full : Str) : Str :=
  let pos1 := match lastIdx (fun c => c == '/' || c == '\\') full with
    | none => 0
    | some i => i + 1
  match lastIdx (· == '.') full with
  | none => full.drop pos1
  | some pos2 => if pos2 < pos1 then full.drop pos1 else (full.drop pos1).take (pos2 - pos1)

structure FtLine where
  afile : Str
  source : Str
  deriving DecidableEq, Repr, Inhabited

def countBase (b : Str) : List Str → Nat
  | [] => 0
  | p :: r => (if getFilename p = b then 1 else 0) + countBase b r

/-- AnalyzerInformation::getFilesTxt for plain source files (cfg and fsFileId empty); `seen` = files already listed.
    Paths are assumed simplified (Path::simplifyPath is the identity on them). -/
def filesTxtFrom (seen : List Str) : List Str → List FtLine
  | [] => []
  | p :: r =>
    { afile := getFilename p ++ ".a".toList ++ dec (countBase (getFilename p) seen + 1), source := p }
      :: filesTxtFrom (seen ++ [p]) r

def filesTxt (paths : List Str) : List FtLine := filesTxtFrom [] paths

def endsWith (s suffix : Str) : Bool := suffix.length ≤ s.length && s.drop (s.length - suffix.length) == suffix

inductive LookupKind where
  /-- pinned commit: the first line whose source is a suffix of the looked-up path -/
  | suffixFirst
  /-- /verif/proposed/C18-filestxt-exact.diff: an equal line wins, else the first line matching at a `/` boundary -/
  | exactFirst
  deriving DecidableEq, Repr

def lookupSuffix (ft : List FtLine) (src : Str) : Option Str :=
  (ft.find? fun l => endsWith src l.source).map (·.afile)

def lookupExact (ft : List FtLine) (src : Str) : Option Str :=
  match ft.find? fun l => l.source == src with
  | some l => some l.afile
  | none => (ft.find? fun l => endsWith src ('/' :: l.source)).map (·.afile)

def lookup : LookupKind → List FtLine → Str → Option Str
  | .suffixFirst => lookupSuffix
  | .exactFirst => lookupExact

def baseName (p : Str) : Str :=
  match lastIdx (· == '/') p with
  | none => p
  | some i => p.drop (i + 1)

/-- AnalyzerInformation::getAnalyzerInfoFile relative to the build directory -/
def cacheFile (k : LookupKind) (ft : List FtLine) (src : Str) : Str :=
  match lookup k ft src with
  | some a => if a.isEmpty then baseName src ++ ".analyzerinfo".toList else a
  | none => baseName src ++ ".analyzerinfo".toList

/-! ## 4. findings, cache entries, runs -/

/-- a finding as far as the cache is concerned; `macros` = names of the macros used on its location
    (CppCheckLogger::mLocationMacros, a by-product of tokenizing – not stored in the cache file) -/
structure Finding where
  id : Str
  file : Str
  line : Nat
  col : Nat
  msg : Str
  macros : List Str := []
  deriving DecidableEq, Repr, Inhabited

/-- ErrorMessage::toXML followed by ErrorMessage(const XMLElement*): the macro names are gone -/
def Finding.stored (f : Finding) : Finding := { f with macros := [] }

/-- skipAnalysis: ids that make a cached result unusable -/
def retryIds : List Str := ["premium-invalidLicense".toList, "premium-internalError".toList, "internalError".toList]

def hasInternal (fs : List Finding) : Bool := fs.any fun f => retryIds.contains f.id

/-! ### the cache document: children of `<analyzerinfo>` in file order -/

/-- a child element of the root of a cache file: a finding (`<error>`) or whole-program information (`<FileInfo>`, content `I`) -/
inductive DocChild (I : Type) where
  | error (f : Finding)
  | fileInfo (i : I)
  deriving Repr

/-- CppCheck::checkInternal analyses the preprocessor configurations one after the other; each writes its findings
    (CppCheckLogger::reportErr → AnalyzerInformation::reportErr) and then its `<FileInfo>` elements (checkNormalTokens → setFileInfo):
    the document is `[errors ++ fileinfos]*` -/
def writeDoc {I : Type} (blocks : List (List Finding × List I)) : List (DocChild I) :=
  blocks.flatMap fun b => b.1.map DocChild.error ++ b.2.map DocChild.fileInfo

def DocChild.error? {I : Type} : DocChild I → Option Finding
  | .error f => some f
  | .fileInfo _ => none

def DocChild.isError {I : Type} : DocChild I → Bool
  | .error _ => true
  | .fileInfo _ => false

/-- how AnalyzerInformation::skipAnalysis walks the children -/
inductive ReaderKind where
  /-- every child of the root, `continue` on elements that are not `<error>` (the code) -/
  | allChildren
  /-- from the first `<error>` up to the first child that is not one -/
  | errorPrefix
  deriving DecidableEq, Repr

/-- skipAnalysis: the findings read back from a cache document – ALL `<error>` children regardless of position -/
def cachedErrors {I : Type} (doc : List (DocChild I)) : List Finding := doc.filterMap DocChild.error?

/-- the reader that stops at the first child that is not an `<error>` -/
def cachedErrorsPrefix {I : Type} (doc : List (DocChild I)) : List Finding :=
  ((doc.dropWhile fun c => !c.isError).takeWhile DocChild.isError).filterMap DocChild.error?

def readErrors {I : Type} : ReaderKind → List (DocChild I) → List Finding
  | .allChildren => cachedErrors
  | .errorPrefix => cachedErrorsPrefix

/-- the declared input of the per-file analysis: path, non-comment tokens with their full locations, header names and
    their non-comment tokens, and the analysis options -/
structure View where
  path : Str
  main : List RawTok
  headers : List (Str × List RawTok)
  opts : Str
  deriving DecidableEq, Repr, Inhabited

def FileInput.view (i : FileInput) : View :=
  { path := i.path, main := codeToks i.main, headers := i.headers.map fun h => (h.name, codeToks h.toks), opts := i.opts }

/-- names of functions `Summaries::loadReturn` puts into `Settings::summaryReturn` at the start of a run -/
abbrev SummRet := List Str

/-- the parameters of the model: hash function, per-file analysis (findings that reach the cache writer, and the
    whole-program summary), whole-program analysis over (files.txt source, summary) pairs, the function summaries
    (`<name>.sN`, Summaries::create) with their loader (Summaries::loadReturn), and the two translated pieces of code.
    The analysis reads `Settings::summaryReturn` (Tokenizer::isScopeNoReturn), hence the `SummRet` argument;
    a run without build directory analyses with `[]`. -/
structure World (H S F : Type) where
  hash : Str → H
  analyze : SummRet → View → List Finding
  summary : SummRet → View → S
  wp : List (Str × S) → List Finding
  funs : SummRet → View → F
  loadRet : List F → SummRet
  enc : Encoding
  lk : LookupKind

/-- content of one `<name>.aN` file that loaded as XML with root `analyzerinfo`, and of the `<name>.sN` file next to it -/
structure Entry (H S F : Type) where
  hash : H
  findings : List Finding
  summ : S
  funs : F

/-- the build directory: cache files by name (an association list, first match) -/
abbrev BuildDir (H S F : Type) := List (Str × Entry H S F)

def BuildDir.get {H S F} (bd : BuildDir H S F) (slot : Str) : Option (Entry H S F) :=
  match bd with
  | [] => none
  | (k, e) :: r => if k = slot then some e else BuildDir.get r slot

def BuildDir.put {H S F} (bd : BuildDir H S F) (slot : Str) (e : Entry H S F) : BuildDir H S F :=
  match bd with
  | [] => [(slot, e)]
  | (k, e') :: r => if k = slot then (slot, e) :: r else (k, e') :: BuildDir.put r slot e

/-- CppCheckLogger::reportErr for one finding: `vis` is the suppression decision of the current run -/
def report (vis : Finding → Bool) (f : Finding) : Option Finding :=
  if vis f then some f.stored else none

variable {H S F : Type} [DecidableEq H]

def key (W : World H S F) (i : FileInput) : H := W.hash (hashInput W.enc i)

/-- what a full analysis of `i` under the return summaries `sr` writes to its cache file -/
def entryOf (W : World H S F) (sr : SummRet) (i : FileInput) : Entry H S F :=
  { hash := key W i, findings := (W.analyze sr i.view).map Finding.stored, summ := W.summary sr i.view, funs := W.funs sr i.view }

/-- AnalyzerInformation::analyzeFile + skipAnalysis: reuse iff the file loads, the hash attribute is equal and no
    retry id is inside -/
def reuse (W : World H S F) (bd : BuildDir H S F) (slot : Str) (i : FileInput) : Option (Entry H S F) :=
  match bd.get slot with
  | some e => if e.hash = key W i ∧ hasInternal e.findings = false then some e else none
  | none => none

/-- CppCheck::checkInternal for one file with a build directory -/
def runFile (W : World H S F) (sr : SummRet) (vis : Finding → Bool) (ft : List FtLine) (bd : BuildDir H S F) (i : FileInput) :
    BuildDir H S F × List Finding :=
  let slot := cacheFile W.lk ft i.path
  match reuse W bd slot i with
  | some e => (bd, e.findings.filterMap (report vis))
  | none => (bd.put slot (entryOf W sr i), (W.analyze sr i.view).filterMap (report vis))

def runFiles (W : World H S F) (sr : SummRet) (vis : Finding → Bool) (ft : List FtLine) :
    BuildDir H S F → List FileInput → BuildDir H S F × List (List Finding)
  | bd, [] => (bd, [])
  | bd, i :: r =>
    let (bd1, out) := runFile W sr vis ft bd i
    let (bd2, outs) := runFiles W sr vis ft bd1 r
    (bd2, out :: outs)

/-- AnalyzerInformation::processFilesTxt: the summaries of the cache files listed in files.txt (missing files skipped) -/
def collect (bd : BuildDir H S F) : List FtLine → List (Str × S)
  | [] => []
  | l :: r => match bd.get l.afile with
    | some e => (l.source, e.summ) :: collect bd r
    | none => collect bd r

/-- Settings::loadSummaries at the start of a run: the `.sN` files named by the files.txt the previous run left -/
def srOf (W : World H S F) (bd : BuildDir H S F) (prevFt : List FtLine) : SummRet :=
  W.loadRet (prevFt.filterMap fun l => (bd.get l.afile).map (·.funs))

/-- the report of one run: per-file findings in file order, then the whole-program findings -/
structure Report where
  perFile : List (List Finding)
  whole : List Finding
  deriving DecidableEq, Repr

/-- build directory between two runs: the cache files and files.txt -/
abbrev BdState (H S F : Type) := BuildDir H S F × List FtLine

/-- a run with `--cppcheck-build-dir` -/
def runWithCache (W : World H S F) (vis : Finding → Bool) (st : BdState H S F) (files : List FileInput) :
    BdState H S F × Report :=
  let sr := srOf W st.1 st.2
  let ft := filesTxt (files.map (·.path))
  let (bd1, outs) := runFiles W sr vis ft st.1 files
  ((bd1, ft), { perFile := outs, whole := (W.wp (collect bd1 ft)).filterMap (report vis) })

/-- a run with `--cppcheck-build-dir` and several jobs: files.txt lists `files`, the workers finish the files in the order
    `order` (each file is one atomic step: the workers touch pairwise different cache files when `MapOK` holds) -/
def runWithCacheSched (W : World H S F) (vis : Finding → Bool) (st : BdState H S F) (files order : List FileInput) :
    BdState H S F × Report :=
  let sr := srOf W st.1 st.2
  let ft := filesTxt (files.map (·.path))
  let (bd1, outs) := runFiles W sr vis ft st.1 order
  ((bd1, ft), { perFile := outs, whole := (W.wp (collect bd1 ft)).filterMap (report vis) })

/-- a run without a build directory -/
def runFresh (W : World H S F) (vis : Finding → Bool) (files : List FileInput) : Report :=
  { perFile := files.map fun i => (W.analyze [] i.view).filterMap (report vis),
    whole := (W.wp (files.map fun i => (i.path, W.summary [] i.view))).filterMap (report vis) }

/-! ## 5. histories -/

/-- the analysis inputs of the source files that exist -/
abbrev Tree := List FileInput

inductive Event where
  /-- any change of the tree: token edits, shifts, comment edits, header edits, adding / removing / renaming files -/
  | edit (f : Tree → Tree)
  /-- a cppcheck run over the current tree; `vis` = suppression decision of this run -/
  | run (vis : Finding → Bool)

def execCached (W : World H S F) : BdState H S F → Tree → List Event → List Report
  | _, _, [] => []
  | st, t, .edit f :: r => execCached W st (f t) r
  | st, t, .run vis :: r =>
    let (st1, rep) := runWithCache W vis st t
    rep :: execCached W st1 t r

def execFresh (W : World H S F) : Tree → List Event → List Report
  | _, [] => []
  | t, .edit f :: r => execFresh W (f t) r
  | t, .run vis :: r => runFresh W vis t :: execFresh W t r

/-- the runs of a history with their trees -/
def runsOf : Tree → List Event → List ((Finding → Bool) × Tree)
  | _, [] => []
  | t, .edit f :: r => runsOf (f t) r
  | t, .run vis :: r => (vis, t) :: runsOf t r

/-- the runs of a history over a build directory, each with the return summaries it loads at its start -/
def cachedRuns (W : World H S F) : BdState H S F → Tree → List Event → List (SummRet × Tree)
  | _, _, [] => []
  | st, t, .edit f :: r => cachedRuns W st (f t) r
  | st, t, .run vis :: r => (srOf W st.1 st.2, t) :: cachedRuns W (runWithCache W vis st t).1 t r

/-! ## 6. concrete edits used by examples and by the driver -/

def shiftTok (dl dc : Nat) (t : RawTok) : RawTok := { t with line := t.line + dl, col := t.col + dc }

/-- prepend `dl` blank lines to the source file `p` -/
def shiftLines (p : Str) (dl : Nat) (t : Tree) : Tree :=
  t.map fun i => if i.path = p then { i with main := i.main.map (shiftTok dl 0) } else i

/-- indent every line of `p` by `dc` columns -/
def shiftCols (p : Str) (dc : Nat) (t : Tree) : Tree :=
  t.map fun i => if i.path = p then { i with main := i.main.map (shiftTok 0 dc) } else i

def removeFile (p : Str) (t : Tree) : Tree := t.filter fun i => i.path ≠ p

/-- change the options of the next runs: every file gets the option values `opts` and the toolinfo string `ti` -/
def setOptions (opts ti : Str) (t : Tree) : Tree := t.map fun i => { i with opts := opts, toolinfo := ti }

/-! ## 7. a small concrete world for witnesses (identity hash; a finding per `!` token; summaries = `?` tokens) -/

def bugsOf (file : Str) (ts : List RawTok) : List Finding :=
  (ts.filter fun t => t.str == ['!']).map fun t =>
    { id := "bug".toList, file := file, line := t.line, col := t.col, msg := [], macros := if t.col == 7 then ["M".toList] else [] }

/-- per-file findings: one per `!` token, located where the token is (a `!` in column 7 counts as coming from macro `M`),
    one per `%` token when the options contain `i`,
    and one per `~` token when the return summaries name `f`; summary: the `?` tokens; function summary: whether the file
    has a token `f`; whole-program finding: one per file that has a `?` while another listed file has one too -/
def toyWorldH {H : Type} (hash : Str → H) (enc : Encoding) (lk : LookupKind) : World H (List RawTok) Bool :=
  { hash := hash
    analyze := fun sr v => bugsOf v.path v.main ++ (v.headers.flatMap fun h => bugsOf h.1 h.2)
      ++ (if v.opts.contains 'i' then (v.main.filter fun t => t.str == ['%']).map fun t =>
            { id := "inconclusive".toList, file := v.path, line := t.line, col := t.col, msg := [] } else [])
      ++ (if sr.contains ['f'] then (v.main.filter fun t => t.str == ['~']).map fun t =>
            { id := "leak".toList, file := v.path, line := t.line, col := t.col, msg := [] } else [])
    summary := fun _ v => v.main.filter fun t => t.str == ['?']
    wp := fun l => if (l.filter fun p => !p.2.isEmpty).length ≥ 2
      then (l.filter fun p => !p.2.isEmpty).map fun p => { id := "wp".toList, file := p.1, line := 0, col := 0, msg := [] }
      else []
    funs := fun _ v => v.main.any fun t => t.str == ['f']
    loadRet := fun l => if l.any id then [['f']] else []
    enc := enc
    lk := lk }

/-- the witness world with the identity "hash" -/
def toyWorld (enc : Encoding) (lk : LookupKind) : World Str (List RawTok) Bool := toyWorldH id enc lk

/-- a 16-bit polynomial hash: not injective (`"Aa"` and `"BB"` collide), like every function into a finite type -/
def lossyHash (s : Str) : Nat := s.foldl (fun a c => (a * 31 + c.toNat) % 65536) 7

def mkInput (path : String) (toks : List (String × Nat × Nat)) (headers : List (String × List (String × Nat × Nat)) := [])
    (toolinfo : String := "v") (opts : String := "") : FileInput :=
  { path := path.toList, toolinfo := toolinfo.toList, opts := opts.toList,
    main := toks.map fun t => { str := t.1.toList, line := t.2.1, col := t.2.2 },
    headers := headers.map fun h => { name := h.1.toList, toks := h.2.map fun t => { str := t.1.toList, line := t.2.1, col := t.2.2 } } }

/-- the input with the path written into toolinfo the way the proposed CppCheck::calculateHash does -/
def FileInput.withPathPrefix (i : FileInput) : FileInput :=
  { i with toolinfo := dec i.path.length ++ ':' :: (i.path ++ i.toolinfo) }

def showAll : Finding → Bool := fun _ => true

end Cppcheck.Cache

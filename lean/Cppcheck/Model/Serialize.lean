import Cppcheck.Model.Wire
/-
C15 — byte-exact model of the inter-process encoding of the process executor.

  lib/errorlogger.cpp   ErrorMessage::serialize / ErrorMessage::deserialize / fixInvalidChars / serializeString,
                        FileLocation(file, info, line, column) + setfile (both run Path::simplifyPath)
  lib/errortypes.cpp    severityToString / severityFromString
  lib/utils.h           strToInt<T> (the two-argument form and the throwing form), splitString
  cli/processexecutor.cpp  PipeWriter::writeToPipe (`type(1) len(4, host order = little endian) payload`),
                        ProcessExecutor::handleRead (frame parsing, type check), PipeWriter::suppressionToString,
                        the REPORT_SUPPR / REPORT_SUPPR_INLINE branch of handleRead
  lib/suppressions.cpp  Suppression::toString, SuppressionList::parseLine

`Path::simplifyPath` (owned by C31) is a PARAMETER `simp` of everything that calls it: the theorems hold for
every function, the correspondence check runs the model with the answers of the real function.

Byte strings are `List Char` with all codes < 256.  libstdc++'s `istream >> unsigned` is modelled by `readUInt`
(leading white space skipped, optional sign, decimal digits, failbit on overflow, "-n" wraps), `std::stoll`-based
`strToInt` by `parseSigned` / `parseUnsigned`.
-/
namespace Cppcheck.Serialize
open Cppcheck.Wire

/-! ## numbers -/

def digitChar (d : Nat) : Char := Char.ofNat (48 + d)

/-- `std::to_string` of an unsigned value; `fuel` only makes the recursion structural -/
def renderFuel : Nat → Nat → Str
  | 0, n => [digitChar (n % 10)]
  | f + 1, n => if n < 10 then [digitChar n] else renderFuel f (n / 10) ++ [digitChar (n % 10)]

def render (n : Nat) : Str := renderFuel n n

/-- `std::to_string(int)` -/
def renderInt (i : Int) : Str :=
  if i < 0 then '-' :: render i.natAbs else render i.natAbs

def isDigit (c : Char) : Bool := 48 ≤ c.toNat && c.toNat ≤ 57

/-- `std::isspace` in the "C" locale -/
def isSpace (c : Char) : Bool := c.toNat = 32 || (9 ≤ c.toNat && c.toNat ≤ 13)

/-- `std::isprint` in the "C" locale -/
def isPrint (c : Char) : Bool := 32 ≤ c.toNat && c.toNat ≤ 126

/-- value of a decimal digit character -/
def digitOf (c : Char) : Nat := c.toNat - 48

def digitsVal (acc : Nat) (s : Str) : Nat := s.foldl (fun a c => 10 * a + digitOf c) acc

def takeDigits : Str → Str × Str
  | [] => ([], [])
  | c :: r => if isDigit c then let (a, b) := takeDigits r; (c :: a, b) else ([], c :: r)

def dropSpaces : Str → Str
  | [] => []
  | c :: r => if isSpace c then dropSpaces r else c :: r

def two32 : Nat := 4294967296
def two64 : Nat := 18446744073709551616

/-- an optional sign in front of a number -/
def splitSign : Str → Bool × Str
  | '-' :: r => (true, r)
  | '+' :: r => (false, r)
  | s => (false, s)

/-- `iss >> n` for `unsigned int n` (libstdc++ `num_get::_M_extract_int`, base 10): `none` = failbit.
    Returns the value and the unread rest of the stream. -/
def readUInt (s : Str) : Option (Nat × Str) :=
  let (neg, s) := splitSign (dropSpaces s)
  let (ds, rest) := takeDigits s
  if ds.isEmpty then none
  else
    let v := digitsVal 0 ds
    if v ≥ two32 then none
    else some (if neg then (two32 - v) % two32 else v, rest)

/-- two-argument `strToInt<T>` for unsigned `T` with maximum `max` (`max < 2^64`): optional '+', digits, no leading
    zero unless the whole string is "0" (the test is on `str.front()`), value ≤ max. -/
def parseUnsigned (max : Nat) (s : Str) : Option Nat :=
  match s with
  | [] => none
  | c :: r =>
    let ds := if c = '+' then r else s
    if ds.isEmpty || !(ds.all isDigit) then none
    else if c = '0' && !r.isEmpty then none
    else
      let v := digitsVal 0 ds
      if v > max then none else some v

/-- two-argument `strToInt<T>` for signed `T` with range `[-(max+1), max]` -/
def parseSigned (max : Nat) (s : Str) : Option Int :=
  match s with
  | [] => none
  | c :: r =>
    let neg := c = '-'
    let ds := if c = '+' || c = '-' then r else s
    if ds.isEmpty || !(ds.all isDigit) then none
    else if c = '0' && !r.isEmpty then none
    else
      let v := digitsVal 0 ds
      if neg then (if v > max + 1 then none else some (-(v : Int)))
      else (if v > max then none else some (v : Int))

def intMax : Nat := 2147483647
def parseInt32 := parseSigned intMax
def parseUInt32 := parseUnsigned (two32 - 1)

/-! ## messages -/

inductive Severity
  | none | error | warning | style | performance | portability | information | debug | internal
  deriving DecidableEq, Repr, Inhabited

def Severity.toStr : Severity → Str
  | .none => []
  | .error => "error".toList
  | .warning => "warning".toList
  | .style => "style".toList
  | .performance => "performance".toList
  | .portability => "portability".toList
  | .information => "information".toList
  | .debug => "debug".toList
  | .internal => "internal".toList

def Severity.ofStr (s : Str) : Severity :=
  if s = "error".toList then .error
  else if s = "warning".toList then .warning
  else if s = "style".toList then .style
  else if s = "performance".toList then .performance
  else if s = "portability".toList then .portability
  else if s = "information".toList then .information
  else if s = "debug".toList then .debug
  else if s = "internal".toList then .internal
  else .none

/-- `ErrorMessage::FileLocation` (`fileIndex` is not transported and not printed by any template) -/
structure Loc where
  /-- `mFileName` -/
  file : Str := []
  /-- `mOrigFileName` -/
  origFile : Str := []
  line : Int := 0
  col : Nat := 0
  info : Str := []
  deriving DecidableEq, Repr, Inhabited

/-- `ErrorMessage` (`guideline` / `classification` are filled in only by `StdLogger::reportErr`, after the executors) -/
structure Msg where
  id : Str := []
  severity : Severity := .none
  cwe : Nat := 0
  hash : Nat := 0
  remark : Str := []
  file0 : Str := []
  inconclusive : Bool := false
  short : Str := []
  verbose : Str := []
  symbols : Str := []
  stack : List Loc := []
  deriving DecidableEq, Repr, Inhabited

def octal3 (n : Nat) : Str := [digitChar (n / 64 % 8), digitChar (n / 8 % 8), digitChar (n % 8)]

/-- `ErrorMessage::fixInvalidChars` -/
def fixInvalidChars : Str → Str
  | [] => []
  | c :: r => if isPrint c then c :: fixInvalidChars r else '\\' :: octal3 c.toNat ++ fixInvalidChars r

/-- `serializeString` -/
def serStr (s : Str) : Str := render s.length ++ ' ' :: s

def frameStr (l : Loc) : Str :=
  renderInt l.line ++ '\t' :: render l.col ++ '\t' :: l.file ++ '\t' :: l.origFile ++ '\t' :: l.info

/-- the ten length-prefixed fields in the order `serialize` writes them -/
def Msg.fields (m : Msg) : List Str :=
  [m.id, m.severity.toStr, render m.cwe, render m.hash, fixInvalidChars m.remark, m.file0,
   (if m.inconclusive then ['1'] else ['0']), fixInvalidChars m.short, fixInvalidChars m.verbose, m.symbols]

def serFields : List Str → Str
  | [] => []
  | f :: r => serStr f ++ serFields r

def serFrames : List Loc → Str
  | [] => []
  | l :: r => serStr (frameStr l) ++ serFrames r

/-- `ErrorMessage::serialize` -/
def serialize (m : Msg) : Str :=
  serFields m.fields ++ render m.stack.length ++ ' ' :: serFrames m.stack

/-- every way `deserialize` (as called from `ProcessExecutor::handleRead`) can fail; the first nine are the
    `InternalError` texts (handleRead prints them and calls `std::exit(EXIT_FAILURE)`), `runtime` is the
    `std::runtime_error` of the throwing `strToInt` in a call-stack frame (not caught by handleRead) -/
inductive DErr
  | invalidLength | invalidSep | premature | invalidCwe | invalidHash | invalidStackSize
  | invalidLengthStack | invalidSepStack | prematureStack | frameFields | runtime
  deriving DecidableEq, Repr, Inhabited

def DErr.code : DErr → String
  | .invalidLength => "E:invalid-length"
  | .invalidSep => "E:invalid-separator"
  | .premature => "E:premature-end"
  | .invalidCwe => "E:invalid-cwe"
  | .invalidHash => "E:invalid-hash"
  | .invalidStackSize => "E:invalid-stack-size"
  | .invalidLengthStack => "E:invalid-length-stack"
  | .invalidSepStack => "E:invalid-separator-stack"
  | .prematureStack => "E:premature-end-stack"
  | .frameFields => "E:frame-fields"
  | .runtime => "E:runtime-error"

/-- one iteration of the field loop: length, one blank, `len` bytes -/
def readField (eLen eSep ePre : DErr) (s : Str) : Except DErr (Str × Str) :=
  match readUInt s with
  | none => .error eLen
  | some (len, r) =>
    match r with
    | ' ' :: r' =>
      if len = 0 then .ok ([], r')
      else if r'.length < len then .error ePre
      else .ok (r'.take len, r'.drop len)
    | _ => .error eSep

def readFields : Nat → Str → Except DErr (List Str × Str)
  | 0, s => .ok ([], s)
  | n + 1, s =>
    match readField .invalidLength .invalidSep .premature s with
    | .error e => .error e
    | .ok (f, r) =>
      match readFields n r with
      | .error e => .error e
      | .ok (fs, r') => .ok (f :: fs, r')

def spanTab : Str → Str × Str
  | [] => ([], [])
  | c :: r => if c = '\t' then ([], c :: r) else let (a, b) := spanTab r; (c :: a, b)

/-- the substring loop of `deserialize`: at most four tab-separated pieces, then the rest; nothing is pushed
    when the position has reached the end of the frame -/
def splitFrame : Nat → Str → List Str
  | _, [] => []
  | 0, r => [r]
  | k + 1, r =>
    match spanTab r with
    | (a, []) => [a]
    | (a, _ :: r') => a :: splitFrame k r'

/-- one call-stack frame: `FileLocation loc(sub[3], info, strToInt<int>(sub[0]), strToInt<unsigned>(sub[1])); loc.setfile(sub[2])` -/
def parseFrame (simp : Str → Str) (temp : Str) : Except DErr Loc :=
  match splitFrame 4 temp with
  | [a, b, c, d] =>
    match parseInt32 a, parseUInt32 b with
    | some l, some k => .ok { file := simp c, origFile := d, line := l, col := k, info := [] }
    | _, _ => .error .runtime
  | [a, b, c, d, e] =>
    match parseInt32 a, parseUInt32 b with
    | some l, some k => .ok { file := simp c, origFile := d, line := l, col := k, info := e }
    | _, _ => .error .runtime
  | _ => .error .frameFields

/-- the call-stack loop: runs until `stackSize` frames were read -/
def readFrames (simp : Str → Str) : Nat → Str → Except DErr (List Loc)
  | 0, _ => .ok []
  | n + 1, s =>
    match readField .invalidLengthStack .invalidSepStack .prematureStack s with
    | .error e => .error e
    | .ok (temp, r) =>
      match parseFrame simp temp with
      | .error e => .error e
      | .ok l =>
        match readFrames simp n r with
        | .error e => .error e
        | .ok ls => .ok (l :: ls)

/-- `ErrorMessage::deserialize` on a default-constructed message -/
def deserialize (simp : Str → Str) (data : Str) : Except DErr Msg :=
  match readFields 10 data with
  | .error e => .error e
  | .ok ([f0, f1, f2, f3, f4, f5, f6, f7, f8, f9], r) =>
    match (if f2.isEmpty then some 0 else parseUnsigned 65535 f2) with
    | none => .error .invalidCwe
    | some cwe =>
      match (if f3.isEmpty then some 0 else parseUnsigned (two64 - 1) f3) with
      | none => .error .invalidHash
      | some hash =>
        match readUInt r with
        | none => .error .invalidStackSize
        | some (n, r1) =>
          match r1 with
          | ' ' :: r2 =>
            match readFrames simp n r2 with
            | .error e => .error e
            | .ok st =>
              .ok { id := f0, severity := Severity.ofStr f1, cwe := cwe, hash := hash, remark := f4, file0 := f5,
                    inconclusive := f6 = ['1'], short := f7, verbose := f8, symbols := f9, stack := st }
          | _ => .error .invalidSep
  | .ok _ => .error .premature

/-- what arrives in the parent: messages/remark through `fixInvalidChars`, frame files through `simplifyPath` -/
def Loc.sanitize (simp : Str → Str) (l : Loc) : Loc := { l with file := simp l.file }

def Msg.sanitize (simp : Str → Str) (m : Msg) : Msg :=
  { m with remark := fixInvalidChars m.remark, short := fixInvalidChars m.short, verbose := fixInvalidChars m.verbose,
           stack := m.stack.map (Loc.sanitize simp) }

def noTab (s : Str) : Bool := !s.contains '\t'

/-- frames the encoding can carry: no TAB in the two file names, values inside their C++ types, frame shorter than 4 GiB -/
def Loc.transportable (l : Loc) : Bool :=
  noTab l.file && noTab l.origFile && decide (-(2147483648 : Int) ≤ l.line) && decide (l.line ≤ 2147483647) &&
  decide (l.col < two32) && decide ((frameStr l).length < two32)

/-- messages the encoding can carry (the numeric bounds are the ranges of the C++ field types) -/
def Msg.transportable (m : Msg) : Bool :=
  m.fields.all (fun f => decide (f.length < two32)) && decide (m.cwe < 65536) && decide (m.hash < two64) &&
  decide (m.stack.length < two32) && m.stack.all Loc.transportable

/-! ## pipe framing (`PipeWriter::writeToPipe` / `ProcessExecutor::handleRead`) -/

/-- `unsigned int` in host byte order (x86-64: little endian) -/
def le32 (n : Nat) : Str :=
  [Char.ofNat (n % 256), Char.ofNat (n / 256 % 256), Char.ofNat (n / 65536 % 256), Char.ofNat (n / 16777216 % 256)]

def le32Val (a b c d : Char) : Nat := a.toNat + 256 * b.toNat + 65536 * c.toNat + 16777216 * d.toNat

/-- `writeToPipe(type, data)`: type byte, 4 length bytes (`static_cast<unsigned int>(data.length())`), payload -/
def frame (type : Char) (data : Str) : Str := type :: le32 (data.length % two32) ++ data

def validType (t : Char) : Bool := '1'.toNat ≤ t.toNat && t.toNat ≤ '7'.toNat

inductive FrameRes
  /-- nothing to read (`read` returned 0: all writers closed the pipe) -/
  | eof
  /-- one complete message and the remaining pipe content -/
  | msg (type : Char) (payload : Str) (rest : Str)
  /-- handleRead printed an error and called `std::exit(EXIT_FAILURE)` (bad type, short read) -/
  | fatal
  deriving DecidableEq, Repr, Inhabited

/-- `handleRead` up to the dispatch on `type`, on the bytes that will ever arrive on this pipe -/
def readFrame (pipe : Str) : FrameRes :=
  match pipe with
  | [] => .eof
  | t :: r =>
    if !validType t then .fatal
    else match r with
      | a :: b :: c :: d :: r' =>
        let len := le32Val a b c d
        if r'.length < len then .fatal else .msg t (r'.take len) (r'.drop len)
      | _ => .fatal

/-! ## suppression transport -/

/-- the fields of `SuppressionList::Suppression` the process executor transports or resets -/
structure Suppr where
  errorId : Str := []
  fileName : Str := []
  lineNumber : Int := -1
  symbolName : Str := []
  isPolyspace : Bool := false
  column : Int := 0
  checked : Bool := false
  matched : Bool := false
  extraComment : Str := []
  isInline : Bool := false
  /-- the fields that are NOT written to the pipe: 0 = `Type::unique`, … as in the enum -/
  type : Nat := 0
  lineBegin : Int := -1
  lineEnd : Int := -1
  macroName : Str := []
  hash : Nat := 0
  thisAndNextLine : Bool := false
  deriving DecidableEq, Repr, Inhabited

/-- `Suppression::toString` -/
def Suppr.toStr (s : Suppr) : Str :=
  s.errorId ++
  (if s.fileName.isEmpty then [] else ':' :: s.fileName ++ (if s.lineNumber = -1 then [] else ':' :: renderInt s.lineNumber)) ++
  (if s.symbolName.isEmpty then [] else "\nsymbol=".toList ++ s.symbolName) ++
  (if s.isPolyspace then "\npolyspace=1".toList else [])

/-- `PipeWriter::suppressionToString` -/
def supprEncode (s : Suppr) : Str :=
  s.toStr ++ ';' :: renderInt s.column ++ ';' :: (if s.checked then '1' else '0') :: ';' :: (if s.matched then '1' else '0') :: ';' :: s.extraComment

def splitOnChar (sep : Char) : Str → List Str
  | [] => [[]]
  | c :: r =>
    if c = sep then [] :: splitOnChar sep r
    else match splitOnChar sep r with
      | [] => [[c]]
      | h :: t => (c :: h) :: t

/-- position of the first '#' or "//" (`std::min(line.find('#'), line.find("//"))`), as the prefix before it -/
def beforeComment : Str → Option Str
  | [] => none
  | '#' :: _ => some []
  | '/' :: '/' :: _ => some []
  | c :: r => (beforeComment r).map (c :: ·)

def dropTrailingSpaces (s : Str) : Str := (s.reverse.dropWhile isSpace).reverse

def findLastColon (s : Str) : Option (Str × Str) :=
  -- (before the last ':', after it)
  match (splitOnChar ':' s).reverse with
  | [] => none
  | [_] => none
  | last :: revInit => some (List.intercalate [':'] revInit.reverse, last)

inductive PErr
  | filenameMissing | invalidLine | unexpectedExtra | insufficientData | invalidColumn
  deriving DecidableEq, Repr, Inhabited

def PErr.code : PErr → String
  | .filenameMissing => "E:filename-missing"
  | .invalidLine => "E:invalid-line"
  | .unexpectedExtra => "E:unexpected-extra"
  | .insufficientData => "E:insufficient-data"
  | .invalidColumn => "E:invalid-column"

def parseExtras (s : Suppr) : List Str → Except PErr Suppr
  | [] => .ok s
  | p :: r =>
    if "symbol=".toList.isPrefixOf p then parseExtras { s with symbolName := p.drop 7 } r
    else if p = "polyspace=1".toList then parseExtras { s with isPolyspace := true } r
    else .error .unexpectedExtra

/-- `SuppressionList::parseLine` (errors are `std::runtime_error`s) -/
def parseLine (simp : Str → Str) (line : Str) : Except PErr Suppr :=
  let line := match beforeComment line with
    | some p => dropTrailingSpaces p
    | none => line
  match splitOnChar '\n' line with
  | [] => .error .filenameMissing
  | l0 :: extras =>
    match splitOnChar ':' l0 with
    | [] => .error .filenameMissing
    | [eid] => parseExtras { errorId := eid } extras
    | eid :: restParts =>
      let fname := List.intercalate [':'] restParts
      if fname.isEmpty then .error .filenameMissing
      else
        match findLastColon fname with
        | some (pre, post) =>
          if post.contains '.' then parseExtras { errorId := eid, fileName := simp fname } extras
          else if pre.isEmpty then .error .filenameMissing
          else match parseInt32 post with
            | none => .error .invalidLine
            | some n => parseExtras { errorId := eid, fileName := simp pre, lineNumber := n } extras
        | none => parseExtras { errorId := eid, fileName := simp fname } extras

/-- the REPORT_SUPPR / REPORT_SUPPR_INLINE branch of `handleRead` for a non-empty payload -/
def supprDecode (simp : Str → Str) (inlineType : Bool) (buf : Str) : Except PErr Suppr :=
  match splitOnChar ';' buf with
  | p0 :: p1 :: p2 :: p3 :: p4 :: more =>
    match parseLine simp p0 with
    | .error e => .error e
    | .ok s =>
      match parseInt32 p1 with
      | none => .error .invalidColumn
      | some col =>
        .ok { s with isInline := inlineType, column := col, checked := p2 = ['1'], matched := p3 = ['1'],
                     extraComment := List.intercalate [';'] (p4 :: more) }
  | _ => .error .insufficientData

/-- what survives the transport: everything that is not written is back at its default -/
def Suppr.transportView (simp : Str → Str) (s : Suppr) : Suppr :=
  { s with fileName := (if s.fileName.isEmpty then [] else simp s.fileName),
           type := 0, lineBegin := -1, lineEnd := -1, macroName := [], hash := 0, thisAndNextLine := false }

/-- suppressions the `toString();column;checked;matched;extraComment` line can carry -/
def Suppr.transportable (s : Suppr) : Bool :=
  -- no ';' (field separator), no line break, no '#' and no "//" (parseLine strips comments)
  let plain (x : Str) := !x.contains ';' && !x.contains '\n' && (beforeComment x).isNone
  plain s.errorId && !s.errorId.contains ':' && plain s.fileName && plain s.symbolName &&
  -- without a line number the "last colon with no dot after it starts the line number" heuristic of parseLine
  -- must not fire on the file name itself
  (s.lineNumber != -1 ||
    (match findLastColon s.fileName with
     | some (_, post) => post.contains '.'
     | none => true)) &&
  -- the line number is only written together with a file name
  (s.lineNumber == -1 || !s.fileName.isEmpty) &&
  decide (-(2147483648 : Int) ≤ s.lineNumber) && decide (s.lineNumber ≤ 2147483647) &&
  decide (-(2147483648 : Int) ≤ s.column) && decide (s.column ≤ 2147483647)

end Cppcheck.Serialize

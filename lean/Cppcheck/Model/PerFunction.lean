/-
C05 (3) — per-function checks and the order of the function definitions.

A check that walks `symbolDatabase->functionScopes` (definition order) and decides every function from the function and
the call graph alone reports the same findings for every order of the definitions.  `nothrowThrows` is the modelled
instance (lib/checkexceptionsafety.cpp: `CheckExceptionSafety::nothrowThrows` / `functionThrows` /
`functionThrowsRecursive`): the recursion guard `recursive` is created afresh for every function that is decided.
`nothrowSharedMemo` is NOT the code: it is the variant with a per-file memo set of "walked, does not throw" callees
carried from one decided function to the next; it shows what the hypothesis "no traversal state" excludes.
-/
namespace Cppcheck.PerFunction

/-- what `functionThrowsRecursive` looks at in a function body (unreachable branches and `try` blocks already skipped) -/
inductive Item
  | throw
  | call (g : Nat)
  deriving DecidableEq, Repr, Inhabited

/-- kind: 0 = ordinary, 1 = noexcept / throw() / nothrow attribute, 2 = entry point (`main`);
    `declThrows`: declared `throw(T)` or `noexcept(false)` (a call to it counts as a throw) -/
structure Fn where
  kind : Nat
  declThrows : Bool
  body : List Item
  deriving DecidableEq, Repr, Inhabited

/-- functions by declaration index -/
abbrev Prog := List Fn

/-- `functionThrowsRecursive` on the rest of a body: index of the first item that throws or calls something that
    (transitively) throws.  `vis` = the set `recursive` (never popped).  One unit of fuel per step. -/
def walk (P : Prog) : Nat → List Nat → List Item → Nat → Option Nat × List Nat
  | 0, vis, _, _ => (none, vis)
  | _ + 1, vis, [], _ => (none, vis)
  | _ + 1, vis, .throw :: _, i => (some i, vis)
  | fuel + 1, vis, .call g :: r, i =>
    match P[g]? with
    | none => walk P fuel vis r (i + 1)
    | some fn =>
      if fn.declThrows then (some i, vis)
      else if vis.contains g then walk P fuel vis r (i + 1)
      else
        let w := walk P fuel (g :: vis) fn.body 0
        if w.1.isSome then (some i, w.2) else walk P fuel w.2 r (i + 1)

def fuelOf (P : Prog) : Nat := 2 * (P.foldl (fun n f => n + f.body.length + 2) 2) * (P.length + 1)

/-- `functionThrows(function)`: a fresh guard per decided function -/
def functionThrows (P : Prog) (f : Nat) : Option Nat :=
  match P[f]? with
  | none => none
  | some fn => (walk P (fuelOf P) [f] fn.body 0).1

/-- finding = (function, index of the flagged item in its body, kind) -/
abbrev Finding := Nat × Nat × Nat

/-- the verdict on one function: a function of the function and the program (call graph) only -/
def verdict (P : Prog) (f : Nat) : List Finding :=
  match P[f]? with
  | none => []
  | some fn => if fn.kind = 0 then [] else
      match functionThrows P f with
      | some i => [(f, i, fn.kind)]
      | none => []

/-- a per-function check: the findings of the functions in definition order -/
def perFunctionFindings {α β : Type} (v : α → List β) (defs : List α) : List β := defs.flatMap v

/-- `CheckExceptionSafety::nothrowThrows` for the definition order `defs` -/
def nothrowThrows (P : Prog) (defs : List Nat) : List Finding := perFunctionFindings (verdict P) defs

/-! the variant with traversal state (not the code) -/

def walkM (P : Prog) : Nat → List Nat → List Nat → List Item → Nat → Option Nat × List Nat × List Nat
  | 0, vis, nt, _, _ => (none, vis, nt)
  | _ + 1, vis, nt, [], _ => (none, vis, nt)
  | _ + 1, vis, nt, .throw :: _, i => (some i, vis, nt)
  | fuel + 1, vis, nt, .call g :: r, i =>
    match P[g]? with
    | none => walkM P fuel vis nt r (i + 1)
    | some fn =>
      if fn.declThrows then (some i, vis, nt)
      else if nt.contains g || vis.contains g then walkM P fuel vis nt r (i + 1)
      else
        let w := walkM P fuel (g :: vis) nt fn.body 0
        if w.1.isSome then (some i, w.2.1, w.2.2) else walkM P fuel w.2.1 (g :: w.2.2) r (i + 1)

/-- definition-order loop threading the memo set `noThrow` -/
def nothrowSharedMemo (P : Prog) : List Nat → List Nat → List Finding
  | [], _ => []
  | f :: rest, nt =>
    match P[f]? with
    | none => nothrowSharedMemo P rest nt
    | some fn =>
      if fn.kind = 0 then nothrowSharedMemo P rest nt
      else
        let w := walkM P (fuelOf P) [f] nt fn.body 0
        match w.1 with
        | some i => (f, i, fn.kind) :: nothrowSharedMemo P rest w.2.2
        | none => nothrowSharedMemo P rest (f :: w.2.2)

end Cppcheck.PerFunction

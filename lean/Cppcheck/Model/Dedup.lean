import Cppcheck.Model.Wire
/-
C15 — the "insert the rendered text into an unordered_set, keep the message when it was new" filter that
cppcheck applies three times on the way from a check to the output:

  lib/cppcheck.cpp         CppCheckLogger::reportErr      mErrorList   (per `check()` call)
  cli/executor.cpp         Executor::hasToLog             mErrorList   (thread / process executors, under mErrorListSync)
  cli/cppcheckexecutor.cpp StdLogger::reportErr           mShownErrors

`dedup key l` keeps the first message of every key in arrival order.
-/
namespace Cppcheck.Dedup
open Cppcheck.Wire

variable {α : Type}

/-- arrival-order filter with the set of keys seen so far -/
def dedupGo (key : α → Str) : List Str → List α → List α
  | _, [] => []
  | seen, x :: r => if key x ∈ seen then dedupGo key seen r else x :: dedupGo key (key x :: seen) r

def dedup (key : α → Str) (l : List α) : List α := dedupGo key [] l

end Cppcheck.Dedup

import Cppcheck.Model.AstLadder
/-
C07, second stage — executable model of the operand level of `TokenList::createAst`:

  compilePrecedence3 (prefix operators, C casts) → compilePrecedence2 (postfix ++ and --, `.`, `[ ]`, calls,
  parentheses) → compileScope → compileTerm, with the helpers iscast, isPrefixUnary, skipDecl,

restricted to the token alphabet `Tok` (variables, literals, function/member names, standard type names,
operators, round and square brackets).  Where the C++ code looks at something outside the alphabet
(keywords such as return/sizeof/new, `{ }`, `::`, templates, lambdas) the model returns `Err.outside`.

`expr` ties the knot: compileExpression = ladder over the extracted level table with compilePrecedence3 at the
bottom, whose parentheses / subscripts / calls call compileExpression again.
-/
namespace Cppcheck.AstLadder
open Cppcheck.Wire (Str)

def sReturn : Str := ['r','e','t','u','r','n']
def sCase : Str := ['c','a','s','e']
def sThrow : Str := ['t','h','r','o','w']
def sDelete : Str := ['d','e','l','e','t','e']
def sNew : Str := ['n','e','w']
def sTypeof : Str := ['t','y','p','e','o','f']
def sDecltype : Str := ['d','e','c','l','t','y','p','e']

/-- `Token::Match(next, "[[]);,?:.]")` -/
def castStopAfter (t : Tok) : Bool :=
  t = Tok.lb || t = Tok.rb || t = Tok.rp || t = Tok.op [';'] || t = Tok.op [','] || t = Tok.op ['?'] || t = Tok.op [':'] || t = Tok.op ['.']

/-- `( * *| )` -/
def isFnPtrPar : List Tok → Bool
  | Tok.lp :: Tok.op ['*'] :: Tok.rp :: _ => true
  | Tok.lp :: Tok.op ['*'] :: Tok.op ['*'] :: Tok.rp :: _ => true
  | _ => false

/-- the `for (const Token *tok2 = tok->next(); tok2; tok2 = tok2->next())` loop of iscast.
`fresh` = at the top of an iteration (the varId / `new` tests run only there, not after a link jump);
`prevT` = `tok2->previous()`. -/
def castLoop (cpp : Bool) : Nat → Bool → Bool → Tok → List Tok → Bool
  | 0, _, _, _, _ => false
  | _ + 1, _, _, _, [] => false
  | n + 1, fresh, type, prevT, t :: r =>
    if fresh && (match t with | Tok.var _ => true | _ => false) then false
    else if fresh && cpp && !type && t = Tok.kw sNew then false
    else if t.isOpener then
      -- while (tok2->link() && Token::Match(tok2, "(|[|<")) tok2 = tok2->link()->next();
      match closeOff 0 r with
      | none => false
      | some k => castLoop cpp n false type ((r.drop k).headD Tok.rp) (r.drop (k + 1))
    else if t = Tok.rp then
      if r.head? = some Tok.lp && (match closeOff 0 r.tail with
                                | some k => (r.tail.drop (k + 1)).head? = some (Tok.op ['.'])
                                | none => false) then true
      else
        type || prevT = Tok.op ['*'] || r.head? = some (Tok.op ['~']) ||
          (match r.head? with
           | some nx => (!nx.isOp || nx = Tok.op ['!'] || nx = Tok.op ['~'] || nx.isIncDec) && !castStopAfter nx
           | none => false)
    else if (t = Tok.op ['&'] || t = Tok.op ['&','&']) && r.head? = some Tok.rp then true
    else if !(t.isName || t = Tok.op ['*'] || t = Tok.op [':',':']) then false
    else
      let type' := type || ((match t with | Tok.ty _ => true | _ => false) && (r.head? != some Tok.lp || isFnPtrPar r))
      castLoop cpp n true type' t r

/-- `iscast(tok, cpp)` for `tok` = a `(`: `pre` = tokens before it (nearest first), `rest` = tokens after it -/
def iscast (cpp : Bool) (pre rest : List Tok) : Bool :=
  match rest with
  | [] => false
  | h :: _ =>
    if !h.isName then false                                   -- !Match(tok, "( ::| %name%")
    else
      match closeOff 0 rest with
      | none => false
      | some k =>
        let after := rest.drop (k + 1)                        -- tokens behind tok->link()
        if after.take 2 = [.lp, Tok.rp] then false               -- ") ( )"
        else if (match after.head? with
                 | some (Tok.op s) => isAssignStr s || s = [','] || s = ['.','.','.']
                 | _ => false) then false                     -- ") %assign%|,|..."
        else if (match pre.head? with
                 | some p => p.isName && !(p = Tok.kw sReturn || p = Tok.kw sCase) && (!cpp || !(p = Tok.kw sDelete || p = Tok.kw sThrow))
                 | none => false) then false                  -- function call
        else if h = Tok.kw sTypeof && rest.tail.head? = some Tok.lp &&
                (match after.head? with | some (Tok.num _) => true | _ => false) then true
        else if (match after.head? with
                 | some t => t = Tok.op ['}'] || t = Tok.rp || t = Tok.rb || t = Tok.op [';']
                 | none => false) then false                  -- ") }|)|]|;"
        else if (match after with
                 | t :: t' :: _ => t.isIncDec && (t' = Tok.op [';'] || t' = Tok.rp)
                 | _ => false) then false                     -- ") ++|-- [;)]"
        else if (match after.head? with
                 | some (Tok.op s) => isConstOpStr s && !(s = ['&'] || s = ['*'] || s = ['+'] || s = ['-'] || s = ['~'] || s = ['!'])
                 | _ => false) then false                     -- ") %cop%" && !") [&*+-~!]"
        else castLoop cpp (rest.length + 1) true false Tok.lp rest

/-- `Token::Match(prev, "(|[|{|%op%|;|?|:|,|.|case|return|::")` -/
def prevSet (p : Tok) : Bool :=
  match p with
  | Tok.lp | Tok.lb => true
  | Tok.op s => isOpStr s || s = ['{'] || s = [';'] || s = ['?'] || s = [':'] || s = [','] || s = ['.'] || s = [':',':']
  | Tok.kw s => s = sCase || s = sReturn
  | _ => false

/-- `prev` is a `)`: `iscast(prev->link(), cpp)`.  `pr` = tokens before that `)`, `cur` = tokens after it. -/
def castBefore (cpp : Bool) (pr cur : List Tok) : Bool :=
  match openOff 0 pr with
  | none => false
  | some k => iscast cpp (pr.drop (k + 1)) ((pr.take k).reverse ++ Tok.rp :: cur)

/-- isPrefixUnary without the `*`-after-`++` clause -/
def isPrefixUnaryA (cpp : Bool) (pre : List Tok) (t : Tok) (after : List Tok) : Bool :=
  match pre with
  | [] => true
  | p :: pr =>
    if (prevSet p || (cpp && p = Tok.kw sThrow)) && (!p.isIncDec || t.isIncDec) then true
    else if p = Tok.op ['}'] then true      -- outside the alphabet
    else p = Tok.rp && castBefore cpp pr (t :: after)

/-- `isPrefixUnary(tok, cpp)`: `pre` = tokens before `tok`, `after` = tokens behind it -/
def isPrefixUnary (cpp : Bool) (pre : List Tok) (t : Tok) (after : List Tok) : Bool :=
  match pre with
  | [] => true
  | p :: pr =>
    if (prevSet p || (cpp && p = Tok.kw sThrow)) && (!p.isIncDec || t.isIncDec) then true
    else if p = Tok.op ['}'] then true
    else if t = Tok.op ['*'] && p.isIncDec && isPrefixUnaryA cpp pr p (t :: after) then true
    else p = Tok.rp && castBefore cpp pr (t :: after)

/-- `skipDecl(tok)` for a name token directly behind `(`: number of tokens jumped over.
`none` = the walk meets decltype/typeof (outside). -/
def skipDeclGo : List Tok → Nat → Option Nat
  | [], _ => some 0
  | t :: r, k =>
    let inSet := t.isName || t = Tok.op ['*'] || t = Tok.op ['&'] || t = Tok.op ['&','&'] || t = Tok.op [':',':'] || t = Tok.op ['<']
    if !inSet then some 0
    else if t = Tok.op ['<'] then some 0                      -- no link: return tok
    else if (match t with | Tok.var _ => true | _ => false) &&
            (match r.head? with
             | some nx => nx = Tok.op [':'] || nx = Tok.op ['='] || nx = Tok.lp || nx = Tok.op ['{']
             | none => false) then some k                  -- Token::Match(vartok, "%var% [:=({]")
    else if (t = Tok.kw sDecltype || t = Tok.kw sTypeof) && r.head? = some Tok.lp then none
    else skipDeclGo r (k + 1)

/-- the next token is a name (`Token::Match(tok->next(), "%name%")`) -/
def nextIsName (r : List Tok) : Bool :=
  match r.head? with
  | some nx => nx.isName
  | none => false

/-- `Token::Match(tok->tokAt(-3), "!!& ) ( %name%")` seen from the name: the tokens before it -/
def parenParenBefore : List Tok → Bool
  | Tok.lp :: Tok.rp :: x :: _ => x != Tok.op ['&']
  | _ => false

/-- `%name% ) =`: the tokens behind the name -/
def rpAssignAfter : List Tok → Bool
  | Tok.rp :: Tok.op o :: _ => o = ['=']
  | _ => false

/-- compileTerm (= compileScope, `::` being outside the alphabet) -/
def term (g : Bool) (d : Nat) (st : St) : R :=
  match st.inp with
  | [] => .ok st
  | t :: r =>
    match t with
    | Tok.num s =>
      -- state.op.push(tok); do tok = tok->next(); while (Token::Match(tok, "%name%|%str%"));
      if nextIsName r then .error (.outside 10)
      else .ok (st.next.push ⟨st.pos, .leaf s⟩)
    | Tok.kw _ => .error (.outside 11)
    | Tok.ty _ => .error (.outside 12)
    | Tok.var _ | Tok.fn _ =>
      if nextIsName r then .error (.outside 13)   -- juxtaposed names
      else
        -- skipDecl: only behind `(`; `g` = the code has the `tok->varId() != 0` early return
        let jump : Option Nat :=
          if st.pre.head? = some Tok.lp && !(g && (match t with | Tok.var _ => true | _ => false)) then skipDeclGo st.inp 0 else some 0
        match jump with
        | none => .error (.outside 15)
        | some j =>
          let st1 := st.adv j
          match st1.inp with
          | [] => .ok st1
          | t1 :: r1 =>
            if nextIsName r1 then .error (.outside 16)
            else
              let st2 := st1.push ⟨st1.pos, .leaf t1.str⟩
              -- `) ( %name% ) =` at the very start of a statement: one extra token is skipped
              let extra : Bool := st2.stk.length == 1 && d == 0 && parenParenBefore st1.pre && rpAssignAfter r1
              .ok (if extra then st2.next.next else st2.next)
    | Tok.op s => if s = ['{'] || s = [':',':'] then .error (.outside 17) else .ok st
    | _ => .ok st

/-- the tests that make a `(` a function call in compilePrecedence2: the previous token is a name (not
return/case/throw/delete), a `]`, or a `)` that does not close a cast.  `cur` = the `(` and what follows. -/
def isCallCtx (cpp : Bool) (pre cur : List Tok) : Bool :=
  match pre with
  | [] => false
  | p :: pr =>
    (p.isName && !(p = Tok.kw sReturn || p = Tok.kw sCase) && (!cpp || !(p = Tok.kw sThrow || p = Tok.kw sDelete)))
    || p = Tok.rb
    || (p = Tok.rp && !castBefore cpp pr cur)

/-- the `while (tok)` loop of compilePrecedence2; `inner` = compileExpression -/
def loop2 (M : Nat) (cpp : Bool) (g : Bool) (inner : Nat → St → R) (d : Nat) (st : St) : R :=
  match st.inp with
  | [] => .ok st
  | t :: rest =>
    let continue_ (r : R) : R :=
      match r with
      | .error e => .error e
      | .ok st2 => if st2.inp.length < st.inp.length then loop2 M cpp g inner d st2 else .error .stuck
    match t with
    | Tok.op s =>
      if isIncDecStr s && !isPrefixUnary cpp st.pre t rest then
        continue_ (unopWith M s (term g) d st)
      else if s = ['.','.','.'] then .error (.outside 20)
      else if s = ['.'] && rest.head? != some (Tok.op ['*']) then
        if rest.head? = some (Tok.op ['.']) then .error (.outside 21)
        else if rest.head? = some (Tok.op ['~']) then .error (.outside 22)
        else if (match st.pre.head? with | some p => p = Tok.op ['{'] || p = Tok.op [','] | none => false) then
          continue_ (unopWith M s (term g) d st)
        else continue_ (binopWith M s (term g) d st)
      else if s = ['{'] then .error (.outside 23)
      else .ok st
    | Tok.lb =>
      match closeOff 0 rest with
      | none => .error (.outside 24)
      | some k =>
        if cpp && isPrefixUnary cpp st.pre t rest &&
           (match (rest.drop (k + 1)).head? with
            | some nx => nx = Tok.lp || nx = Tok.op ['{'] || nx = Tok.op ['<']
            | none => false) then .error (.outside 25)          -- lambda
        else
          let r1 := if rest.head? != some Tok.rb then binopWith M ['['] inner d st else unopWith M ['['] inner d st
          match r1 with
          | .error e => .error e
          | .ok st2 => continue_ (.ok (st2.seek (st.pos + k + 2)))
    | Tok.lp =>
      if !iscast cpp st.pre rest then
        match closeOff 0 rest with
        | none => .error (.outside 26)
        | some k =>
          let st1 := st.next
          let oldSize := st.stk.length
          match inner d st1 with
          | .error e => .error e
          | .ok st2 =>
            -- tok = tok2 (the parenthesis); function call?
            let isCall : Bool := isCallCtx cpp st.pre st.inp
            let stk' :=
              if isCall then
                (if oldSize < st2.stk.length then combine2 ['('] st.pos st2.stk else combine1 ['('] st.pos true st2.stk)
              else st2.stk
            continue_ (.ok ({ st2 with stk := stk' }.seek (st.pos + k + 2)))
      else .ok st
    | _ => .ok st
termination_by st.inp.length

/-- compilePrecedence2 -/
def p2 (M : Nat) (cpp : Bool) (g : Bool) (inner : Nat → St → R) (d : Nat) (st : St) : R :=
  match term g d st with
  | .error e => .error e
  | .ok st1 => if st1.inp.length ≤ st.inp.length then loop2 M cpp g inner d st1 else .error .stuck

def isPrefixOpStr (s : Str) : Bool :=
  s = ['+'] || s = ['-'] || s = ['!'] || s = ['~'] || s = ['*'] || s = ['&'] || isIncDecStr s

/-- compilePrecedence3.  `entry = true`: the whole function; `false`: its `while` loop. -/
def p3 (M : Nat) (cpp : Bool) (g : Bool) (inner : Nat → St → R) (entry : Bool) (d : Nat) (st : St) : R :=
  if entry then
    match p2 M cpp g inner d st with
    | .error e => .error e
    | .ok st1 => if st1.inp.length ≤ st.inp.length then p3 M cpp g inner false d st1 else .error .stuck
  else
    match st.inp with
    | [] => .ok st
    | t :: rest =>
      let self : Nat → St → R := fun d' st' =>
        if st'.inp.length < st.inp.length then p3 M cpp g inner true d' st' else .error .stuck
      let continue_ (r : R) : R :=
        match r with
        | .error e => .error e
        | .ok st2 => if st2.inp.length < st.inp.length then p3 M cpp g inner false d st2 else .error .stuck
      match t with
      | Tok.op s =>
        if isPrefixOpStr s && isPrefixUnary cpp st.pre t rest then
          match (if s = ['*'] then starLook rest else none) with
          | some k => continue_ (.ok (st.adv k))                    -- `tok = tok2; continue;`
          | none => continue_ (unopWith M s self d st)
        else .ok st
      | Tok.lp =>
        if iscast cpp st.pre rest then
          match closeOff 0 rest with
          | none => .error (.outside 30)
          | some k =>
            let st1 := st.adv (k + 2)
            match (if st1.inp.isEmpty then .ok st1 else self d st1) with
            | .error e => .error e
            | .ok st2 => continue_ (.ok (unopNull ['('] st.pos st2))
        else .ok st
      | Tok.kw s => if cpp && (s = sNew || s = sDelete) then .error (.outside 31) else .ok st
      | _ => .ok st
termination_by (st.inp.length, if entry then 1 else 0)
decreasing_by
  all_goals simp_wf
  all_goals simp only [Prod.lex_def]
  all_goals (try simp_all)
  all_goals omega

/-- tokens the model does not cover at all -/
def Tok.inAlphabet : Tok → Bool
  | Tok.op s => !(s = ['{'] || s = ['}'] || s = [':',':'] || s = ['.','.','.'])
  | Tok.kw _ => false
  | _ => true

/-- compileExpression over the ladder `L` -/
def expr (L : Ladder) (cpp : Bool) (d : Nat) (st : St) : R :=
  if d > L.maxDepth then .error .depth
  else
    match st.inp with
    | [] => .ok st
    | _ :: _ =>
      ladder L.maxDepth cpp
        (p3 L.maxDepth cpp L.declVarGuard (fun d' st' => if st'.inp.length < st.inp.length then expr L cpp d' st' else .error .stuck) true)
        L.levels d st
termination_by st.inp.length

/-- createAstAtToken on an expression statement: a fresh AST_state, compileExpression from the first token -/
def parse (L : Ladder) (cpp : Bool) (ts : List Tok) : R :=
  if ts.all Tok.inAlphabet then expr L cpp 0 { pre := [], inp := ts, stk := [] } else .error (.outside 0)

/-- the pipeline: prepareTernaryOpForAST (it runs twice in simplifyTokenList1), then createAst -/
def astOf (L : Ladder) (cpp : Bool) (ts : List Tok) : R :=
  parse L cpp (prep (prep ts))

/-! ### side conditions of the theorems (all decidable) -/

/-- operator spellings a level table may use: not `? : ;`, nothing the operand level grabs first
(`++ -- ... { } ::`), and a token after which a prefix operator is recognised as such -/
def opOK (s : Str) : Bool :=
  s != ['?'] && s != [':'] && s != [';'] && !isIncDecStr s && s != ['.','.','.'] && s != ['{'] && s != ['}'] &&
  s != [':',':'] && prevSet (Tok.op s)

def entryOK (e : Str × Guard) : Bool := opOK e.1 && (!e.2.binary || e.1 != ['.'])

def allOps (ls : List Level) : List Str := ls.flatMap (fun lv => lv.ops.map Prod.fst)

/-- the levels above compileAssignTernary only have `,`; below it every level is a left-associative loop -/
def ternShape : List Level → Bool
  | [] => false
  | lv :: r =>
    if lv.kind = .assignTernary then r.all (fun x => x.kind = .left)
    else lv.ops.all (fun e => e.1 = [',']) && ternShape r

/-- well-formed level table -/
def Ladder.WF (L : Ladder) : Bool :=
  decide (allOps L.levels).Nodup && L.levels.all (fun lv => lv.ops.all entryOK) && ternShape L.levels

/-- skipDecl is only entered at a name directly behind `(`; it must not jump -/
def declHead (ts : List Tok) : Bool :=
  match ts with
  | t :: _ => !t.isName || skipDeclGo ts 0 == some 0
  | [] => true

/-- no parenthesis is followed by something skipDecl takes for a declaration (`( a * b =`, `( a * b (` …) -/
def PExpr.declOK : PExpr → Bool
  | .var _ => true
  | .num _ => true
  | .paren e => declOK e && declHead (e.print ++ [Tok.rp])
  | .bin _ l r => declOK l && declOK r
  | .tern c t e => declOK c && declOK t && declOK e
  | .pre _ e => declOK e
  | .post _ e => declOK e
  | .cast _ _ e => declOK e
  | .index a i => declOK a && declOK i
  | .member a _ => declOK a
  | .call0 _ _ => true
  | .call _ _ a => declOK a && declHead (a.print ++ [Tok.rp])

/-- the skipDecl side condition of the theorems: nothing to require when the code has the early return for
variables (`declVarGuard`, commit 1fbcd63: every name the grammar puts behind `(` is a variable), otherwise `declOK` -/
def declFine (L : Ladder) (e : PExpr) : Bool := L.declVarGuard || e.declOK

/-- the same table with skipDecl as it was before commit 1fbcd63 (no early return for variables) -/
def Ladder.preFix (L : Ladder) : Ladder := { L with declVarGuard := false }

/-- what may follow a complete expression: nothing, `)`, `]` or `;` -/
def endOK : List Tok → Bool
  | [] => true
  | t :: _ => t == Tok.rp || t == Tok.rb || t == Tok.op [';']

/-! ### the ISO table and minimal parenthesisation -/

/-- the operator table of ISO C++20 [expr.comma] … [expr.mptr.oper] (a superset of C17 6.5.5 – 6.5.17),
lowest precedence first.  `assignTernary` = the right-associative level that also holds `?:`. -/
def isoTable : List (List Str × Kind) := [
  ([[',']], .left),
  ([['='], ['+','='], ['-','='], ['*','='], ['/','='], ['%','='], ['<','<','='], ['>','>','='], ['&','='], ['^','='], ['|','=']], .assignTernary),
  ([['|','|']], .left),
  ([['&','&']], .left),
  ([['|']], .left),
  ([['^']], .left),
  ([['&']], .left),
  ([['=','='], ['!','=']], .left),
  ([['<'], ['>'], ['<','='], ['>','=']], .left),
  ([['<','=','>']], .left),
  ([['<','<'], ['>','>']], .left),
  ([['+'], ['-']], .left),
  ([['*'], ['/'], ['%']], .left),
  ([['.','*']], .left)]

/-- spelling of a table entry as an ISO operator: cppcheck's `. *` (two tokens, also for `->*`) is `.*` -/
def entrySpelling (e : Str × Guard) : Str :=
  match e.2 with
  | .dotStar => e.1 ++ ['*']
  | _ => e.1

def Ladder.toTable (L : Ladder) : List (List Str × Kind) :=
  L.levels.map (fun lv => (lv.ops.map entrySpelling, lv.kind))

def sameOps (a b : List Str) : Bool := a.all b.contains && b.all a.contains && a.length == b.length

/-- same levels in the same order, each with the same operator set and the same associativity -/
def tableEq : List (List Str × Kind) → List (List Str × Kind) → Bool
  | [], [] => true
  | x :: xs, y :: ys => sameOps x.1 y.1 && x.2 == y.2 && tableEq xs ys
  | _, _ => false

namespace PExpr

/-- forget the parentheses -/
def strip : PExpr → PExpr
  | var s => var s
  | num s => num s
  | paren e => strip e
  | bin op l r => bin op (strip l) (strip r)
  | tern c t e => tern (strip c) (strip t) (strip e)
  | pre op e => pre op (strip e)
  | post op e => post op (strip e)
  | cast ty k e => cast ty k (strip e)
  | index a i => index (strip a) (strip i)
  | member a m => member (strip a) m
  | call0 f v => call0 f v
  | call f v a => call f v (strip a)

/-- a first-stage tree without parentheses all of whose operators are binary operators of the table -/
def over (L : Ladder) : PExpr → Bool
  | var _ => true
  | num _ => true
  | bin op l r =>
    (match findLevel op L.levels with
     | some (lv, _) => (match lookupOp op lv.ops with | some g => g.binary | none => false)
     | none => false) && over L l && over L r
  | tern c t e => (findTern L.levels).isSome && over L c && over L t && over L e
  | pre op e => plainPrefix op && over L e
  | _ => false

/-- print with the fewest parentheses: an operand gets parentheses exactly when its operator does not belong to
the level list `ls` its position admits -/
def minParen (L : Ladder) : List Level → PExpr → PExpr
  | _, var s => var s
  | _, num s => num s
  | ls, bin op l r =>
    match findLevel op L.levels with
    | none => bin op l r
    | some (lv, below) =>
      let body :=
        match lv.kind with
        | .left => bin op (minParen L (lv :: below) l) (minParen L below r)
        | .assignTernary => bin op (minParen L below l) (minParen L (lv :: below) r)
      if (findLevel op ls).isSome then body else paren body
  | ls, tern c t e =>
    match findTern L.levels with
    | none => tern c t e
    | some (lv, below) =>
      let body := tern (minParen L below c) (minParen L L.levels t) (minParen L (lv :: below) e)
      if (findTern ls).isSome then body else paren body
  | _, pre op e => pre op (minParen L [] e)
  | _, e => e

end PExpr

/-- witness of finding F7a: `( a * b = c )`, a tree of the grammar (C++: `(a * b) = c`) that violates `declOK` -/
def declWitness : PExpr := .paren (.bin ['='] (.bin ['*'] (.var ['a']) (.var ['b'])) (.var ['c']))

end Cppcheck.AstLadder

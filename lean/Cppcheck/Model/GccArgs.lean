import Cppcheck.Model.Wire
import Cppcheck.Model.Shell
/-
C32 — model of `ImportProject::parseArgs` (lib/importproject.cpp:112) with its `getOptArg` lambda,
of `ImportProject::fsSetDefines` (lib/importproject.cpp:212), and the hand-written specification of
what a GCC-style command line means (`Spec`).

Byte strings are `List Char` (codes < 256).
-/
namespace Cppcheck.GccArgs
open Cppcheck.Wire

/-! ### string helpers (std::string::find / erase as used by the code) -/

/-- `s.find(pat)` : index of the first occurrence -/
def findSub (pat : Str) : Str → Option Nat
  | [] => if pat.isEmpty then some 0 else none
  | c :: r => if pat.isPrefixOf (c :: r) then some 0 else (findSub pat r).map (· + 1)

/-- `s.find(ch, from)` -/
def findCharFrom (ch : Char) (s : Str) (start : Nat) : Option Nat :=
  ((s.drop start).idxOf? ch).map (· + start)

/-- byte-wise `std::string::operator<` -/
def strLt : Str → Str → Bool
  | [], [] => false
  | [], _ :: _ => true
  | _ :: _, [] => false
  | a :: x, b :: y => if a.toNat < b.toNat then true else if b.toNat < a.toNat then false else strLt x y

/-- `std::set<std::string>::insert` on the sorted duplicate-free list representing the set -/
def setInsert (v : Str) : List Str → List Str
  | [] => [v]
  | x :: r => if v = x then x :: r else if strLt v x then v :: x :: r else x :: setInsert v r

/-! ### the part of `FileSettings` that `parseArgs` writes -/

structure FS where
  includePaths : List Str := []
  systemIncludePaths : List Str := []
  /-- the local `std::string defs` while the loop runs; `fs.defines` after `fsSetDefines` -/
  defs : Str := []
  /-- `std::set<std::string> undefs` as a sorted duplicate-free list -/
  undefs : List Str := []
  standard : Str := []
  deriving DecidableEq, Repr

/-- the seven `getOptArg` tests of the loop body, in source order -/
inductive Kind where
  | inc | sysinc | define | undef | std | f | m
  deriving DecidableEq, Repr

def checks : List (List Str × Kind) :=
  [ (["-I".toList, "/I".toList], .inc),
    (["-isystem".toList], .sysinc),
    (["-D".toList, "/D".toList], .define),
    (["-U".toList, "/U".toList], .undef),
    (["-std=".toList, "/std:".toList], .std),
    (["-f".toList], .f),
    (["-m".toList], .m) ]

/-- the body of the `if (!(optArg = getOptArg(..)).empty())` belonging to each test -/
def apply : Kind → Str → FS → FS
  | .inc, v, fs => if fs.includePaths.contains v then fs else { fs with includePaths := fs.includePaths ++ [v] }
  | .sysinc, v, fs => { fs with systemIncludePaths := fs.systemIncludePaths ++ [v] }
  | .define, v, fs => { fs with defs := fs.defs ++ v ++ [';'] }
  | .undef, v, fs => { fs with undefs := setInsert v fs.undefs }
  | .std, v, fs => { fs with standard := v }
  | .f, v, fs =>
    if v = "pic".toList then { fs with defs := fs.defs ++ "__pic__;".toList }
    else if v = "PIC".toList then { fs with defs := fs.defs ++ "__PIC__;".toList }
    else if v = "pie".toList then { fs with defs := fs.defs ++ "__pie__;".toList }
    else if v = "PIE".toList then { fs with defs := fs.defs ++ "__PIE__;".toList }
    else fs
  | .m, v, fs => if v = "unicode".toList then { fs with defs := fs.defs ++ "UNICODE;".toList } else fs

/-- `std::find_if(optNames, startsWith(arg, optName))`, returning the length of the name found -/
def findPrefix (names : List Str) (arg : Str) : Option Nat :=
  (names.find? (fun n => n.isPrefixOf arg)).map List.length

/-- outcome of one iteration of the `for` loop; `consumed` = the index was advanced over the following
    argument -/
inductive Out where
  | next (consumed : Bool) (fs : FS)
  deriving DecidableEq, Repr

/-- one iteration: the remaining tests `cs` applied to the argument at the cursor; `rest` are the
    arguments behind it.

    `getOptArg` advances the *shared* index when the argument is exactly an option name.  If the
    following argument exists and is non-empty it is the option's value.  If it is empty the `if`
    fails with the index already advanced, and every later test looks at the empty argument (none can
    match).  If there is no following argument the index equals `args.size()`; since commit 0f74657 every
    later `getOptArg` call returns "" at once (`if (i >= args.size()) return std::string();`), so the
    iteration ends without effect.  (Before that commit the next test bound `args[i]` out of bounds:
    `Before0f74657` below.) -/
def runChecks : List (List Str × Kind) → Str → List Str → FS → Out
  | [], _, _, fs => .next false fs
  | (names, k) :: cs, arg, rest, fs =>
    match findPrefix names arg with
    | none => runChecks cs arg rest fs
    | some n =>
      if arg.length = n then
        match rest with
        | [] => .next false fs
        | a :: _ => if a.isEmpty then .next true fs else .next true (apply k a fs)
      else .next false (apply k (arg.drop n) fs)

/-- the `for` loop of `parseArgs` -/
def loop : List Str → FS → FS
  | [], fs => fs
  | arg :: rest, fs =>
    match runChecks checks arg rest fs with
    | .next false fs' => loop rest fs'
    | .next true fs' =>
      match rest with
      | [] => fs'
      | _ :: rest' => loop rest' fs'

/-! the loop as it was before commit 0f74657 (kept for the side theorems only): a bare option name as
    the last argument made every test but the last one (`-m`) read `args[args.size()]` -/
namespace Before0f74657

inductive Out where
  /-- the code evaluates `args[args.size()]` (undefined behaviour) -/
  | oob
  | next (consumed : Bool) (fs : FS)
  deriving DecidableEq, Repr

def runChecks : List (List Str × Kind) → Str → List Str → FS → Out
  | [], _, _, fs => .next false fs
  | (names, k) :: cs, arg, rest, fs =>
    match findPrefix names arg with
    | none => runChecks cs arg rest fs
    | some n =>
      if arg.length = n then
        match rest with
        | [] => if cs.isEmpty then .next false fs else .oob
        | a :: _ => if a.isEmpty then .next true fs else .next true (apply k a fs)
      else .next false (apply k (arg.drop n) fs)

/-- `none` = out-of-bounds read -/
def loop : List Str → FS → Option FS
  | [], fs => some fs
  | arg :: rest, fs =>
    match runChecks checks arg rest fs with
    | .oob => none
    | .next false fs' => loop rest fs'
    | .next true fs' =>
      match rest with
      | [] => some fs'
      | _ :: rest' => loop rest' fs'

end Before0f74657

/-! ### `fsSetDefines` -/

/-- `while (defs.find(";%(") != npos) { pos1 = find(";%("); pos2 = find(';', pos1+1); erase(pos1, pos2-pos1 | npos) }` -/
def eraseMsbuild : Nat → Str → Str
  | 0, s => s
  | fuel + 1, s =>
    match findSub ";%(".toList s with
    | none => s
    | some p1 =>
      match findCharFrom ';' s (p1 + 1) with
      | none => eraseMsbuild fuel (s.take p1)
      | some p2 => eraseMsbuild fuel (s.take p1 ++ s.drop p2)

/-- `while (defs.find(";;") != npos) defs.erase(defs.find(";;"), 1);` -/
def eraseDoubleSemi : Nat → Str → Str
  | 0, s => s
  | fuel + 1, s =>
    match findSub ";;".toList s with
    | none => s
    | some p => eraseDoubleSemi fuel (s.take p ++ s.drop (p + 1))

/-- `while (!defs.empty() && endsWith(defs,';')) defs.pop_back();` -/
def stripTrailingSemi : Str → Str
  | [] => []
  | c :: r =>
    let t := stripTrailingSemi r
    if t.isEmpty && c == ';' then [] else c :: t

/-- the `for (pos …)` loop that appends "=1" to value-less definitions, as a scan over the remaining
    characters.  `eq` is the flag of the code.  After an insertion the code sets `pos += 3` and the
    loop header adds one more, so the character right behind the ';' is *not examined*: `skip`. -/
def addOnes : Str → (eq skip : Bool) → Str
  | [], eq, _ => if eq then [] else ['=', '1']
  | c :: r, eq, true => c :: addOnes r eq false
  | c :: r, eq, false =>
    if c = '(' ∨ c = '=' then c :: addOnes r true false
    else if c = ';' then
      if eq then ';' :: addOnes r false false
      else '=' :: '1' :: ';' :: addOnes r false true
    else c :: addOnes r eq false

def fsSetDefines (defs : Str) : Str :=
  let s1 := eraseMsbuild defs.length defs
  let s2 := eraseDoubleSemi s1.length s1
  let s3 := s2.dropWhile (· == ';')
  let s4 := stripTrailingSemi s3
  if s4.isEmpty then [] else addOnes s4 false false

/-- `ImportProject::parseArgs` on a fresh `FileSettings` -/
def parseArgs (args : List Str) : FS :=
  let fs := loop args {}
  { fs with defs := fsSetDefines fs.defs }

/-! ### specification: what the options of a GCC-style command line mean -/
namespace Spec

/-- options of the GCC driver whose value is always the *next* argument and which `parseArgs` does
    not interpret -/
def sepOpts : List Str :=
  ["-o", "-x", "-include", "-imacros", "-iquote", "-idirafter", "-iprefix", "-iwithprefix",
   "-iwithprefixbefore", "-isysroot", "-imultilib", "-MF", "-MT", "-MQ", "-Xpreprocessor",
   "-Xassembler", "-Xlinker", "-Xclang", "-T", "-u", "-z", "-e", "-A", "-L", "-l", "-B", "-G",
   "-aux-info", "--param", "-dumpbase", "-dumpdir", "-arch", "-target", "-framework", "-mllvm",
   "--sysroot", "-wrapper", "-specs"].map String.toList

/-- what the command line asks for -/
structure Opts where
  includes : List Str := []      -- `-I`, first occurrence of a directory wins (GCC ignores duplicates)
  sysIncludes : List Str := []   -- `-isystem`
  defines : List Str := []       -- `-D` operands in order, plus the macros cppcheck documents for -fpic … -municode
  undefs : List Str := []        -- `-U` operands as a set
  std : Str := []                -- last `-std=`
  deriving DecidableEq, Repr

def Opts.addInc (o : Opts) (d : Str) : Opts :=
  if o.includes.contains d then o else { o with includes := o.includes ++ [d] }

/-- macro implied by a code-generation flag (the table cppcheck documents; GCC itself defines both
    spellings with value 1 or 2) -/
def impliedDefine (a : Str) : Option Str :=
  if a = "-fpic".toList then some "__pic__".toList
  else if a = "-fPIC".toList then some "__PIC__".toList
  else if a = "-fpie".toList then some "__pie__".toList
  else if a = "-fPIE".toList then some "__PIE__".toList
  else if a = "-municode".toList then some "UNICODE".toList
  else none

/-- value of a joined-or-separate option `name`: `.sep` when the argument is exactly the name,
    `.joined v` when it starts with it -/
inductive Form where
  | no | sep | joined (v : Str)

def form (name arg : Str) : Form :=
  if arg = name then .sep else if name.isPrefixOf arg then .joined (arg.drop name.length) else .no

/-- the meaning of an argument vector under GCC's rules: `-I -isystem -D -U` take a joined or a separate
    value, `-std=` a joined one, the options of `sepOpts` swallow the following argument, everything else
    (other options, input files) specifies none of the five settings -/
def gcc : List Str → Opts → Opts
  | [], o => o
  | [a], o =>
    match form "-I".toList a with
    | .joined v => o.addInc v
    | _ =>
    match form "-isystem".toList a with
    | .joined v => { o with sysIncludes := o.sysIncludes ++ [v] }
    | _ =>
    match form "-D".toList a with
    | .joined v => { o with defines := o.defines ++ [v] }
    | _ =>
    match form "-U".toList a with
    | .joined v => { o with undefs := setInsert v o.undefs }
    | _ =>
    match form "-std=".toList a with
    | .joined v => { o with std := v }
    | _ =>
    match impliedDefine a with
    | some d => { o with defines := o.defines ++ [d] }
    | none => o
  | a :: b :: rest, o =>
    match form "-I".toList a with
    | .sep => gcc rest (o.addInc b)
    | .joined v => gcc (b :: rest) (o.addInc v)
    | .no =>
    match form "-isystem".toList a with
    | .sep => gcc rest { o with sysIncludes := o.sysIncludes ++ [b] }
    | .joined v => gcc (b :: rest) { o with sysIncludes := o.sysIncludes ++ [v] }
    | .no =>
    match form "-D".toList a with
    | .sep => gcc rest { o with defines := o.defines ++ [b] }
    | .joined v => gcc (b :: rest) { o with defines := o.defines ++ [v] }
    | .no =>
    match form "-U".toList a with
    | .sep => gcc rest { o with undefs := setInsert b o.undefs }
    | .joined v => gcc (b :: rest) { o with undefs := setInsert v o.undefs }
    | .no =>
    match form "-std=".toList a with
    | .joined v => gcc (b :: rest) { o with std := v }
    | _ =>
    match impliedDefine a with
    | some d => gcc (b :: rest) { o with defines := o.defines ++ [d] }
    | none =>
      if sepOpts.contains a then gcc rest o else gcc (b :: rest) o

/-- a definition in cppcheck's `-D` list: `NAME` becomes `NAME=1` -/
def normDef (d : Str) : Str := if d.contains '=' ∨ d.contains '(' then d else d ++ ['=', '1']

/-- cppcheck's `defines` string for a list of definitions -/
def normal (ds : List Str) : Str := List.intercalate [';'] (ds.map normDef)

/-- the `FileSettings` that specifies exactly `o` -/
def Opts.toFS (o : Opts) : FS :=
  { includePaths := o.includes, systemIncludePaths := o.sysIncludes, defs := normal o.defines,
    undefs := o.undefs, standard := o.std }

end Spec

/-- the string `parseArgs` hands to `fsSetDefines` for the definitions `ds` -/
def joinDefs : List Str → Str
  | [] => []
  | d :: r => d ++ ';' :: joinDefs r


/-! ### `importCompileCommands` around `parseArgs` (lib/importproject.cpp:361): directory / file handling,
    `fsSetIncludePaths`, `simplecpp::simplifyPath`, `Path::acceptFile`.  Executable model only (validated by
    correspondence); `$(VAR)` expansion is modelled for an environment in which the variable is unset. -/
namespace Import

/-- `s.find(pat, start)` -/
def findSubFrom (pat s : Str) (start : Nat) : Option Nat :=
  if start > s.length then none else (findSub pat (s.drop start)).map (· + start)

/-- `s.erase(pos, n)` -/
def eraseAt (s : Str) (pos n : Nat) : Str := s.take pos ++ s.drop (pos + n)

/-- `s.rfind(ch, from)` : last index `≤ from` holding `ch` -/
def rfindChar (ch : Char) (s : Str) (start : Nat) : Option Nat :=
  let pre := s.take (start + 1)
  match pre.reverse.idxOf? ch with
  | none => none
  | some k => some (pre.length - 1 - k)

def fromNative (s : Str) : Str := s.map fun c => if c = '\\' then '/' else c

def endsWithChar (s : Str) (c : Char) : Bool := s.getLast? == some c

/-- `pos = 0; while ((pos = path.find("//",pos)) != npos) path.erase(pos,1);` -/
def collapseSlashes : Nat → Str → Nat → Str
  | 0, s, _ => s
  | f + 1, s, pos =>
    match findSubFrom "//".toList s pos with
    | none => s
    | some p => collapseSlashes f (eraseAt s p 1) p

/-- `while ((pos = path.find("./",pos)) != npos) { if (pos == 0 || path[pos-1] == '/') path.erase(pos,2); else pos += 2; }` -/
def removeDotSlash : Nat → Str → Nat → Str
  | 0, s, _ => s
  | f + 1, s, pos =>
    match findSubFrom "./".toList s pos with
    | none => s
    | some p =>
      if p = 0 ∨ s[p - 1]? = some '/' then removeDotSlash f (eraseAt s p 2) p
      else removeDotSlash f s (p + 2)

/-- the `..` loop of `simplecpp::simplifyPath` -/
def dotdot : Nat → Str → Nat → Str
  | 0, s, _ => s
  | f + 1, s, pos =>
    match findSubFrom "/..".toList s pos with
    | none => s
    | some p =>
      if p + 3 < s.length ∧ s[p + 3]? ≠ some '/' then dotdot f s (p + 1)
      else
        -- `rfind('/', pos - 1U)`: for pos = 0 the start wraps to npos (search from the end)
        let pos1 := match rfindChar '/' s (if p = 0 then s.length else p - 1) with
          | none => 0
          | some q => q + 1
        -- `substr(pos1, pos - pos1)` / `erase(pos1, pos - pos1 + 4)` in unsigned arithmetic
        let prev := if pos1 ≤ p then (s.drop pos1).take (p - pos1) else s.drop pos1
        if prev = "..".toList then dotdot f s (p + 1)
        else
          let cnt := if pos1 ≤ p then p - pos1 + 4 else if pos1 - p ≤ 4 then 4 - (pos1 - p) else s.length
          let s' := eraseAt s pos1 cnt
          let s'' := if s'.isEmpty then ['.'] else s'
          dotdot f s'' (if pos1 = 0 then 1 else pos1 - 1)

/-- `simplecpp::simplifyPath` -/
def simplifyPath (path : Str) : Str :=
  if path.isEmpty then path else
  let p0 := fromNative path
  let unc := "//".toList.isPrefixOf p0
  let p1 := collapseSlashes (p0.length + 1) p0 0
  let p2 := removeDotSlash (p1.length + 1) p1 0
  let p3 := if "/.".toList.isSuffixOf p2 then p2.dropLast else p2
  let p4 := dotdot (2 * p3.length + 2) p3 1
  if unc then '/' :: p4 else p4

/-- ASCII `tolower` -/
def lowerChar (c : Char) : Char := if 'A' ≤ c ∧ c ≤ 'Z' then Char.ofNat (c.toNat + 32) else c

/-- `Path::getFilenameExtension`: from the last '.' to the end -/
def extension (path : Str) : Str :=
  match path.reverse.idxOf? '.' with
  | none => []
  | some k => path.drop (path.length - 1 - k)

/-- `Path::acceptFile(path)` with no extra extensions (Linux: case-sensitive file system) -/
def acceptFile (path : Str) : Bool :=
  let e := extension path
  if e = ".C".toList then true
  else if e = ".c".toList ∨ e = ".cl".toList then true
  else
    let l := e.map lowerChar
    [".cpp", ".cxx", ".cc", ".c++", ".tpp", ".txx", ".ipp", ".ixx"].any fun x => x.toList = l

/-- the absolute-path test of `fsSetIncludePaths` -/
def incIsAbsolute (s : Str) : Bool :=
  s.head? == some '/' || (s.length > 1 && (s.drop 1).take 2 == ":/".toList)

/-- `fsSetIncludePaths(fs, basepath, in, variables)` with no variable defined anywhere -/
def fsSetIncludePaths (basepath : Str) : List Str → List Str → List Str → List Str
  | [], _, out => out
  | ipath :: r, found, out =>
    if ipath.isEmpty then fsSetIncludePaths basepath r found out
    else if "%(".toList.isPrefixOf ipath then fsSetIncludePaths basepath r found out
    else
      let s := fromNative ipath
      if found.contains s then fsSetIncludePaths basepath r found out
      else
        let found := s :: found
        if incIsAbsolute s then
          fsSetIncludePaths basepath r found (out ++ [if endsWithChar s '/' then s else s ++ ['/']])
        else
          let s1 := if endsWithChar s '/' then s.dropLast else s
          if (findSub "$(".toList s1).isSome then
            -- simplifyPathWithVariables: the variable is found neither in `variables` nor in the environment
            fsSetIncludePaths basepath r found out
          else
            let s2 := simplifyPath (basepath ++ s1)
            if s2.isEmpty then fsSetIncludePaths basepath r found out
            else fsSetIncludePaths basepath r found (out ++ [if endsWithChar s2 '/' then s2 else s2 ++ ['/']])

/-- "arguments" array (string elements only) or "command" string -/
inductive ArgsForm where
  | arguments (l : List Str)
  | command (c : Str)
  | neither

structure Entry where
  dir : Str
  file : Option Str
  args : ArgsForm

structure FileSetting where
  path : Str
  fileId : Nat
  fs : FS
  deriving DecidableEq, Repr

structure Result where
  ok : Bool
  errors : Nat
  files : List FileSetting
  deriving DecidableEq, Repr

/-- the argument vector of an entry: the "arguments" strings, or the "command" string split by `collectArgs` -/
def entryArgs : ArgsForm → Option (List Str)
  | .arguments l => some l
  | .command c =>
    match Shell.collectArgs c with
    | .ok l => some l
    | .missingQuote => none
  | .neither => none

/-- `directory` with native separators converted and a trailing '/' -/
def entryDir (dir : Str) : Str :=
  let d0 := fromNative dir
  if endsWithChar d0 '/' then d0 else d0 ++ ['/']

/-- the path of the analysed file -/
def entryPath (dir f : Str) : Str :=
  let file := fromNative f
  if file.head? == some '/' then simplifyPath file else simplifyPath (entryDir dir ++ file)

/-- the loop over the entries of the database -/
def importEntries : List Entry → Nat → List FileSetting → Result
  | [], errs, acc => ⟨true, errs, acc⟩
  | e :: rest, errs, acc =>
    let directory := entryDir e.dir
    match entryArgs e.args with
    | none => ⟨false, errs + 1, acc⟩
    | some arguments =>
      match e.file with
      | none => importEntries rest (errs + 1) acc
      | some f =>
        if !acceptFile (fromNative f) then importEntries rest errs acc
        else
          let path := entryPath e.dir f
          let fs := parseArgs arguments
          let fs' := { fs with includePaths := fsSetIncludePaths directory fs.includePaths [] [] }
          let fileId := (acc.filter fun x => x.path = path).length
          importEntries rest errs (acc ++ [⟨path, fileId, fs'⟩])

end Import

/-! ### the generative reading of the specification: a command line as a list of options -/

/-- one option of a GCC-style command line as a build system writes it -/
inductive Opt where
  | inc (d : Str) (joined : Bool)      -- `-Id` / `-I d`
  | sysinc (d : Str) (joined : Bool)   -- `-isystemd` / `-isystem d`
  | define (d : Str) (joined : Bool)   -- `-Dd` / `-D d`
  | undef (u : Str) (joined : Bool)    -- `-Uu` / `-U u`
  | std (s : Str)                      -- `-std=s`
  | flag (a : Str)                     -- `-fpic -fPIC -fpie -fPIE -municode`
  | sepOther (o v : Str)               -- `-o v`, `-MF v`, `-include v` … (`o ∈ Spec.sepOpts`)
  | other (a : Str)                    -- any other single argument: option or input file
  deriving DecidableEq, Repr

def Opt.render : Opt → List Str
  | .inc d j => if j then ["-I".toList ++ d] else ["-I".toList, d]
  | .sysinc d j => if j then ["-isystem".toList ++ d] else ["-isystem".toList, d]
  | .define d j => if j then ["-D".toList ++ d] else ["-D".toList, d]
  | .undef u j => if j then ["-U".toList ++ u] else ["-U".toList, u]
  | .std s => ["-std=".toList ++ s]
  | .flag a => [a]
  | .sepOther o v => [o, v]
  | .other a => [a]

def render : List Opt → List Str
  | [] => []
  | o :: r => o.render ++ render r

/-- what the option list asks for -/
def meaning : List Opt → Spec.Opts → Spec.Opts
  | [], o => o
  | .inc d _ :: r, o => meaning r (o.addInc d)
  | .sysinc d _ :: r, o => meaning r { o with sysIncludes := o.sysIncludes ++ [d] }
  | .define d _ :: r, o => meaning r { o with defines := o.defines ++ [d] }
  | .undef u _ :: r, o => meaning r { o with undefs := setInsert u o.undefs }
  | .std s :: r, o => meaning r { o with std := s }
  | .flag a :: r, o =>
    match Spec.impliedDefine a with
    | some d => meaning r { o with defines := o.defines ++ [d] }
    | none => meaning r o
  | .sepOther _ _ :: r, o => meaning r o
  | .other _ :: r, o => meaning r o

/-- none of the five interpreted option names is a prefix of `a` -/
def notOption (a : Str) : Bool :=
  !("-I".toList.isPrefixOf a) && !("-isystem".toList.isPrefixOf a) && !("-D".toList.isPrefixOf a) &&
  !("-U".toList.isPrefixOf a) && !("-std=".toList.isPrefixOf a)

/-- well-formedness of an option list: values are non-empty, and the arguments that are *meant* as
    something else are not spelled like one of the interpreted options -/
def Opt.wf : Opt → Bool
  | .inc d _ => !d.isEmpty
  | .sysinc d _ => !d.isEmpty
  | .define d _ => !d.isEmpty
  | .undef u _ => !u.isEmpty
  | .std s => !s.isEmpty
  | .flag a => (Spec.impliedDefine a).isSome
  | .sepOther o _ => Spec.sepOpts.contains o && notOption o && (Spec.impliedDefine o).isNone
  | .other a => notOption a && (Spec.impliedDefine a).isNone && !Spec.sepOpts.contains a

/-! ### the inputs on which `parseArgs` and the specification are claimed to agree -/

/-- every option-name prefix `parseArgs` tests for -/
def prefixes : List Str :=
  ["-I", "/I", "-isystem", "-D", "/D", "-U", "/U", "-std=", "/std:", "-f", "-m"].map String.toList

/-- the MSVC spellings `parseArgs` accepts in addition to the GCC ones -/
def slashPrefixes : List Str := ["/I", "/D", "/U", "/std:"].map String.toList

/-- no test of `parseArgs` fires on `a` -/
def inert (a : Str) : Bool := !(prefixes.any fun p => p.isPrefixOf a)

/-- an argument GCC reads as some other option or as an input file: it must not look like an MSVC
    option to `parseArgs`, and must not be one of the bare names `-f`, `-m`, `-std=` (GCC rejects
    those; `parseArgs` would take the following argument as their value) -/
def otherOk (a : Str) : Bool :=
  !(slashPrefixes.any fun p => p.isPrefixOf a) && a != "-f".toList && a != "-m".toList && a != "-std=".toList

/-- the excluding hypothesis of `parseArgs_eq_spec_partial`, following GCC's reading of the vector:
    * a separate `-I -isystem -D -U` that is not the last argument has a non-empty value behind it
      (GCC: "missing path/macro name"; as the last argument it is ignored by both);
    * no bare `-std=`, `-f`, `-m`;
    * no input file / other option starts with `/I /D /U /std:`;
    * the value of an option of `Spec.sepOpts` (`-o file`, `-include file`, `-MF file` …) starts with
      none of the prefixes `parseArgs` tests for. -/
def clean : List Str → Bool
  | [] => true
  | [a] =>
    match Spec.form "-I".toList a with
    | .joined _ => true
    | .sep => true
    | .no =>
    match Spec.form "-isystem".toList a with
    | .joined _ => true
    | .sep => true
    | .no =>
    match Spec.form "-D".toList a with
    | .joined _ => true
    | .sep => true
    | .no =>
    match Spec.form "-U".toList a with
    | .joined _ => true
    | .sep => true
    | .no =>
    match Spec.form "-std=".toList a with
    | .joined _ => true
    | .sep => true
    | .no =>
    match Spec.impliedDefine a with
    | some _ => true
    | none => otherOk a
  | a :: b :: rest =>
    match Spec.form "-I".toList a with
    | .sep => !b.isEmpty && clean rest
    | .joined _ => clean (b :: rest)
    | .no =>
    match Spec.form "-isystem".toList a with
    | .sep => !b.isEmpty && clean rest
    | .joined _ => clean (b :: rest)
    | .no =>
    match Spec.form "-D".toList a with
    | .sep => !b.isEmpty && clean rest
    | .joined _ => clean (b :: rest)
    | .no =>
    match Spec.form "-U".toList a with
    | .sep => !b.isEmpty && clean rest
    | .joined _ => clean (b :: rest)
    | .no =>
    match Spec.form "-std=".toList a with
    | .joined _ => clean (b :: rest)
    | .sep => false
    | .no =>
    match Spec.impliedDefine a with
    | some _ => clean (b :: rest)
    | none =>
      if Spec.sepOpts.contains a then otherOk a && inert b && clean rest
      else otherOk a && clean (b :: rest)

/-- a `-D` value cppcheck's `;`-separated `defines` string can represent: non-empty, no ';', does not
    begin with `=`/`(` or with the MSBuild placeholder `%(` -/
def defOk (d : Str) : Bool :=
  match d with
  | [] => false
  | c :: _ => !d.contains ';' && c != '=' && c != '(' && !("%(".toList.isPrefixOf d)

/-- `parseArgs`' state while the loop runs, for the options `o` -/
def Spec.Opts.toRaw (o : Spec.Opts) : FS :=
  { includePaths := o.includes, systemIncludePaths := o.sysIncludes, defs := joinDefs o.defines,
    undefs := o.undefs, standard := o.std }

/-! ### specification of the import of a whole database -/
namespace Import

/-- the directory an `-I` value denotes for a compiler running in `base` (= `directory` + '/'): an absolute
    value is itself, a relative one is resolved against `base`; written with a trailing '/' and normalised by
    `simplifyPath` (which is *not* specified further here) -/
def resolveInc (base d : Str) : Str :=
  if incIsAbsolute d then (if endsWithChar d '/' then d else d ++ ['/'])
  else
    let s2 := simplifyPath (base ++ (if endsWithChar d '/' then d.dropLast else d))
    if endsWithChar s2 '/' then s2 else s2 ++ ['/']

/-- the include search list: first occurrence of every value, resolved -/
def incSpec (base : Str) : List Str → List Str → List Str
  | [], _ => []
  | d :: r, seen => if seen.contains d then incSpec base r seen else resolveInc base d :: incSpec base r (d :: seen)

/-- an `-I` value the import treats as a plain directory name: non-empty, no MSBuild placeholder `%(`, no
    backslash, no `$(VAR)`, and not normalised away completely -/
def plainInc (base d : Str) : Bool :=
  !d.isEmpty && !("%(".toList.isPrefixOf d) && !d.contains '\\' &&
  (incIsAbsolute d ||
    ((findSub "$(".toList (if endsWithChar d '/' then d.dropLast else d)).isNone &&
     !(simplifyPath (base ++ (if endsWithChar d '/' then d.dropLast else d))).isEmpty))

/-- the directories the `-isystem` values denote for a compiler running in `base` -/
def sysSpec (base : Str) (ds : List Str) : List Str :=
  ds.map fun d => if incIsAbsolute d then d else simplifyPath (base ++ d)

/-- the file settings an entry with directory `dir` and argument vector `args` specifies -/
def specSettings (dir : Str) (args : List Str) : FS :=
  let o := Spec.gcc args {}
  { o.toFS with includePaths := incSpec (entryDir dir) o.includes [],
                systemIncludePaths := sysSpec (entryDir dir) o.sysIncludes }

/-- an entry inside the property's quantifier: it names an accepted source file, its vector is `clean`, its
    `-D` values are representable, its `-I` values plain and its `-isystem` values absolute (the import keeps
    `-isystem` values verbatim, so a relative one is not resolved against `directory`: finding
    `isystem-relative-not-resolved`) -/
def goodEntry (e : Entry) : Bool :=
  match e.file, entryArgs e.args with
  | some f, some args =>
    acceptFile (fromNative f) && clean args && (Spec.gcc args {}).defines.all defOk &&
    (Spec.gcc args {}).includes.all (plainInc (entryDir e.dir)) &&
    (Spec.gcc args {}).sysIncludes.all incIsAbsolute
  | _, _ => false

/-- what the database specifies: one file setting per entry, in order, numbered per path -/
def specImport : List Entry → List FileSetting → List FileSetting
  | [], acc => acc
  | e :: rest, acc =>
    match e.file, entryArgs e.args with
    | some f, some args =>
      let path := entryPath e.dir f
      specImport rest (acc ++ [⟨path, (acc.filter fun x => x.path = path).length, specSettings e.dir args⟩])
    | _, _ => specImport rest acc

end Import

end Cppcheck.GccArgs

import Cppcheck.Model.Wire
import Cppcheck.Model.Trunc
/-
C10 — model of `simplecpp::characterLiteralToLL` (externals/simplecpp/simplecpp.cpp) and of the C library
function it and `std::stoull` are built on, `strtoull`, by its documented behaviour:
  skip isspace characters, one optional sign, for base 16 an optional `0x`/`0X` that is followed by a hex
  digit, then the longest run of digits valid in the base; no digit ⇒ no conversion (end = start);
  magnitude above 2^64−1 ⇒ ULLONG_MAX and ERANGE; a minus sign negates the result modulo 2^64.
The host `char` is signed (x86-64 g++): `static_cast<char>` is modelled as the signed 8-bit wrap.
-/
namespace Cppcheck.CharLit
open Cppcheck.Wire
export Cppcheck.Trunc (toU64 toI64)

def isDigit (c : Char) : Bool := decide (48 ≤ c.toNat) && decide (c.toNat ≤ 57)
def isOctDigit (c : Char) : Bool := decide (48 ≤ c.toNat) && decide (c.toNat ≤ 55)
def isXDigit (c : Char) : Bool :=
  isDigit c || (decide (97 ≤ c.toNat) && decide (c.toNat ≤ 102)) || (decide (65 ≤ c.toNat) && decide (c.toNat ≤ 70))
/-- `isspace` in the "C" locale -/
def isSpace (c : Char) : Bool := c.toNat = 32 || (decide (9 ≤ c.toNat) && decide (c.toNat ≤ 13))

/-- digit value of `c` in `base` (letters count up to base 36 as in strtoull) -/
def digitOf (base : Nat) (c : Char) : Option Nat :=
  let v : Option Nat :=
    if isDigit c then some (c.toNat - 48)
    else if decide (97 ≤ c.toNat) && decide (c.toNat ≤ 122) then some (c.toNat - 87)
    else if decide (65 ≤ c.toNat) && decide (c.toNat ≤ 90) then some (c.toNat - 55)
    else none
  match v with
  | some d => if d < base then some d else none
  | none => none

/-- longest digit prefix: (accumulated value, digits consumed) -/
def digitsGo (base : Nat) : Nat → Nat → Str → Nat × Nat
  | acc, n, [] => (acc, n)
  | acc, n, c :: r =>
    match digitOf base c with
    | some d => digitsGo base (acc * base + d) (n + 1) r
    | none => (acc, n)

structure Strto where
  value : Nat       -- the returned unsigned long long
  consumed : Nat    -- end − start (0: no conversion)
  overflow : Bool   -- errno == ERANGE
  deriving DecidableEq, Repr, Inhabited

def skipSpaces : Str → Nat → Str × Nat
  | [], n => ([], n)
  | c :: r, n => if isSpace c then skipSpaces r (n + 1) else (c :: r, n)

/-- one optional sign: (negative, rest, characters consumed) -/
def splitSign : Str → Bool × Str × Nat
  | c :: r => if c == '-' then (true, r, 1) else if c == '+' then (false, r, 1) else (false, c :: r, 0)
  | [] => (false, [], 0)

/-- optional `0x`/`0X` (base 16 only) — skipped only when a hex digit follows; otherwise the "0" alone is converted -/
def skipPfx (base : Nat) (s : Str) : Str × Nat :=
  if base = 16 then
    match s with
    | '0' :: x :: h :: r => if (x == 'x' || x == 'X') && (digitOf 16 h).isSome then (h :: r, 2) else (s, 0)
    | _ => (s, 0)
  else (s, 0)

/-- `strtoull(s, &end, base)` for base 8, 10, 16 -/
def strtoull (base : Nat) (s : Str) : Strto :=
  let (s1, nws) := skipSpaces s 0
  let (neg, s2, nsign) := splitSign s1
  let (s3, npfx) := skipPfx base s2
  let (v, nd) := digitsGo base 0 0 s3
  if nd = 0 then ⟨0, 0, false⟩
  else if v ≥ 2 ^ 64 then ⟨2 ^ 64 - 1, nws + nsign + npfx + nd, true⟩
  else ⟨if neg then (2 ^ 64 - v) % 2 ^ 64 else v, nws + nsign + npfx + nd, false⟩

/-- the `std::runtime_error`s of characterLiteralToLL -/
inductive CErr
  | expectedLiteral | rawQuote | multiWide | unexpectedEnd | expectedDigit | codePointTooLarge | surrogate
  | invalidEscape | invalidUtf8 | utf8Ends | numericTooLarge | missingQuote | empty | fuel
  deriving DecidableEq, Repr, Inhabited

inductive Kind | narrow | utf8 | utf16 | wide
  deriving DecidableEq, Repr, Inhabited

/-- `stringToULLbounded(s, pos, base, minlen, maxlen)`: value and number of characters consumed.
    Since bed3bd1 only the leading digits of the base are handed to strtoull; `pre = true` is the function before that
    commit (the whole rest of the literal went to strtoull, which skips white space, a sign and a `0x` prefix). -/
def stringToULLbounded (rest : Str) (base : Nat) (minlen : Nat) (maxlen : Option Nat) (pre : Bool := false) :
    Except CErr (Nat × Nat) :=
  let sub := match maxlen with | some m => rest.take m | none => rest
  let sub := if pre then sub
    else if base = 8 then sub.takeWhile isOctDigit
    else if base = 16 then sub.takeWhile isXDigit
    else sub
  let r := strtoull base sub
  if r.consumed < minlen then .error .expectedDigit else .ok (r.value, r.consumed)

/-- continuation bytes of an assumed UTF-8 sequence; `rest` is `str.drop pos` -/
def utf8Tail : Nat → Nat → Str → Except CErr (Nat × Str)
  | 0, value, rest => .ok (value, rest)
  | k + 1, value, rest =>
    -- `if (pos + 1 >= str.size())`
    if rest.length ≤ 1 then .error .utf8Ends
    else
      match rest with
      | [] => .error .utf8Ends
      | ch :: rest' =>
        let c := ch.toNat % 256
        -- `additional_bytes` has already been decremented when the checks run
        if c / 64 ≠ 2 || (value = 0 && k = 1 && c < 0xa0) || (value = 0 && k = 2 && c < 0x90) then .error .invalidUtf8
        else utf8Tail k (value * 64 ||| (c &&& 127)) rest'

def simpleEscape (e : Char) : Option Nat :=
  if e == '%' || e == '(' || e == '[' || e == '{' || e == '\'' || e == '"' || e == '?' || e == '\\' then some (e.toNat % 256)
  else if e == 'a' then some 7 else if e == 'b' then some 8 else if e == 'f' then some 12
  else if e == 'n' then some 10 else if e == 'r' then some 13 else if e == 't' then some 9 else if e == 'v' then some 11
  else if e == 'e' || e == 'E' then some 27
  else none

/-- one iteration of the `while (pos + 1 < str.size())` body after the two leading checks:
    returns the value of the element and the remaining string -/
def element (k : Kind) (rest : Str) (pre : Bool := false) : Except CErr (Nat × Str) :=
  match rest with
  | [] => .error .fuel
  | c :: r1 =>
    if c == '\\' then
      match r1 with
      | [] => .error .unexpectedEnd
      | escape :: r2 =>
        if r2.isEmpty then .error .unexpectedEnd       -- `if (pos >= str.size())`
        else
          match simpleEscape escape with
          | some v => .ok (v, r2)
          | none =>
            if isOctDigit escape then
              match stringToULLbounded r1 8 1 (some 3) pre with
              | .ok (v, n) => .ok (v, r1.drop n)
              | .error e => .error e
            else if escape == 'x' then
              match stringToULLbounded r2 16 1 none pre with
              | .ok (v, n) => .ok (v, r2.drop n)
              | .error e => .error e
            else if escape == 'u' || escape == 'U' then
              let nd := if escape == 'u' then 4 else 8
              match stringToULLbounded r2 16 nd (some nd) pre with
              | .ok (v, n) =>
                if ((k == .narrow || k == .utf8) && v > 0x7f) || (k == .utf16 && v > 0xffff) || v > 0x10ffff then .error .codePointTooLarge
                else if v ≥ 0xd800 && v ≤ 0xdfff then .error .surrogate
                else .ok (v, r2.drop n)
              | .error e => .error e
            else .error .invalidEscape
    else
      let value := c.toNat % 256
      if k != .narrow && value ≥ 0x80 then
        if value ≥ 0xf5 then .error .invalidUtf8
        else
          let add := if value ≥ 0xf0 then 3 else if value ≥ 0xe0 then 2 else if value ≥ 0xc2 then 1 else 0
          if add = 0 then .error .invalidUtf8
          else
            match utf8Tail add (value &&& ((1 <<< (6 - add)) - 1)) r1 with
            | .error e => .error e
            | .ok (v, r2) =>
              if v ≥ 0xd800 && v ≤ 0xdfff then .error .invalidUtf8
              else if (k == .utf8 && v > 0x7f) || (k == .utf16 && v > 0xffff) || v > 0x10ffff then .error .codePointTooLarge
              else .ok (v, r2)
      else .ok (value, r1)

/-- the main loop; `rest = str.drop pos`.  Every iteration consumes at least one character, `fuel` ≥ length. -/
def loop (k : Kind) (pre : Bool := false) : Nat → Str → Nat → Nat → Except CErr (Nat × Nat × Str)
  | 0, _, _, _ => .error .fuel
  | fuel + 1, rest, multivalue, nbytes =>
    if rest.length < 2 then .ok (multivalue, nbytes, rest)
    else
      match rest with
      | [] => .ok (multivalue, nbytes, rest)
      | c :: _ =>
        if c == '\'' || c == '\n' then .error .rawQuote
        else if nbytes ≥ 1 && k != .narrow then .error .multiWide
        else
          match element k rest pre with
          | .error e => .error e
          | .ok (value, rest') =>
            if ((k == .narrow || k == .utf8) && value > 255) || (k == .utf16 && value / 2 ^ 16 ≠ 0) || value / 2 ^ 32 ≠ 0 then
              .error .numericTooLarge
            else loop k pre fuel rest' ((multivalue * 256 % 2 ^ 64) ||| value) (nbytes + 1)

/-- `simplecpp::characterLiteralToLL(str)` -/
def characterLiteralToLL (s : Str) (pre : Bool := false) : Except CErr Int :=
  let start : Option (Kind × Str) :=
    match s with
    | '\'' :: r => some (.narrow, r)
    | 'u' :: '\'' :: r => some (.utf16, r)
    | 'u' :: '8' :: '\'' :: r => some (.utf8, r)
    | 'L' :: '\'' :: r => some (.wide, r)
    | 'U' :: '\'' :: r => some (.wide, r)
    | _ => none
  match start with
  | none => .error .expectedLiteral
  | some (k, body) =>
    match loop k pre (body.length + 1) body 0 0 with
    | .error e => .error e
    | .ok (multivalue, nbytes, rest) =>
      if rest != ['\''] then .error .missingQuote
      else if nbytes = 0 then .error .empty
      else if k == .narrow && nbytes = 1 then .ok (Int.bmod (multivalue : Int) 256)        -- static_cast<char>, host char signed
      else if k == .narrow then .ok (Int.bmod (multivalue : Int) (2 ^ 32))                -- static_cast<int>
      else .ok (multivalue : Int)

/-! ## Specification side: abstract syntax of a character literal and its value

ISO C 6.4.4.4 / C++ [lex.ccon] (+ the GNU escapes `\e \E \% \( \[ \{` the code accepts): a prefix and a sequence
of c-chars, each a plain source character, a simple escape, an octal escape of 1–3 digits, a hexadecimal
escape, or a universal character name.  The value of a one-character literal is the value of its element
(converted to `char` for the unprefixed kind); an unprefixed literal with several c-chars is a
multi-character constant of type `int`, valued as gcc and clang do: each c-char shifts the previous value
left by 8 bits, the result is converted to `int`. -/

def digitVal (c : Char) : Nat :=
  if isDigit c then c.toNat - 48 else if 97 ≤ c.toNat then c.toNat - 87 else c.toNat - 55

/-- positional value of a digit string, most significant digit first -/
def positional (r : Nat) : Str → Nat
  | [] => 0
  | c :: cs => digitVal c * r ^ cs.length + positional r cs

/-- simple escape sequences: the ISO table followed by the GNU extensions -/
def escTable : List (Char × Nat) :=
  [('\'', 39), ('"', 34), ('?', 63), ('\\', 92), ('a', 7), ('b', 8), ('f', 12), ('n', 10), ('r', 13), ('t', 9), ('v', 11),
   ('e', 27), ('E', 27), ('%', 37), ('(', 40), ('[', 91), ('{', 123)]

inductive CElem
  | plain (c : Char)
  | simple (e : Char)
  | oct (ds : Str)
  | hex (ds : Str)
  | ucn4 (ds : Str)
  | ucn8 (ds : Str)
  deriving DecidableEq, Repr, Inhabited

def CElem.render : CElem → Str
  | .plain c => [c]
  | .simple e => ['\\', e]
  | .oct ds => '\\' :: ds
  | .hex ds => '\\' :: 'x' :: ds
  | .ucn4 ds => '\\' :: 'u' :: ds
  | .ucn8 ds => '\\' :: 'U' :: ds

def CElem.value : CElem → Nat
  | .plain c => c.toNat
  | .simple e => (escTable.lookup e).getD 0
  | .oct ds => positional 8 ds
  | .hex ds => positional 16 ds
  | .ucn4 ds => positional 16 ds
  | .ucn8 ds => positional 16 ds

/-- largest value a numeric escape may have for the literal kind (the code unit range) -/
def Kind.maxNumeric : Kind → Nat
  | .narrow => 255 | .utf8 => 255 | .utf16 => 0xffff | .wide => 0xffffffff

/-- largest code point a universal character name may name so that it fits one code unit -/
def Kind.maxUcn : Kind → Nat
  | .narrow => 0x7f | .utf8 => 0x7f | .utf16 => 0xffff | .wide => 0x10ffff

def CElem.WF (k : Kind) : CElem → Bool
  | .plain c => decide (0x20 ≤ c.toNat) && decide (c.toNat ≤ 0x7e) && c != '\'' && c != '\\'
  | .simple e => (escTable.lookup e).isSome
  | .oct ds => decide (1 ≤ ds.length) && decide (ds.length ≤ 3) && ds.all isOctDigit && decide (positional 8 ds ≤ k.maxNumeric)
  | .hex ds => decide (1 ≤ ds.length) && ds.all isXDigit && decide (positional 16 ds ≤ k.maxNumeric)
  | .ucn4 ds => ds.length == 4 && ds.all isXDigit && decide (positional 16 ds ≤ k.maxUcn) &&
      !(decide (0xd800 ≤ positional 16 ds) && decide (positional 16 ds ≤ 0xdfff))
  | .ucn8 ds => ds.length == 8 && ds.all isXDigit && decide (positional 16 ds ≤ k.maxUcn) &&
      !(decide (0xd800 ≤ positional 16 ds) && decide (positional 16 ds ≤ 0xdfff))

/-- maximal munch: a numeric escape is not followed by a plain character that would lex as one more digit of it
    (such a spelling denotes a different element list) -/
def adjOk : List CElem → Bool
  | .oct ds :: .plain c :: rest => !(decide (ds.length < 3) && isOctDigit c) && adjOk (.plain c :: rest)
  | .hex _ :: .plain c :: rest => !isXDigit c && adjOk (.plain c :: rest)
  | _ :: rest => adjOk rest
  | [] => true

/-- the spelling `\x0` `x` hex-digit, e.g. `'\x0x4'` (three c-chars for a compiler) — the inputs the pre-bed3bd1 function got wrong -/
def hex0x : List CElem → Bool
  | .hex ds :: .plain x :: .plain h :: rest =>
    (ds == ['0'] && (x == 'x' || x == 'X') && isXDigit h) || hex0x (.plain x :: .plain h :: rest)
  | _ :: rest => hex0x rest
  | [] => false

structure CharLit where
  kind : Kind
  elems : List CElem
  deriving DecidableEq, Repr, Inhabited

def Kind.pfx : Kind → Str
  | .narrow => [] | .utf8 => ['u', '8'] | .utf16 => ['u'] | .wide => ['L']

def renderElems (es : List CElem) : Str := (es.map CElem.render).flatten

def CharLit.render (c : CharLit) : Str := c.kind.pfx ++ ['\''] ++ renderElems c.elems ++ ['\'']

def CharLit.WF (c : CharLit) : Bool :=
  !c.elems.isEmpty && (c.kind == .narrow || c.elems.length == 1) && c.elems.all (CElem.WF c.kind) && adjOk c.elems

/-- value by the rules above; `char` and `int` are the host's (signed 8 / 32 bit), as in the code -/
def CharLit.value (c : CharLit) : Int :=
  let v : Nat := c.elems.foldl (fun acc e => acc * 256 + e.value) 0
  if c.kind = .narrow then (if c.elems.length = 1 then Int.bmod v 256 else Int.bmod v (2 ^ 32)) else v

end Cppcheck.CharLit

import Cppcheck.Model.Wire
/-
C32 — model of `ImportProject::collectArgs` (lib/importproject.cpp:46): the splitter that turns the
"command" string of a compile_commands.json entry into an argument vector, and of the quoting styles
build systems use to produce such strings.

Byte strings are `List Char` (codes < 256).  The automaton is copied statement by statement:

    while (pos < end) {
        c = cmd[pos++];
        if (c == ' ')  { if (inDQ || inSQ) { arg += c; continue; }
                         if (!arg.empty()) args.push_back(arg); arg.clear();
                         pos = cmd.find_first_not_of(' ', pos); continue; }
        if (c == '"'  && !inSQ) { inDQ = !inDQ; continue; }
        if (c == '\'' && !inDQ) { inSQ = !inSQ; continue; }
        if (c == '\\' && !inSQ) { if (pos == end) { arg += '\\'; break; }
                                  c = cmd[pos++];
                                  if (!strchr("\\\"\' ", c)) arg += '\\';
                                  arg += c; continue; }
        arg += c;
    }
    if (inSQ || inDQ) return "Missing closing quote in command string";
    if (!arg.empty()) args.push_back(arg);

Three remarks on faithfulness:
* the inner `c = cmd[pos++]` after a backslash is modelled by the state bit `esc` of `go` ("the previous
  character was a backslash outside single quotes"): the next character is consumed by the same loop
  iteration in the code and by the next step of `go` in the model; at the end of the input `esc` selects
  the `pos == end` branch (push the backslash, `break`);
* `find_first_not_of(' ')` skips a run of blanks at once; the model consumes them one by one, which is
  the same function because a blank seen outside quotes with an empty `arg` pushes nothing;
* `strchr(s, c)` also finds the terminating NUL of `s`, so a backslash in front of a NUL byte is dropped
  like one in front of `\ " '` or blank; `isEscapable` copies that.
-/
namespace Cppcheck.Shell
open Cppcheck.Wire

/-- `strchr("\\\"\' ", c) != nullptr` (the terminating NUL of the literal is found as well) -/
def isEscapable (c : Char) : Bool :=
  c == '\\' || c == '"' || c == '\'' || c == ' ' || c == Char.ofNat 0

/-- `if (!arg.empty()) args.push_back(arg)` -/
def flush (arg : Str) (args : List Str) : List Str :=
  if arg.isEmpty then args else args ++ [arg]

/-- result of `collectArgs`: the error string is fixed, so only its presence is modelled -/
inductive Res where
  | ok (args : List Str)
  | missingQuote
  deriving DecidableEq, Repr

/-- the loop of `collectArgs`; `dq`/`sq` = `inDoubleQuotes`/`inSingleQuotes`, `arg` the argument being
    accumulated, `args` the finished ones.  `esc` = the previous character was a backslash outside single
    quotes and the loop body is about to execute its inner `c = cmd[pos++]` (at the end of the input:
    the `pos == end` branch, which pushes the backslash and leaves the loop). -/
def go : List Char → (dq sq esc : Bool) → (arg : Str) → (args : List Str) → Res
  | [], dq, sq, esc, arg, args =>
    if sq || dq then .missingQuote else .ok (flush (if esc then arg ++ ['\\'] else arg) args)
  | c :: rest, dq, sq, true, arg, args =>
    go rest dq sq false (if isEscapable c then arg ++ [c] else arg ++ ['\\', c]) args
  | c :: rest, dq, sq, false, arg, args =>
    if c = ' ' then
      if dq || sq then go rest dq sq false (arg ++ [c]) args
      else go rest dq sq false [] (flush arg args)
    else if c = '"' ∧ sq = false then go rest (!dq) sq false arg args
    else if c = '\'' ∧ dq = false then go rest dq (!sq) false arg args
    else if c = '\\' ∧ sq = false then go rest dq sq true arg args
    else go rest dq sq false (arg ++ [c]) args

def collectArgs (cmd : Str) : Res := go cmd false false false [] []

/-! ### quoting styles a build system produces -/

/-- how one argument is written into the command string -/
inductive Style where
  | bare    -- as is (only allowed for arguments without blank, quote characters and backslash)
  | dq      -- "…" with \\ and \" escaped (CMake / Ninja style)
  | sq      -- '…' with ' written as '\''  (POSIX sh style)
  | shlex   -- '…' with ' written as '"'"' (python shlex.quote, Meson)
  | esc     -- every character written as \c, outside quotes (only for the characters \ " ' blank — and NUL —
            -- in front of which `collectArgs` removes the backslash; CMake: -DV=\"1.0\", a\ b)
  deriving DecidableEq, Repr

/-- characters that may appear in an argument written bare -/
def bareChar (c : Char) : Bool := !(c == ' ' || c == '"' || c == '\'' || c == '\\')

def bareOk (a : Str) : Bool := a.all bareChar

def escDq : Str → Str
  | [] => []
  | c :: r => if c = '\\' ∨ c = '"' then '\\' :: c :: escDq r else c :: escDq r

def escSq : Str → Str
  | [] => []
  | c :: r => if c = '\'' then '\'' :: '\\' :: '\'' :: '\'' :: escSq r else c :: escSq r

def escShlex : Str → Str
  | [] => []
  | c :: r => if c = '\'' then '\'' :: '"' :: '\'' :: '"' :: '\'' :: escShlex r else c :: escShlex r

def escBs : Str → Str
  | [] => []
  | c :: r => '\\' :: c :: escBs r

def quoteArg : Style → Str → Str
  | .esc, a => escBs a
  | .bare, a => a
  | .dq, a => '"' :: (escDq a ++ ['"'])
  | .sq, a => '\'' :: (escSq a ++ ['\''])
  | .shlex, a => '\'' :: (escShlex a ++ ['\''])

/-- `n` blanks -/
def blanks (n : Nat) : Str := List.replicate n ' '

/-- the command string: every argument written in its own style, preceded by `pad` + 1 blanks (none in
    front of the first) -/
def quote : List (Style × Nat × Str) → Str
  | [] => []
  | (sty, _, a) :: r => quoteArg sty a ++ quoteTail r
where
  quoteTail : List (Style × Nat × Str) → Str
    | [] => []
    | (sty, pad, a) :: r => ' ' :: (blanks pad ++ (quoteArg sty a ++ quoteTail r))

/-- the hypothesis of `split_quote`: arguments are non-empty, and one written bare needs no quoting -/
def argOk (x : Style × Nat × Str) : Bool :=
  !x.2.2.isEmpty && (x.1 != .bare || bareOk x.2.2) && (x.1 != .esc || x.2.2.all isEscapable)

/-! ### per-segment quoting: one argument written as a sequence of differently quoted pieces
    (`-DMSG="a b"` = bare `-DMSG=` + dq `a b`;  `-DV=\"1.0\"` = bare + esc + bare + esc) -/

/-- one piece of an argument may be written in the given style -/
def segOk (x : Style × Str) : Bool :=
  (x.1 != .bare || bareOk x.2) && (x.1 != .esc || x.2.all isEscapable)

def quoteSegs : List (Style × Str) → Str
  | [] => []
  | (sty, a) :: r => quoteArg sty a ++ quoteSegs r

/-- the argument a sequence of pieces stands for -/
def segText : List (Style × Str) → Str
  | [] => []
  | (_, a) :: r => a ++ segText r

/-- the command string of a vector of segmented arguments (`pad` + 1 blanks in front of all but the first) -/
def quoteCmd : List (Nat × List (Style × Str)) → Str
  | [] => []
  | (_, segs) :: r => quoteSegs segs ++ cmdTail r
where
  cmdTail : List (Nat × List (Style × Str)) → Str
    | [] => []
    | (pad, segs) :: r => ' ' :: (blanks pad ++ (quoteSegs segs ++ cmdTail r))

/-- hypothesis of `split_quote_partial`: the argument is non-empty and every piece may be written in its style -/
def segsOk (x : Nat × List (Style × Str)) : Bool :=
  !(segText x.2).isEmpty && x.2.all segOk

end Cppcheck.Shell

import Cppcheck.Model.Trunc
/-
C01 — transfer functions of constant folding, copied branch for branch from the code:
  * `calculate<R,T>`            lib/calculate.h           (T = MathLib::bigint = long long, and T = int as used by infer.cpp)
  * `ValueFlow::castValue`      lib/vf_common.cpp         (integer part)
  * the "Calculations.." / `~` / unary minus / `!` / `++` / `--` branches of `setTokenValue`, lib/vf_settokenvalue.cpp,
    for Known integer operands (`foldBinary`, `foldIncDec`; the unary branches are C10's `Trunc.foldUnary`)
  * the transfer of an Impossible value through a compound assignment in forward analysis
    (`ValueFlowAnalyzer::isWritable` / `writeValue` / `evalAssignment`, lib/vf_analyzers.cpp): `carryOps`, `carryImpossible`
A `bigint` is an `Int` in [-2^63, 2^63).  Signed overflow in the C++ is undefined behaviour; the objects built from the
working tree (-O1, g++) wrap, and the model wraps (`wrap64`); the theorems never rely on a wrapped result.
-/
namespace Cppcheck.Calc
open Cppcheck.Trunc

inductive Op
  | add | sub | mul | div | mod | band | bor | bxor | gt | lt | shl | shr | land | lor | eq | ne | ge | le | cmp3
  deriving DecidableEq, Repr, Inhabited

def Op.all : List Op :=
  [.add, .sub, .mul, .div, .mod, .band, .bor, .bxor, .gt, .lt, .shl, .shr, .land, .lor, .eq, .ne, .ge, .le, .cmp3]

/-- the operator spellings `MathLib::encodeMultiChar` distinguishes in the `switch` -/
def Op.ofString : String → Option Op
  | "+" => some .add | "-" => some .sub | "*" => some .mul | "/" => some .div | "%" => some .mod
  | "&" => some .band | "|" => some .bor | "^" => some .bxor | ">" => some .gt | "<" => some .lt
  | "<<" => some .shl | ">>" => some .shr | "&&" => some .land | "||" => some .lor | "==" => some .eq
  | "!=" => some .ne | ">=" => some .ge | "<=" => some .le | "<=>" => some .cmp3 | _ => none

def Op.toString : Op → String
  | .add => "+" | .sub => "-" | .mul => "*" | .div => "/" | .mod => "%" | .band => "&" | .bor => "|" | .bxor => "^"
  | .gt => ">" | .lt => "<" | .shl => "<<" | .shr => ">>" | .land => "&&" | .lor => "||" | .eq => "==" | .ne => "!="
  | .ge => ">=" | .le => "<=" | .cmp3 => "<=>"

def Op.isComparison : Op → Bool
  | .gt | .lt | .eq | .ne | .ge | .le => true
  | _ => false

/-- what a 64-bit two's complement machine leaves in the register (signed overflow is UB in the C++) -/
def wrap64 (v : Int) : Int := Int.bmod v (2 ^ 64)

def minI64 : Int := -(2 ^ 63)
def maxI64 : Int := 2 ^ 63 - 1
def inI64 (v : Int) : Prop := minI64 ≤ v ∧ v ≤ maxI64
instance (v : Int) : Decidable (inI64 v) := by unfold inI64; exact inferInstance

def b2i (b : Bool) : Int := if b then 1 else 0

/-- `calculate<bigint>(s, x, y, &error)`; `none` = `*error = true`.
    `maxBitsSignedShift` = 63.  The bit operators act on the 64-bit two's complement patterns (`toU64` / `toI64`). -/
def calculate (op : Op) (x y : Int) : Option Int :=
  match op with
  | .add => some (wrap64 (x + y))
  | .sub => some (wrap64 (x - y))
  | .mul => some (wrap64 (x * y))
  | .div => if y = 0 ∨ y < 0 then none else some (Int.tdiv x y)
  | .mod => if y = 0 ∨ y < 0 then none else some (Int.tmod x y)
  | .band => some (toI64 (toU64 x &&& toU64 y))
  | .bor => some (toI64 (toU64 x ||| toU64 y))
  | .bxor => some (toI64 (toU64 x ^^^ toU64 y))
  | .gt => some (b2i (decide (x > y)))
  | .lt => some (b2i (decide (x < y)))
  | .shl => if y ≥ 63 ∨ y < 0 ∨ x < 0 then none else some (wrap64 (x * 2 ^ y.toNat))
  | .shr => if y ≥ 63 ∨ y < 0 ∨ x < 0 then none else some (x / 2 ^ y.toNat)
  | .land => some (b2i (x != 0 && y != 0))
  | .lor => some (b2i (x != 0 || y != 0))
  | .eq => some (b2i (x == y))
  | .ne => some (b2i (x != y))
  | .ge => some (b2i (decide (x ≥ y)))
  | .le => some (b2i (decide (x ≤ y)))
  | .cmp3 => some (wrap64 (x - y))

/-- `calculate(op, x, y)` without an error pointer: the error branches `return R{}` -/
def calculateNoErr (op : Op) (x y : Int) : Int := (calculate op x y).getD 0

/-- `ValueFlow::castValue(value, sign, bit)` for an integer value.  `none`: `bit = 0` with a signed destination shifts by
    `bit - 1` = 0xFFFFFFFF (undefined; never requested by the callers, which pass platform bit counts). -/
def castValue (v : Int) (signed : Bool) (bit : Nat) : Option Int :=
  if bit < 64 then
    let mask : Nat := 2 ^ bit - 1
    let u : Nat := toU64 v &&& mask
    if signed then
      if bit = 0 then none
      else if u &&& 2 ^ (bit - 1) ≠ 0 then some (toI64 (u ||| (2 ^ 64 - 1 - mask))) else some (toI64 u)
    else some (toI64 u)
  else some v

/-! ## folding of Known integer operands in `setTokenValue` -/

/-- "Calculations.." branch for two Known INT values: the value attached to the operator token is the raw 64-bit
    result of `calculate` (`error` ⇒ no value).  No truncation to the type of the operation happens here (F5);
    `truncateImplicitConversion` only looks at the *parent* of the token the value is attached to. -/
def foldBinary (op : Op) (a b : Int) : Option Int := calculate op a b

/- The unary branches (`!`, `~`, unary minus) of `setTokenValue` are modelled by C10: `Cppcheck.Trunc.foldUnary`, with the C
   specification `Cppcheck.Trunc.cUnary` / `promote` and the theorems `fold_lnot`, `fold_bnot_partial`, `fold_neg_partial` (+ their
   counterexamples) in Props/C10.lean.  C01 does not copy them; its end-to-end tie exercises them on narrow operands
   (`~ - !` on (un)signed char / short variables and casts, vlib/props/c01.py `make_unary_program`). -/

/-- prefix `++` / `--` on a Point value with a typed operand: `truncateIntValue(v ± 1, sizeof, sign)` -/
def foldIncDec (inc : Bool) (a : Int) (size : Nat) (signed : Bool) : Option Int :=
  truncateIntValue (wrap64 (if inc then a + 1 else a - 1)) size signed

/-! ## an Impossible value carried through `x op= k` / `++x` / `--x` by forward analysis -/

/-- the operators of the guard `value->isImpossible() && !Token::Match(parent, "+=|-=|*=|++|--")` in
    `ValueFlowAnalyzer::isWritable` (compared with the source on every run by the translator in c01.py) -/
def carryOps : List String := ["+=", "-=", "*=", "++", "--"]

/-- `writeValue`: the new `intvalue` of an Impossible value `v` of `x` after `x op= k` (`evalAssignment` = `calculate` with the
    operator without `=`; an error makes the value invalid) resp. `++x` / `--x` (`intvalue ± 1`; truncation to the type is
    the identity on the `int`-and-wider values the theorems talk about).  The bound (Point / Lower / Upper) is left as it is.
    `none`: the value is not carried (operator not in the list, or `calculate` reports an error). -/
def carryImpossible (op : String) (k v : Int) : Option Int :=
  if carryOps.contains op then
    match op with
    | "+=" => calculate .add v k
    | "-=" => calculate .sub v k
    | "*=" => calculate .mul v k
    | "++" => some (wrap64 (v + 1))
    | "--" => some (wrap64 (v - 1))
    | _ => none
  else none

end Cppcheck.Calc

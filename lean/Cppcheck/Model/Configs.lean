/-
C12 — executable model of configuration extraction and selection.

Copied from /repo (lib/preprocessor.cpp, lib/cppcheck.cpp, lib/settings.h, cli/cmdlineparser.cpp):

  `hasDefine`, `cfg`, `isUndefined`, `getConfigsElseIsFalse`, `gotoEndIf`, the static
  `getConfigs(tokens, defined, userDefines, undefined, ret)` fold and `Preprocessor::getConfigs`
  (restricted to the directive alphabet below), `splitcfg`, `Settings::getMaxConfigs`, `split` and the
  configuration loop of `CppCheck::checkInternal` (selection of the analysed configurations and the
  composition of `currentConfig`).

The model copies what the code does, including
  * F16: `#if !defined(X)` pushes the entry `X` on `configs_if` (only `cmdtok->str() == "ifndef"`
    fills `configs_ifndef`).
`Flags.code` (`fixElse` on) is the fold as it is since /repo commit 4aed040: at `#else` the `configs_if`
entry is popped and either the `#ifndef` candidate or an empty entry is pushed, so that the vector keeps
one entry per open conditional.  `Flags.old` (both off) is the fold before that commit (F15: nothing was
pushed unless the candidate was new, the matching `#endif` then popped the enclosing level); it is kept
only for the counterexample theorem and so that a regression to it is recognised.  `fixNotDef` is a
repair of F16 that is modelled but not in the code.

Strings are `List Char` with codes < 256.  No Mathlib, executable definitions only.
-/
namespace Cppcheck.Configs

abbrev Str := List Char

/-! ### std::string helpers -/

/-- `std::string::operator<` (byte-wise lexicographic) -/
def strLt : Str → Str → Bool
  | [], [] => false
  | [], _ :: _ => true
  | _ :: _, [] => false
  | a :: as, b :: bs =>
    if a.toNat < b.toNat then true else if b.toNat < a.toNat then false else strLt as bs

/-- `std::set<std::string>::insert` on the sorted, duplicate-free list that represents the set -/
def setInsert (a : Str) : List Str → List Str
  | [] => [a]
  | b :: bs => if a = b then b :: bs else if strLt a b then a :: b :: bs else b :: setInsert a bs

/-- `std::set<std::string>(v.begin(), v.end())` -/
def toSet (l : List Str) : List Str := l.foldr setInsert []

/-- `s.find('=') != npos` -/
def hasEq (s : Str) : Bool := s.contains '='
/-- `s.substr(0, s.find('='))` -/
def beforeEq (s : Str) : Str := s.takeWhile (· != '=')
/-- `s.substr(s.find('='))` when an `=` exists -/
def fromEq (s : Str) : Str := s.dropWhile (· != '=')

/-- split at every `;` (never returns the empty list) -/
def splitSemi : Str → List Str
  | [] => [[]]
  | c :: cs =>
    if c = ';' then [] :: splitSemi cs
    else match splitSemi cs with
      | [] => [[c]]
      | p :: ps => (c :: p) :: ps

def dropTrailingEmpty : List Str → List Str
  | [] => []
  | [x] => if x = [] then [] else [x]
  | x :: y :: r => x :: dropTrailingEmpty (y :: r)

/-- the pieces visited by the loops of `splitcfg` and `isUndefined`:
    `for (p1 = 0; p1 < size;) { p2 = find(';', p1); piece = substr(p1, p2 - p1); p1 = p2 == npos ? npos : p2 + 1; }` -/
def pieces (s : Str) : List Str := dropTrailingEmpty (splitSemi s)

/-- `a;b;c` -/
def joinSemi : List Str → Str
  | [] => []
  | [x] => x
  | x :: y :: r => x ++ ';' :: joinSemi (y :: r)

/-- macro name of one `-D`-style piece as simplecpp reads it: `substr(0, min(find('='), find('(')))` -/
def nameOf (p : Str) : Str := p.takeWhile (fun c => c != '=' && c != '(')

/-- the configuration string `c` defines macro `x` (what `createDUI`/`simplecpp::preprocess` make of it) -/
def defines (c : Str) (x : Str) : Bool := ((pieces c).map nameOf).contains x

/-! ### hasDefine / cfg / isUndefined -/

/-- the `while` loop of `hasDefine`: `prev` = `userDefines[pos-1]`, `skip` = characters still to be
    stepped over after a rejected occurrence (`pos = pos2`).  (For an empty `cfgname` the C++ loop does
    not terminate; configurations never start with `=`, see docs.) -/
def hasDefineGo (name : Str) : Option Char → Str → Nat → Bool
  | _, [], _ => false
  | _, c :: cs, skip + 1 => hasDefineGo name (some c) cs skip
  | prev, c :: cs, 0 =>
    if name.isPrefixOf (c :: cs) then
      let after := (c :: cs).drop name.length
      if (prev = none || prev = some ';') && (after.isEmpty || after.head? = some '=') then true
      else hasDefineGo name (some c) cs (name.length - 1)
    else hasDefineGo name (some c) cs 0

def hasDefine (userDefines cfgStr : Str) : Bool :=
  if cfgStr.isEmpty then false else hasDefineGo (beforeEq cfgStr) none userDefines 0

/-- `cfg(configs, userDefines)`: the loop runs over the sorted set, skips empty and user-defined
    entries and returns "" as soon as it meets "0" — i.e. "" iff "0" occurs at all. -/
def cfg (configs : List Str) (userDefines : Str) : Str :=
  if configs.contains ['0'] then []
  else joinSemi ((toSet configs).filter fun c => !c.isEmpty && !hasDefine userDefines c)

def isUndefinedPiece (undefs : List Str) (d : Str) : Bool :=
  if hasEq d then undefs.contains (beforeEq d) && fromEq d != ['=', '0'] else undefs.contains d

def isUndefined (cfgStr : Str) (undefs : List Str) : Bool := (pieces cfgStr).any (isUndefinedPiece undefs)

def elseIsFalse (ifs : List Str) (userDefines : Str) : Bool := ifs.any (hasDefine userDefines)

/-! ### directives -/

inductive Kind
  | ifdef         -- `#ifdef X`
  | ifndef        -- `#ifndef X`
  | ifDefined     -- `#if defined(X)`
  | ifNotDefined  -- `#if !defined(X)`
  deriving DecidableEq, Repr

inductive Dir
  | opn (k : Kind) (m : Str)
  | els
  | endif
  | region (r : Nat)
  | define (m : Str)   -- `#define M` (extension, not part of the property's family)
  deriving DecidableEq, Repr

/-- inputs of `Preprocessor::getConfigs`: initial `defined` set (`__cplusplus` + library defines),
    `Settings::userDefines`, `Settings::userUndefs` -/
structure Inp where
  defined0 : List Str := [['_','_','c','p','l','u','s','p','l','u','s']]
  userDefines : Str := []
  undefs : List Str := []

/-- variants of the fold: `fixElse` = commit 4aed040 (in the code), `fixNotDef` = modelled repair of F16 (not in the code) -/
structure Flags where
  fixElse : Bool := false
  fixNotDef : Bool := false
  deriving DecidableEq, Repr

def Flags.code : Flags := { fixElse := true }
def Flags.old : Flags := {}
def Flags.repaired : Flags := { fixElse := true, fixNotDef := true }

structure St where
  ifs : List Str          -- configs_if, head = back()
  ifndefs : List Str      -- configs_ifndef, head = back()
  ret : List Str          -- the result set
  defined : List Str
  skip : Option Nat       -- `some level` while `gotoEndIf` is scanning
  deriving Repr

/-- the `config` string computed for `#ifdef / #ifndef / #if` (incl. `readcondition` on the two `#if`
    shapes of the family and the `isUndefined` reset) -/
def openConfig (k : Kind) (m : Str) (defined undefs : List Str) : Str :=
  let c : Str := match k with
    | .ifdef => if defined.contains m then [] else m ++ '=' :: m
    | .ifndef => if defined.contains m then [] else m
    | .ifDefined => if !defined.contains m && !undefs.contains m then m ++ '=' :: m else []
    | .ifNotDefined => if !defined.contains m && !undefs.contains m then m else []
  if isUndefined c undefs then [] else c

def pop (l : List Str) : List Str := l.tail

def stepOpen (fl : Flags) (inp : Inp) (s : St) (k : Kind) (m : Str) : St :=
  let config := openConfig k m s.defined inp.undefs
  let asIfndef := k == .ifndef || (fl.fixNotDef && k == .ifNotDefined && !config.isEmpty)
  let push (ret : List Str) : St :=
    let ifs := (if asIfndef then [] else config) :: s.ifs
    { s with ifs := ifs, ifndefs := (if asIfndef then config else []) :: s.ifndefs,
             ret := setInsert (cfg ifs inp.userDefines) ret }
  if asIfndef then push s.ret
  else
    let config2 := if hasEq config then beforeEq config else config ++ '=' :: config
    if s.ret.contains config2 then
      if hasEq config then s            -- `config.clear(); continue;` : nothing is pushed
      else push (s.ret.erase config2)
    else push s.ret

def stepElse (fl : Flags) (inp : Inp) (s : St) : St :=
  if elseIsFalse s.ifs inp.userDefines then { s with skip := some 0 }
  else
    let ifs1 := pop s.ifs
    match s.ifndefs with
    | [] => { s with ifs := ifs1 }
    | cand :: _ =>
      if !s.ret.contains cand then
        let ifs2 := cand :: ifs1
        { s with ifs := ifs2, ret := setInsert (cfg ifs2 inp.userDefines) (s.ret.erase (cand ++ '=' :: cand)) }
      else if fl.fixElse then { s with ifs := [] :: ifs1 }
      else { s with ifs := ifs1 }

def stepEndif (s : St) : St := { s with ifs := pop s.ifs, ifndefs := pop s.ifndefs }

def step (fl : Flags) (inp : Inp) (s : St) (d : Dir) : St :=
  match s.skip with
  | some lvl =>
    match d with
    | .opn _ _ => { s with skip := some (lvl + 1) }
    | .endif => if lvl = 0 then stepEndif { s with skip := none } else { s with skip := some (lvl - 1) }
    | _ => s
  | none =>
    match d with
    | .opn k m => stepOpen fl inp s k m
    | .els => stepElse fl inp s
    | .endif => stepEndif s
    | .region _ => s
    | .define m => { s with defined := m :: s.defined }

def run (fl : Flags) (inp : Inp) (s : St) (ds : List Dir) : St := ds.foldl (step fl inp) s

def St.init (inp : Inp) : St := { ifs := [], ifndefs := [], ret := [[]], defined := inp.defined0, skip := none }

/-- `Preprocessor::getConfigs()` on a single file (elements in `std::set` order) -/
def getConfigsWith (fl : Flags) (inp : Inp) (ds : List Dir) : List Str := (run fl inp (St.init inp) ds).ret

/-- the code as it is -/
def getConfigs (inp : Inp) (ds : List Dir) : List Str := getConfigsWith Flags.code inp ds

/-! ### conditional-inclusion semantics (specification side) -/

/-- conditional structure of a file of the family: a sequence of regions and conditionals -/
inductive Items
  | done
  | region (r : Nat) (rest : Items)
  | cond (k : Kind) (m : Str) (thn : Items) (rest : Items)
  | condElse (k : Kind) (m : Str) (thn els : Items) (rest : Items)
  deriving Repr

def Items.flatten : Items → List Dir
  | .done => []
  | .region r rest => .region r :: rest.flatten
  | .cond k m t rest => .opn k m :: t.flatten ++ .endif :: rest.flatten
  | .condElse k m t e rest => .opn k m :: t.flatten ++ .els :: e.flatten ++ .endif :: rest.flatten

def Kind.holds (k : Kind) (d : Str → Bool) (m : Str) : Bool :=
  match k with
  | .ifdef | .ifDefined => d m
  | .ifndef | .ifNotDefined => !d m

/-- the regions a conforming preprocessor emits when exactly the macros `d` are defined -/
def Items.emit (d : Str → Bool) : Items → List Nat
  | .done => []
  | .region r rest => r :: rest.emit d
  | .cond k m t rest => (if k.holds d m then t.emit d else []) ++ rest.emit d
  | .condElse k m t e rest => (if k.holds d m then t.emit d else e.emit d) ++ rest.emit d

/-- macro `x` is defined when the file is preprocessed for configuration `c` under the user's `-D`/`-U`:
    `createDUI` passes the pieces of `userDefines` and of `c`; `simplecpp::preprocess` drops every name in
    `dui.undefined` -/
def effDefines (inp : Inp) (c : Str) (x : Str) : Bool :=
  (defines inp.userDefines x || defines c x) && !inp.undefs.contains x

/-- region `r` is part of the code analysed in configuration `c` -/
def live (c : Str) (t : Items) (r : Nat) : Bool := (t.emit (defines c)).contains r

def Kind.positive : Kind → Bool
  | .ifdef | .ifDefined => true
  | .ifndef | .ifNotDefined => false

/-- the regions that are part of the code in *some* configuration in which every macro of `pos` is defined and
    none of `neg` is (`pos` = names given by `-D`, `neg` = names given by `-U`); the specification side of
    "coverage under -D and -U" (`reach_spec` in Props/C12.lean) -/
def Items.reach (pos neg : List Str) : Items → List Nat
  | .done => []
  | .region r rest => r :: rest.reach pos neg
  | .cond k m t rest =>
    (if k.positive then (if neg.contains m then [] else t.reach (m :: pos) neg)
     else (if pos.contains m then [] else t.reach pos (m :: neg))) ++ rest.reach pos neg
  | .condElse k m t e rest =>
    (if k.positive then (if neg.contains m then [] else t.reach (m :: pos) neg)
     else (if pos.contains m then [] else t.reach pos (m :: neg))) ++
    (if k.positive then (if pos.contains m then [] else e.reach pos (m :: neg))
     else (if neg.contains m then [] else e.reach (m :: pos) neg)) ++ rest.reach pos neg

def Items.regions : Items → List Nat
  | .done => []
  | .region r rest => r :: rest.regions
  | .cond _ _ t rest => t.regions ++ rest.regions
  | .condElse _ _ t e rest => t.regions ++ e.regions ++ rest.regions

def Items.macros : Items → List Str
  | .done => []
  | .region _ rest => rest.macros
  | .cond _ m t rest => m :: t.macros ++ rest.macros
  | .condElse _ m t e rest => m :: t.macros ++ e.macros ++ rest.macros

/-! ### the class of trees on which the fold keeps what the coverage proof needs

`safeItems fl stk P t` replays, on the tree, the only part of the fold that matters for coverage: the
names on `configs_if` (`stk`, head = back(), `[]` for an empty entry) against the macros `P` the current
branch requires to be defined.  It demands `names stk` = `P` (as sets) at every point where the fold
inserts the configuration a region-carrying branch depends on. -/

/-- how the fold treats a conditional: `pos` pushes `M=M` (then-branch needs `M`), `neg` pushes `` and the
    `#else` pushes `M` (`#ifndef`), `nd` pushes `M` although the then-branch needs `M` undefined (F16) -/
inductive Cls | pos | neg | nd
  deriving DecidableEq, Repr

def cls (fl : Flags) : Kind → Cls
  | .ifdef | .ifDefined => .pos
  | .ifndef => .neg
  | .ifNotDefined => if fl.fixNotDef then .neg else .nd

/-- does `#else ... #endif` of this conditional pop one entry more than was pushed (F15) -/
def dropsAtElse (fl : Flags) (k : Kind) : Bool := !fl.fixElse && cls fl k != .neg

/-- net number of surplus pops performed while the fold walks `t` -/
def loss (fl : Flags) : Items → Nat
  | .done => 0
  | .region _ rest => loss fl rest
  | .cond _ _ t rest => loss fl t + loss fl rest
  | .condElse k _ t e rest => loss fl t + loss fl e + (if dropsAtElse fl k then 1 else 0) + loss fl rest

def names (stk : List Str) : List Str := stk.filter fun e => !e.isEmpty

def sameSet (a b : List Str) : Bool := a.all b.contains && b.all a.contains

/-- the stack inside an `#else` branch that pushes no candidate, `a` = loss of the then-branch -/
def elseStack (fl : Flags) (stk : List Str) (a : Nat) : List Str :=
  (if fl.fixElse then [[]] else []) ++ stk.drop a

/-- check at the `#if` line for a then-branch that carries a region; `rec stk' P'` = the branch itself -/
def thenCheck (fl : Flags) (k : Kind) (m : Str) (stk P : List Str) (rec : List Str → List Str → Bool) : Bool :=
  match cls fl k with
  | .pos => sameSet (names stk) P && rec (m :: stk) (m :: P)
  | .neg => rec ([] :: stk) P
  | .nd => rec (m :: stk) P

/-- check for an else-branch that carries a region; `a` = loss of the then-branch -/
def elseCheck (fl : Flags) (k : Kind) (m : Str) (stk P : List Str) (a : Nat) (rec : List Str → List Str → Bool) : Bool :=
  match cls fl k with
  | .pos => rec (elseStack fl stk a) P
  | .neg => sameSet (names (stk.drop a)) P && rec (m :: stk.drop a) (m :: P)
  | .nd => sameSet (names stk) P && rec (elseStack fl stk a) (m :: P)

def safeItems (fl : Flags) : List Str → List Str → Items → Bool
  | _, _, .done => true
  | stk, P, .region _ rest => safeItems fl stk P rest
  | stk, P, .cond k m t rest =>
    (t.regions.isEmpty || thenCheck fl k m stk P (fun stk' P' => safeItems fl stk' P' t)) &&
    safeItems fl (stk.drop (loss fl t)) P rest
  | stk, P, .condElse k m t e rest =>
    (t.regions.isEmpty || thenCheck fl k m stk P (fun stk' P' => safeItems fl stk' P' t)) &&
    (e.regions.isEmpty || elseCheck fl k m stk P (loss fl t) (fun stk' P' => safeItems fl stk' P' e)) &&
    safeItems fl (stk.drop (loss fl t + loss fl e + (if dropsAtElse fl k then 1 else 0))) P rest

/-- the decidable class: trees on which the fold of variant `fl` provably covers every region -/
def safe (fl : Flags) (t : Items) : Bool := safeItems fl [] [] t

/-- no conditional inside -/
def Items.flat : Items → Bool
  | .done => true
  | .region _ rest => rest.flat
  | _ => false

/-- every `#if !defined(X)` conditional contains regions only -/
def ndLeaf : Items → Bool
  | .done => true
  | .region _ rest => ndLeaf rest
  | .cond k _ t rest => (if k = .ifNotDefined then t.flat else ndLeaf t) && ndLeaf rest
  | .condElse k _ t e rest => (if k = .ifNotDefined then t.flat && e.flat else ndLeaf t && ndLeaf e) && ndLeaf rest

/-- no `#else` on a conditional other than `#ifndef` -/
def noDropElse : Items → Bool
  | .done => true
  | .region _ rest => noDropElse rest
  | .cond _ _ t rest => noDropElse t && noDropElse rest
  | .condElse k _ t e rest => k == .ifndef && noDropElse t && noDropElse e && noDropElse rest

/-- a syntactic class inside `safe Flags.old`: `#if !defined` conditionals contain regions only, and an
    `#else` of `#ifdef` / `#if defined` / `#if !defined` occurs only on top-level conditionals -/
def simpleElse : Items → Bool
  | .done => true
  | .region _ rest => simpleElse rest
  | .cond _ _ t rest => noDropElse t && simpleElse rest
  | .condElse _ _ t e rest => noDropElse t && noDropElse e && simpleElse rest

/-- a macro name the string functions treat as one unit: non-empty, free of `;`, `=`, `(`, and not the
    literal `0` (every C identifier qualifies) -/
def okName (m : Str) : Bool :=
  !m.isEmpty && m.all (fun c => c != ';' && c != '=' && c != '(') && m != ['0']

/-- every macro named by a conditional of the directive list is a well-formed name -/
def dirsOk (ds : List Dir) : Bool :=
  ds.all fun d => match d with
    | .opn _ m => okName m
    | _ => true

/-- the property's family: pairwise distinct macro names that are neither predefined nor `-U`ndefined,
    no `-D` -/
def inFamily (inp : Inp) (t : Items) : Bool :=
  inp.userDefines.isEmpty && decide t.macros.Nodup &&
  t.macros.all fun m => okName m && !inp.defined0.contains m && !inp.undefs.contains m

/-- re-parse a directive list into the tree it prints (none: not well nested / `#define` inside) -/
def parseItems : Nat → List Dir → Option (Items × List Dir)
  | 0, _ => none
  | _ + 1, [] => some (.done, [])
  | fuel + 1, d :: ds =>
    match d with
    | .region r => (parseItems fuel ds).map fun (t, rest) => (.region r t, rest)
    | .els => some (.done, d :: ds)
    | .endif => some (.done, d :: ds)
    | .define _ => none
    | .opn k m =>
      match parseItems fuel ds with
      | some (t, .endif :: r1) => (parseItems fuel r1).map fun (rest, r2) => (.cond k m t rest, r2)
      | some (t, .els :: r1) =>
        match parseItems fuel r1 with
        | some (e, .endif :: r2) => (parseItems fuel r2).map fun (rest, r3) => (.condElse k m t e rest, r3)
        | _ => none
      | _ => none

def parseTree (ds : List Dir) : Option Items :=
  match parseItems (ds.length + 1) ds with
  | some (t, []) => some t
  | _ => none

/-! ### selection of the analysed configurations (`CppCheck::checkInternal`) -/

structure CliOpts where
  force : Bool := false
  maxConfigsOption : Nat := 0     -- `--max-configs=` (0 = not assigned)
  maxConfigsProject : Nat := 0    -- set to 1 by a compile database
  userDefines : Str := []
  undefs : List Str := []

/-- `Settings::getMaxConfigs` -/
def CliOpts.maxConfigs (o : CliOpts) : Nat :=
  if o.force then 0x7fffffff
  else if o.maxConfigsOption != 0 then o.maxConfigsOption
  else if o.maxConfigsProject != 0 then o.maxConfigsProject
  else if !o.userDefines.isEmpty then 1
  else 12

/-- the static `split(str, ";")` of cppcheck.cpp (with its `"`-handling); `fuel` bounds the loop -/
def splitQGo : Nat → Str → List Str
  | 0, _ => []
  | fuel + 1, s =>
    match s.dropWhile (· == ';') with
    | [] => []
    | '"' :: r =>
      let body := r.takeWhile (· != '"')
      body :: splitQGo fuel ((r.dropWhile (· != '"')).drop 1)
    | c :: r => (c :: r.takeWhile (· != ';')) :: splitQGo fuel (r.dropWhile (· != ';'))

def splitQ (s : Str) : List Str := splitQGo (s.length + 1) s

/-- `currentConfig` of the loop body -/
def currentConfig (userDefines currCfg : Str) : Str :=
  if userDefines.isEmpty then currCfg
  else
    let v1 := splitQ userDefines
    userDefines ++ ((splitQ currCfg).filter (fun c => !v1.contains c)).flatMap (fun c => ';' :: c)

/-- `configurations` before the loop: `getConfigs()` only when `maxConfigs > 1` -/
def configurations (o : CliOpts) (gc : List Str) : List Str :=
  if o.maxConfigs > 1 then gc else [o.userDefines]

/-- the configurations that reach `preprocess`/`checkNormalTokens` (no `#error` in the family, so no
    configuration is discarded as invalid): the first `maxConfigs` of the set, all with `--force` -/
def analysed (o : CliOpts) (gc : List Str) : List Str :=
  let cs := configurations o gc
  (if o.force then cs else cs.take o.maxConfigs).map (currentConfig o.userDefines)

/-! ### the duplicate-configuration purge of `checkInternal` (`hashes` / `TokenList::calculateHash`) -/

/-- keep the first element of every key class (`if (hashes.find(hash) != hashes.end()) continue; hashes.insert(hash);`) -/
def dedupByGo (key : Str → Nat) : List Nat → List Str → List Str
  | _, [] => []
  | seen, c :: cs => if seen.contains (key c) then dedupByGo key seen cs else c :: dedupByGo key (key c :: seen) cs

def dedupBy (key : Str → Nat) (cs : List Str) : List Str := dedupByGo key [] cs

/-- the token list analysed in configuration `c`: the code of the emitted regions, `content r` = tokens of region `r` -/
def tokensOf (content : Nat → List Nat) (t : Items) (c : Str) : List Nat := (t.emit (defines c)).flatMap content

/-- the configurations that reach `checkNormalTokens`: a configuration whose token list hashes like an earlier one is
    purged -/
def checkedConfigs (hash : List Nat → Nat) (content : Nat → List Nat) (t : Items) (cs : List Str) : List Str :=
  dedupBy (fun c => hash (tokensOf content t c)) cs

def CliOpts.inp (o : CliOpts) (defined0 : List Str) : Inp :=
  { defined0 := defined0, userDefines := o.userDefines, undefs := o.undefs }

end Cppcheck.Configs

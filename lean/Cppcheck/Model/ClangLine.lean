/-
C35 — the line level of the clang-AST importer.  Copied from lib/clangimport.cpp:

  * `splitString(line)`            the splitter that turns the text after the node type into `mExtTokens`
  * `strToInt<int>` (lib/utils.h)  as used by `setLocations`
  * `AstNode::setLocations`        how `mExtTokens[1]` (`<col:…>`, `<line:…>`, `<file:line:col…>`, `<<invalid sloc>`, `<>`) is
                                   resolved against the location inherited from the parent node
  * the line loop of `parseClangAstDump`: which lines become nodes, their level, node type and `ext`

A line is a `List Char` (bytes).  The C++ walks the line with absolute positions `pos1`/`pos2`; every search it makes starts at
`pos1` and only looks forward, so the model works on the suffix `s = line.substr(pos1)` with positions relative to `pos1`:

  `std::string::npos`        ↦ `none`
  `pos2 = line.find(' ', pos1) - 1`  is kept as the exclusive end `e = pos2 + 1` (`none` stands for `npos - 1 + 1`), so that the
                               unsigned wrap of `pos2` at a leading blank never has to be represented:  `x < pos2 ⇔ x + 1 < e`,
                               `x > pos2 ⇔ e ≤ x`
  `pos2 < static_cast<int>(line.size()) - 3 && line.compare(pos2, 3, "':'", 0, 3) == 0`
                             ↦ `q + 3 < size ∧ line[q..q+3) = "':'"`  (for `size < 3` the int→size_t conversion makes the first
                               conjunct true, but then `compare` cannot return 0; for `size ≥ 3` the conjunct is this inequality)
  `std::strchr("*()", c)`    is also non-null for `c = '\0'` (it finds the terminator)
-/
namespace Cppcheck.ClangLine

abbrev Str := List Char

def isAlpha (c : Char) : Bool := (97 ≤ c.toNat && c.toNat ≤ 122) || (65 ≤ c.toNat && c.toNat ≤ 90)
def isDigit (c : Char) : Bool := 48 ≤ c.toNat && c.toNat ≤ 57
def isAlnum (c : Char) : Bool := isAlpha c || isDigit c

/-- index of the first element satisfying `p` (`none` = `npos`) -/
def findP (p : Char → Bool) : Str → Option Nat
  | [] => none
  | c :: t => if p c then some 0 else (findP p t).map (· + 1)

/-- `s.find(c, k)` -/
def findFrom (p : Char → Bool) (s : Str) (k : Nat) : Option Nat := (findP p (s.drop k)).map (· + k)

/-- `s.find(pat)` -/
def findSub (pat : Str) : Str → Option Nat
  | [] => if pat.isEmpty then some 0 else none
  | c :: t => if pat.isPrefixOf (c :: t) then some 0 else (findSub pat t).map (· + 1)

def findSubFrom (pat : Str) (s : Str) (k : Nat) : Option Nat := (findSub pat (s.drop k)).map (· + k)

def isSpace (c : Char) : Bool := c == ' '

/-- `line.find_first_not_of(' ', k)` expressed on the suffix -/
def dropSpaces (s : Str) : Str := s.dropWhile isSpace

inductive Step where
  | emit (fs : List Str) (rest : Str)   -- `ret.push_back` of each field, loop continues at `rest` (= line from the new pos1)
  | abort                               -- `return std::vector<std::string> {};`
deriving Repr, DecidableEq

/-- common tail: `if (pos2 == npos) { push(substr(pos1)); break; }  push(substr(pos1, pos2+1-pos1)); pos1 = find_first_not_of(' ', pos2+1);`
    with `e = pos2 + 1` -/
def finishExcl (s : Str) : Option Nat → Step
  | none => .emit [s] []
  | some e => .emit [s.take e] (dropSpaces (s.drop e))

def isIdentCh (c : Char) : Bool := c == '_' || c == ':' || isAlnum c

/-- `while (++pos2 < line.size() && tlevel > 0) { '<' → ++tlevel; '>' → --tlevel }`; arguments: the line after `pos2`, `pos2`, `tlevel`;
    result: final `(pos2, tlevel)` -/
def tloop : Str → Nat → Nat → Nat × Nat
  | [], p, tl => (p + 1, tl)
  | c :: t, p, tl =>
    if tl = 0 then (p + 1, tl)
    else tloop t (p + 1) (if c = '<' then tl + 1 else if c = '>' then tl - 1 else tl)

/-- `for (pos2 = pos1; pos2 < line.size(); ++pos2) { '<' → ++level; '>' → { if (level <= 1) break; --level; } }` -/
def gtLoop : Str → Nat → Nat → Nat × Nat
  | [], p, lv => (p, lv)
  | c :: t, p, lv =>
    if c = '<' then gtLoop t (p + 1) (lv + 1)
    else if c = '>' then (if lv ≤ 1 then (p, lv) else gtLoop t (p + 1) (lv - 1))
    else gtLoop t (p + 1) lv

/-- `x < pos2` where `pos2 = e - 1` -/
def ltPos2 (x e : Option Nat) : Bool :=
  match x, e with
  | some x, some e => x + 1 < e
  | some _, none => true
  | none, _ => false

/-- `x < y` on `size_t` with `none = npos` -/
def ltOpt (x y : Option Nat) : Bool :=
  match x, y with
  | some x, some y => x < y
  | some _, none => true
  | none, _ => false

/-- `x > pos2` for a found `x` -/
def gtPos2 (x e : Option Nat) : Bool :=
  match x, e with
  | some x, some e => e ≤ x
  | _, _ => false

def dcolon : Str := [':', ':']
def dlt : Str := ['<', '<']
def tick3 : Str := ['\'', ':', '\'']

/-- the `else` branch of the loop body: the field starts with an ordinary character `c = s[0]` -/
def wordBranch (s : Str) (c : Char) : Step :=
  let n := (s.takeWhile isIdentCh).length
  let tmpl : Option Step :=
    if n > 0 && s[n]? == some '<' && isAlpha c then
      let r := tloop (s.drop (n + 1)) n 1
      if r.2 == 0 && s[r.1]? == some ' ' then some (.emit [s.take r.1] (s.drop (r.1 + 1))) else none
    else none
  match tmpl with
  | some st => st
  | none =>
    let e := findP isSpace s
    let dc := findSub dcolon s
    let lt := findP (· == '<') s
    let gt := findP (· == '>') s
    let nameStart := isAlpha c || c == '_'
    if nameStart && ltPos2 dc e && ltOpt dc lt then
      match dc with
      | some d => .emit [s.take d, dcolon] (s.drop (d + 2))
      | none => .abort
    else if nameStart && ltPos2 lt e && (findSub dlt s != lt) && gt.isSome && gtPos2 gt e then
      let r := gtLoop s 0 0
      if r.2 > 1 && r.1 + 1 ≥ s.length then .abort
      else finishExcl s (findFrom isSpace s r.1)
    else finishExcl s e

/-- one iteration of `while (pos1 < line.size())` on the suffix that starts at `pos1` -/
def step (s : Str) : Step :=
  match s with
  | [] => .emit [] []
  | c :: t =>
    if c == '*' || c == '(' || c == ')' || c == Char.ofNat 0 then .emit [[c]] (dropSpaces t)
    else if c == '<' then finishExcl s ((findP (· == '>') s).map (· + 1))
    else if c == '"' then finishExcl s ((findP (· == '"') t).map (· + 2))
    else if c == '\'' then
      match findP (· == '\'') t with
      | none => .emit [s] []
      | some q0 =>
        let q := q0 + 1
        if q + 3 < s.length && (s.drop q).take 3 == tick3 then
          finishExcl s ((findP (· == '\'') (s.drop (q + 3))).map (· + (q + 3) + 1))
        else finishExcl s (some (q + 1))
    else wordBranch s c

inductive Res where
  | ok (l : List Str)
  | abort
  | hang              -- fuel exhausted (the C++ loop would not end); every iteration consumes at least one character, never observed
deriving Repr, DecidableEq

def loop : Nat → Str → Res
  | 0, _ => .hang
  | fuel + 1, s =>
    if s.isEmpty then .ok []
    else
      match step s with
      | .abort => .abort
      | .emit fs rest =>
        match loop fuel rest with
        | .ok l => .ok (fs ++ l)
        | r => r

/-- `splitString(line)`; `none` = the loop did not end -/
def splitString (line : Str) : Option (List Str) :=
  match loop (line.length + 1) (dropSpaces line) with
  | .ok l => some l
  | .abort => some []
  | .hang => none

/-- the `ext` string of a node whose fields are `fs`: clang separates fields by one blank, and `ext` starts at the blank after the node type -/
def join : List Str → Str
  | [] => []
  | f :: r => ' ' :: f ++ join r

/-! ## the field shapes clang emits (hypothesis of `split_join`; evaluated by the driver on real dump lines) -/

inductive Field where
  | punct (c : Char)          -- `*`, `(`, `)` on their own
  | angle (a : Str)           -- `<a>`: source ranges, cast kinds, `<invalid sloc>`
  | dquote (a : Str)          -- `"a"`
  | squote (a : Str)          -- `'a'`: a type or an operator
  | squote2 (a b : Str)       -- `'a':'b'`: a type with its desugared form
  | word (w : Str)            -- addresses, names, keywords, numbers, `col:7`, `line:3:5`
deriving Repr, DecidableEq

def Field.render : Field → Str
  | .punct c => [c]
  | .angle a => '<' :: a ++ ['>']
  | .dquote a => '"' :: a ++ ['"']
  | .squote a => '\'' :: a ++ ['\'']
  | .squote2 a b => '\'' :: a ++ tick3 ++ b ++ ['\'']
  | .word w => w

def noCh (c : Char) (s : Str) : Bool := s.all (· != c)

def wordStartOK (c : Char) : Bool :=
  c != '*' && c != '(' && c != ')' && c != Char.ofNat 0 && c != '<' && c != '"' && c != '\'' && c != ' '

/-- the well-formedness of a field: the group delimiters do not occur inside the group; a bare word has no blank, no `<`, no `::`
    and does not start with a delimiter -/
def Field.ok : Field → Bool
  | .punct c => c == '*' || c == '(' || c == ')'
  | .angle a => noCh '>' a
  | .dquote a => noCh '"' a
  | .squote a => noCh '\'' a
  | .squote2 a b => noCh '\'' a && noCh '\'' b
  | .word w => (match w with | [] => false | c :: _ => wordStartOK c) && noCh ' ' w && noCh '<' w && (findSub dcolon w).isNone

/-- the shape of a field as the splitter returned it (by its first character) -/
def fieldOf (f : Str) : Field :=
  match f with
  | ['*'] => .punct '*'
  | ['('] => .punct '('
  | [')'] => .punct ')'
  | '<' :: t => if t.getLast? == some '>' then .angle t.dropLast else .word f
  | '"' :: t => if t.getLast? == some '"' then .dquote t.dropLast else .word f
  | '\'' :: t =>
    if t.getLast? == some '\'' then
      let body := t.dropLast
      match findSub tick3 body with
      | some p => .squote2 (body.take p) (body.drop (p + 3))
      | none => .squote body
    else .word f
  | _ => .word f

/-- the line lies in the class `split_join` speaks about: it is the join of well-formed fields -/
def lineCovered (ext : Str) : Bool :=
  match splitString ext with
  | none => false
  | some fs =>
    let ff := fs.map fieldOf
    ff.all Field.ok && ff.map Field.render == fs && join fs == ext

/-! ## strToInt<int> -/

def digitsVal : Str → Nat → Nat
  | [], acc => acc
  | c :: t, acc => digitsVal t (acc * 10 + (c.toNat - 48))

/-- `strToInt<int>(str)`; `none` = `std::runtime_error` ("converting … to integer failed").
    `std::stoll` accepts `[ws] [+-] digits`, the later checks reject leading white space (front is neither sign nor digit), a leading `0`
    followed by anything, trailing characters, and values outside `int`. -/
def strToInt (s : Str) : Option Int :=
  match s with
  | [] => none
  | c :: t =>
    let (neg, ds) := if c == '-' then (true, t) else if c == '+' then (false, t) else (false, s)
    if ds.isEmpty || !ds.all isDigit then none
    else if c == '0' && !t.isEmpty then none
    else
      let v : Int := if neg then - (digitsVal ds 0 : Int) else (digitsVal ds 0 : Int)
      if v < -2147483648 || v > 2147483647 then none else some v

/-! ## setLocations: one node -/

structure Pos where
  file : Nat
  line : Int
  col : Int
deriving Repr, DecidableEq

inductive LocErr where
  | ast      -- InternalError(nullptr, "invalid AST location: " + ext, InternalError::AST)
  | conv     -- std::runtime_error from strToInt
deriving Repr, DecidableEq

/-- `ext.substr(k, ext.find_first_of(stops, k) - k)` -/
def upTo (stops : List Char) (s : Str) (k : Nat) : Str :=
  match findFrom (fun c => stops.contains c) s k with
  | none => s.drop k
  | some e => (s.drop k).take (e - k)

/-- `TokenList::appendFileIfNew` (`Path::sameFileName` is plain equality on Linux) -/
def appendFileIfNew (files : List Str) (name : Str) : List Str × Nat :=
  match files.idxOf? name with
  | some i => (files, i)
  | none => (files ++ [name], files.length)

def colPfx : Str := ['<', 'c', 'o', 'l', ':']
def linePfx : Str := ['<', 'l', 'i', 'n', 'e', ':']
def commaCol : Str := [',', ' ', 'c', 'o', 'l', ':']
def invalidSloc : Str := ['<', '<', 'i', 'n', 'v', 'a', 'l', 'i', 'd', ' ', 's', 'l', 'o', 'c', '>']

/-- the body of `if (mExtTokens.size() >= 2)` in `AstNode::setLocations` for `ext = mExtTokens[1]`, inherited `(file, line, col) = inh` -/
def setLoc (files : List Str) (ext : Str) (inh : Pos) : Except LocErr (List Str × Pos) :=
  if colPfx.isPrefixOf ext then
    match strToInt (upTo [',', '>'] ext 5) with
    | some c => .ok (files, { inh with col := c })
    | none => .error .conv
  else if linePfx.isPrefixOf ext then
    match strToInt (upTo [':', ',', '>'] ext 6) with
    | none => .error .conv
    | some l =>
      match findSub commaCol ext with
      | none => .ok (files, { inh with line := l })
      | some p =>
        match strToInt (upTo [':', ',', '>'] ext (p + 6)) with
        | some c => .ok (files, { inh with line := l, col := c })
        | none => .error .conv
  else if ext.head? == some '<' then
    match findP (· == ':') ext with
    | none => if ext == invalidSloc || ext == ['<', '>'] then .ok (files, inh) else .error .ast
    | some colon =>
      let windowsPath := colon == 2 && ext.length > 3
      let sep1 : Option Nat := if windowsPath then findFrom (· == ':') ext 4 else some colon
      match sep1 with
      | none => .error .conv      -- sep1 = npos: the line number is read from `ext.substr(0, 2)` = "<" … : not an integer
      | some sep1 =>
        let (files', fi) := appendFileIfNew files ((ext.drop 1).take (sep1 - 1))
        let num := match findFrom (· == ':') ext (sep1 + 1) with
          | none => ext.drop (sep1 + 1)
          | some sep2 => (ext.drop (sep1 + 1)).take (sep2 - sep1 - 1)
        match strToInt num with
        | some l => .ok (files', { inh with file := fi, line := l })
        | none => .error .conv
  else .ok (files, inh)

/-- `setLocations` of one node with ext tokens `toks` -/
def setLocNode (files : List Str) (toks : List Str) (inh : Pos) : Except LocErr (List Str × Pos) :=
  match toks with
  | _ :: ext :: _ => setLoc files ext inh
  | _ => .ok (files, inh)

/-- `setLocations` over a whole tree given in preorder as (level, ext tokens): a node inherits from the last preceding node one level up
    (the recursion passes `file, line, col` by value); `stack[k]` = resolved position of the open node at level k.
    Returns the resolved position of every node. -/
def setLocSeq (files : List Str) (stack : List Pos) (init : Pos) : List (Nat × List Str) → Except LocErr (List Pos)
  | [] => .ok []
  | (lv, toks) :: r =>
    let inh := if lv = 0 then init else (stack[lv - 1]?).getD init
    match setLocNode files toks inh with
    | .error e => .error e
    | .ok (files', p) =>
      match setLocSeq files' (stack.take lv ++ [p]) init r with
      | .error e => .error e
      | .ok ps => .ok (p :: ps)

/-! ## the line loop of parseClangAstDump -/

inductive LineKind where
  | skip                                         -- `continue`
  | null (level : Nat)                           -- `-<<<NULL>>>`
  | node (pos1 : Nat) (nodeType : Str) (ext : Str)
deriving Repr, DecidableEq

def nullMark : Str := ['-', '<', '<', '<', 'N', 'U', 'L', 'L', '>', '>', '>']

/-- classification of one dump line (`treeEmpty` = `tree.empty()`) -/
def classifyLine (treeEmpty : Bool) (line : Str) : LineKind :=
  match findP (· == '-') line with
  | none => .skip
  | some pos1 =>
    if !treeEmpty && line.drop pos1 == nullMark then .null ((pos1 - 1) / 2)
    else
      match findFrom isSpace line pos1 with
      | none => .skip
      | some pos2 =>
        if pos2 < pos1 + 4 then .skip
        else .node pos1 ((line.drop (pos1 + 1)).take (pos2 - pos1 - 1)) (line.drop pos2)

end Cppcheck.ClangLine

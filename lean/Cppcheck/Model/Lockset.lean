/-
C16 — lockset model of the thread executor (cli/threadexecutor.cpp and the objects its workers share).

Vocabulary
* a *location* is an abstract shared object field (`SuppressionList::mSuppressions`, `Executor::mErrorList`, …),
  a *mutex* is a `std::mutex` member; both are numbered by the translator (`Gen/LockTable.lean`).
* a *method event* is what one call of a member function of a shared object does to locations and mutexes.
  Structured form `Stmt` (what the translator extracts: RAII lock scopes, branches, loops, abrupt exits), flat form
  `List Op` (one control-flow path).  `Path s p d` relates a statement to every op sequence one of its executions can
  perform, including executions cut short by `return` / `throw` / `break` / `continue` (RAII unlocks on the way out).
* `State`: thread 0 is the main thread, threads 1..n are the workers (n arbitrary).  Phase `seq`: only the main thread
  runs (before `ThreadExecutor::check` spawns the workers / after it joined them); phase `par`: only workers run (the main
  thread blocks in `std::future::get`).  `Step` is the interleaving small-step semantics, `Reach` its reachable states,
  `run` the executable version for finite tables and explicit schedules.
* `Race s`: two different threads whose next operations are conflicting accesses (same location, at least one plain
  write, atomics never conflict) — the two accesses can be performed back to back in either order.
-/
namespace Cppcheck.Lockset

abbrev Loc := Nat
abbrev Mtx := Nat

inductive Op where
  | acq (m : Mtx)
  | rel (m : Mtx)
  | read (x : Loc)
  | write (x : Loc)
  | atomic (x : Loc)
  deriving DecidableEq, Repr, Inhabited

def Op.isLock : Op → Bool
  | .acq _ => true
  | .rel _ => true
  | _ => false

/-- how a location is protected: every access holds mutex `m`, or nobody writes it while workers exist -/
inductive Guard where
  | mutex (m : Mtx)
  | readOnly
  deriving DecidableEq, Repr, Inhabited

abbrev GuardMap := Loc → Guard

/-- guard table as a list indexed by location number; locations outside the table may only be read -/
def guardOfList (gs : List Guard) : GuardMap := fun x => gs.getD x .readOnly

/-! ### flat method events -/

/-- `std::mutex` is not recursive: locking a mutex the thread already holds, unlocking one it does not hold -/
def lockOK (H : List Mtx) : Op → Bool
  | .acq m => !H.contains m
  | .rel m => H.contains m
  | _ => true

/-- the lock discipline at one operation, `H` = mutexes held by the executing thread -/
def accOK (g : GuardMap) (H : List Mtx) : Op → Bool
  | .read x => match g x with
    | .readOnly => true
    | .mutex m => H.contains m
  | .write x => match g x with
    | .readOnly => false
    | .mutex m => H.contains m
  | _ => true

def heldAfter (H : List Mtx) : Op → List Mtx
  | .acq m => m :: H
  | .rel m => H.erase m
  | _ => H

/-- every acquire is of a mutex not held, every release of one held, and nothing is held at the end -/
def balancedFrom : List Mtx → List Op → Bool
  | H, [] => H.isEmpty
  | H, op :: ops => lockOK H op && balancedFrom (heldAfter H op) ops

/-- every access is made with the guard of its location held -/
def disciplinedFrom (g : GuardMap) : List Mtx → List Op → Bool
  | _, [] => true
  | H, op :: ops => accOK g H op && disciplinedFrom g (heldAfter H op) ops

abbrev MethodTable := List (List Op)

def MethodTable.balanced (T : MethodTable) : Bool := T.all (balancedFrom [])
def MethodTable.disciplined (T : MethodTable) (g : GuardMap) : Bool := T.all (disciplinedFrom g [])

/-! ### structured method events (what the translator emits) -/

inductive Acc where
  | read (x : Loc)
  | write (x : Loc)
  | atomic (x : Loc)
  deriving DecidableEq, Repr, Inhabited

def Acc.toOp : Acc → Op
  | .read x => .read x
  | .write x => .write x
  | .atomic x => .atomic x

inductive Stmt where
  | skip
  | acc (a : Acc)
  | seq (s t : Stmt)
  /-- `{ std::lock_guard<std::mutex> lg(m); body }` -/
  | locked (m : Mtx) (body : Stmt)
  /-- `if`/`else`, `?:`, short-circuit operators, `switch` arms -/
  | alt (s t : Stmt)
  | loop (body : Stmt)
  /-- a construct that can absorb an abrupt exit of its body: loop (break/continue), switch (break), try (catch) -/
  | scope (body : Stmt)
  deriving DecidableEq, Repr, Inhabited

/-- `Path s p d`: some execution of `s` performs exactly the operations `p`; `d = true` iff it ran to its normal end,
    `d = false` iff it was left abruptly (return, throw, break, continue) — lock scopes unlock in both cases. -/
inductive Path : Stmt → List Op → Bool → Prop where
  | abort (s : Stmt) : Path s [] false
  | skip : Path .skip [] true
  | acc (a : Acc) : Path (.acc a) [a.toOp] true
  | seqAbort {s t p} : Path s p false → Path (.seq s t) p false
  | seq {s t p q d} : Path s p true → Path t q d → Path (.seq s t) (p ++ q) d
  | locked {m b p d} : Path b p d → Path (.locked m b) (.acq m :: (p ++ [.rel m])) d
  | altL {s t p d} : Path s p d → Path (.alt s t) p d
  | altR {s t p d} : Path t p d → Path (.alt s t) p d
  | loopDone {b} : Path (.loop b) [] true
  | loopIter {b p q d} : Path b p true → Path (.loop b) q d → Path (.loop b) (p ++ q) d
  | loopAbort {b p} : Path b p false → Path (.loop b) p false
  | scopePass {b p d} : Path b p d → Path (.scope b) p d
  | scopeCatch {b p d} : Path b p d → Path (.scope b) p true

def Stmt.balanced : List Mtx → Stmt → Bool
  | _, .skip => true
  | _, .acc _ => true
  | H, .seq s t => s.balanced H && t.balanced H
  | H, .locked m b => !H.contains m && b.balanced (m :: H)
  | H, .alt s t => s.balanced H && t.balanced H
  | H, .loop b => b.balanced H
  | H, .scope b => b.balanced H

def Stmt.disciplined (g : GuardMap) : List Mtx → Stmt → Bool
  | _, .skip => true
  | H, .acc a => accOK g H a.toOp
  | H, .seq s t => s.disciplined g H && t.disciplined g H
  | H, .locked m b => b.disciplined g (m :: H)
  | H, .alt s t => s.disciplined g H && t.disciplined g H
  | H, .loop b => b.disciplined g H
  | H, .scope b => b.disciplined g H

abbrev StmtTable := List Stmt

def StmtTable.balanced (P : StmtTable) : Bool := P.all (Stmt.balanced [])
def StmtTable.disciplined (P : StmtTable) (g : GuardMap) : Bool := P.all (Stmt.disciplined g [])

/-- the (generally infinite) set of flat events of a structured table -/
def StmtTable.paths (P : StmtTable) : List Op → Prop := fun p => ∃ s, s ∈ P ∧ ∃ d, Path s p d

/-- one canonical complete path (all first alternatives, loops once): used by executable examples -/
def Stmt.somePath : Stmt → List Op
  | .skip => []
  | .acc a => [a.toOp]
  | .seq s t => s.somePath ++ t.somePath
  | .locked m b => .acq m :: (b.somePath ++ [.rel m])
  | .alt s _ => s.somePath
  | .loop b => b.somePath
  | .scope b => b.somePath

/-! ### threads and interleavings -/

structure Thread where
  held : List Mtx
  rest : List Op
  deriving DecidableEq, Repr, Inhabited

inductive Phase where
  | seq
  | par
  deriving DecidableEq, Repr, Inhabited

structure State where
  phase : Phase
  threads : List Thread
  deriving DecidableEq, Repr, Inhabited

def idle : Thread := ⟨[], []⟩

/-- main thread + `n` workers, nothing started -/
def init (n : Nat) : State := ⟨.seq, List.replicate (n + 1) idle⟩

/-- thread 0 (main) runs in the sequential phase only, workers in the parallel phase only -/
def mayRun (ph : Phase) (i : Nat) : Bool :=
  if i = 0 then ph == .seq else ph == .par

def lockFreeB (s : State) (m : Mtx) : Bool := s.threads.all fun t => !t.held.contains m

def enabledOp (s : State) : Op → Bool
  | .acq m => lockFreeB s m
  | _ => true

def allIdle (s : State) : Bool := s.threads.all fun t => t.rest.isEmpty

inductive Act where
  | start (i : Nat) (body : List Op)
  | exec (i : Nat)
  | spawn
  | join
  deriving DecidableEq, Repr, Inhabited

/-- interleaving semantics; `W` / `M` = the flat events a worker / the main thread may start -/
inductive Step (W M : List Op → Prop) : State → Act → State → Prop where
  | start {s : State} {i : Nat} {H : List Mtx} {body : List Op} :
      mayRun s.phase i = true → s.threads[i]? = some ⟨H, []⟩ →
      (if i = 0 then M body else W body) →
      Step W M s (.start i body) { s with threads := s.threads.set i ⟨H, body⟩ }
  | exec {s : State} {i : Nat} {H : List Mtx} {op : Op} {rest : List Op} :
      mayRun s.phase i = true → s.threads[i]? = some ⟨H, op :: rest⟩ →
      enabledOp s op = true →
      Step W M s (.exec i) { s with threads := s.threads.set i ⟨heldAfter H op, rest⟩ }
  | spawn {s : State} : s.phase = .seq → allIdle s = true → Step W M s .spawn { s with phase := .par }
  | join {s : State} : s.phase = .par → allIdle s = true → Step W M s .join { s with phase := .seq }

inductive Reach (W M : List Op → Prop) (n : Nat) : State → Prop where
  | init : Reach W M n (init n)
  | step {s s' : State} {a : Act} : Reach W M n s → Step W M s a s' → Reach W M n s'

def conflict : Op → Op → Bool
  | .write x, .write y => x == y
  | .write x, .read y => x == y
  | .read x, .write y => x == y
  | _, _ => false

/-- two different threads are about to perform conflicting accesses -/
def Race (s : State) : Prop :=
  ∃ (i j : Nat) (ti tj : Thread) (a b : Op), i ≠ j ∧ s.threads[i]? = some ti ∧ s.threads[j]? = some tj ∧
    ti.rest.head? = some a ∧ tj.rest.head? = some b ∧ conflict a b = true

/-! ### executable runs over finite tables -/

structure Tables where
  worker : MethodTable
  main : MethodTable
  deriving Repr, Inhabited

/-- schedule entry: methods are chosen by their index in the table -/
inductive Sched where
  | start (i k : Nat)
  | exec (i : Nat)
  | spawn
  | join
  deriving DecidableEq, Repr, Inhabited

/-- one schedule entry; an entry that is not enabled in `s` leaves the state unchanged -/
def stepFn (T : Tables) (s : State) : Sched → State
  | .start i k =>
    match s.threads[i]?, (if i = 0 then T.main else T.worker)[k]? with
    | some ⟨H, []⟩, some body =>
      if mayRun s.phase i then { s with threads := s.threads.set i ⟨H, body⟩ } else s
    | _, _ => s
  | .exec i =>
    match s.threads[i]? with
    | some ⟨H, op :: rest⟩ =>
      if mayRun s.phase i && enabledOp s op then { s with threads := s.threads.set i ⟨heldAfter H op, rest⟩ } else s
    | _ => s
  | .spawn => if s.phase == .seq && allIdle s then { s with phase := .par } else s
  | .join => if s.phase == .par && allIdle s then { s with phase := .seq } else s

def run (T : Tables) (n : Nat) (σ : List Sched) : State := σ.foldl (stepFn T) (init n)

def raceB (s : State) : Bool :=
  (List.range s.threads.length).any fun i =>
    (List.range s.threads.length).any fun j =>
      i != j &&
        match s.threads[i]?, s.threads[j]? with
        | some ti, some tj =>
          match ti.rest.head?, tj.rest.head? with
          | some a, some b => conflict a b
          | _, _ => false
        | _, _ => false

end Cppcheck.Lockset

import Cppcheck.Model.Wire
/-
C30 — model of the `<valid>` range expressions of library configurations (lib/library.cpp).

Executable copies of what the code does (bugs included), all total:

  * `isCompliant`      Library::isCompliantValidationExpression – the load-time check of `<arg><valid>`;
                       a non-compliant text makes Library::load return BAD_ATTRIBUTE_VALUE.
  * `tokenize`         gettokenlistfromvalid: simplecpp lexing of `valid + ","` (runs of name characters, every
                       other character a token of its own), simplecpp::TokenList::combineOperators (the float-literal
                       and exponent merges – the only rules reachable over the compliant alphabet), the
                       `.5 → 0.5` rewrite of TokenList::createTokens and the merge of `-` with a following number.
  * `isNumber`         Token::isNumber for such a token: simplecpp isNumberLike ∧ (MathLib::isInt ∨ MathLib::isFloat).
  * `toBigNumber`      MathLib::toBigNumber (octal / float / decimal branches; std::stoull wrap-around and out_of_range).
  * `toDouble`, `fmtG12`, `dblToString`
                       MathLib::toDoubleNumber (correctly rounded decimal → binary64, as glibc strtod), ostream `%.12g`
                       and MathLib::toString(double).  A finite double is represented exactly by the integer
                       `d * 2^1074` (`Dbl`), so no floating point arithmetic occurs in the model.
  * `isIntArgValid`, `isFloatArgValid`
                       the acceptance loops of Library::isIntArgValid / isFloatArgValid, clause by clause and in
                       the code's evaluation order (an InternalError thrown by a conversion is the result `.err`).
  * `Spec`: `Range`, `ValidExpr`, `render`, `mem` (union of intervals), `parseValid`.
  (state of the code: after the fixes 279e2e4 and e6ae137)
  * argument-check decision tables: `loadArgs`, `getarg`, `matchArguments`, `isnullargbad`, `isboolargbad`,
    `isuninitargbad`.

Domain: strings over the alphabet the load-time check lets through, `0-9 : , + - . e E !`.  Over that alphabet
MathLib::isIntHex / isBin / isFloatHex / isCharLiteral and isValidIntegerSuffix are identically false (each
needs a character outside it) and the operator-pair rules of combineOperators (`::`, `++`, `--`, `->`, `x=`)
cannot fire (the load-time check rejects `::`, and `+`/`-` must be followed by a digit); they are not modelled.
-/
namespace Cppcheck.LibValid
open Cppcheck.Wire

/-! ## 0. characters and small helpers -/

def isDigit (c : Char) : Bool := 48 ≤ c.toNat && c.toNat ≤ 57

def digitVal : Char → Option Nat
  | '0' => some 0 | '1' => some 1 | '2' => some 2 | '3' => some 3 | '4' => some 4
  | '5' => some 5 | '6' => some 6 | '7' => some 7 | '8' => some 8 | '9' => some 9
  | _ => none

def digitChar : Nat → Char
  | 0 => '0' | 1 => '1' | 2 => '2' | 3 => '3' | 4 => '4'
  | 5 => '5' | 6 => '6' | 7 => '7' | 8 => '8' | _ => '9'

/-- simplecpp `isNameChar`: `std::isalnum(ch) || ch == '_' || ch == '$'` -/
def isNameChar (c : Char) : Bool := c.isAlphanum || c == '_' || c == '$'

/-- `*(p+1)` on a NUL-terminated string -/
def peek : Str → Char
  | [] => '\x00'
  | c :: _ => c

def lastChar : Str → Char
  | [] => '\x00'
  | [c] => c
  | _ :: r => lastChar r

/-- result of an acceptance function: a boolean, or an InternalError propagated to the caller -/
inductive Res | ok (b : Bool) | err
  deriving DecidableEq, Repr, Inhabited

def Res.toString : Res → String
  | .ok true => "1" | .ok false => "0" | .err => "E"

/-! ## 1. Library::isCompliantValidationExpression -/

structure VState where
  error : Bool
  range : Bool
  hasDot : Bool
  hasE : Bool
  deriving DecidableEq, Repr

/-- the `for (; *p; p++)` loop; `false` at a character outside the alphabet, else `!error` at the end -/
def compliantGo : VState → Str → Bool
  | st, [] => !st.error
  | st, c :: r =>
    let n := peek r
    if isDigit c then
      compliantGo { st with error := st.error || n == '-' } r
    else if c == ':' then
      compliantGo { error := st.error || st.range || n == '.', range := true, hasDot := false, hasE := false } r
    else if c == '-' || c == '+' then
      compliantGo { st with error := st.error || !isDigit n } r
    else if c == ',' then
      compliantGo { error := st.error || n == '.', range := false, hasDot := false, hasE := false } r
    else if c == '.' then
      compliantGo { st with error := st.error || st.hasDot || !isDigit n, hasDot := true } r
    else if c == 'E' || c == 'e' then
      compliantGo { st with error := st.error || st.hasE, hasE := true } r
    else if c == '!' then
      compliantGo { st with error := st.error || !(n == '-' || n == '+' || isDigit n) } r
    else false

def isCompliant (s : Str) : Bool :=
  match s with
  | [] => false
  | c :: _ => compliantGo { error := c == '.', range := false, hasDot := false, hasE := false } s

/-! ## 2. tokenisation (gettokenlistfromvalid) -/

/-- simplecpp::TokenList::readfile restricted to what the alphabet reaches: a run of name characters is one
token, characters `<= ' '` separate, every other character is a token -/
def lexGo (cur : Str) : Str → List Str
  | [] => if cur.isEmpty then [] else [cur]
  | c :: r =>
    if isNameChar c then lexGo (cur ++ [c]) r
    else
      let flush := if cur.isEmpty then [] else [cur]
      if c.toNat ≤ 32 then flush ++ lexGo [] r
      else flush ++ ([c] :: lexGo [] r)

def lex (s : Str) : List Str := lexGo [] s

/-- simplecpp `Token::isNumberLike` -/
def numberLike : Str → Bool
  | [] => false
  | c :: r => isDigit c || ((c == '-' || c == '+') && (match r with | d :: _ => isDigit d | [] => false))

/-- simplecpp.cpp `isOct` (used by combineOperators only) -/
def sOct : Str → Bool
  | c :: d :: _ => c == '0' && '0' ≤ d && d < '8'
  | _ => false

/-- simplecpp.cpp `isHex` -/
def sHex : Str → Bool
  | c :: d :: _ :: _ => c == '0' && (d == 'x' || d == 'X')
  | _ => false

def isFloatSuffixTok (s : Str) : Bool :=
  match s with
  | [c] => c == 'f' || c == 'F' || c == 'l' || c == 'L'
  | _ => false

def startsWithOneOf (s : Str) (cs : Str) : Bool :=
  match s with
  | c :: _ => cs.contains c
  | [] => false

def dotTok : Str := ['.']

/-- `'.'` branch, first half: `1` `.` becomes `1.` (the previous token is a number without `.`/`_`), and a
following float suffix / token starting with one of `AaBbCcDdEeFfPp` is appended.
Returns (tokens before, current token, tokens after). -/
def dotStep1 (revOut : List Str) (rest : List Str) : List Str × Str × List Str :=
  match revOut with
  | p :: ro =>
    if numberLike p && !(p.contains '.' || p.contains '_') then
      match rest with
      | n :: r' =>
        if isFloatSuffixTok n || startsWithOneOf n "AaBbCcDdEeFfPp".toList then (ro, p ++ dotTok ++ n, r')
        else (ro, p ++ dotTok, rest)
      | [] => (ro, p ++ dotTok, rest)
    else (revOut, dotTok, rest)
  | [] => (revOut, dotTok, rest)

/-- `'.'` branch, second half: a following number is appended (`.` `5` ⇒ `.5`, `1.` `5e3` ⇒ `1.5e3`) -/
def dotStep2 (t : Str) (rest : List Str) : Str × List Str :=
  match rest with
  | n :: r' => if numberLike n then (t ++ n, r') else (t, rest)
  | [] => (t, rest)

/-- `[0-9.]+E [+-] [0-9]+` merge of combineOperators -/
def combineExp (t : Str) (rest : List Str) : Str × List Str :=
  match rest with
  | s :: n :: r' =>
    if numberLike t && !sOct t
        && ((!sHex t && (lastChar t == 'E' || lastChar t == 'e')) || (sHex t && (lastChar t == 'P' || lastChar t == 'p')))
        && (s == ['+'] || s == ['-']) && numberLike n
    then (t ++ s ++ n, r') else (t, rest)
  | _ => (t, rest)

theorem dotStep1_length (ro rest : List Str) : (dotStep1 ro rest).2.2.length ≤ rest.length := by
  unfold dotStep1
  split
  · split
    · split
      · split <;> simp
      · simp
    · simp
  · simp

theorem dotStep2_length (t : Str) (rest : List Str) : (dotStep2 t rest).2.length ≤ rest.length := by
  unfold dotStep2
  split
  · split <;> simp
  · simp

theorem combineExp_length (t : Str) (rest : List Str) : (combineExp t rest).2.length ≤ rest.length := by
  unfold combineExp
  split
  · split
    · simp; omega
    · simp
  · simp

/-- what combineOperators does at the token `t` (tokens before it reversed in `revOut`, tokens after it in `rest`):
(tokens before, the token that stays at this position, tokens after) -/
def combineTok (revOut : List Str) (t : Str) (rest : List Str) : List Str × Str × List Str :=
  if t == dotTok then
    match rest with
    | a :: b :: r2 =>
      if a == dotTok && b == dotTok then (revOut, "...".toList, r2)     -- ellipsis, `continue`
      else
        let c := combineExp (dotStep2 (dotStep1 revOut rest).2.1 (dotStep1 revOut rest).2.2).1
                            (dotStep2 (dotStep1 revOut rest).2.1 (dotStep1 revOut rest).2.2).2
        ((dotStep1 revOut rest).1, c.1, c.2)
    | _ =>
      let c := combineExp (dotStep2 (dotStep1 revOut rest).2.1 (dotStep1 revOut rest).2.2).1
                          (dotStep2 (dotStep1 revOut rest).2.1 (dotStep1 revOut rest).2.2).2
      ((dotStep1 revOut rest).1, c.1, c.2)
  else
    (revOut, (combineExp t rest).1, (combineExp t rest).2)

theorem combineTok_length (ro : List Str) (t : Str) (rest : List Str) :
    (combineTok ro t rest).2.2.length ≤ rest.length := by
  have h1 := dotStep1_length ro rest
  have h2 := dotStep2_length (dotStep1 ro rest).2.1 (dotStep1 ro rest).2.2
  have h3 := combineExp_length (dotStep2 (dotStep1 ro rest).2.1 (dotStep1 ro rest).2.2).1
                               (dotStep2 (dotStep1 ro rest).2.1 (dotStep1 ro rest).2.2).2
  have h4 := combineExp_length t rest
  unfold combineTok
  split
  · split
    · split
      · simp; omega
      · simp only; omega
    · simp only; omega
  · simpa using h4

/-- simplecpp::TokenList::combineOperators, one pass from the front (`revOut` = tokens already passed, reversed) -/
def combine (revOut : List Str) : List Str → List Str
  | [] => revOut.reverse
  | t :: rest =>
    combine ((combineTok revOut t rest).2.1 :: (combineTok revOut t rest).1) (combineTok revOut t rest).2.2
termination_by l => l.length
decreasing_by
  have := combineTok_length revOut t rest
  simp only [List.length_cons]; omega

/-- TokenList::createTokens: `.5` is stored as `0.5` -/
def fixDot (s : Str) : Str :=
  match s with
  | c :: d :: _ => if c == '.' && isDigit d then '0' :: s else s
  | _ => s

/-! ### MathLib recognisers (over the alphabet) -/

def stripSign : Str → Str
  | c :: r => if c == '+' || c == '-' then r else c :: r
  | [] => []

def lower (c : Char) : Char := if 65 ≤ c.toNat && c.toNat ≤ 90 then Char.ofNat (c.toNat + 32) else c

/-- MathLib::isValidIntegerSuffix(.., supportMicrosoftExtensions = true): the accepting paths of the state machine -/
def validIntSuffix (s : Str) : Bool :=
  let l := s.map lower
  [ "u", "l", "z", "ul", "uz", "lu", "ll", "ull", "llu", "i64", "ui64", "zu" ].any (fun w => w.toList == l)
  || (match s with | c :: _ :: _ => c == '_' | _ => false)

/-- MathLib::isDec after the sign: START/DIGIT -/
def isDecGo : Bool → Str → Bool
  | seen, [] => seen
  | seen, c :: r => if isDigit c then isDecGo true r else (seen && validIntSuffix (c :: r))

def isDec (s : Str) : Bool := !s.isEmpty && isDecGo false (stripSign s)

def isOctDigit (c : Char) : Bool := 48 ≤ c.toNat && c.toNat ≤ 55

/-- MathLib::isOct after the sign; state 0 START, 1 OCTAL_PREFIX, 2 DIGITS -/
def isOctGo : Nat → Str → Bool
  | st, [] => st == 2
  | 0, c :: r => if c == '0' then isOctGo 1 r else false
  | 1, c :: r => if isOctDigit c then isOctGo 2 r else false
  | _, c :: r => if isOctDigit c then isOctGo 2 r else validIntSuffix (c :: r)

def isOct (s : Str) : Bool := !s.isEmpty && isOctGo 0 (stripSign s)

inductive FState
  | start | baseDigits1 | leadingDecimal | trailingDecimal | baseDigits2 | e | mantissaPlusMinus | mantissaDigits
  | suffixF | suffixL | suffixLiteralLeader | suffixLiteral
  deriving DecidableEq, Repr

/-- MathLib::isDecimalFloat after the sign -/
def isDecimalFloatGo : FState → Str → Bool
  | st, [] => st == .baseDigits2 || st == .mantissaDigits || st == .trailingDecimal || st == .suffixF || st == .suffixL
              || st == .suffixLiteral
  | .start, c :: r =>
    if c == '.' then isDecimalFloatGo .leadingDecimal r
    else if isDigit c then isDecimalFloatGo .baseDigits1 r else false
  | .leadingDecimal, c :: r => if isDigit c then isDecimalFloatGo .baseDigits2 r else false
  | .baseDigits1, c :: r =>
    if c == 'e' || c == 'E' then isDecimalFloatGo .e r
    else if c == '.' then isDecimalFloatGo .trailingDecimal r
    else if !isDigit c then false else isDecimalFloatGo .baseDigits1 r
  | .trailingDecimal, c :: r =>
    if c == 'e' || c == 'E' then isDecimalFloatGo .e r
    else if c == 'f' || c == 'F' then isDecimalFloatGo .suffixF r
    else if c == 'l' || c == 'L' then isDecimalFloatGo .suffixL r
    else if c == '_' then isDecimalFloatGo .suffixLiteralLeader r
    else if isDigit c then isDecimalFloatGo .baseDigits2 r else false
  | .baseDigits2, c :: r =>
    if c == 'e' || c == 'E' then isDecimalFloatGo .e r
    else if c == 'f' || c == 'F' then isDecimalFloatGo .suffixF r
    else if c == 'l' || c == 'L' then isDecimalFloatGo .suffixL r
    else if c == '_' then isDecimalFloatGo .suffixLiteralLeader r
    else if !isDigit c then false else isDecimalFloatGo .baseDigits2 r
  | .e, c :: r =>
    if c == '+' || c == '-' then isDecimalFloatGo .mantissaPlusMinus r
    else if isDigit c then isDecimalFloatGo .mantissaDigits r else false
  | .mantissaPlusMinus, c :: r => if !isDigit c then false else isDecimalFloatGo .mantissaDigits r
  | .mantissaDigits, c :: r =>
    if c == 'f' || c == 'F' then isDecimalFloatGo .suffixF r
    else if c == 'l' || c == 'L' then isDecimalFloatGo .suffixL r
    else if !isDigit c then false else isDecimalFloatGo .mantissaDigits r
  | .suffixLiteral, _ :: r => isDecimalFloatGo .suffixLiteral r
  | .suffixLiteralLeader, _ :: r => isDecimalFloatGo .suffixLiteral r
  | .suffixF, _ :: _ => false
  | .suffixL, _ :: _ => false

def isDecimalFloat (s : Str) : Bool := !s.isEmpty && isDecimalFloatGo .start (stripSign s)

/-- MathLib::isInt / isFloat over the alphabet (no `x`, `b`, `p`, quote) -/
def isInt (s : Str) : Bool := isDec s || isOct s
def isFloat (s : Str) : Bool := isDecimalFloat s

/-- Token::isNumber of a token with this spelling (Token::update_property_info: not a name, isNumberLike,
MathLib::isInt or isFloat, no `_`) -/
def isNumber (s : Str) : Bool := numberLike s && (isInt s || isFloat s) && !s.contains '_'

def minusTok : Str := ['-']
def colonTok : Str := [':']
def commaTok : Str := [',']
def bangTok : Str := ['!']

/-- the loop of gettokenlistfromvalid: `- %num%` becomes one token, the scan continues behind it -/
def mergeMinus : List Str → List Str
  | [] => []
  | [t] => [t]
  | t :: n :: r =>
    if t == minusTok && isNumber n then (minusTok ++ n) :: mergeMinus r
    else t :: mergeMinus (n :: r)

/-- token spellings of `valid + ","` as isIntArgValid / isFloatArgValid see them -/
def tokenize (valid : Str) : List Str :=
  mergeMinus ((combine [] (lex (valid ++ [',']))).map fixDot)

/-! ## 3. numbers -/

/-- digits of `strtoull` in the given base: value of the longest digit prefix, number of digits, rest -/
def digitsGo (base : Nat) (acc : Nat) (cnt : Nat) : Str → Nat × Nat × Str
  | [] => (acc, cnt, [])
  | c :: r =>
    match digitVal c with
    | some d => if d < base then digitsGo base (acc * base + d) (cnt + 1) r else (acc, cnt, c :: r)
    | none => (acc, cnt, c :: r)

def two64 : Nat := 18446744073709551616
def two63 : Nat := 9223372036854775808

/-- `std::stoull(str, &idx, base)`: `none` = std::invalid_argument / std::out_of_range;
`some (value as uint64, rest)`; a leading `-` negates modulo 2^64 (strtoull) -/
def stoull (base : Nat) (s : Str) : Option (Nat × Str) :=
  let neg := peek s == '-'
  let body := if peek s == '-' || peek s == '+' then s.drop 1 else s
  let d := digitsGo base 0 0 body
  if d.2.1 == 0 then none
  else if d.1 ≥ two64 then none
  else some (if neg then (two64 - d.1) % two64 else d.1, d.2.2)

/-- uint64 → MathLib::bigint (two's complement) -/
def toSigned (u : Nat) : Int := if u < two63 then (u : Int) else (u : Int) - (two64 : Int)

/-! ### binary64 as scaled integers -/

/-- a finite double `d`, represented exactly by the integer `d * 2^1074` -/
abbrev Dbl := Int

def scale : Nat := 2 ^ 1074
def two53 : Nat := 9007199254740992

/-- round-half-even of `a / b` (b > 0) -/
def roundHalfEven (a b : Nat) : Nat :=
  let k := a / b
  let r := a % b
  if 2 * r < b then k else if 2 * r > b then k + 1 else if k % 2 == 0 then k else k + 1

/-- nearest binary64 (ties to even) of the non-negative rational `num / den`, as scaled magnitude;
`none` = overflow (the result would be ≥ 2^1024) -/
def roundToDouble (num den : Nat) : Option Nat :=
  let n := num * scale
  let f := n / den
  let g := if f < two53 then 1 else 2 ^ (Nat.log2 f - 52)
  let q := roundHalfEven n (den * g) * g
  if q ≥ 2 ^ 2098 then none else some q

/-- decimal digits without a stop: (value, count, rest) -/
def decDigits (s : Str) : Nat × Nat × Str := digitsGo 10 0 0 s

/-- the characters `num_get` accepts for a double: sign? digits [. digits] [e sign? digits];
returns (negative, mantissa digits as a number, number of mantissa digits, decimal exponent, rest) -/
def parseDecimal (s : Str) : Option (Bool × Nat × Nat × Int × Str) :=
  let neg := peek s == '-'
  let body := if peek s == '-' || peek s == '+' then s.drop 1 else s
  let i := decDigits body                      -- integer part
  let hasDot := peek i.2.2 == '.'
  let f := if hasDot then decDigits (i.2.2.drop 1) else (0, 0, i.2.2)     -- fraction
  let ic := i.2.1
  let fc := f.2.1
  let r2 := f.2.2
  if ic + fc == 0 then none
  else
    let mant := i.1 * 10 ^ fc + f.1
    if peek r2 == 'e' || peek r2 == 'E' then
      let r := r2.drop 1
      let eneg := peek r == '-'
      let eb := if peek r == '-' || peek r == '+' then r.drop 1 else r
      let e := decDigits eb
      if e.2.1 == 0 then none
      else some (neg, mant, ic + fc, (if eneg then -(e.1 : Int) else (e.1 : Int)) - (fc : Int), e.2.2)
    else some (neg, mant, ic + fc, -(fc : Int), r2)

/-- MathLib::toDoubleNumber on a number token: `istringstream >> double` (glibc strtod: correctly rounded,
overflow ⇒ failbit ⇒ InternalError, underflow ⇒ denormal or 0).  `none` = InternalError -/
def toDouble (s : Str) : Option Dbl :=
  match parseDecimal s with
  | none => none
  | some (neg, mant, nd, k, rest) =>
    if !rest.isEmpty then none       -- trailing characters: not a number token of the alphabet
    else if mant == 0 then some 0
    else if k > 400 then none
    else if k + (nd : Int) < -400 then some 0
    else
      let r := if k ≥ 0 then roundToDouble (mant * 10 ^ k.toNat) 1 else roundToDouble mant (10 ^ (-k).toNat)
      match r with
      | none => none
      | some q => some (if neg then -(q : Int) else (q : Int))

/-- `static_cast<double>(int64)` -/
def ofInt64 (x : Int) : Dbl :=
  match roundToDouble x.natAbs 1 with
  | some q => if x < 0 then -(q : Int) else (q : Int)
  | none => 0

def int64Max : Int := 9223372036854775807
def int64Min : Int := -9223372036854775808

/-- the float branch of MathLib::toBigNumber: clamp, else truncate toward zero.  `d == 2^63` exactly is an
out-of-range conversion in C++ (undefined); x86-64 `cvttsd2si` yields INT64_MIN, which the model copies. -/
def dblToBig (d : Dbl) : Int :=
  if d > (two63 : Int) * (scale : Int) then int64Max
  else if d < -((two63 : Int) * (scale : Int)) then int64Min
  else if d == (two63 : Int) * (scale : Int) then int64Min
  else Int.tdiv d (scale : Int)

/-- MathLib::toBigNumber on a number token of the alphabet; `none` = InternalError -/
def toBigNumber (s : Str) : Option Int :=
  if isOct s then
    match stoull 8 s with
    | some (u, _) => some (toSigned u)
    | none => none
  else if isFloat s then
    match toDouble s with
    | some d => some (dblToBig d)
    | none => none
  else
    match stoull 10 s with
    | some (u, rest) => if rest.isEmpty || validIntSuffix rest then some (toSigned u) else none
    | none => none

/-! ### `%.12g` and MathLib::toString(double) -/

/-- decimal digits of a natural number, most significant first (`0 ↦ [0]`) -/
def natDigits (n : Nat) : List Nat :=
  if _h : n < 10 then [n] else natDigits (n / 10) ++ [n % 10]
termination_by n
decreasing_by omega

def renderNat (n : Nat) : Str := (natDigits n).map digitChar

/-- least `j ≤ fuel` with `num * 10^j ≥ den` -/
def findUp (num den : Nat) : Nat → Nat → Nat
  | 0, j => j
  | fuel + 1, j => if num * 10 ^ j ≥ den then j else findUp num den fuel (j + 1)

def dropTrailingZeros (s : Str) : Str := (s.reverse.dropWhile (· == '0')).reverse

/-- `printf("%.12g")` of the finite double with scaled value `d` (exact arithmetic, ties to even as glibc) -/
def fmtG12 (d : Dbl) : Str :=
  if d == 0 then ['0']
  else
    let num := d.natAbs
    let den := scale
    -- X = floor(log10 |d|)
    let x0 : Int :=
      if num ≥ den then ((natDigits (num / den)).length : Int) - 1
      else -((findUp num den 400 0 : Nat) : Int)
    -- 12 significant digits
    let m0 :=
      let s : Int := 11 - x0
      if s ≥ 0 then roundHalfEven (num * 10 ^ s.toNat) den else roundHalfEven num (den * 10 ^ (-s).toNat)
    let (m, x) := if m0 ≥ 10 ^ 12 then (m0 / 10, x0 + 1) else (m0, x0)
    let ds := renderNat m          -- exactly 12 digits
    let sign : Str := if d < 0 then ['-'] else []
    if x < -4 || x ≥ 12 then
      let frac := dropTrailingZeros (ds.drop 1)
      let mant := ds.take 1 ++ (if frac.isEmpty then [] else '.' :: frac)
      let ex := x.natAbs
      let exs := if ex < 10 then '0' :: renderNat ex else renderNat ex
      sign ++ mant ++ ['e'] ++ [if x < 0 then '-' else '+'] ++ exs
    else if x ≥ 0 then
      let ip := ds.take (x.toNat + 1)
      let frac := dropTrailingZeros (ds.drop (x.toNat + 1))
      sign ++ ip ++ (if frac.isEmpty then [] else '.' :: frac)
    else
      let frac := dropTrailingZeros (List.replicate ((-x).toNat - 1) '0' ++ ds)
      sign ++ ['0'] ++ (if frac.isEmpty then [] else '.' :: frac)

/-- MathLib::toString<double> -/
def dblToString (d : Dbl) : Str :=
  let s := fmtG12 d
  if s.contains '.' || s.contains 'e' then s else s ++ ".0".toList

/-- MathLib::isEqual(first, second); `none` = InternalError from a conversion -/
def mathIsEqual (a b : Str) : Option Bool :=
  match toDouble a, toDouble b with
  | some x, some y => some (dblToString x == dblToString y)
  | _, _ => none

/-! ## 4. acceptance loops -/

/-- outcome of one `if (cond) return true;` clause whose condition evaluated to `c`:
`some r` = the function is left with `r` (returned `true`, or an InternalError was thrown), `none` = go on -/
def clause : Res → Option Res
  | .err => some .err
  | .ok true => some (.ok true)
  | .ok false => none

/-- the body of the loop of Library::isIntArgValid at the token `t` (`prev` = spelling of `tok->previous()`,
`rest` = the tokens behind it): `some r` = leave with `r`, `none` = next token -/
def intStep (x : Int) (prev : Option Str) (t : Str) (rest : List Str) : Option Res :=
  -- a single value: Token::Match(tok, "%num% !!:") && !Token::simpleMatch(tok->previous(), ":")
  --                  && argvalue == MathLib::toBigNumber(tok)
  clause (if isNumber t && !(rest.head? == some colonTok) && !(prev == some colonTok)
          then (match toBigNumber t with | some v => .ok (x == v) | none => .err) else .ok false)
  -- Token::Match(tok, "%num% : %num%") && argvalue >= toBigNumber(tok) && argvalue <= toBigNumber(tok->tokAt(2))
  <|> clause (match rest with
      | c :: n :: _ =>
        if isNumber t && c == colonTok && isNumber n then
          match toBigNumber t with
          | none => .err
          | some lo => if x ≥ lo then (match toBigNumber n with | none => .err | some hi => .ok (x ≤ hi)) else .ok false
        else .ok false
      | _ => .ok false)
  -- Token::Match(tok, "%num% : ,") && argvalue >= toBigNumber(tok)
  <|> clause (match rest with
      | c :: n :: _ =>
        if isNumber t && c == colonTok && n == commaTok then
          match toBigNumber t with
          | none => .err
          | some lo => .ok (x ≥ lo)
        else .ok false
      | _ => .ok false)
  -- (!tok->previous() || tok->strAt(-1) == ",") && Token::Match(tok, ": %num%") && argvalue <= toBigNumber(tok->tokAt(1))
  <|> clause (match rest with
      | n :: _ =>
        if (prev == none || prev == some commaTok) && t == colonTok && isNumber n then
          match toBigNumber n with
          | none => .err
          | some hi => .ok (x ≤ hi)
        else .ok false
      | [] => .ok false)

/-- the first clause as it was before commit 279e2e4 (`tok->isNumber() && argvalue == toBigNumber(tok)`: fired on the
bounds of a range as well).  Kept only for the counterexample theorem that documents the repaired defect. -/
def intStepOld (x : Int) (prev : Option Str) (t : Str) (rest : List Str) : Option Res :=
  clause (if isNumber t then (match toBigNumber t with | some v => .ok (x == v) | none => .err) else .ok false)
  <|> intStep x prev t rest

def scanIntOld (x : Int) : Option Str → List Str → Res
  | _, [] => .ok false
  | prev, t :: rest =>
    match intStepOld x prev t rest with
    | some r => r
    | none => scanIntOld x (some t) rest

/-- Library::isIntArgValid, the loop over the token list -/
def scanInt (x : Int) : Option Str → List Str → Res
  | _, [] => .ok false
  | prev, t :: rest =>
    match intStep x prev t rest with
    | some r => r
    | none => scanInt x (some t) rest

/-- the body of the loop of Library::isFloatArgValid at the token `t`; `x` is the argument as a scaled double -/
def floatStep (x : Dbl) (prev : Option Str) (t : Str) (rest : List Str) : Option Res :=
  clause (match rest with
      | c :: n :: _ =>
        if isNumber t && c == colonTok && isNumber n then
          match toDouble t with
          | none => .err
          | some lo => if x ≥ lo then (match toDouble n with | none => .err | some hi => .ok (x ≤ hi)) else .ok false
        else .ok false
      | _ => .ok false)
  <|> clause (match rest with
      | c :: n :: _ =>
        if isNumber t && c == colonTok && n == commaTok then
          match toDouble t with
          | none => .err
          | some lo => .ok (x ≥ lo)
        else .ok false
      | _ => .ok false)
  <|> clause (match rest with
      | n :: _ =>
        if (prev == none || prev == some commaTok) && t == colonTok && isNumber n then
          match toDouble n with
          | none => .err
          | some hi => .ok (x ≤ hi)
        else .ok false
      | [] => .ok false)
  -- a single value: Token::Match(tok, "%num% !!:") && !Token::simpleMatch(tok->previous(), ":")
  --                  && MathLib::isFloat(tok->str()) && MathLib::isEqual(tok->str(), MathLib::toString(argvalue))
  <|> clause (if isNumber t && !(rest.head? == some colonTok) && !(prev == some colonTok) && isFloat t then
        (match mathIsEqual t (dblToString x) with
         | none => .err
         | some b => .ok b)
      else .ok false)
  -- Token::Match(tok, "! %num%") && MathLib::isFloat(tok->strAt(1))  =>  return MathLib::isNotEqual(...)
  <|> (match rest with
      | n :: _ =>
        if t == bangTok && isNumber n && isFloat n then
          (match mathIsEqual n (dblToString x) with
           | none => some .err
           | some b => some (.ok (!b)))
        else none
      | [] => none)

/-- Library::isFloatArgValid, the loop over the token list -/
def scanFloat (x : Dbl) : Option Str → List Str → Res
  | _, [] => .ok false
  | prev, t :: rest =>
    match floatStep x prev t rest with
    | some r => r
    | none => scanFloat x (some t) rest

/-- Library::isFloatArgValid for an argument check whose `valid` text is `valid` -/
def isFloatArgValid (valid : Str) (x : Dbl) : Res :=
  if valid.isEmpty then .ok true else scanFloat x none (tokenize valid)

/-- Library::isIntArgValid for an argument check whose `valid` text is `valid` -/
def isIntArgValid (valid : Str) (x : Int) : Res :=
  if valid.isEmpty then .ok true
  else if valid.contains '.' then isFloatArgValid valid (ofInt64 x)
  else scanInt x none (tokenize valid)

/-- The decision of Token::getInvalidValue / CheckFunctions::invalidFunctionUsage for an argument whose value list
is the single Known (not impossible, not inconclusive, unconditional) integer `x`:
`some true` = invalidFunctionArg is reported (severity error), `some false` = silent, `none` = InternalError.
How value flow arrives at that value list is outside the model. -/
def reportsInvalidArg (valid : Str) (x : Int) : Option Bool :=
  match isIntArgValid valid x with
  | .ok b => some (!b)
  | .err => none

/-- `Token::getInvalidValue` finds the Known value refused by Library::isIntArgValid -/
def knownRefused (valid : Str) (known : Option Int) : Bool :=
  match known with
  | none => false
  | some x => isIntArgValid valid x == .ok false

/-- what CheckFunctions::invalidFunctionUsage reports for one call argument -/
structure ArgReport where
  /-- invalidFunctionArg "The value is x but the valid values are ..." (from Token::getInvalidValue) -/
  invalidValue : Bool
  /-- invalidFunctionArgBool "A non-boolean value is required." -/
  notBool : Bool
  /-- invalidFunctionArg "The value is 0 or 1 (boolean) but the valid values are ..." -/
  boolRange : Bool
  deriving DecidableEq, Repr

/-- the finding *id* invalidFunctionArg is on the call when either of its two messages is -/
def ArgReport.idInvalidArg (r : ArgReport) : Bool := r.invalidValue || r.boolRange

/-- The body of the argument loop of CheckFunctions::invalidFunctionUsage for an argument of a matching library call:
`valid` = the `<valid>` text of its declaration ("" when there is none), `notbool` = `<not-bool/>` declared,
`isBool` = `astIsBool(argtok)`, `known` = the Known integer value of the argument if value flow has one.
The `<valid>` check and the boolean block are two separate `if` statements:
```
if (invalidValue) invalidFunctionArgError(.., invalidValue, ..);
if (astIsBool(argtok)) {
    if (isboolargbad) invalidFunctionArgBoolError(..);
    else if (!isIntArgValid(.., 0)) invalidFunctionArgError(.., nullptr, ..);
    else if (!isIntArgValid(.., 1)) invalidFunctionArgError(.., nullptr, ..);
}
```
`none` = an InternalError left the function. -/
def argDecision (valid : Str) (notbool : Bool) (isBool : Bool) (known : Option Int) : Option ArgReport :=
  let a : Option Bool :=
    match known with
    | none => some false
    | some x => (match isIntArgValid valid x with | .ok b => some (!b) | .err => none)
  let r : Option Bool :=
    if isBool && !notbool then
      match isIntArgValid valid 0 with
      | .err => none
      | .ok false => some true
      | .ok true => (match isIntArgValid valid 1 with | .err => none | .ok b => some (!b))
    else some false
  match a, r with
  | some a, some r => some { invalidValue := a, notBool := isBool && notbool, boolRange := r }
  | _, _ => none

/-- what `Library::load` + isIntArgValid do with an `<arg><valid>` text: rejected at load time, or the verdict -/
inductive Loaded | rejected | verdict (r : Res)
  deriving DecidableEq, Repr

def loadAndCheckInt (valid : Str) (x : Int) : Loaded :=
  if isCompliant valid then .verdict (isIntArgValid valid x) else .rejected

def loadAndCheckFloat (valid : Str) (x : Dbl) : Loaded :=
  if isCompliant valid then .verdict (isFloatArgValid valid x) else .rejected

/-! ## 5. Spec: the documented grammar and its denotation -/

/-- `range ::= n | n:m | n: | :m` -/
inductive Range
  | single (n : Int)
  | closed (lo hi : Int)
  | from (lo : Int)
  | upto (hi : Int)
  deriving DecidableEq, Repr, Inhabited

/-- a non-empty comma separated list of ranges -/
structure ValidExpr where
  first : Range
  rest : List Range
  deriving DecidableEq, Repr, Inhabited

def ValidExpr.ranges (v : ValidExpr) : List Range := v.first :: v.rest

def Range.mem (x : Int) : Range → Prop
  | .single n => x = n
  | .closed lo hi => lo ≤ x ∧ x ≤ hi
  | .from lo => lo ≤ x
  | .upto hi => x ≤ hi

instance (x : Int) (r : Range) : Decidable (r.mem x) := by
  cases r <;> unfold Range.mem <;> infer_instance

/-- ⟦v⟧: union of the intervals -/
def ValidExpr.mem (x : Int) (v : ValidExpr) : Prop := ∃ r ∈ v.ranges, r.mem x

instance (x : Int) (v : ValidExpr) : Decidable (v.mem x) := by
  unfold ValidExpr.mem; infer_instance

def renderInt (n : Int) : Str := if n < 0 then '-' :: renderNat n.natAbs else renderNat n.natAbs

def Range.render : Range → Str
  | .single n => renderInt n
  | .closed lo hi => renderInt lo ++ ':' :: renderInt hi
  | .from lo => renderInt lo ++ [':']
  | .upto hi => ':' :: renderInt hi

def renderRanges : List Range → Str
  | [] => []
  | [r] => r.render
  | r :: rs => r.render ++ ',' :: renderRanges rs

def ValidExpr.render (v : ValidExpr) : Str := renderRanges v.ranges

/-- all bounds fit MathLib::bigint -/
def inInt64 (n : Int) : Bool := int64Min ≤ n && n ≤ int64Max

def Range.bounded : Range → Bool
  | .single n => inInt64 n
  | .closed lo hi => inInt64 lo && inInt64 hi
  | .from lo => inInt64 lo
  | .upto hi => inInt64 hi

def ValidExpr.bounded (v : ValidExpr) : Bool := v.ranges.all Range.bounded

/-- Bool versions (used in the statements about the executable functions) -/
def Range.memB (x : Int) : Range → Bool
  | .single n => x == n
  | .closed lo hi => decide (lo ≤ x) && decide (x ≤ hi)
  | .from lo => decide (lo ≤ x)
  | .upto hi => decide (x ≤ hi)

/-- what Library::isFloatArgValid accepts for a range whose bounds are written as integers: an integer-formatted
single value never matches (clause `%num% && MathLib::isFloat(tok->str())`), intervals compare exactly -/
def Range.memFloatB (x : Dbl) : Range → Bool
  | .single _ => false
  | .closed lo hi => decide (lo * (scale : Int) ≤ x) && decide (x ≤ hi * (scale : Int))
  | .from lo => decide (lo * (scale : Int) ≤ x)
  | .upto hi => decide (x ≤ hi * (scale : Int))

/-- std::stoull followed by the conversion to MathLib::bigint: a bound is reduced modulo 2^64 into int64 -/
def wrap64 (n : Int) : Int := (n + 9223372036854775808) % 18446744073709551616 - 9223372036854775808

def Range.mapB (f : Int → Int) : Range → Range
  | .single n => .single (f n)
  | .closed lo hi => .closed (f lo) (f hi)
  | .from lo => .from (f lo)
  | .upto hi => .upto (f hi)

def Range.bounds : Range → List Int
  | .single n => [n]
  | .closed lo hi => [lo, hi]
  | .from lo => [lo]
  | .upto hi => [hi]

/-- bounds whose magnitude std::stoull still accepts (|n| < 2^64) -/
def in65 (n : Int) : Bool := decide (-(two64 : Int) < n) && decide (n < (two64 : Int))

def ValidExpr.bounded65 (v : ValidExpr) : Bool := v.ranges.all (fun r => r.bounds.all in65)

/-- the token list the acceptance loops see for a rendered expression -/
def Range.toks : Range → List Str
  | .single n => [renderInt n]
  | .closed lo hi => [renderInt lo, colonTok, renderInt hi]
  | .from lo => [renderInt lo, colonTok]
  | .upto hi => [colonTok, renderInt hi]

def rangesToks : List Range → List Str
  | [] => []
  | r :: rs => r.toks ++ commaTok :: rangesToks rs

/-- bounds strictly inside ±2^53 (exactly representable, and so is every integer between) -/
def in53 (n : Int) : Bool := decide (-(two53 : Int) < n) && decide (n < (two53 : Int))

def Range.bounded53 : Range → Bool
  | .single n => in53 n
  | .closed lo hi => in53 lo && in53 hi
  | .from lo => in53 lo
  | .upto hi => in53 hi

def ValidExpr.bounded53 (v : ValidExpr) : Bool := v.ranges.all Range.bounded53

/-- canonical decimal integer token (optional `-`, digits, no redundant leading zero, no `-0`) ↦ value: the
number syntax of the documented grammar.  Canonicity is checked by rendering the value again. -/
def decodeIntTok (s : Str) : Option Int :=
  let neg := peek s == '-'
  let body := if neg then s.drop 1 else s
  let d := digitsGo 10 0 0 body
  if d.2.1 != 0 && d.2.2.isEmpty then some (if neg then -(d.1 : Int) else (d.1 : Int)) else none

def parseIntTok (s : Str) : Option Int :=
  match decodeIntTok s with
  | some v => if renderInt v == s then some v else none
  | none => none

/-- one range at the front of the token list; returns the range and the tokens behind it -/
def parseRange : List Str → Option (Range × List Str)
  | [] => none
  | a :: rest =>
    if a == colonTok then
      match rest with
      | b :: r => (match parseIntTok b with | some hi => some (.upto hi, r) | none => none)
      | [] => none
    else
      match parseIntTok a with
      | none => none
      | some n =>
        match rest with
        | c :: r' =>
          if c == colonTok then
            match r' with
            | d :: r'' => (match parseIntTok d with | some hi => some (.closed n hi, r'') | none => some (.from n, r'))
            | [] => some (.from n, r')
          else some (.single n, rest)
        | [] => some (.single n, rest)

/-- parser of the documented grammar on the token list: every range is followed by a `,` token -/
def parseRanges : Nat → List Str → Option (List Range)
  | _, [] => some []
  | 0, _ :: _ => none
  | fuel + 1, t :: ts =>
    match parseRange (t :: ts) with
    | some (r, c :: rest) =>
      if c == commaTok then (match parseRanges fuel rest with | some rs => some (r :: rs) | none => none) else none
    | _ => none

def parseValid (s : Str) : Option ValidExpr :=
  match parseRanges (tokenize s).length (tokenize s) with
  | some (r :: rs) => some ⟨r, rs⟩
  | _ => none

/-! ## 6. argument-check decision tables -/

/-- one `<arg nr=…>` element as the loader reads it -/
structure ArgDecl where
  nr : Int                   -- `any` and `variadic` are stored under -1
  variadic : Bool := false
  optional : Bool := false   -- attribute `default` present
  notbool : Bool := false
  notnull : Bool := false
  notuninit : Option Int := none   -- `indirect` of a `<not-uninit>` child (0 when the attribute is absent)
  formatstr : Bool := false
  hasValid : Bool := false
  deriving DecidableEq, Repr, Inhabited

/-- Library::ArgumentChecks (the fields used here) -/
structure ArgChecks where
  notbool : Bool := false
  notnull : Bool := false
  notuninit : Int := -1
  formatstr : Bool := false
  optional : Bool := false
  variadic : Bool := false
  hasValid : Bool := false
  deriving DecidableEq, Repr, Inhabited

/-- `func.argumentChecks[nr]` updated by one `<arg>` element (Library::loadFunction) -/
def applyDecl (old : ArgChecks) (d : ArgDecl) : ArgChecks :=
  let nu := match d.notuninit with | some i => i | none => old.notuninit
  let nn := old.notnull || d.notnull
  { notbool := old.notbool || d.notbool
    notnull := nn
    notuninit := if nu == 0 then (if nn then 1 else 0) else nu
    formatstr := old.formatstr || d.formatstr
    optional := d.optional
    variadic := d.variadic
    hasValid := old.hasValid || d.hasValid }

def lookup (m : List (Int × ArgChecks)) (k : Int) : Option ArgChecks :=
  match m with
  | [] => none
  | (k', a) :: r => if k' == k then some a else lookup r k

/-- insert into the key-ordered association list (std::map<int, ArgumentChecks>) -/
def insertSorted (k : Int) (a : ArgChecks) : List (Int × ArgChecks) → List (Int × ArgChecks)
  | [] => [(k, a)]
  | (k', a') :: r =>
    if k < k' then (k, a) :: (k', a') :: r
    else if k == k' then (k, a) :: r
    else (k', a') :: insertSorted k a r

def loadArgs (ds : List ArgDecl) : List (Int × ArgChecks) :=
  ds.foldl (fun m d => insertSorted d.nr (applyDecl ((lookup m d.nr).getD {}) d) m) []

/-- a `<function>`: function-level `<formatstr>` (0 none, 1 with scan="true", 2 without) and its arguments -/
structure FuncCfg where
  fmt : Nat
  args : List (Int × ArgChecks)
  deriving Repr

/-- Library::matchArguments for a call with `callargs` arguments (iteration in key order) -/
def matchArgsGo (callargs : Int) : Int → Int → List (Int × ArgChecks) → Bool
  | args, firstOpt, [] => if firstOpt < 0 then args == callargs else (callargs ≥ firstOpt - 1 && callargs ≤ args)
  | args, firstOpt, (k, a) :: r =>
    let args := if k > args then k else args
    let firstOpt := if a.optional && (firstOpt == -1 || firstOpt > k) then k else firstOpt
    if a.formatstr || a.variadic then args ≤ callargs
    else matchArgsGo callargs args firstOpt r

def matchArguments (f : FuncCfg) (callargs : Nat) : Bool := matchArgsGo callargs 0 (-1) f.args

/-- Library::getarg for the call `f(a1..a_callargs)` of a global, non-variable name -/
def getarg (f : FuncCfg) (callargs : Nat) (argnr : Int) : Option ArgChecks :=
  if !matchArguments f callargs then none
  else match lookup f.args argnr with
    | some a => some a
    | none => lookup f.args (-1)

def isnullargbad (f : FuncCfg) (callargs : Nat) (argnr : Int) : Bool :=
  match getarg f callargs argnr with
  | none => f.fmt == 1
  | some a => a.notnull

def isboolargbad (f : FuncCfg) (callargs : Nat) (argnr : Int) : Bool :=
  match getarg f callargs argnr with
  | none => false
  | some a => a.notbool

def isuninitargbad (f : FuncCfg) (callargs : Nat) (argnr : Int) (indirect : Int) : Bool :=
  match getarg f callargs argnr with
  | none => f.fmt == 2
  | some a => a.notuninit ≥ indirect

def hasValid (f : FuncCfg) (callargs : Nat) (argnr : Int) : Bool :=
  match getarg f callargs argnr with
  | none => false
  | some a => a.hasValid

end Cppcheck.LibValid

import Cppcheck.Model.Wire
/-
C23 — model of `matchglob` (lib/utils.cpp).

  * `scan` / `run`   copy of the C++ control structure: the inner `while (*p != 0 && matching)` loop with the
                     "skip to the next literal after `*`" optimisation and the explicit backtrack stack of
                     (pattern position, name position) pairs; the outer `for (;;)` pops the stack.  `run` is
                     fuelled; `Proofs/Glob.lean` proves that it always terminates and what it returns.
  * `dfs`            the same search written as structural recursion (what the stack machine computes).
  * `matchglob`      = `dfs` on the `c_str()` views of the two strings, for the code selected by `fixApplied`;
    `matchglobPre`   = the algorithm before /verif/proposed/C23-matchglob.diff (`fx = false`, commit e33b503),
    `matchglobFixed` = the algorithm after it (`fx = true`, /repo commit 1cf3800).
  * `Spec.Matches`   the documented meaning: `*` = any string, `?` = any single character.

The flag `fx` selects the repaired algorithm: consecutive `*` are collapsed and no skipping is done when the
character after `*` is `?`.
-/
namespace Cppcheck.Glob
open Cppcheck.Wire

/-- `std::string::c_str()` view read by `matchglob`: the bytes before the first NUL -/
def cstr : Str → Str
  | [] => []
  | c :: r => if c = '\x00' then [] else c :: cstr r

/-- `tolower` in the "C" locale on a byte -/
def lower (c : Char) : Char :=
  if 'A' ≤ c ∧ c ≤ 'Z' then Char.ofNat (c.toNat + 32) else c

/-- literal comparison of one name byte `d` with one pattern byte `c` -/
def litEq (ci : Bool) (d c : Char) : Bool := d = c || (ci && lower d = lower c)

/-- does the skip loop after `*` stop at name byte `c`?  `nx` = `p[1]` (`none` = the terminating NUL).
    current code: `*n == p[1]`; repaired code: additionally never skips when `p[1] == '?'` -/
def stopAt (fx : Bool) (nx : Option Char) (c : Char) : Bool :=
  (fx && nx = some '?') || nx = some c

/-- `while (*n != '\0' && *n != p[1]) n++;` -/
def skipTo (stop : Char → Bool) : Str → Str
  | [] => []
  | c :: r => if stop c then c :: r else skipTo stop r

abbrev Stack := List (Str × Str)

/-- the inner loop `while (*p != '\0' && matching) { switch (*p) … ; p++ }` started at pattern position `p`,
    name position `n`; result = (`matching && *n == '\0'`, backtrack stack afterwards) -/
def scan (fx ci : Bool) : Str → Str → Stack → Bool × Stack
  | [], n, st => (n.isEmpty, st)
  | c :: p, n, st =>
    if c = '*' then
      if fx && p.head? = some '*' then scan fx ci p n st           -- repaired code: `while (p[1] == '*') p++;`
      else
        let n1 := skipTo (stopAt fx p.head?) n
        scan fx ci p n1 (if n1.isEmpty then st else (c :: p, n1) :: st)
    else match n with
      | [] => (false, st)
      | d :: n' =>
        if c = '?' || litEq ci d c then scan fx ci p n' st else (false, st)

/-- the outer `for (;;)`: scan; success ⇒ true; empty stack ⇒ false; otherwise restore the top entry and
    advance its name pointer by one.  `none` = out of fuel (proved impossible for large enough fuel). -/
def run (fx ci : Bool) : Nat → Str → Str → Stack → Option Bool
  | 0, _, _, _ => none
  | fuel + 1, p, n, st =>
    match scan fx ci p n st with
    | (true, _) => some true
    | (false, []) => some false
    | (false, (q, m) :: r) => run fx ci fuel q m.tail r

/-- try the continuation `k` at every stop position of the skip loop, leftmost first -/
def starAlt (stop : Char → Bool) (k : Str → Bool) : Str → Bool
  | [] => k []
  | c :: r => if stop c then k (c :: r) || starAlt stop k r else starAlt stop k r

/-- what the stack machine computes, as structural recursion -/
def dfs (fx ci : Bool) : Str → Str → Bool
  | [], n => n.isEmpty
  | c :: p, n =>
    if c = '*' then
      if fx && p.head? = some '*' then dfs fx ci p n
      else starAlt (stopAt fx p.head?) (dfs fx ci p) n
    else match n with
      | [] => false
      | d :: n' => if c = '?' || litEq ci d c then dfs fx ci p n' else false

/-- SWITCH: is /verif/proposed/C23-matchglob.diff part of lib/utils.cpp?  (`true` since /repo commit 1cf3800) -/
def fixApplied : Bool := true

/-- `matchglob` before the repair (pinned commit e33b503) -/
def matchglobPre (p n : Str) (ci : Bool := false) : Bool := dfs false ci (cstr p) (cstr n)

/-- `matchglob` after the repair -/
def matchglobFixed (p n : Str) (ci : Bool := false) : Bool := dfs true ci (cstr p) (cstr n)

/-- `matchglob(pattern, name, caseInsensitive)` of the current code -/
def matchglob (p n : Str) (ci : Bool := false) : Bool := dfs fixApplied ci (cstr p) (cstr n)

/-- generous fuel for executing the stack machine in the driver -/
def fuelFor (p n : Str) : Nat := (n.length + 2) ^ (p.length + 1) + 1

def matchglobStack (fx : Bool) (p n : Str) (ci : Bool := false) : Option Bool :=
  run fx ci (fuelFor (cstr p) (cstr n)) (cstr p) (cstr n) []

/-- the patterns on which the current `matchglob` is exact: every `*` is followed by a literal, by the end of
    the pattern, or by nothing but further `*` -/
def starOk : Str → Bool
  | [] => true
  | c :: r =>
    (c != '*' || r.all (· == '*') || (match r with | [] => true | d :: _ => d != '*' && d != '?')) && starOk r

/-- `isValidGlobPattern` (lib/utils.cpp): at most two consecutive `*`, no `?` directly after a run of `*` -/
def validGlobAux : Nat → Str → Bool
  | _, [] => true
  | k, c :: r =>
    if c = '*' then (if k + 1 > 2 then false else validGlobAux (k + 1) r)
    else if c = '?' then (if k > 0 then false else validGlobAux k r)
    else validGlobAux 0 r

def isValidGlobPattern (p : Str) : Bool := validGlobAux 0 p

namespace Spec

/-- documented glob language: `*` matches any string, `?` any single character, everything else itself -/
inductive Matches : Str → Str → Prop
  | nil : Matches [] []
  | star (a : Str) {p b : Str} : Matches p b → Matches ('*' :: p) (a ++ b)
  | any (d : Char) {p n : Str} : Matches p n → Matches ('?' :: p) (d :: n)
  | lit (c : Char) {p n : Str} : c ≠ '*' → c ≠ '?' → Matches p n → Matches (c :: p) (c :: n)

def anySuffix (k : Str → Bool) : Str → Bool
  | [] => k []
  | c :: r => k (c :: r) || anySuffix k r

/-- executable form of `Matches` -/
def matchesB : Str → Str → Bool
  | [], n => n.isEmpty
  | c :: p, n =>
    if c = '*' then anySuffix (matchesB p) n
    else match n with
      | [] => false
      | d :: n' => (c = '?' || d = c) && matchesB p n'

end Spec

end Cppcheck.Glob

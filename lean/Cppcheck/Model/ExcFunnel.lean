/-
C13 (a) — exception funnel.  Executable definitions only.

The translator (vlib/props/c13.py + harness/c13.cpp, a clang-14 typed-AST extractor) turns the working tree
of /repo into a finite table `Prog`:

* `Hier`   : public-base relation of every class type that is thrown or caught (by type index);
* `Site`   : every `throw T(...)` expression, every `throw;` (typed by its handler) and every call of a
             throwing std function (`std::stoi`, `.at()`, …) with the try blocks that enclose it *inside its
             own function* (innermost first, each a handler list in source order);
* `Row`    : for every function defined in the project, all its callers: `callers` = calls outside any try
             block, `pcallers` = calls inside try blocks (with the handler lists, innermost first).  Virtual
             calls are expanded to all overriders, creating a lambda / taking a function's address is a call.
* `entries`: `main`, static initialisation, the analysis API (`CppCheck::check`, `checkBuffer`, `analyseWholeProgram`) and every
             function with a non-throwing exception specification (`noexcept`, destructors): an exception that tries to
             leave one of those calls `std::terminate` whatever handlers are further up.

`Cert` is the certificate the translator computes (a fixpoint): for every exception type the set of
functions the type may propagate out of, as a bit mask over function ids.  `closed` is the decidable
check that the certificate is inductive; Proofs/ExcFunnel.lean proves that a closed certificate
over-approximates every propagation chain of any length.
-/
namespace Cppcheck.ExcFunnel

abbrev Ty := Nat
abbrev Fn := Nat

/-- one `catch` clause -/
inductive Handler where
  | all                 -- catch (...)
  | ty (t : Ty)         -- catch (const T&)
  deriving DecidableEq, Repr, Inhabited

/-- `supers[t]` = direct public bases of type `t` (for `T*`: `const T*`) -/
structure Hier where
  supers : List (List Ty)
  deriving Repr

def Hier.bases (h : Hier) (t : Ty) : List Ty := h.supers.getD t []

/-- `t` is `u` or has `u` as a (transitive) public base; `fuel` bounds the chain length -/
def isSub (h : Hier) : Nat → Ty → Ty → Bool
  | 0, t, u => t == u
  | n + 1, t, u => t == u || (h.bases t).any (fun b => isSub h n b u)

/-- subtyping with fuel = number of types (every acyclic chain is shorter) -/
def Hier.sub (h : Hier) (t u : Ty) : Bool := isSub h h.supers.length t u

/-- C++ [except.handle]: a handler of type `u` takes an exception of type `t` iff `t` is `u` or derives from it -/
def Handler.catches (h : Hier) : Handler → Ty → Bool
  | .all, _ => true
  | .ty u, t => h.sub t u

/-- enclosing try blocks of one program point inside one function, innermost first -/
abbrev Ctx := List (List Handler)

def caughtBy (h : Hier) (hs : List Handler) (t : Ty) : Bool := hs.any (fun x => x.catches h t)
def caughtIn (h : Hier) (ctx : Ctx) (t : Ty) : Bool := ctx.any (fun hs => caughtBy h hs t)

/-- what a handler of a funnel does with the exception -/
inductive Action where
  | finding      -- reports an internalError / the InternalError's own id through the error logger
  | swallow      -- ends the analysis of the file silently
  | rethrow      -- throws again
  | exit         -- terminates the process with a normal exit status
  deriving DecidableEq, Repr, Inhabited

/-- the first handler in source order that takes `t` (order matters: TerminateException <: runtime_error) -/
def firstMatch (h : Hier) : List (Handler × Action) → Ty → Option (Handler × Action)
  | [], _ => none
  | (x, a) :: rest, t => if x.catches h t then some (x, a) else firstMatch h rest t

structure Site where
  id : Nat
  fn : Fn
  ty : Ty
  ctx : Ctx
  /-- 0 = no guard; k > 0 = the translator recognised guard kind k for this site in the AST (e.g. `m.at(k)` dominated by
      `m.count(k) > 0`).  The semantics (`Escapes`) does NOT trust it: a guarded site propagates like any other; the
      containment theorems are stated for `guard = 0` and the guarded sites are listed as assumptions in the evidence. -/
  guard : Nat
  deriving Repr

/-- a call that sits inside at least one try block, or carries a guard -/
structure PEdge where
  caller : Fn
  ctx : Ctx
  /-- types that cannot come out of this call because the translator established the callee's
      precondition at the call (e.g. `v.get<T>()` dominated by `v.is<T>()`) -/
  blocked : List Ty
  deriving Repr

def PEdge.passes (h : Hier) (e : PEdge) (t : Ty) : Bool := !(caughtIn h e.ctx t) && !(e.blocked.contains t)

structure Row where
  fn : Fn
  callers : List Fn
  pcallers : List PEdge
  deriving Repr

/-- Table encoding used by the generated module (keeps elaboration of ~25 000 call edges fast): one natural number per
callee, little-endian base `2^13` digits `callee+1, caller₁+1, caller₂+1, …` (function ids are < 8191, at most
`rowDigits - 1` callers per code; a callee with more callers has several codes). -/
def digitBase : Nat := 8192

def digits : Nat → Nat → List Nat
  | 0, _ => []
  | fuel + 1, n => bif Nat.beq n 0 then [] else (n % digitBase) :: digits fuel (n / digitBase)

/-- a callee with its callers outside try blocks; an ill-formed code (no digits) decodes to a row nobody matches -/
def rowDigits : Nat := 32

def decodeRow (n : Nat) : Row :=
  match digits rowDigits n with
  | [] => ⟨digitBase, [], []⟩
  | d :: ds => ⟨d - 1, ds.map (· - 1), []⟩

/-- a row code is well formed: it has a callee digit, no zero digit (a zero digit would decode to caller `0 - 1 = 0`) and
`rowDigits` digits are enough to consume the whole number (nothing of the code is ignored by the fuel) -/
def codeWf (n : Nat) : Bool :=
  match digits rowDigits n with
  | [] => false
  | ds => ds.all (fun d => !(Nat.beq d 0)) && Nat.beq (n / digitBase ^ rowDigits) 0

structure Prog where
  hier : Hier
  sites : List Site
  rows : List Row
  entries : List Fn

/-- bit `f` of mask `m`, written with the `Nat` primitives the kernel evaluates natively on literals -/
def bitOf (m f : Nat) : Bool := Nat.beq (Nat.shiftRight m f % 2) 1

/-- certificate: `reach[t]` = bit mask (over function ids) of the functions type `t` may propagate out of;
`any` = a mask containing all of them (lets the check skip the callees nothing propagates out of) -/
structure Cert where
  reach : List Nat
  any : Nat

def Cert.mem (c : Cert) (t : Ty) (f : Fn) : Bool := bitOf (c.reach.getD t 0) f

def Cert.wf (c : Cert) (types : List Ty) : Bool := types.all fun t => Nat.beq (Nat.lor c.any (c.reach.getD t 0)) c.any

def siteOk (P : Prog) (c : Cert) (excl : List Nat) (s : Site) : Bool :=
  s.guard != 0 || caughtIn P.hier s.ctx s.ty || excl.contains s.id || c.mem s.ty s.fn

def rowOk (P : Prog) (c : Cert) (types : List Ty) (r : Row) : Bool :=
  !(bitOf c.any r.fn) ||
  types.all fun t =>
    !(c.mem t r.fn) ||
      (r.callers.all (fun f => c.mem t f) && r.pcallers.all (fun e => !(e.passes P.hier t) || c.mem t e.caller))

/-- the certificate is inductive for all sites except the excluded ones (the alarms) -/
def closed (P : Prog) (c : Cert) (types : List Ty) (excl : List Nat) : Bool :=
  c.wf types && P.sites.all (fun s => types.contains s.ty && siteOk P c excl s) && P.rows.all (rowOk P c types)

/-- no type can propagate out of an entry point -/
def entriesClear (P : Prog) (c : Cert) (types : List Ty) : Bool :=
  P.entries.all fun e => types.all fun t => !(c.mem t e)

/-- a claimed propagation chain: the site's function, then every further function up to an entry point together
with the index of the row of `P.rows` that holds the call edge from the previous function -/
structure Path where
  site : Nat
  first : Fn
  hops : List (Fn × Nat)
  deriving Repr

def edgeAt (P : Prog) (t : Ty) (callee caller : Fn) (idx : Nat) : Bool :=
  match P.rows[idx]? with
  | none => false
  | some r => r.fn == callee &&
      (r.callers.contains caller || r.pcallers.any (fun e => e.caller == caller && e.passes P.hier t))

def chainOk (P : Prog) (t : Ty) : Fn → List (Fn × Nat) → Bool
  | cur, [] => P.entries.contains cur
  | cur, (nxt, idx) :: rest => edgeAt P t cur nxt idx && chainOk P t nxt rest

def pathOk (P : Prog) (p : Path) : Bool :=
  P.sites.any fun s => s.id == p.site && s.guard == 0 && !(caughtIn P.hier s.ctx s.ty) &&
    p.first == s.fn && chainOk P s.ty p.first p.hops

/-- a funnel: the handler list of one of the outer try blocks of the per-file analysis -/
structure Funnel where
  name : String
  handlers : List (Handler × Action)

/-- every type the funnel takes becomes a finding; only (subtypes of) `term` are swallowed -/
def funnelActionsOk (h : Hier) (f : Funnel) (types : List Ty) (term : Ty) : Bool :=
  types.all fun t =>
    match firstMatch h f.handlers t with
    | none => true
    | some (_, a) => a == Action.finding || (a == Action.swallow && h.sub t term)

end Cppcheck.ExcFunnel

import Cppcheck.Model.CondExpr
import Cppcheck.Model.CondOpposite
/-
C03 — models of two checks of lib/checkcondition.cpp that report "always true / always false" for one comparison token:
  * `CheckCondition::checkCompareValueOutOfTypeRange`  (Known constant against the value range of the other operand's type)
  * `CheckCondition::comparison`                        (`(X & c1) == c2`, `(X | c1) >= c2`, … patterns)
Both walk the token list and look at every comparison token; in the model the conditions are walked in order and every
condition in token order (in-order of the AST).  The output is the list of findings (id, column, short message).
-/
namespace Cppcheck.CondExpr

def Expr.isLit : Expr → Bool
  | .lit _ _ => true
  | _ => false

/-- bit count `checkCompareValueOutOfTypeRange` assigns to a `ValueType::Type` on platform unix64 -/
def typeBits : Nat → Nat
  | 0 => 1 | 1 => 8 | 2 => 16 | 3 => 32 | 4 => 64 | 5 => 64 | _ => 0

def notSigned (vt : Option VT) (ifNone : Bool) : Bool :=
  match vt with
  | some v => v.sign != .signed
  | none => ifNone

/-- checkcondition.cpp:2023-2074: the verdict from the constant `kiv` (`i = 0`: it is the first operand, `num cmp var`;
    `i = 1`: the second) and the value interval `[typeMin, typeMax]` computed for the other operand -/
def rangeVerdict (op : BinOp) (i : Nat) (kiv typeMin typeMax : Int) : Option Bool :=
  if kiv == 0 then none
  else
    let result : Bool :=
      match op with
      | .eq => false
      | .ne => true
      | .gt | .ge => if i == 0 then decide (kiv > 0) else decide (kiv < 0)
      | .lt | .le => if i == 0 then decide (kiv < 0) else decide (kiv > 0)
      | _ => false
    if kiv < typeMin || kiv > typeMax then some result
    else if i == 0 then
      if kiv == typeMin then (if op == .le then some true else if op == .gt then some result else none)
      else if kiv == typeMax && (op == .ge || op == .lt) then some result
      else none
    else
      if kiv == typeMin then (if op == .ge then some true else if op == .lt then some result else none)
      else if kiv == typeMax && (op == .le || op == .gt) then some result
      else none

/-- checkcondition.cpp:2013-2021 -/
def typeInterval (tvt : VT) (valueVt : Option VT) : Option (Int × Int) :=
  let bits := typeBits tvt.type
  if bits == 0 || bits ≥ 63 then none
  else
    let typeMin : Int := if tvt.sign == .unsigned then 0 else -(2 ^ (bits - 1))
    let umax : Int := 2 ^ bits - 1
    let typeMax : Int :=
      if tvt.sign != .signed then umax
      else if bits ≥ 32 && notSigned valueVt true then umax
      else umax / 2
    some (typeMin, typeMax)

/-- verdict for one side: `i = 0`: `valueTok` is the first operand (`num cmp var`), `i = 1`: the second.
    `some b` = "Condition is always b" -/
def outOfRange (op : BinOp) (i : Nat) (valueTok typeTok : Expr) : Option Bool :=
  match valueTok.ann.known, typeTok.ann.vt with
  | some kiv, some tvt =>
    if kiv < 0 && notSigned valueTok.ann.vt false then none
    else if typeTok.isLit then none
    else
      match typeInterval tvt valueTok.ann.vt with
      | none => none
      | some (typeMin, typeMax) => rangeVerdict op i kiv typeMin typeMax
  | _, _ => none

/-- the value type cppcheck attached to a token describes the token's values under the semantics `S`: it is the token's
    C type, or `bool` (sign not `signed`) on a 0/1-valued operator (`!`, comparison, `&&`, `||`) -/
def vtOK (S : Sem) (e : Expr) : Bool :=
  match e.ann.vt with
  | some vt => vt == toVT (tyOf S e) || (vt.type == 0 && vt.sign != .signed && e.isBoolVal)
  | none => true

/-- `vtOK` on every node -/
def vtAll (S : Sem) : Expr → Bool
  | .lit a sp => vtOK S (.lit a sp)
  | .var a x => vtOK S (.var a x)
  | .un a op e => vtOK S (.un a op e) && vtAll S e
  | .bin a op l r => vtOK S (.bin a op l r) && vtAll S l && vtAll S r

def boolWord (b : Bool) : String := if b then "true" else "false"

/-- `ValueType::str()` for a non-pointer integral type -/
def vtName (vt : VT) : String :=
  let s := match vt.sign with | .signed => "signed " | .unsigned => "unsigned " | .unknown => ""
  let t := match vt.type with
    | 0 => "bool" | 1 => "char" | 2 => "short" | 3 => "int" | 4 => "long" | 5 => "long long" | _ => "?"
  s ++ t

/-- a reported finding; `verdict` is the truth value the message claims ("… always true." / "… always false."), kept as a
    field so that theorems can speak about it (`finding_msg_verdict` ties it to the text) -/
structure Finding where
  id : String
  col : Nat
  msg : String
  verdict : Bool
  deriving Repr, DecidableEq

/-- the (at most one: `diag(tok)`) compareValueOutOfTypeRangeError of a comparison token -/
def rangeFinding (op : BinOp) (l r : Expr) : Option Finding :=
  let mk (valueTok typeTok : Expr) (b : Bool) : Finding :=
    { id := "compareValueOutOfTypeRangeError", col := valueTok.ann.col,
      msg := "Comparing expression of type '" ++ (match typeTok.ann.vt with | some v => vtName v | none => "") ++
             "' against value " ++ toString (valueTok.ann.known.getD 0) ++ ". Condition is always " ++ boolWord b ++ ".",
      verdict := b }
  match outOfRange op 0 l r with
  | some b => some (mk l r b)
  | none =>
    match outOfRange op 1 r l with
    | some b => some (mk r l b)
    | none => none

/-- `getnumchildren`: the number tokens below a chain of the same operator -/
def numChildren (op : BinOp) : Expr → List Int
  | .bin _ o l r =>
    if o == op then
      (match l with
       | .lit a _ => [a.num.getD 0]
       | .bin _ o1 _ _ => if o1 == op then numChildren op l else []
       | _ => []) ++
      (match r with
       | .lit a _ => [a.num.getD 0]
       | .bin _ o2 _ _ => if o2 == op then numChildren op r else []
       | _ => [])
    else []
  | _ => []

/-- an operand that `getnumchildren` passes over: neither a number token nor a further link of the `bitop` chain -/
def plainOperand (bitop : BinOp) : Expr → Bool
  | .lit _ _ => false
  | .bin _ o _ _ => o != bitop
  | _ => true

/-- `expr1->astOperand1()->valueType()->sign == UNSIGNED` -/
def unsFlag (x : Expr) : Bool := match x.ann.vt with | some v => v.sign == .unsigned | none => false

/-- the bit tests the Expr-level theorems cover: `x & n`, `n & x`, and `x | n` with unsigned `x`, with one number token `n`
    and an operand `x` that `getnumchildren` passes over (deeper chains: only the table theorems) -/
def bitShape : Expr → Bool
  | .bin _ .band x (.lit _ _) => plainOperand .band x
  | .bin _ .band (.lit _ _) x => plainOperand .band x
  | .bin _ .bor x (.lit _ _) => plainOperand .bor x && unsFlag x
  | _ => false

/-- verdict of `comparison()` for `(X bitop num1) op num2`; `unsignedLhs`: first operand of the `|` has an unsigned type -/
def bitCmpVerdict (bitop op : BinOp) (unsignedLhs : Bool) (num1 num2 : Int) : Option Bool :=
  if num1 < 0 then none
  else if op == .eq || op == .ne then
    if (bitop == .band && (num1.toNat &&& num2.toNat) != num2.toNat) || (bitop == .bor && (num1.toNat ||| num2.toNat) != num2.toNat) then some (op != .eq)
    else none
  else if bitop == .band then
    let orEqual := op == .ge || op == .le
    if (op == .ge || op == .lt) && num1 < num2 then some (!orEqual)
    else if (op == .le || op == .gt) && num1 ≤ num2 then some orEqual
    else none
  else if bitop == .bor then
    if unsignedLhs then
      let orEqual := op == .ge || op == .le
      if (op == .ge || op == .lt) && num1 ≥ num2 then some orEqual
      else if (op == .le || op == .gt) && num1 > num2 then some (!orEqual)
      else none
    else none
  else none

def hexDigits (n : Nat) : String := String.ofList (Nat.toDigits 16 n)

def opStr : BinOp → String
  | .add => "+" | .sub => "-" | .mul => "*" | .div => "/" | .mod => "%" | .shl => "<<" | .shr => ">>"
  | .band => "&" | .bor => "|" | .bxor => "^" | .lt => "<" | .le => "<=" | .gt => ">" | .ge => ">="
  | .eq => "==" | .ne => "!=" | .land => "&&" | .lor => "||"

/-- the comparisonError findings of a comparison read as `expr1 op expr2` -/
def bitCmpFindingsAux (op : BinOp) (expr1 expr2 : Expr) : List Finding :=
  match expr2.ann.known with
  | none => []
  | some num2 =>
    if num2 < 0 then []
    else
      match expr1 with
      | .bin a bitop x _ =>
        if bitop == .band || bitop == .bor then
          let uns := unsFlag x
          (numChildren bitop expr1).filterMap fun num1 =>
            match bitCmpVerdict bitop op uns num1 num2 with
            | some b =>
              some { id := "comparisonError", col := a.col,
                     msg := "Expression '(X " ++ opStr bitop ++ " 0x" ++ hexDigits num1.toNat ++ ") " ++ opStr op ++ " 0x" ++
                            hexDigits num2.toNat ++ "' is always " ++ boolWord b ++ ".",
                     verdict := b }
            | none => none
        else []
      | _ => []

/-- the comparisonError findings of one comparison token (checkcondition.cpp:374-382, since e82cb03):
    "if (expr1->hasKnownIntValue()) { std::swap(expr1, expr2); … turn the comparator around }" -/
def bitCmpFindings (op : BinOp) (l r : Expr) : List Finding :=
  if l.ann.known.isSome then bitCmpFindingsAux (flipOp op) r l else bitCmpFindingsAux op l r

/-- before e82cb03 (finding F03c, fixed) the operands were swapped and the comparator kept; only used by the
    counterexample theorem `bit_compare_prefix_counterexample` -/
def bitCmpFindingsOld (op : BinOp) (l r : Expr) : List Finding :=
  if l.ann.known.isSome then bitCmpFindingsAux op r l else bitCmpFindingsAux op l r

/-- all comparison tokens of an expression in token order -/
def cmpNodes : Expr → List (BinOp × Expr × Expr)
  | .lit _ _ => []
  | .var _ _ => []
  | .un _ _ e => cmpNodes e
  | .bin _ op l r => cmpNodes l ++ (if op.isCmp then [(op, l, r)] else []) ++ cmpNodes r

/-- `check.comparison(); check.checkCompareValueOutOfTypeRange();` on the conditions of the function -/
def findings (conds : List Expr) : List Finding :=
  let nodes := conds.flatMap cmpNodes
  (nodes.flatMap fun (op, l, r) => bitCmpFindings op l r) ++
  (nodes.filterMap fun (op, l, r) => rangeFinding op l r)

end Cppcheck.CondExpr

/-
C11 — `#if` expression evaluation.

Part 1: executable copy of the evaluator of externals/simplecpp/simplecpp.cpp
   Token::flags / isNumberLike            -> `isNumber`, `isName`, `opOf`   (a token is its spelling; flags are functions of it)
   stringToLL / stringToULL / toString    -> `stringToLL`, `stringToULL`, `toStr`   (istream extraction: sign, longest digit
                                             prefix of the base, clamp on overflow, 0 without a digit)
   simplifyName / simplifyNumbers         -> `simplifyName`, `simplifyNumbers`
   TokenList::constFold and its eight passes (constFoldUnaryNotPosNeg, MulDivRem, AddSub, Shift, Comparison, Bitwise,
   LogicalOp, QuestionOp)                 -> `constFold`, `unaryPass`, `binPass`, `questionPass`
   evaluate                               -> `evaluate`
The evaluator is a token rewriting loop, not a parser: it repeatedly takes the LAST `(`, runs the passes from there to the
first `)`, and removes the parentheses when exactly one token is left between them.  The copy keeps that shape, bugs included.
Arithmetic is `long long` as compiled (two's complement wrap, shift count taken mod 64).

Part 2: the specification, written from C17 6.10.1p4 / 6.6 / 6.5: expression trees `E`, values `Val` (intmax_t or uintmax_t),
usual arithmetic conversions, short circuit, `defined`, remaining identifiers are 0 — `value`; `print` gives the token list of
a tree with the minimal parentheses of the C grammar.

Not in the model (inputs never generated; see docs/C11.md): alternative operator spellings (`and`, `not`, ...), `sizeof`,
`__has_include`, character literals, floating literals, comments.
-/
namespace Cppcheck.PPCond

abbrev Tok := List Char

/-! ## tokens -/

/-- `Token::isNumberLike` -/
def isNumber : Tok → Bool
  | c :: r => c.isDigit || ((c == '-' || c == '+') && (match r with | d :: _ => d.isDigit | [] => false))
  | [] => false

/-- `Token::flags`: name -/
def isName : Tok → Bool
  | c :: r => (c.isAlpha || c == '_' || c == '$') && !((c :: r).contains '\'')
  | [] => false

/-- `Token::flags`: op (`'\0'` = none) -/
def opOf (t : Tok) : Char :=
  match t with
  | [c] => if isName t || isNumber t then '\x00' else c
  | _ => '\x00'

inductive Err | div0 | divov | invalid | fnmacro | other
  deriving DecidableEq, Repr

/-! ## numbers: istream extraction and printing -/

def llMax : Int := 9223372036854775807
def llMin : Int := -9223372036854775808
def ullMax : Nat := 18446744073709551615

def digitVal (base : Nat) (c : Char) : Option Nat :=
  let v : Option Nat :=
    if c.isDigit then some (c.toNat - 48)
    else if 'a' ≤ c ∧ c ≤ 'f' then some (c.toNat - 87)
    else if 'A' ≤ c ∧ c ≤ 'F' then some (c.toNat - 55)
    else none
  match v with
  | some d => if d < base then some d else none
  | none => none

/-- value of the longest prefix of digits of the base; `none` when there is no digit -/
def readNatAux (base : Nat) : List Char → Nat → Nat
  | [], acc => acc
  | c :: r, acc => match digitVal base c with
    | some d => readNatAux base r (base * acc + d)
    | none => acc

def readNat (base : Nat) (s : List Char) : Option Nat :=
  match s with
  | [] => none
  | c :: _ => match digitVal base c with
    | some _ => some (readNatAux base s 0)
    | none => none

def signSplit : List Char → Bool × List Char
  | '-' :: r => (true, r)
  | '+' :: r => (false, r)
  | s => (false, s)

def clampLL (v : Int) : Int := if v > llMax then llMax else if v < llMin then llMin else v

/-- `istr >> (long long)` in the given base: optional sign, digits, clamp on overflow, 0 when no digit was read -/
def extractLL (base : Nat) (s : List Char) : Int :=
  match readNat base (signSplit s).2 with
  | none => 0
  | some n => clampLL (if (signSplit s).1 then - (n : Int) else (n : Int))

/-- `istr >> (unsigned long long)` (only reached for spellings that start with `0x`) -/
def extractULL (base : Nat) (s : List Char) : Nat :=
  match readNat base s with
  | none => 0
  | some n => if n > ullMax then ullMax else n

def isHex (s : Tok) : Bool :=
  s.length > 2 && (s.take 2 == ['0', 'x'] || s.take 2 == ['0', 'X'])

def isOct (s : Tok) : Bool :=
  match s with
  | '0' :: c :: _ => '0' ≤ c && c < '8'
  | _ => false

def stringToLL (s : Tok) : Int :=
  if isHex s then extractLL 16 (s.drop 2) else if isOct s then extractLL 8 (s.drop 1) else extractLL 10 s

def stringToULL (s : Tok) : Nat :=
  if isHex s then extractULL 16 (s.drop 2) else if isOct s then extractULL 8 (s.drop 1) else extractULL 10 s

/-- `toString(long long)` -/
def toStr (v : Int) : Tok :=
  if v < 0 then '-' :: Nat.toDigits 10 v.natAbs else Nat.toDigits 10 v.toNat

/-! ## `long long` arithmetic as compiled -/

def wrap (x : Int) : Int := (x + 9223372036854775808) % 18446744073709551616 - 9223372036854775808

def bv (x : Int) : BitVec 64 := BitVec.ofInt 64 x

inductive BinOp | mul | div | mod | add | sub | shl | shr | eq | ne | gt | ge | lt | le | band | bxor | bor | land | lor
  deriving DecidableEq, Repr

def b2i (b : Bool) : Int := if b then 1 else 0

def applyBin : BinOp → Int → Int → Except Err Int
  | .mul, a, b => .ok (wrap (a * b))
  | .div, a, b => if b = 0 then .error .div0 else if b = -1 ∧ a = llMin then .error .divov else .ok (Int.tdiv a b)
  | .mod, a, b => if b = 0 then .error .div0 else if b = -1 ∧ a = llMin then .error .divov else .ok (Int.tmod a b)
  | .add, a, b => .ok (wrap (a + b))
  | .sub, a, b => .ok (wrap (a - b))
  | .shl, a, b => .ok ((bv a <<< (b % 64).toNat).toInt)
  | .shr, a, b => .ok (((bv a).sshiftRight (b % 64).toNat).toInt)
  | .eq, a, b => .ok (b2i (a == b))
  | .ne, a, b => .ok (b2i (a != b))
  | .gt, a, b => .ok (b2i (a > b))
  | .ge, a, b => .ok (b2i (a ≥ b))
  | .lt, a, b => .ok (b2i (a < b))
  | .le, a, b => .ok (b2i (a ≤ b))
  | .band, a, b => .ok ((bv a &&& bv b).toInt)
  | .bxor, a, b => .ok ((bv a ^^^ bv b).toInt)
  | .bor, a, b => .ok ((bv a ||| bv b).toInt)
  | .land, a, b => .ok (b2i (a != 0 && b != 0))
  | .lor, a, b => .ok (b2i (a != 0 || b != 0))

/-! ## the passes.  All of them scan from the start of the segment to the first `)` (exclusive); `rev` is the already
scanned part, newest first.  `tok->previous` of the first token is `(` or null: neither a number nor a name. -/

def isRpar (t : Tok) : Bool := opOf t == ')'

def prevIsNum (rev : List Tok) : Bool := match rev with | p :: _ => isNumber p | [] => false
def prevIsNumOrName (rev : List Tok) : Bool := match rev with | p :: _ => isNumber p || isName p | [] => false
def nextIsNum (rest : List Tok) : Bool := match rest with | n :: _ => isNumber n | [] => false

/-- `constFoldUnaryNotPosNeg` -/
def unaryPass : List Tok → List Tok → List Tok
  | rev, [] => rev.reverse
  | rev, [t] => if isRpar t then rev.reverse ++ [t] else (t :: rev).reverse
  | rev, t :: n :: rest' =>
    if isRpar t then rev.reverse ++ t :: n :: rest'
    else if opOf t == '!' && isNumber n then
      unaryPass ((if n == ['0'] then ['1'] else ['0']) :: rev) rest'
    else if opOf t == '~' && isNumber n then
      unaryPass (toStr ((~~~ (bv (stringToLL n))).toInt) :: rev) rest'
    else if prevIsNumOrName rev then unaryPass (t :: rev) (n :: rest')
    else if !isNumber n then unaryPass (t :: rev) (n :: rest')
    else if opOf t == '+' then unaryPass (n :: rev) rest'
    else if opOf t == '-' then unaryPass (('-' :: n) :: rev) rest'
    else unaryPass (t :: rev) (n :: rest')

/-- the shape shared by constFoldMulDivRem / AddSub / Shift / Comparison / Bitwise (one operator at a time) / LogicalOp:
`sel` recognises the operator tokens of the pass -/
def binPass (sel : Tok → Option BinOp) : List Tok → List Tok → Except Err (List Tok)
  | rev, [] => .ok rev.reverse
  | rev, [t] => .ok (rev.reverse ++ [t])
  | rev, t :: n :: rest' =>
    if isRpar t then .ok (rev.reverse ++ t :: n :: rest')
    else match sel t with
      | none => binPass sel (t :: rev) (n :: rest')
      | some o =>
        match rev with
        | [] => binPass sel (t :: rev) (n :: rest')
        | p :: rev' =>
          if isNumber p && isNumber n then
            match applyBin o (stringToLL p) (stringToLL n) with
            | .ok r => binPass sel (toStr r :: rev') rest'
            | .error e => .error e
          else binPass sel (t :: rev) (n :: rest')

def selMul (t : Tok) : Option BinOp :=
  if opOf t == '*' then some .mul else if opOf t == '/' then some .div else if opOf t == '%' then some .mod else none
def selAdd (t : Tok) : Option BinOp :=
  if opOf t == '+' then some .add else if opOf t == '-' then some .sub else none
def selShift (t : Tok) : Option BinOp :=
  if t == ['<', '<'] then some .shl else if t == ['>', '>'] then some .shr else none
def selCmp (t : Tok) : Option BinOp :=
  if t == ['=', '='] then some .eq else if t == ['!', '='] then some .ne else if t == ['>'] then some .gt
  else if t == ['>', '='] then some .ge else if t == ['<'] then some .lt else if t == ['<', '='] then some .le else none
def selChar (c : Char) (o : BinOp) (t : Tok) : Option BinOp := if opOf t == c then some o else none
def selLogic (t : Tok) : Option BinOp :=
  if t == ['&', '&'] then some .land else if t == ['|', '|'] then some .lor else none

/-- one scan of `constFoldQuestionOp` up to the first fold: `none` = no fold happened (scan finished),
`some l` = the list after one fold (the C++ then restarts from the start of the segment).
`hasPrev` = false: the segment starts at the front of the list (`tok->previous` of the first token is null). -/
def questionScan (hasPrev : Bool) : List Tok → List Tok → Except Err (Option (List Tok))
  | _, [] => .ok none
  | rev, [t] => if isRpar t then .ok none else if t != ['?'] then .ok none else .error .invalid
  | rev, [t, a] =>
    if isRpar t then .ok none else if t != ['?'] then questionScan hasPrev (t :: rev) [a] else .error .invalid
  | rev, t :: tr :: c :: rest2 =>
    if isRpar t then .ok none
    else if t != ['?'] then questionScan hasPrev (t :: rev) (tr :: c :: rest2)
    else if rev.isEmpty && !hasPrev then .error .invalid
    else match rev with
      | cond :: rev' =>
        if !isNumber cond then questionScan hasPrev (t :: rev) (tr :: c :: rest2)
        else if opOf c != ':' then questionScan hasPrev (t :: rev) (tr :: c :: rest2)
        else match rest2 with
          | fl :: rest3 => .ok (some (rev'.reverse ++ (if cond != ['0'] then tr else fl) :: rest3))
          | [] => .error .invalid
      | [] => questionScan hasPrev (t :: rev) (tr :: c :: rest2)     -- previous is `(`: not a number

def questionPass (hasPrev : Bool) : Nat → List Tok → Except Err (List Tok)
  | 0, l => .ok l
  | fuel + 1, l =>
    match questionScan hasPrev [] l with
    | .error e => .error e
    | .ok none => .ok l
    | .ok (some l') => questionPass hasPrev fuel l'

/-- the operator recognisers of the binary passes in the order of `TokenList::constFold`
(constFoldBitwise is three passes: `&`, `^`, `|`) -/
def sels : List (Tok → Option BinOp) :=
  [selMul, selAdd, selShift, selCmp, selChar '&' .band, selChar '^' .bxor, selChar '|' .bor, selLogic]

def binPasses : List (Tok → Option BinOp) → List Tok → Except Err (List Tok)
  | [], l => .ok l
  | s :: r, l => match binPass s [] l with
    | .ok l' => binPasses r l'
    | .error e => .error e

/-- the passes in the order of `TokenList::constFold`, on the tokens that follow the chosen `(` (or on the whole list) -/
def passes (hasPrev : Bool) (l : List Tok) : Except Err (List Tok) :=
  match binPasses sels (unaryPass [] l) with
  | .ok l' => questionPass hasPrev l'.length l'
  | .error e => .error e

/-- split at the last `(`: tokens before it, tokens after it -/
def splitLastLpar : List Tok → Option (List Tok × List Tok)
  | [] => none
  | t :: r =>
    match splitLastLpar r with
    | some (a, b) => some (t :: a, b)
    | none => if opOf t == '(' then some ([], r) else none

/-- `TokenList::constFold` -/
def constFold : Nat → List Tok → Except Err (List Tok)
  | 0, l => .ok l
  | fuel + 1, l =>
    if l.isEmpty then .ok l
    else match splitLastLpar l with
      | none => passes false l
      | some (pre, rest) =>
        match passes true rest with
        | .error e => .error e
        | .ok rest' =>
          match rest' with
          | x :: c :: post => if isRpar c then constFold fuel (pre ++ x :: post) else .ok (pre ++ ['('] :: rest')
          | _ => .ok (pre ++ ['('] :: rest')

/-- `simplifyName` (alternative operator spellings are not modelled) -/
def simplifyName : List Tok → Except Err (List Tok)
  | [] => .ok []
  | t :: rest =>
    if isName t then
      match rest with
      | n :: _ => if n == ['('] then .error .fnmacro else (simplifyName rest).map (['0'] :: ·)
      | [] => .ok [['0']]
    else (simplifyName rest).map (t :: ·)

/-- `simplifyNumbers` (character literals are not modelled) -/
def simplifyNumbers (l : List Tok) : List Tok :=
  l.map fun t => if t.length != 1 && t.take 2 == ['0', 'x'] then Nat.toDigits 10 (stringToULL t) else t

/-- `evaluate` on the tokens of the condition, after `defined` and macro names have been replaced -/
def evaluate (l : List Tok) : Except Err Int := do
  let l ← simplifyName l
  let l := simplifyNumbers l
  let l ← constFold (l.length + 1) l
  match l with
  | [t] => if isNumber t then .ok (stringToLL t) else .ok 0
  | _ => .ok 0

/-- the loop of simplecpp::preprocess that builds the expression of `#if` / `#elif` when no macro of the table occurs
outside `defined`: `defined X` / `defined ( X )` become `1` / `0`.  `none` = "failed to evaluate #if condition". -/
def defTok (isDef : Tok → Bool) (x : Tok) : Tok := if isDef x then ['1'] else ['0']

def replaceDefined (isDef : Tok → Bool) : List Tok → Option (List Tok)
  | [] => some []
  | [t] => if t == "defined".toList then none else some [t]
  | [t, a] =>
    if t == "defined".toList then (if opOf a == '(' then none else some [defTok isDef a])
    else (replaceDefined isDef [a]).map (t :: ·)
  | [t, a, b] =>
    if t == "defined".toList then (if opOf a == '(' then none else (replaceDefined isDef [b]).map (defTok isDef a :: ·))
    else (replaceDefined isDef [a, b]).map (t :: ·)
  | t :: lp :: x :: rp :: rest' =>
    if t == "defined".toList then
      if opOf lp == '(' then
        if opOf rp == ')' then (replaceDefined isDef rest').map (defTok isDef x :: ·) else none
      else (replaceDefined isDef (x :: rp :: rest')).map (defTok isDef lp :: ·)
    else (replaceDefined isDef (lp :: x :: rp :: rest')).map (t :: ·)

/-- `#if` on the tokens of the line when no macro name occurs outside `defined` -/
def evalIf (isDef : Tok → Bool) (l : List Tok) : Except Err Int :=
  match replaceDefined isDef l with
  | none => .error .other
  | some l => evaluate l

/-! ## specification (C17 6.10.1p4, 6.6, 6.5) -/

/-- a value of type intmax_t (`u = false`, range −2^63 … 2^63−1) or uintmax_t (`u = true`, range 0 … 2^64−1) -/
structure Val where
  v : Int
  u : Bool
  deriving DecidableEq, Repr

inductive UnOp | not | neg | pos | compl
  deriving DecidableEq, Repr

/-- integer literal: radix 10 / 8 / 16, value, `u` suffix, and the number of `l` suffix letters (spelling only) -/
structure Lit where
  base : Nat
  n : Nat
  usuf : Bool
  lsuf : Nat
  deriving DecidableEq, Repr

inductive E
  | lit (l : Lit)
  | defd (x : Tok) (paren : Bool)
  | ident (x : Tok)
  | un (o : UnOp) (e : E)
  | bin (o : BinOp) (a b : E)
  | cond (c t f : E)
  deriving Repr

def two63 : Int := 9223372036854775808
def two64 : Int := 18446744073709551616

/-- 6.4.4.1p5 with intmax_t/uintmax_t as the only types: a decimal literal without `u` must fit intmax_t -/
def litVal (l : Lit) : Option Val :=
  if (l.n : Int) ≥ two64 then none
  else if l.usuf then some ⟨l.n, true⟩
  else if (l.n : Int) < two63 then some ⟨l.n, false⟩
  else if l.base = 10 then none
  else some ⟨l.n, true⟩

def inRange (u : Bool) (x : Int) : Bool := if u then 0 ≤ x && x < two64 else -two63 ≤ x && x < two63

def toU (x : Int) : Int := x % two64

/-- result of an arithmetic operator on converted operands: unsigned wraps, signed must be representable (6.6p4) -/
def arith (u : Bool) (x : Int) : Option Val :=
  if u then some ⟨x % two64, true⟩ else if inRange false x then some ⟨x, false⟩ else none

def specBin (o : BinOp) (a b : Val) : Option Val :=
  let u := a.u || b.u
  let x := if u then toU a.v else a.v
  let y := if u then toU b.v else b.v
  match o with
  | .mul => arith u (x * y)
  | .add => arith u (x + y)
  | .sub => arith u (x - y)
  | .div => if y = 0 then none else arith u (Int.tdiv x y)
  | .mod => if y = 0 then none else if !u && Int.tdiv x y ≥ two63 then none else arith u (Int.tmod x y)
  | .shl =>     -- no conversion between the operands; the result has the type of the left operand (6.5.7)
    if b.v < 0 || b.v ≥ 64 then none
    else if a.u then some ⟨(a.v * 2 ^ b.v.toNat) % two64, true⟩
    else if a.v < 0 then none else arith false (a.v * 2 ^ b.v.toNat)
  | .shr =>
    if b.v < 0 || b.v ≥ 64 then none
    else some ⟨a.v / 2 ^ b.v.toNat, a.u⟩           -- arithmetic shift for negative values (gcc, implementation-defined)
  | .eq => some ⟨b2i (x == y), false⟩
  | .ne => some ⟨b2i (x != y), false⟩
  | .gt => some ⟨b2i (x > y), false⟩
  | .ge => some ⟨b2i (x ≥ y), false⟩
  | .lt => some ⟨b2i (x < y), false⟩
  | .le => some ⟨b2i (x ≤ y), false⟩
  | .band => some ⟨if u then (BitVec.ofInt 64 x &&& BitVec.ofInt 64 y).toNat else (bv x &&& bv y).toInt, u⟩
  | .bxor => some ⟨if u then (BitVec.ofInt 64 x ^^^ BitVec.ofInt 64 y).toNat else (bv x ^^^ bv y).toInt, u⟩
  | .bor => some ⟨if u then (BitVec.ofInt 64 x ||| BitVec.ofInt 64 y).toNat else (bv x ||| bv y).toInt, u⟩
  | .land => some ⟨b2i (a.v != 0 && b.v != 0), false⟩
  | .lor => some ⟨b2i (a.v != 0 || b.v != 0), false⟩

def specUn (o : UnOp) (a : Val) : Option Val :=
  match o with
  | .not => some ⟨b2i (a.v == 0), false⟩
  | .pos => some a
  | .neg => arith a.u (-a.v)
  | .compl => some ⟨if a.u then (~~~ (BitVec.ofInt 64 a.v)).toNat else (~~~ (bv a.v)).toInt, a.u⟩

/-- the value of a controlling expression; `none` = not a constant expression in the sense of 6.6 (division by zero in an
evaluated operand, signed overflow, invalid shift count, literal without a type) -/
def value (isDef : Tok → Bool) : E → Option Val
  | .lit l => litVal l
  | .defd x _ => some ⟨b2i (isDef x), false⟩
  | .ident _ => some ⟨0, false⟩
  | .un o e => (value isDef e).bind (specUn o)
  | .bin .land a b =>
    match value isDef a with
    | none => none
    | some x => if x.v = 0 then some ⟨0, false⟩ else (value isDef b).map fun y => ⟨b2i (y.v != 0), false⟩
  | .bin .lor a b =>
    match value isDef a with
    | none => none
    | some x => if x.v ≠ 0 then some ⟨1, false⟩ else (value isDef b).map fun y => ⟨b2i (y.v != 0), false⟩
  | .bin o a b =>
    match value isDef a, value isDef b with
    | some x, some y => specBin o x y
    | _, _ => none
  | .cond c t f =>
    match value isDef c with
    | none => none
    | some x =>
      -- only the selected operand is evaluated; the result is converted to the common type of both (6.5.15p5)
      let u := (typeU t) || (typeU f)
      (if x.v ≠ 0 then value isDef t else value isDef f).map fun r => if u && !r.u then ⟨toU r.v, true⟩ else r
where
  /-- static type (signedness) of an expression, needed for the unevaluated arm of `?:` -/
  typeU : E → Bool
    | .lit l => l.usuf || ((l.n : Int) ≥ two63)
    | .defd _ _ => false
    | .ident _ => false
    | .un .not _ => false
    | .un _ e => typeU e
    | .bin o a b =>
      match o with
      | .eq | .ne | .gt | .ge | .lt | .le | .land | .lor => false
      | .shl | .shr => typeU a
      | _ => typeU a || typeU b
    | .cond _ t f => typeU t || typeU f

/-! ## printing with the minimal parentheses of the C grammar -/

/-- precedence level in the C grammar: larger binds tighter -/
def clevel : BinOp → Nat
  | .mul | .div | .mod => 10
  | .add | .sub => 9
  | .shl | .shr => 8
  | .lt | .le | .gt | .ge => 7
  | .eq | .ne => 6
  | .band => 5
  | .bxor => 4
  | .bor => 3
  | .land => 2
  | .lor => 1

def binTok : BinOp → Tok
  | .mul => ['*'] | .div => ['/'] | .mod => ['%'] | .add => ['+'] | .sub => ['-']
  | .shl => ['<', '<'] | .shr => ['>', '>']
  | .eq => ['=', '='] | .ne => ['!', '='] | .gt => ['>'] | .ge => ['>', '='] | .lt => ['<'] | .le => ['<', '=']
  | .band => ['&'] | .bxor => ['^'] | .bor => ['|'] | .land => ['&', '&'] | .lor => ['|', '|']

def unTok : UnOp → Tok
  | .not => ['!'] | .neg => ['-'] | .pos => ['+'] | .compl => ['~']

def litTok (l : Lit) : Tok :=
  (match l.base with
    | 16 => '0' :: 'x' :: Nat.toDigits 16 l.n
    | 8 => '0' :: Nat.toDigits 8 l.n
    | _ => Nat.toDigits 10 l.n)
  ++ (if l.usuf then ['u'] else []) ++ List.replicate l.lsuf 'L'

/-- level of the root of a tree: 0 conditional, 1–10 binary, 11 unary, 12 primary -/
def rootLevel : E → Nat
  | .lit _ => 12
  | .defd _ _ => 12
  | .ident _ => 12
  | .un _ _ => 11
  | .bin o _ _ => clevel o
  | .cond _ _ _ => 0

def paren (l : List Tok) : List Tok := ['('] :: l ++ [[')']]

/-- tokens of `e` in a position that requires level ≥ `ctx` -/
def print : E → List Tok
  | .lit l => [litTok l]
  | .defd x p => if p then ["defined".toList, ['('], x, [')']] else ["defined".toList, x]
  | .ident x => [x]
  | .un o e => unTok o :: (if rootLevel e < 11 then paren (print e) else print e)
  | .bin o a b =>
    (if rootLevel a < clevel o then paren (print a) else print a) ++ binTok o ::
    (if rootLevel b ≤ clevel o then paren (print b) else print b)
  | .cond c t f =>
    (if rootLevel c ≤ 0 then paren (print c) else print c) ++ ['?'] ::
    print t ++ [':'] :: (print f)

def isLeaf : E → Bool
  | .lit _ | .defd _ _ | .ident _ => true
  | _ => false

def isCompound : E → Bool
  | .bin _ _ _ | .cond _ _ _ => true
  | _ => false

/-- tokens of `e` with every binary / conditional operand in parentheses -/
def printPF : E → List Tok
  | .lit l => [litTok l]
  | .defd x p => if p then ["defined".toList, ['('], x, [')']] else ["defined".toList, x]
  | .ident x => [x]
  | .un o e => unTok o :: (if isCompound e then paren (printPF e) else printPF e)
  | .bin o a b =>
    (if isCompound a then paren (printPF a) else printPF a) ++ binTok o ::
    (if isCompound b then paren (printPF b) else printPF b)
  | .cond c t f =>
    (if isCompound c then paren (printPF c) else printPF c) ++ ['?'] ::
    (if isCompound t then paren (printPF t) else printPF t) ++ [':'] ::
    (if isCompound f then paren (printPF f) else printPF f)

/-- identifiers of the tree are identifiers other than `defined` -/
def wfNames : E → Bool
  | .lit _ => true
  | .defd x _ => isName x && x != "defined".toList
  | .ident x => isName x && x != "defined".toList
  | .un _ e => wfNames e
  | .bin _ a b => wfNames a && wfNames b
  | .cond c t f => wfNames c && wfNames t && wfNames f

/-! ## the agreement class: the hypotheses of `ifeval_eq_spec` (Props/C11.lean), all decidable -/

/-- H-lits: every literal is decimal, has no suffix and fits intmax_t -/
def plainLits : E → Bool
  | .lit l => l.base == 10 && !l.usuf && l.lsuf == 0 && (l.n : Int) < two63
  | .defd _ _ => true
  | .ident _ => true
  | .un _ e => plainLits e
  | .bin _ a b => plainLits a && plainLits b
  | .cond c t f => plainLits c && plainLits t && plainLits f

/-- the levels simplecpp folds in one left-to-right pass: `== !=` together with `< <= > >=`, `||` together with `&&` -/
def slevel : BinOp → Nat
  | .eq | .ne => 7
  | .lor => 2
  | o => clevel o

/-- H-mix: no operator has, as its unparenthesised right operand, an operator that simplecpp folds in the same pass
(`a || b && c`, `a == b < c`) -/
def noLevelMix : E → Bool
  | .lit _ | .defd _ _ | .ident _ => true
  | .un _ e => noLevelMix e
  | .bin o a b =>
    noLevelMix a && noLevelMix b &&
      !(match b with | .bin o' _ _ => decide (clevel o' > clevel o) && slevel o' == slevel o | _ => false)
  | .cond c t f => noLevelMix c && noLevelMix t && noLevelMix f

/-- strict evaluation on intmax_t: every subexpression is evaluated (no short circuit, both arms of `?:`) and every
intermediate result is representable; `none` otherwise -/
def valueStrict (isDef : Tok → Bool) : E → Option Int
  | .lit l => if (l.n : Int) < two63 then some l.n else none
  | .defd x _ => some (b2i (isDef x))
  | .ident _ => some 0
  | .un o e =>
    match valueStrict isDef e with
    | none => none
    | some v => (specUn o ⟨v, false⟩).map (·.v)
  | .bin o a b =>
    match valueStrict isDef a, valueStrict isDef b with
    | some x, some y => (specBin o ⟨x, false⟩ ⟨y, false⟩).map (·.v)
    | _, _ => none
  | .cond c t f =>
    match valueStrict isDef c, valueStrict isDef t, valueStrict isDef f with
    | some x, some y, some z => some (if x ≠ 0 then y else z)
    | _, _, _ => none

/-- H-unary: a unary operator is applied to a literal / `defined` / identifier or to a parenthesised binary or conditional
expression — never directly to another unary expression; the operand of unary minus has a positive value (`- 0` is spelled
`-0`, `- ( -1 )` becomes `--1`) -/
def unaryOk (isDef : Tok → Bool) : E → Bool
  | .lit _ | .defd _ _ | .ident _ => true
  | .un o x =>
    unaryOk isDef x && (isLeaf x || isCompound x) &&
      (o != .neg || (match valueStrict isDef x with | some v => decide (v > 0) | none => false))
  | .bin _ a b => unaryOk isDef a && unaryOk isDef b
  | .cond c t f => unaryOk isDef c && unaryOk isDef t && unaryOk isDef f

/-- H-chain: the third operand of `?:` is not itself an (unparenthesised) conditional expression -/
def noCondChain : E → Bool
  | .lit _ | .defd _ _ | .ident _ => true
  | .un _ e => noCondChain e
  | .bin _ a b => noCondChain a && noCondChain b
  | .cond c t f => noCondChain c && noCondChain t && noCondChain f && !(match f with | .cond _ _ _ => true | _ => false)

def strictOk (isDef : Tok → Bool) (e : E) : Bool := (valueStrict isDef e).isSome

def Agree (isDef : Tok → Bool) (e : E) : Bool :=
  strictOk isDef e && plainLits e && unaryOk isDef e && noLevelMix e && noCondChain e

/-- the first hypothesis that fails (classifier of the known findings), `none` inside the agreement class -/
def firstFailing (isDef : Tok → Bool) (e : E) : Option String :=
  if !hasUnsigned e && !strictOk isDef e then some "unevaluated"
  else if hasUnsigned e then some "unsigned"
  else if !plainLits e then some "literal"
  else if !unaryOk isDef e then some "unary"
  else if !noLevelMix e then some "mix"
  else if !noCondChain e then some "chain"
  else none
where
  hasUnsigned : E → Bool
    | .lit l => l.usuf || (l.n : Int) ≥ two63
    | .defd _ _ | .ident _ => false
    | .un _ e => hasUnsigned e
    | .bin _ a b => hasUnsigned a || hasUnsigned b
    | .cond c t f => hasUnsigned c || hasUnsigned t || hasUnsigned f

end Cppcheck.PPCond

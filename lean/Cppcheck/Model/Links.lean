/-
C14 — the bracket linker.  Copied from lib/tokenize.cpp `linkBrackets` / `Tokenizer::createLinks`:

    for (Token *token = list.front(); token; token = token->next()) {
        if (token->link()) token->link(nullptr);
        linkBrackets(*this, type, links1, token, '{', '}');
        linkBrackets(*this, type, links2, token, '(', ')');
        linkBrackets(*this, type, links3, token, '[', ']');
    }
    if (!links1.empty()) unmatchedToken(links1.top());  … links2 … links3

    linkBrackets:  if (token->str()[0] == open) { links.push(token); type.push(token); }
                   else if (token->str()[0] == close) {
                       if (links.empty()) unmatchedToken(token);                      // throws
                       if (type.top()->str()[0] != open) unmatchedToken(type.top());  // throws
                       type.pop(); Token::createMutualLinks(links.top(), token); links.pop(); }

Only the FIRST character of a token string is looked at.  A token is its index in the list; the shared `type`
stack keeps (index, first character) — the C++ keeps the pointer and reads `str()[0]` through it, and no string
changes while the linker runs.  `type.top()` on an empty stack would be undefined behaviour: the model has an
explicit `ub` error for it and `Props/C14.lean` proves it is never returned.
-/
namespace Cppcheck.Links

abbrev Tok := List Char

/-- `token->str()[0]` (`std::string::operator[]` at `size()` yields `'\0'`) -/
def firstChar (t : Tok) : Char := t.headD (Char.ofNat 0)

inductive BK where
  | brace | paren | square
deriving DecidableEq, Repr

def openOf : BK → Char
  | .brace => '{' | .paren => '(' | .square => '['

def closeOf : BK → Char
  | .brace => '}' | .paren => ')' | .square => ']'

inductive LErr where
  | unmatched (i : Nat)   -- `unmatchedToken(tok)`: InternalError(SYNTAX) reported at token i
  | ub                    -- `type.top()` on an empty stack
deriving DecidableEq, Repr

structure LState where
  type : List (Nat × Char)      -- std::stack<const Token*> type   (head = top)
  links : BK → List Nat         -- links1 ({), links2 ((), links3 ([)
  link : Nat → Option Nat       -- Token::mLink of every token

def LState.init : LState := ⟨[], fun _ => [], fun _ => none⟩

def updStack (f : BK → List Nat) (k : BK) (v : List Nat) : BK → List Nat :=
  fun k' => if k' = k then v else f k'

def updLink (f : Nat → Option Nat) (i : Nat) (v : Option Nat) : Nat → Option Nat :=
  fun j => if j = i then v else f j

/-- one call `linkBrackets(*this, type, links_k, token, open_k, close_k)` for the token at index `i` with first character `c` -/
def linkBrackets (st : LState) (i : Nat) (c : Char) (k : BK) : Except LErr LState :=
  if c = openOf k then
    .ok { st with links := updStack st.links k (i :: st.links k), type := (i, c) :: st.type }
  else if c = closeOf k then
    match st.links k with
    | [] => .error (.unmatched i)
    | o :: lrest =>
      match st.type with
      | [] => .error .ub
      | (ti, tc) :: trest =>
        if tc ≠ openOf k then .error (.unmatched ti)
        else .ok { type := trest,
                   links := updStack st.links k lrest,
                   link := updLink (updLink st.link o (some i)) i (some o) }   -- createMutualLinks(links.top(), token)
  else .ok st

/-- `if (token->link()) token->link(nullptr);` -/
def clr (st : LState) (i : Nat) : LState := { st with link := updLink st.link i none }

/-- the loop body for one token: the three `linkBrackets` calls in source order; a throw ends everything -/
def stepTok (st : LState) (i : Nat) (t : Tok) : Except LErr LState :=
  match linkBrackets (clr st i) i (firstChar t) .brace with
  | .error e => .error e
  | .ok st1 =>
    match linkBrackets st1 i (firstChar t) .paren with
    | .error e => .error e
    | .ok st2 => linkBrackets st2 i (firstChar t) .square

def loop : LState → Nat → List Tok → Except LErr LState
  | st, _, [] => .ok st
  | st, i, t :: r =>
    match stepTok st i t with
    | .error e => .error e
    | .ok st' => loop st' (i + 1) r

/-- the three checks after the loop -/
def finish (st : LState) : Except LErr LState :=
  match st.links .brace with
  | o :: _ => .error (.unmatched o)
  | [] =>
    match st.links .paren with
    | o :: _ => .error (.unmatched o)
    | [] =>
      match st.links .square with
      | o :: _ => .error (.unmatched o)
      | [] => .ok st

/-- `Tokenizer::createLinks()` on a fresh token list: the link of every token, by index -/
def createLinks (ts : List Tok) : Except LErr (List (Option Nat)) :=
  match loop LState.init 0 ts with
  | .error e => .error e
  | .ok st =>
    match finish st with
    | .error e => .error e
    | .ok st' => .ok ((List.range ts.length).map st'.link)

/-! ### later link writers (every pass between `createLinks` and the dump writes links only through these) -/

/-- `Token::createMutualLinks(a, b)`: `a->link(b); b->link(a);` -/
def mutualLinks (f : Nat → Option Nat) (a b : Nat) : Nat → Option Nat :=
  updLink (updLink f a (some b)) b (some a)

/-- `a->link(nullptr)` -/
def clearLink (f : Nat → Option Nat) (a : Nat) : Nat → Option Nat := updLink f a none

inductive LinkOp where
  | mutual (a b : Nat)
  | clear (a : Nat)
deriving DecidableEq, Repr

def applyLinkOp (f : Nat → Option Nat) : LinkOp → Nat → Option Nat
  | .mutual a b => mutualLinks f a b
  | .clear a => clearLink f a

/-- the link vector after every op of a sequence, starting from no links -/
def linkTrace (f : Nat → Option Nat) : List LinkOp → List (Nat → Option Nat)
  | [] => []
  | o :: r => applyLinkOp f o :: linkTrace (applyLinkOp f o) r

end Cppcheck.Links

import Cppcheck.Model.MiniC
/-
C01 — the fact validator: an abstract interpreter for MiniC over per-variable (interval × excluded points) with
exact evaluation of constant operands (through the concrete operator semantics), refinement by conditions, joins at
merges and loops handled by an (unverified) invariant search followed by a (verified) inductiveness check.
`validate P f φ = true` ⇒ every event the program emits at occurrence `φ.occ` satisfies `φ`, for every argument vector
and every fuel (`Cppcheck.C01.validator_sound`).
-/
namespace Cppcheck.VFV
open Cppcheck.Platforms Cppcheck.MiniC

/-! ## facts -/

inductive FKind | known | impossible
  deriving DecidableEq, Repr, Inhabited

inductive FBound | upper | lower | point
  deriving DecidableEq, Repr, Inhabited

/-- a reported fact: the value list entry (`kind`, `bound`, `value`) on the token mapped to occurrence `occ` -/
structure Fact where
  occ : Nat
  kind : FKind
  bound : FBound
  value : Int
  deriving DecidableEq, Repr, Inhabited

/-! ## abstract values -/

/-- the integers `a` with `lo ≤ a ≤ hi` and `a ∉ ne` -/
structure AbsVal where
  lo : Int
  hi : Int
  ne : List Int
  deriving DecidableEq, Repr, Inhabited

namespace AbsVal

def const (c : Int) : AbsVal := ⟨c, c, []⟩
def range (lo hi : Int) : AbsVal := ⟨lo, hi, []⟩

/-- `p` is not a member -/
def excl (v : AbsVal) (p : Int) : Bool := decide (p < v.lo) || decide (p > v.hi) || v.ne.contains p

def isConst (v : AbsVal) : Option Int := if v.lo = v.hi ∧ ¬ v.ne.contains v.lo then some v.lo else none

def join (a b : AbsVal) : AbsVal :=
  ⟨min a.lo b.lo, max a.hi b.hi, (a.ne.filter b.excl) ++ (b.ne.filter a.excl)⟩

def leq (a b : AbsVal) : Bool := decide (b.lo ≤ a.lo) && decide (a.hi ≤ b.hi) && b.ne.all a.excl

/-- keep at most 4 excluded points, and only those inside the bounds -/
def trim (v : AbsVal) : AbsVal := ⟨v.lo, v.hi, (v.ne.filter (fun p => decide (v.lo ≤ p) && decide (p ≤ v.hi))).take 4⟩

/-- remove the point `p` -/
def remove (v : AbsVal) (p : Int) : AbsVal :=
  if p = v.lo ∧ p = v.hi then ⟨v.lo, v.hi, p :: v.ne⟩
  else if p = v.lo then ⟨v.lo + 1, v.hi, v.ne⟩
  else if p = v.hi then ⟨v.lo, v.hi - 1, v.ne⟩
  else trim ⟨v.lo, v.hi, p :: v.ne⟩

/-- move a lower bound up past excluded points (at most `n` steps) -/
def bumpLo (ne : List Int) : Nat → Int → Int
  | 0, lo => lo
  | n + 1, lo => if ne.contains lo then bumpLo ne n (lo + 1) else lo

def bumpHi (ne : List Int) : Nat → Int → Int
  | 0, hi => hi
  | n + 1, hi => if ne.contains hi then bumpHi ne n (hi - 1) else hi

/-- tighten the bounds against the excluded points -/
def norm (v : AbsVal) : AbsVal := ⟨bumpLo v.ne v.ne.length v.lo, bumpHi v.ne v.ne.length v.hi, v.ne⟩

def meetLo (v : AbsVal) (l : Int) : AbsVal := norm ⟨max v.lo l, v.hi, v.ne⟩
def meetHi (v : AbsVal) (h : Int) : AbsVal := norm ⟨v.lo, min v.hi h, v.ne⟩

/-- certainly empty (sufficient test) -/
def isEmpty (v : AbsVal) : Bool := decide (v.lo > v.hi) || (decide (v.lo = v.hi) && v.ne.contains v.lo)

end AbsVal

def Fact.okOn (φ : Fact) (v : AbsVal) : Bool :=
  v.isEmpty ||
  match φ.kind, φ.bound with
  | .known, _ => decide (v.lo = φ.value) && decide (v.hi = φ.value)
  | .impossible, .point => v.excl φ.value
  | .impossible, .upper => decide (φ.value < v.lo)
  | .impossible, .lower => decide (v.hi < φ.value)

def factOk (φ : Fact) (id : Nat) (v : AbsVal) : Bool := id != φ.occ || φ.okOn v

/-! ## abstract operators -/

def top (P : Platform) (t : Ty) : AbsVal := .range (tmin P t) (tmax P t)

def fits (P : Platform) (t : Ty) (v : AbsVal) : Bool := decide (tmin P t ≤ v.lo) && decide (v.hi ≤ tmax P t)

/-- the empty abstract value (no execution produces a value: the operation is undefined for every operand value) -/
def abot : AbsVal := ⟨1, 0, []⟩

/-- abstract conversion to type `t` -/
def aconv (P : Platform) (t : Ty) (v : AbsVal) : AbsVal :=
  if v.isEmpty then abot
  else if fits P t v then v
  else match v.isConst with
    | some c => .const (conv P t c)
    | none => top P t

/-- result of `arith P t r` for `r ∈ [lo, hi]`, `r ∉ ne` -/
def aarithNe (P : Platform) (t : Ty) (lo hi : Int) (ne : List Int) : AbsVal :=
  if t.signed then ⟨max lo (tmin P t), min hi (tmax P t), ne⟩
  else if 0 ≤ lo ∧ hi ≤ tmax P t then ⟨lo, hi, ne⟩ else top P t

def aarith (P : Platform) (t : Ty) (lo hi : Int) : AbsVal := aarithNe P t lo hi []

def abool : AbsVal := .range 0 1

/-- three-valued comparison of two abstract values (mathematical comparison): `some b` = always `b` -/
def acmp (op : BinOp) (a b : AbsVal) : Option Bool :=
  match op with
  | .lt => if a.hi < b.lo then some true else if a.lo ≥ b.hi then some false else none
  | .le => if a.hi ≤ b.lo then some true else if a.lo > b.hi then some false else none
  | .gt => if a.lo > b.hi then some true else if a.hi ≤ b.lo then some false else none
  | .ge => if a.lo ≥ b.hi then some true else if a.hi < b.lo then some false else none
  | .eq =>
    if a.hi < b.lo ∨ b.hi < a.lo then some false
    else match a.isConst, b.isConst with
      | some x, some y => some (x == y)
      | some x, none => if b.excl x then some false else none
      | none, some y => if a.excl y then some false else none
      | none, none => none
  | .ne =>
    if a.hi < b.lo ∨ b.hi < a.lo then some true
    else match a.isConst, b.isConst with
      | some x, some y => some (x != y)
      | some x, none => if b.excl x then some true else none
      | none, some y => if a.excl y then some true else none
      | none, none => none
  | _ => none

def ofOptBool : Option Bool → AbsVal
  | some true => .const 1
  | some false => .const 0
  | none => abool

/-- result type of a binary operator -/
def binTy (P : Platform) (op : BinOp) (ta tb : Ty) : Ty :=
  if op.isCmp then tInt else if op.isShift then promote P ta else uac P ta tb

def absBin (P : Platform) (op : BinOp) (ta tb : Ty) (a b : AbsVal) : AbsVal :=
  if a.isEmpty || b.isEmpty then abot else
  match a.isConst, b.isConst with
  | some ca, some cb =>
    match evalBin P op ta tb ca cb with
    | some r => .const r
    | none => abot
  | _, _ =>
    if op.isShift then top P (promote P ta)
    else
      let t := uac P ta tb
      let a' := aconv P t a
      let b' := aconv P t b
      match op with
      | .add =>
        aarithNe P t (a'.lo + b'.lo) (a'.hi + b'.hi)
          (match a'.isConst, b'.isConst with
           | _, some c => a'.ne.map (· + c)
           | some c, _ => b'.ne.map (c + ·)
           | _, _ => [])
      | .sub =>
        aarithNe P t (a'.lo - b'.hi) (a'.hi - b'.lo)
          (match a'.isConst, b'.isConst with
           | _, some c => a'.ne.map (· - c)
           | some c, _ => b'.ne.map (c - ·)
           | _, _ => [])
      | .mul =>
        match a'.isConst, b'.isConst with
        | _, some c =>
          if c = 0 then aarith P t 0 0
          else if c > 0 then aarithNe P t (a'.lo * c) (a'.hi * c) (a'.ne.map (· * c))
          else aarithNe P t (a'.hi * c) (a'.lo * c) (a'.ne.map (· * c))
        | some c, _ =>
          if c = 0 then aarith P t 0 0
          else if c > 0 then aarithNe P t (c * b'.lo) (c * b'.hi) (b'.ne.map (c * ·))
          else aarithNe P t (c * b'.hi) (c * b'.lo) (b'.ne.map (c * ·))
        | _, _ => top P t
      | .lt | .le | .gt | .ge | .eq | .ne => ofOptBool (acmp op a' b')
      | _ => top P t

def absUn (P : Platform) (op : UnOp) (ta : Ty) (a : AbsVal) : AbsVal :=
  if a.isEmpty then abot else
  match op with
  | .lnot => if a.excl 0 then .const 0 else if a.isConst = some 0 then .const 1 else abool
  | .neg =>
    let t := promote P ta
    let a' := aconv P t a
    aarithNe P t (-a'.hi) (-a'.lo) (a'.ne.map (fun p => -p))
  | .compl =>
    match a.isConst with
    | some c => match evalUn P .compl ta c with
      | some r => .const r
      | none => top P (promote P ta)
    | none => top P (promote P ta)

/-- truth value of an abstract value: `some true` = never 0, `some false` = always 0 -/
def atruth (v : AbsVal) : Option Bool :=
  if v.excl 0 then some true else if v.isConst = some 0 then some false else none

/-! ## abstract states -/

abbrev AEnv := List AbsVal

def alook (s : AEnv) (x : Nat) : AbsVal := s.getD x (.const 0)

def joinEnv : AEnv → AEnv → AEnv
  | a :: as, b :: bs => (a.join b).trim :: joinEnv as bs
  | _, _ => []

def leqEnv : AEnv → AEnv → Bool
  | a :: as, b :: bs => a.leq b && leqEnv as bs
  | [], [] => true
  | _, _ => false

/-- an abstract environment of exactly `n` variables (every environment the validator builds has the length of the
    variable table; the guard makes that a local fact instead of a global invariant) -/
def fixLen (n : Nat) (s : AEnv) : AEnv := if s.length = n then s else List.replicate n (.const 0)

def ojoin (n : Nat) : Option AEnv → Option AEnv → Option AEnv
  | none, b => b
  | a, none => a
  | some a, some b => some (joinEnv (fixLen n a) (fixLen n b))

def oleq : Option AEnv → AEnv → Bool
  | none, _ => true
  | some a, b => leqEnv a b

def stripTags : Expr → Expr
  | .tag _ e => stripTags e
  | e => e

def negCmp : BinOp → BinOp
  | .lt => .ge | .le => .gt | .gt => .le | .ge => .lt | .eq => .ne | .ne => .eq | op => op

def swapCmp : BinOp → BinOp
  | .lt => .gt | .le => .ge | .gt => .lt | .ge => .le | op => op

/-- `x op y` holds (mathematically) with `y ∈ vb`: refine the abstract value of `x` -/
def refineBy (op : BinOp) (vx vb : AbsVal) : AbsVal :=
  match op with
  | .lt => vx.meetHi (vb.hi - 1)
  | .le => vx.meetHi vb.hi
  | .gt => vx.meetLo (vb.lo + 1)
  | .ge => vx.meetLo vb.lo
  | .eq => (vx.meetLo vb.lo).meetHi vb.hi
  | .ne => match vb.isConst with
    | some c => vx.remove c
    | none => vx
  | _ => vx

def setIfVar (s : AEnv) (e : Expr) (f : AbsVal → AbsVal) : AEnv :=
  match stripTags e with
  | .var x => if x < s.length then s.set x (f (alook s x)) else s
  | _ => s

/-! ## expressions -/

structure Ctx where
  P : Platform
  vars : List Ty
  φ : Fact

/-- abstract evaluation with fact checking, parametric in the condition refinement `ref` -/
def checkEG (c : Ctx) (ref : Expr → Bool → AEnv → Option AEnv) (s : AEnv) : Expr → Bool × AbsVal
  | .lit v t => (true, .const (conv c.P t v))
  | .var x => (true, alook s x)
  | .un op e =>
    let (ok, a) := checkEG c ref s e
    (ok, absUn c.P op (tyOf c.P c.vars e) a)
  | .bin op a b =>
    let (ok1, va) := checkEG c ref s a
    let (ok2, vb) := checkEG c ref s b
    (ok1 && ok2, absBin c.P op (tyOf c.P c.vars a) (tyOf c.P c.vars b) va vb)
  | .land a b =>
    let (ok1, va) := checkEG c ref s a
    match ref a true s with
    | none => (ok1, .const 0)
    | some st =>
      let (ok2, vb) := checkEG c ref st b
      (ok1 && ok2,
        match atruth va, atruth vb with
        | some false, _ => .const 0
        | _, some false => .const 0
        | some true, some true => .const 1
        | _, _ => abool)
  | .lor a b =>
    let (ok1, va) := checkEG c ref s a
    match ref a false s with
    | none => (ok1, .const 1)
    | some sf =>
      let (ok2, vb) := checkEG c ref sf b
      (ok1 && ok2,
        match atruth va, atruth vb with
        | some true, _ => .const 1
        | _, some true => .const 1
        | some false, some false => .const 0
        | _, _ => abool)
  | .cast t e =>
    let (ok, a) := checkEG c ref s e
    (ok, aconv c.P t a)
  | .cond cnd a b =>
    let (ok0, _) := checkEG c ref s cnd
    let t := uac c.P (tyOf c.P c.vars a) (tyOf c.P c.vars b)
    match ref cnd true s, ref cnd false s with
    | some st, some sf =>
      let (ok1, va) := checkEG c ref st a
      let (ok2, vb) := checkEG c ref sf b
      (ok0 && ok1 && ok2, (aconv c.P t va).join (aconv c.P t vb))
    | some st, none =>
      let (ok1, va) := checkEG c ref st a
      (ok0 && ok1, aconv c.P t va)
    | none, some sf =>
      let (ok2, vb) := checkEG c ref sf b
      (ok0 && ok2, aconv c.P t vb)
    | none, none => (ok0, top c.P t)
  | .tag id e =>
    let (ok, v) := checkEG c ref s e
    (ok && factOk c.φ id v, v)

def noRef : Expr → Bool → AEnv → Option AEnv := fun _ _ s => some s

/-- abstract value of an expression without refinement inside `&& || ?:` (used by `assume`) -/
def absE0 (c : Ctx) (s : AEnv) (e : Expr) : AbsVal := (checkEG c noRef s e).2

/-- refinement of the state by `(a op b) ≠ 0` for a comparison operator -/
def refineCmp (c : Ctx) (op : BinOp) (a b : Expr) (s : AEnv) : Option AEnv :=
  let va := absE0 c s a
  let vb := absE0 c s b
  let t := uac c.P (tyOf c.P c.vars a) (tyOf c.P c.vars b)
  if fits c.P t va && fits c.P t vb then
    if acmp op va vb = some false then none
    else
      let s1 := setIfVar s a (fun vx => refineBy op vx vb)
      let s2 := setIfVar s1 b (fun vy => refineBy (swapCmp op) vy va)
      some s2
  else some s

/-- refinement of the state by the truth value of `e` (`t = true`: `e ≠ 0`) -/
def assume (c : Ctx) : Expr → Bool → AEnv → Option AEnv
  | .tag _ e, t, s => assume c e t s
  | .un .lnot e, t, s => assume c e (!t) s
  | .land a b, true, s =>
    match assume c a true s with
    | none => none
    | some s1 => assume c b true s1
  | .land a b, false, s =>
    ojoin c.vars.length (assume c a false s)
      (match assume c a true s with
       | none => none
       | some s1 => assume c b false s1)
  | .lor a b, true, s =>
    ojoin c.vars.length (assume c a true s)
      (match assume c a false s with
       | none => none
       | some s1 => assume c b true s1)
  | .lor a b, false, s =>
    match assume c a false s with
    | none => none
    | some s1 => assume c b false s1
  | .bin op a b, t, s =>
    if op.isCmp then refineCmp c (if t then op else negCmp op) a b s
    else
      match atruth (absE0 c s (.bin op a b)), t with
      | some true, false => none
      | some false, true => none
      | _, _ => some s
  | .var x, t, s =>
    let v := alook s x
    match atruth v, t with
    | some true, false => none
    | some false, true => none
    | _, _ => if x < s.length then some (s.set x (if t then v.remove 0 else (v.meetLo 0).meetHi 0)) else some s
  | e, t, s =>
    match atruth (absE0 c s e), t with
    | some true, false => none
    | some false, true => none
    | _, _ => some s

def checkE (c : Ctx) (s : AEnv) (e : Expr) : Bool × AbsVal := checkEG c (assume c) s e

/-! ## statements -/

structure AOut where
  normal : Option AEnv
  brk : Option AEnv
  cont : Option AEnv
  deriving Repr, Inhabited

def AOut.bot : AOut := ⟨none, none, none⟩

/-- variables assigned somewhere in a statement -/
def assigned : Stmt → List Nat
  | .assign _ x _ => [x]
  | .compound _ _ x _ => [x]
  | .incdec _ _ _ x => [x]
  | .seq a b => assigned a ++ assigned b
  | .ite _ a b => assigned a ++ assigned b
  | .while _ b => assigned b
  | _ => []

def widen (c : Ctx) (xs : List Nat) (s : AEnv) : AEnv :=
  xs.foldl (fun s x => if x < s.length then s.set x (top c.P (varTy c.vars x)) else s) s

/-- invariant search for a loop: `k` rounds of `s := s ⊔ post(s)`, then widening of the assigned variables.
    Nothing about this function is used by the soundness proof: its result is verified by the caller. -/
def findInv (c : Ctx) (condT : AEnv → Option AEnv) (bodyF : AEnv → Bool × AOut) (xs : List Nat) : Nat → AEnv → AEnv
  | 0, s => widen c xs s
  | k + 1, s =>
    match condT s with
    | none => s
    | some st =>
      let o := (bodyF st).2
      match ojoin c.vars.length (ojoin c.vars.length (some s) o.normal) o.cont with
      | some s' => if leqEnv s' s then s else findInv c condT bodyF xs k s'
      | none => s

def loopRounds : Nat := 3

/-- run a branch in a refined state; an unreachable branch (`none`) contributes nothing -/
def optCheck (f : AEnv → Bool × AOut) : Option AEnv → Bool × AOut
  | none => (true, AOut.bot)
  | some s => f s

def checkS (c : Ctx) : Stmt → AEnv → Bool × AOut
  | .skip, s => (true, ⟨some s, none, none⟩)
  | .assign id x e, s =>
    let (ok, v) := checkE c s e
    let v' := aconv c.P (varTy c.vars x) v
    (ok && factOk c.φ id v', ⟨if v'.isEmpty then none else some (s.set x v'), none, none⟩)
  | .compound id op x e, s =>
    let (ok, v) := checkE c s e
    let r := absBin c.P op (varTy c.vars x) (tyOf c.P c.vars e) (alook s x) v
    let v' := aconv c.P (varTy c.vars x) r
    (ok && factOk c.φ id v', ⟨if v'.isEmpty then none else some (s.set x v'), none, none⟩)
  | .incdec id inc pre x, s =>
    let old := alook s x
    let r := absBin c.P (if inc then .add else .sub) (varTy c.vars x) tInt old (.const 1)
    let v' := aconv c.P (varTy c.vars x) r
    (factOk c.φ id (if pre then v' else old), ⟨if v'.isEmpty then none else some (s.set x v'), none, none⟩)
  | .seq a b, s =>
    let (ok1, o1) := checkS c a s
    match o1.normal with
    | none => (ok1, o1)
    | some s1 =>
      let (ok2, o2) := checkS c b s1
      (ok1 && ok2, ⟨o2.normal, ojoin c.vars.length o1.brk o2.brk, ojoin c.vars.length o1.cont o2.cont⟩)
  | .ite cnd a b, s =>
    let (ok0, _) := checkE c s cnd
    let (ok1, o1) := optCheck (fun st => checkS c a st) (assume c cnd true s)
    let (ok2, o2) := optCheck (fun sf => checkS c b sf) (assume c cnd false s)
    (ok0 && ok1 && ok2, ⟨ojoin c.vars.length o1.normal o2.normal, ojoin c.vars.length o1.brk o2.brk, ojoin c.vars.length o1.cont o2.cont⟩)
  | .while cnd body, s =>
    let inv := findInv c (assume c cnd true) (fun s' => checkS c body s') (assigned body) loopRounds s
    if !leqEnv s inv then (false, AOut.bot)
    else
      let (ok0, _) := checkE c inv cnd
      let sf := assume c cnd false inv
      match assume c cnd true inv with
      | none => (ok0, ⟨sf, none, none⟩)
      | some st =>
        let (ok1, o) := checkS c body st
        if oleq o.normal inv && oleq o.cont inv then (ok0 && ok1, ⟨ojoin c.vars.length sf o.brk, none, none⟩)
        else (false, AOut.bot)
  | .brk, s => (true, ⟨none, some s, none⟩)
  | .cont, s => (true, ⟨none, none, some s⟩)
  | .ret e, s => ((checkE c s e).1, AOut.bot)

/-- abstract initial state: parameters anywhere in their type, locals 0 -/
def initAbs (P : Platform) (f : Func) : AEnv :=
  (List.range f.vars.length).map fun i =>
    if i < f.nparams then top P (varTy f.vars i) else .const 0

def validate (P : Platform) (f : Func) (φ : Fact) : Bool :=
  (checkS ⟨P, f.vars, φ⟩ f.body (initAbs P f)).1

end Cppcheck.VFV

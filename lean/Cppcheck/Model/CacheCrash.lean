import Cppcheck.Model.XmlWf
/-
C20 — CacheCrash: the build directory as a set of files, a run as the writes it performs, a crash as "some files
hold a byte prefix of what the run would have written", and the complete run that follows.

Code copied (lib/analyzerinfo.cpp, lib/cppcheck.cpp, cli/cppcheckexecutor.cpp, lib/summaries.cpp):

  run start     `Settings::loadSummaries`: the OLD files.txt and the summary files (*.s1) listed there give
                `summaryReturn` for the whole run; `readActiveCheckers` reads checkers.txt; `writeFilesTxt` rewrites files.txt
  per file      early return before `analyzeFile` (preprocessor error output / missing include): findings reported, no file
                touched.  Otherwise `analyzeFile`: reuse iff the cache file loads, its root is `analyzerinfo`, the `hash`
                attribute equals the new hash and no `<error>` has an internalError-class id; the cached errors are replayed.
                Otherwise the cache file is opened truncating, the header with the NEW hash is written at once, every
                finding / FileInfo block is appended, `</analyzerinfo>` is written by `close()`; the summary file is
                rewritten while the file is tokenized.
  whole program `processFilesTxt`: every listed cache file that exists must load with root `analyzerinfo`, otherwise ONE
                internalError finding replaces the whole-program findings; a missing file is skipped.
  run end       checkersReport (information) from the active checkers of the files analysed IN THIS RUN, the whole-program
                checkers and the old checkers.txt; checkers.txt is rewritten.

The per-file analysis, the whole-program analysis over the collected FileInfo blocks, the hash, `Summaries::loadReturn`
and the text of the checkers report are parameters (`World`): the theorems hold for every choice.
A cache file is kept as the document it is a byte prefix of (`CacheEntry`): its bytes are
`(XmlWf.document hash items).take cut`, and whether it loads is decided by the byte-level recogniser `XmlWf.load`.
-/
namespace Cppcheck.CacheCrash
open Cppcheck.Wire Cppcheck.XmlWf

abbrev Finding := Nat

inductive Payload where
  /-- `<error …>`: replayed on reuse; `retry`: id is internalError / premium-internalError / premium-invalidLicense -/
  | err (x : Finding) (retry : Bool)
  /-- `<FileInfo check=…>` block with content id `i` (input of the whole-program analysis) -/
  | info (i : Nat)
  deriving DecidableEq, Repr, Inhabited

/-- one `reportErr` / `setFileInfo` write -/
structure Item where
  bytes : Str
  payload : Payload
  deriving DecidableEq, Repr, Inhabited

def Item.finding? (it : Item) : Option Finding :=
  match it.payload with
  | .err x _ => some x
  | .info _ => none

def Item.info? (it : Item) : Option Nat :=
  match it.payload with
  | .err _ _ => none
  | .info i => some i

def Item.retry (it : Item) : Bool :=
  match it.payload with
  | .err _ r => r
  | .info _ => false

/-- what analysing one file produces -/
structure Result where
  items : List Item
  /-- lines of the summary file (*.s1) -/
  summary : List Nat
  /-- checkers that ran -/
  active : List Nat
  deriving DecidableEq, Repr, Inhabited

structure World where
  /-- source file ↦ cache key as written into / compared with the `hash` attribute (`std::to_string(hash)`) -/
  hashOf : Nat → Str
  /-- source file, `summaryReturn` ↦ result of the per-file analysis -/
  analyze : Nat → List Nat → Result
  /-- `some fs`: `checkInternal` returns before `analyzeFile`, reporting `fs` -/
  early : Nat → Option (List Finding)
  /-- whole-program analysis over the FileInfo blocks collected by `processFilesTxt` -/
  wp : List Nat → List Finding
  /-- the internalError finding reported when `processFilesTxt` fails -/
  wpError : Finding
  /-- `Summaries::loadReturn` over the summary files that exist -/
  loadReturn : List (List Nat) → List Nat
  /-- the checkersReport finding for a list of active checkers -/
  checkersLine : List Nat → Finding
  /-- checkers of the whole-program phase -/
  wpActive : List Nat

structure CacheEntry where
  hash : Str
  items : List Item
  /-- number of bytes on disk -/
  cut : Nat
  deriving DecidableEq, Repr, Inhabited

def CacheEntry.doc (e : CacheEntry) : Str := document e.hash (e.items.map (·.bytes))
def CacheEntry.bytes (e : CacheEntry) : Str := e.doc.take e.cut
def CacheEntry.complete (hash : Str) (items : List Item) : CacheEntry :=
  ⟨hash, items, (document hash (items.map (·.bytes))).length⟩

structure Dir where
  /-- source files listed in files.txt (a torn write keeps a prefix of the lines) -/
  filesTxt : List Nat
  cache : Nat → Option CacheEntry
  /-- summary files (a torn write keeps a prefix of the lines) -/
  summ : Nat → Option (List Nat)
  checkers : Option (List Nat)

def Dir.empty : Dir := ⟨[], fun _ => none, fun _ => none, none⟩

/-- `LoadFile` succeeded, root element `analyzerinfo` (what `skipAnalysis` and `processFilesTxt` require) -/
def CacheEntry.rootOk (e : CacheEntry) : Option Attrs :=
  match load e.bytes with
  | .ok (some (n, as)) => if n == rootName then some as else none
  | _ => none

/-- `analyzeFile` returns false: the cached result is used -/
def CacheEntry.usable (e : CacheEntry) (hash : Str) : Bool :=
  match e.rootOk with
  | some as => attr as hashName == some hash && !e.items.any Item.retry
  | none => false

structure Opts where
  /-- `--enable=information`: the checkersReport finding is printed -/
  reportCheckers : Bool
  deriving DecidableEq, Repr, Inhabited

structure Acc where
  findings : List Finding
  dir : Dir
  active : List Nat

/-- `CppCheck::checkInternal` for one file -/
def fileStep (w : World) (summ : List Nat) (a : Acc) (f : Nat) : Acc :=
  match w.early f with
  | some fs => { a with findings := a.findings ++ fs }
  | none =>
    let reuse := match a.dir.cache f with
      | some e => if e.usable (w.hashOf f) then some e else none
      | none => none
    match reuse with
    | some e => { a with findings := a.findings ++ e.items.filterMap Item.finding? }
    | none =>
      let r := w.analyze f summ
      { findings := a.findings ++ r.items.filterMap Item.finding?
        dir := { a.dir with
          cache := fun g => if g = f then some (CacheEntry.complete (w.hashOf f) r.items) else a.dir.cache g
          summ := fun g => if g = f then some r.summary else a.dir.summ g }
        active := a.active ++ r.active }

/-- what `checkInternal` does with file `f` (observable through `--debug-analyzerinfo`) -/
inductive Action where
  /-- returns before `analyzeFile` -/
  | early
  /-- "skipping analysis - loaded N cached finding(s)" -/
  | replay
  /-- "discarding cached result …" / "no cached result …": analysis, cache and summary rewritten -/
  | analyse
  deriving DecidableEq, Repr, Inhabited

def fileAction (w : World) (d : Dir) (f : Nat) : Action :=
  match w.early f with
  | some _ => .early
  | none =>
    match d.cache f with
    | some e => if e.usable (w.hashOf f) then .replay else .analyse
    | none => .analyse

/-- the actions of a complete run, file by file (the directory changes while the run proceeds) -/
def runActions (w : World) (summ : List Nat) : Acc → List Nat → List Action
  | _, [] => []
  | a, f :: r => fileAction w a.dir f :: runActions w summ (fileStep w summ a f) r

/-- `processFilesTxt`: `none` = error string returned -/
def collectInfos (d : Dir) : List Nat → Option (List Nat)
  | [] => some []
  | f :: r =>
    match d.cache f with
    | none => collectInfos d r
    | some e =>
      match e.rootOk with
      | none => none
      | some _ => (collectInfos d r).map (fun is => e.items.filterMap Item.info? ++ is)

def wholeProgram (w : World) (d : Dir) (files : List Nat) : List Finding :=
  match collectInfos d files with
  | none => [w.wpError]
  | some is => w.wp is

/-- `summaryReturn` of a run started on `d` -/
def summaryOf (w : World) (d : Dir) : List Nat := w.loadReturn (d.filesTxt.filterMap d.summ)

/-- a complete run: the findings it reports and the build directory it leaves -/
def completeRun (w : World) (o : Opts) (files : List Nat) (d : Dir) : List Finding × Dir :=
  let summ := summaryOf w d
  let old := d.checkers.getD []
  let a0 : Acc := ⟨[], { d with filesTxt := files }, []⟩
  let a := files.foldl (fileStep w summ) a0
  let wpf := wholeProgram w a.dir files
  let act := old ++ a.active ++ w.wpActive
  let fin := a.findings ++ wpf ++ (if o.reportCheckers then [w.checkersLine act] else [])
  (fin, { a.dir with checkers := some act })

/-- A run WITHOUT a build directory: no cache is read or written, `summaryReturn` is empty (`Summaries::loadReturn`
returns at once), every file is analysed (or returns early), the whole-program analysis works on the FileInfo of all
analysed files kept in memory, the checkers report counts the checkers of all analysed files. -/
def noBuildDirRun (w : World) (o : Opts) (files : List Nat) : List Finding :=
  let res := fun f => (w.analyze f (w.loadReturn [])).items
  let perFile := files.flatMap (fun f => match w.early f with
    | some fs => fs
    | none => (res f).filterMap Item.finding?)
  let infos := files.flatMap (fun f => match w.early f with
    | some _ => []
    | none => (res f).filterMap Item.info?)
  let act := files.flatMap (fun f => match w.early f with
    | some _ => []
    | none => (w.analyze f (w.loadReturn [])).active)
  perFile ++ w.wp infos ++ (if o.reportCheckers then [w.checkersLine (act ++ w.wpActive)] else [])

/-! ### crashes -/

/-- what a kill leaves of one cache file -/
inductive Touch where
  /-- the run did not get to the file / used the cached result -/
  | untouched
  /-- the file was (re)opened truncating and `n` bytes of the new document reached the disk
      (`n` = 0: just truncated; `n` ≥ length: complete) -/
  | rewritten (n : Nat)
  /-- `reopen`: the existing file was truncated and `n` bytes of its old content were written back -/
  | truncated (n : Nat)
  deriving DecidableEq, Repr, Inhabited

/-- a kill point of a run on `d`, for any executor: every file independently holds some prefix of what the run writes
into it (this is a superset of the prefixes of every interleaving of the per-file write sequences) -/
structure Crash where
  cache : Nat → Touch
  /-- `some k`: the summary file was rewritten, `k` lines reached the disk -/
  summ : Nat → Option Nat
  /-- `some k`: files.txt was rewritten, `k` lines reached the disk -/
  filesTxt : Option Nat
  /-- `some k`: the run got as far as rewriting checkers.txt (`k` lines on disk) after analysing the files in `analysed` -/
  checkers : Option (Nat × List Nat)

def crashDir (w : World) (files : List Nat) (d : Dir) (c : Crash) : Dir :=
  let summ := summaryOf w d
  { filesTxt := match c.filesTxt with
      | none => d.filesTxt
      | some k => files.take k
    cache := fun f =>
      if f ∈ files ∧ w.early f = none then
        match c.cache f with
        | .untouched => d.cache f
        | .rewritten n =>
          let e := CacheEntry.complete (w.hashOf f) (w.analyze f summ).items
          some { e with cut := min n e.cut }
        | .truncated n => (d.cache f).map (fun e => { e with cut := min n e.cut })
      else d.cache f
    summ := fun f =>
      if f ∈ files ∧ w.early f = none then
        match c.summ f with
        | none => d.summ f
        | some k => some ((w.analyze f summ).summary.take k)
      else d.summ f
    checkers := match c.checkers with
      | none => d.checkers
      | some (k, act) => some (act.take k) }

end Cppcheck.CacheCrash

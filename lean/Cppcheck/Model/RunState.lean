import Cppcheck.Model.PathMatch
import Cppcheck.Model.Glob
/-
C17 — the state one `CppCheck` object carries from file to file in the single executor
(cli/singleexecutor.cpp:56 `result += mCppcheck.check(*i)`, lib/cppcheck.cpp).

Carried between two `check()` calls (everything else is local to `checkInternal`):
  * `Suppressions::nomsg.mSuppressions`  – inline suppressions are *added* while a file is analysed
    (`Preprocessor::inlineSuppressions` → `SuppressionList::addSuppression`) and never removed;
  * `CppCheckLogger::mErrorList` / `mSuppressedErrorList` – duplicate filters, cleared by `mLogger->clear()`
    at the start of `checkInternal` (8f62378) and at its end; before 8f62378 only at the end, i.e. not on the early
    `return`s (preprocessor error, results taken from the build dir, `--check-config`, termination);
  * `CppCheckLogger::mLocationMacros` – replaced by `setLocationMacros` once per analysed configuration,
    never cleared between files;
  * `CppCheckLogger::mRemarkComments` – replaced by `setRemarkComments` once per file (after the file was read);
  * `CppCheckLogger::mExitCode` – reset by `resetExitCode()` at the start of `checkInternal`;
  * the `checked` / `matched` flags of every entry of the shared suppression list – set by `Suppression::isMatch` for every
    message tested and by `markUnmatchedInlineSuppressionsAsChecked` for every line of every analysed token list, never
    reset; read after the last file (`getUnmatchedInlineSuppressions`: inline, checked, not matched);
  * `mFileInfo`, `mUnusedFunctionsCheck` – whole-program data (excluded by the property, not modelled).

The raw per-file analysis is NOT modelled: it is the parameter `analyze : α → Trace S`, the sequence of calls
the analysis of one file makes on the carried state (`addSuppression`, `setRemarkComments`,
`setLocationMacros`, `reportErr`) plus which exit `checkInternal` took.  The type `S` of suppressions, the
"same parameters" test and the matching function are parameters of the generic part; `Suppr`,
`sameParams`, `supprMatches` below are the copies of `SuppressionList::Suppression`.
-/
namespace Cppcheck.RunState
open Cppcheck.Wire

/-- what `CppCheckLogger::reportErr` reads of an `ErrorMessage` -/
structure Finding where
  id : Str
  /-- is `callStack` non-empty -/
  hasLoc : Bool
  /-- `SuppressionList::ErrorMessage::getFileName()`: simplified `callStack.back().getfile(false)`, or `file0` -/
  file : Str
  /-- `callStack.back().line`, `NO_LINE` (-1) for an empty call stack -/
  line : Int
  /-- `symbolNames()`, separated by '\n' -/
  symbols : Str
  /-- `msg.toString(verbose, templateFormat, templateLocation)`: the key of the duplicate filters -/
  text : Str
  /-- severity `internal`: forwarded unfiltered -/
  internal : Bool
  /-- reported by the whole-program phase (never by `checkInternal`; used by the outer-logger model only) -/
  wp : Bool
  /-- opaque rest of the message (all fields that are printed) -/
  tag : Str
  /-- `ErrorMessage::remark`, filled in by the logger -/
  remark : Str
  deriving DecidableEq, Repr, Inhabited

structure Remark where
  file : Str
  line : Int
  str : Str
  deriving DecidableEq, Repr, Inhabited

/-- `std::map<Location, std::set<std::string>> mLocationMacros` as an association list -/
abbrev MacroMap := List ((Str × Int) × List Str)

/-- one call of the per-file analysis on the carried state -/
inductive Ev (S : Type) where
  | suppr (s : S)                  -- `mSuppressions.nomsg.addSuppression(s)`
  | remarks (r : List Remark)      -- `mLogger->setRemarkComments(r)`
  | macros (m : MacroMap)          -- `mLogger->setLocationMacros(...)`
  | report (x : Finding)           -- `mErrorLogger.reportErr(x)`
  | probe (x : Finding)            -- `mSuppressions.nomsg.isSuppressed(x, true)` alone (the dummy call of `check(file)`)
  | mark (toks : List (Str × Int)) -- `markUnmatchedInlineSuppressionsAsChecked(list)`: (file name, line) of the tokens
  deriving Repr, Inhabited

/-- the calls made while one file is analysed; `early` = `checkInternal` returned before `mLogger->clear()` -/
structure Trace (S : Type) where
  evs : List (Ev S)
  early : Bool
  deriving Repr, Inhabited

structure State (S : Type) where
  supprs : List S
  errorList : List Str
  suppressedList : List Str
  locMacros : MacroMap
  remarks : List Remark
  exitCode : Nat
  /-- the entries of `supprs` whose `checked` flag is set -/
  checked : List S
  /-- the entries of `supprs` whose `matched` flag is set -/
  matched : List S
  deriving Repr, Inhabited

/-- settings and code variant read by the carried-state logic -/
structure Cfg (S : Type) where
  /-- `Suppression::isSameParameters` -/
  same : S → S → Bool
  /-- `Suppression::isSuppressed(errmsg) == Result::Matched` for the finding and the macro names of its location
      (including the `unmatchedSuppression` id rule of `SuppressionList::isSuppressed`) -/
  hits : S → Finding → List Str → Bool
  /-- `Suppression::isSuppressed(errmsg) != Result::None`: `isMatch` sets `checked` -/
  touches : S → Finding → List Str → Bool
  /-- `suppression.fileName` -/
  fileOf : S → Str
  /-- the line test of `markUnmatchedInlineSuppressionsAsChecked` for the type of the entry -/
  markLine : S → Int → Bool
  /-- `mSuppressions.nofail.isSuppressed(errorMessage)` (`--exitcode-suppressions`, fixed during the run) -/
  nofail : Finding → List Str → Bool
  /-- `mSettings.emitDuplicates` -/
  emitDuplicates : Bool
  /-- code variant: `mLogger->clear()` also at the start of `checkInternal` (true = the code since 8f62378, the model of
      record; false = the code before, kept for the regression theorem only) -/
  clearAtStart : Bool

/-- what the analysis of one file hands on -/
structure Out where
  /-- messages given to the outer logger (`mErrorLogger.reportErr`), in order -/
  forwarded : List Finding
  /-- messages written to the analyzer information of the file (`mAnalyzerInformation->reportErr`) -/
  recorded : List Finding
  deriving DecidableEq, Repr, Inhabited

structure FileResult where
  forwarded : List Finding
  recorded : List Finding
  /-- `mLogger->exitcode()` returned by `check()` -/
  exit : Nat
  deriving DecidableEq, Repr, Inhabited

variable {S : Type}

/-- `SuppressionList::addSuppression`: "already exists" when one with the same parameters is in the list -/
def addSuppr (same : S → S → Bool) (l : List S) (s : S) : List S :=
  if l.any (fun t => same s t) then l else l ++ [s]

/-- `mLocationMacros.find(Location(file, lineNumber))` for a non-empty call stack -/
def lookupMacros (m : MacroMap) (x : Finding) : List Str :=
  if x.hasLoc then (m.lookup (x.file, x.line)).getD [] else []

/-- the first remark comment on the line of the finding -/
def remarkFor (rs : List Remark) (x : Finding) : Str :=
  if x.hasLoc then
    match rs.find? (fun r => r.file == x.file && r.line == x.line) with
    | some r => r.str
    | none => []
  else []

/-- the state after the filters of `reportErr` for a finding that is `suppressed` / found in its duplicate
    filter (`dupHit`): insertion into the filter, `mExitCode = 1` -/
def updState (cfg : Cfg S) (x : Finding) (m : List Str) (suppressed dupHit : Bool) (st : State S) : State S :=
  if x.text.isEmpty || dupHit then st
  else
    let st1 : State S :=
      if cfg.emitDuplicates then st
      else if suppressed then { st with suppressedList := x.text :: st.suppressedList }
      else { st with errorList := x.text :: st.errorList }
    if suppressed || cfg.nofail x m then st1 else { st1 with exitCode := 1 }

/-- what is written (`mAnalyzerInformation->reportErr`) and forwarded (`mErrorLogger.reportErr`, with remark `r`) -/
def updOut (x : Finding) (suppressed dupHit : Bool) (r : Str) (o : Out) : Out :=
  if x.text.isEmpty || dupHit then o
  else
    let o1 : Out := { o with recorded := o.recorded ++ [x] }
    if suppressed then o1
    else { o1 with forwarded := o1.forwarded ++ [if r.isEmpty then x else { x with remark := r }] }

/-- `CppCheckLogger::reportErr` (lib/cppcheck.cpp:164; `--safety` and `library.reportErrors` outside):
    internal messages pass; macro names of the location; suppression test; empty rendering dropped; duplicate
    filter (one list for suppressed, one for unsuppressed findings; not consulted with `--emit-duplicates`);
    analyzer information; suppressed findings stop here; exit code; remark; forward -/
def reportErr (cfg : Cfg S) (st : State S) (o : Out) (x : Finding) : State S × Out :=
  if x.internal then (st, { o with forwarded := o.forwarded ++ [x] })
  else
    let m := lookupMacros st.locMacros x
    let suppressed := st.supprs.any (fun s => cfg.hits s x m)
    let dupHit := !cfg.emitDuplicates && (if suppressed then st.suppressedList else st.errorList).contains x.text
    (updState cfg x m suppressed dupHit st, updOut x suppressed dupHit (remarkFor st.remarks x) o)

/-- the flags `SuppressionList::isSuppressed(errmsg, global = true)` sets while it tests the message `x` (every entry is
    asked: `isMatch` sets `checked` for `Result::Checked` / `Matched`, `matched` for `Matched`); `st` = the state the test
    reads (list, location macros), `st'` = the state the flags are written to.  Internal messages are not tested. -/
def flag (cfg : Cfg S) (st : State S) (x : Finding) (st' : State S) : State S :=
  if x.internal then st'
  else
    let m := lookupMacros st.locMacros x
    { st' with checked := st'.checked ++ st.supprs.filter (fun s => cfg.touches s x m),
               matched := st'.matched ++ st.supprs.filter (fun s => cfg.hits s x m) }

/-- `SuppressionList::markUnmatchedInlineSuppressionsAsChecked(tokenlist)`, code of record: for every (file NAME, line) of
    the token list, every entry whose file name equals that name and whose line test holds becomes checked -/
def markStep (cfg : Cfg S) (toks : List (Str × Int)) (st : State S) : State S :=
  { st with checked := st.checked ++ st.supprs.filter (fun s => toks.any (fun t => cfg.fileOf s == t.1 && cfg.markLine s t.2)) }

def stepEv (cfg : Cfg S) (st : State S) (o : Out) : Ev S → State S × Out
  | .suppr s => ({ st with supprs := addSuppr cfg.same st.supprs s }, o)
  | .remarks r => ({ st with remarks := r }, o)
  | .macros m => ({ st with locMacros := m }, o)
  | .report x => (flag cfg st x (reportErr cfg st o x).1, (reportErr cfg st o x).2)
  | .probe x => (flag cfg st x st, o)
  | .mark toks => (markStep cfg toks st, o)

def runEvs (cfg : Cfg S) : State S → Out → List (Ev S) → State S × Out
  | st, o, [] => (st, o)
  | st, o, e :: t => runEvs cfg (stepEv cfg st o e).1 (stepEv cfg st o e).2 t

/-- `CppCheckLogger::clear()` -/
def clearLists (st : State S) : State S := { st with errorList := [], suppressedList := [] }

/-- the state `checkInternal` starts from: `resetExitCode()` (and `clear()` in the repaired variant) -/
def enter (cfg : Cfg S) (st : State S) : State S :=
  let st0 : State S := { st with exitCode := 0 }
  if cfg.clearAtStart then clearLists st0 else st0

/-- `CppCheck::check(file)` → `checkInternal`: one file on the carried state -/
def checkFile (cfg : Cfg S) (st : State S) (tr : Trace S) : State S × FileResult :=
  let r := runEvs cfg (enter cfg st) ⟨[], []⟩ tr.evs
  (if tr.early then r.1 else clearLists r.1, ⟨r.2.forwarded, r.2.recorded, r.1.exitCode⟩)

/-- `SingleExecutor::check`: the files in order on one object -/
def runFrom {α : Type} (cfg : Cfg S) (analyze : α → Trace S) : State S → List α → State S × List FileResult
  | st, [] => (st, [])
  | st, f :: rest =>
    let r := checkFile cfg st (analyze f)
    let q := runFrom cfg analyze r.1 rest
    (q.1, r.2 :: q.2)

def runSingle {α : Type} (cfg : Cfg S) (analyze : α → Trace S) (init : State S) (files : List α) : List FileResult :=
  (runFrom cfg analyze init files).2

/-- the carried state after the files `pre` -/
def stateAfter {α : Type} (cfg : Cfg S) (analyze : α → Trace S) (init : State S) (pre : List α) : State S :=
  (runFrom cfg analyze init pre).1

/-- the result of the last file of a run -/
def findingsOfLast (rs : List FileResult) : Option FileResult := rs.getLast?

/-- drop whole-program findings -/
def FileResult.nonWP (r : FileResult) : FileResult :=
  ⟨r.forwarded.filter (fun x => !x.wp), r.recorded.filter (fun x => !x.wp), r.exit⟩

/-! ## the hypotheses the independence proof needs, as executable predicates -/

def supprsOf : List (Ev S) → List S
  | [] => []
  | .suppr s :: t => s :: supprsOf t
  | _ :: t => supprsOf t

def reportsOf : List (Ev S) → List Finding
  | [] => []
  | .report x :: t => x :: reportsOf t
  | _ :: t => reportsOf t

def marksOf : List (Ev S) → List (List (Str × Int))
  | [] => []
  | .mark toks :: t => toks :: marksOf t
  | _ :: t => marksOf t

/-- every message the suppression list is asked about: reports and probes -/
def testedOf : List (Ev S) → List Finding
  | [] => []
  | .report x :: t => x :: testedOf t
  | .probe x :: t => x :: testedOf t
  | _ :: t => testedOf t

/-- findings reported before the first `setLocationMacros` of the file -/
def preMacroReports : List (Ev S) → List Finding
  | [] => []
  | .report x :: t => x :: preMacroReports t
  | .macros _ :: _ => []
  | _ :: t => preMacroReports t

/-- findings reported before `setRemarkComments` -/
def preRemarkReports : List (Ev S) → List Finding
  | [] => []
  | .report x :: t => x :: preRemarkReports t
  | .remarks _ :: _ => []
  | _ :: t => preRemarkReports t

/-- H1: a suppression left behind by earlier files (`F`) that matches a finding of this file is backed by a
    matching suppression the file has by itself at that moment (`own`: start list + its own so far) -/
def foreignOK (cfg : Cfg S) (F : List S) : List S → MacroMap → List (Ev S) → Bool
  | _, _, [] => true
  | own, mm, .suppr s :: t => foreignOK cfg F (addSuppr cfg.same own s) mm t
  | own, _, .macros m :: t => foreignOK cfg F own m t
  | own, mm, .remarks _ :: t => foreignOK cfg F own mm t
  | own, mm, .probe _ :: t => foreignOK cfg F own mm t
  | own, mm, .mark _ :: t => foreignOK cfg F own mm t
  | own, mm, .report x :: t =>
    (x.internal ||
      F.all (fun s => !cfg.hits s x (lookupMacros mm x) || own.any (fun s' => cfg.hits s' x (lookupMacros mm x)))) &&
    foreignOK cfg F own mm t

/-- H2: a suppression of this file that has the same parameters as one left behind is that very suppression -/
def sameOK [DecidableEq S] (cfg : Cfg S) (F : List S) (evs : List (Ev S)) : Bool :=
  (supprsOf evs).all (fun s => F.all (fun s' => !cfg.same s s' || decide (s' = s)))

/-- H3: the location-macro map left behind says the same as the start map about the findings reported before
    the file's first `setLocationMacros` -/
def staleMacrosOK (c a : MacroMap) (evs : List (Ev S)) : Bool :=
  (preMacroReports evs).all (fun x => x.internal || lookupMacros c x == lookupMacros a x)

/-- H4: the same for the remark comments -/
def staleRemarksOK (c a : List Remark) (evs : List (Ev S)) : Bool :=
  (preRemarkReports evs).all (fun x => x.internal || remarkFor c x == remarkFor a x)

/-- H5: the duplicate filters left behind (not cleared after an early return) do not contain a text of this file -/
def leakOK (cfg : Cfg S) (c a : State S) (evs : List (Ev S)) : Bool :=
  cfg.clearAtStart || cfg.emitDuplicates ||
  (reportsOf evs).all (fun x => x.internal ||
    (c.errorList.contains x.text == a.errorList.contains x.text &&
     c.suppressedList.contains x.text == a.suppressedList.contains x.text))

/-- all five, for the file `tr` analysed on the state `c` left behind, compared with the start state `a` -/
def Indep [DecidableEq S] (cfg : Cfg S) (c a : State S) (tr : Trace S) : Bool :=
  foreignOK cfg c.supprs a.supprs a.locMacros tr.evs &&
  sameOK cfg c.supprs tr.evs &&
  staleMacrosOK c.locMacros a.locMacros tr.evs &&
  staleRemarksOK c.remarks a.remarks tr.evs &&
  leakOK cfg c a tr.evs

/-! ## the outer logger (`StdLogger::reportErr`, cli/cppcheckexecutor.cpp:638) -/

/-- first occurrence of every key, in order (`mShownErrors`) -/
def dedupBy (key : Finding → Str) : List Str → List Finding → List Finding
  | _, [] => []
  | seen, x :: t => if seen.contains (key x) then dedupBy key seen t else x :: dedupBy key (key x :: seen) t

/-- what the outer logger prints for the stream `l` of forwarded messages -/
def shown (emitDuplicates : Bool) (key : Finding → Str) (l : List Finding) : List Finding :=
  let l := l.filter (fun x => !x.internal)
  if emitDuplicates then l else dedupBy key [] l

/-- the stream the outer logger receives in a run: the files in order, then the whole-program phase -/
def stream (rs : List FileResult) (wpFindings : List Finding) : List Finding :=
  rs.flatMap (·.forwarded) ++ wpFindings

/-! ## `SuppressionList::Suppression` -/

inductive SType | unique | file | block | blockBegin | blockEnd | macro
  deriving DecidableEq, Repr, Inhabited

structure Suppr where
  errorId : Str
  fileName : Str
  lineNumber : Int          -- NO_LINE = -1
  symbolName : Str
  type : SType
  lineBegin : Int
  lineEnd : Int
  thisAndNextLine : Bool
  macroName : Str
  isInline : Bool
  deriving DecidableEq, Repr, Inhabited

def NO_LINE : Int := -1

/-- `Suppression::isSameParameters` (hash = 0 throughout) -/
def sameParams (a b : Suppr) : Bool :=
  a.errorId == b.errorId && a.fileName == b.fileName && a.lineNumber == b.lineNumber &&
  a.symbolName == b.symbolName && a.thisAndNextLine == b.thisAndNextLine

def splitLines : Str → Str → List Str
  | acc, [] => [acc.reverse]
  | acc, c :: r => if c == '\n' then acc.reverse :: splitLines [] r else splitLines (c :: acc) r

/-- the symbol loop of `Suppression::isSuppressed`: an empty `symbolNames` has no symbol at all -/
def symbolMatch (pat : Str) (symbols : Str) : Bool :=
  if symbols.isEmpty then false else (splitLines [] symbols).any (fun n => Glob.matchglob pat n)

/-- which variant of the file test: `exactInline` = a repair that was proposed and rejected (it breaks `-rp` with several
    base paths); the code of record is `false` -/
def fileTest (exactInline : Bool) (s : Suppr) (file : Str) : Bool :=
  if exactInline && s.isInline then s.fileName == file
  else PathMatch.pathMatch PathCanon.Variant.fixed .unix .regular s.fileName file []

/-- `Suppression::isSuppressed(errmsg) == Result::Matched`, after the id rule of `SuppressionList::isSuppressed`
    (`unmatchedSuppression` findings only see suppressions of exactly that id) -/
def supprMatches (exactInline : Bool) (s : Suppr) (x : Finding) (macros : List Str) : Bool :=
  if x.id == "unmatchedSuppression".toList && s.errorId != x.id then false
  else
    let idOk := s.errorId.isEmpty || (!x.id.isEmpty && Glob.matchglob s.errorId x.id)
    let symOk := s.symbolName.isEmpty || symbolMatch s.symbolName x.symbols
    if s.type == .macro then
      macros.contains s.macroName && (s.errorId.isEmpty || Glob.matchglob s.errorId x.id) && symOk
    else
      let lineOk :=
        !(s.type == .unique && s.lineNumber != NO_LINE && s.lineNumber != x.line) ||
        (s.thisAndNextLine && s.lineNumber + 1 == x.line)
      let fileOk := s.fileName.isEmpty || fileTest exactInline s x.file
      let blockOk := !(s.type == .block && (x.line < s.lineBegin || x.line > s.lineEnd))
      lineOk && fileOk && idOk && blockOk && symOk

/-- `Suppression::isSuppressed(errmsg) != Result::None` (same id rule in front): the tests that return `None` are the line
    test of unique suppressions, the file test, and for macro suppressions the macro name -/
def supprTouches (exactInline : Bool) (s : Suppr) (x : Finding) (macros : List Str) : Bool :=
  if x.id == "unmatchedSuppression".toList && s.errorId != x.id then false
  else if s.type == .macro then macros.contains s.macroName
  else
    let lineOk :=
      !(s.type == .unique && s.lineNumber != NO_LINE && s.lineNumber != x.line) ||
      (s.thisAndNextLine && s.lineNumber + 1 == x.line)
    let fileOk := s.fileName.isEmpty || fileTest exactInline s x.file
    lineOk && fileOk

/-- the line test of `markUnmatchedInlineSuppressionsAsChecked`: unique = the line, block = the range, any other type = any
    line of the file -/
def supprMarkLine (s : Suppr) (line : Int) : Bool :=
  if s.type == .unique then s.lineNumber == line
  else if s.type == .block then s.lineBegin ≤ line && line ≤ s.lineEnd
  else true

/-- `getUnmatchedInlineSuppressions()` on the final state (hash = 0): inline, checked, not matched, in list order -/
def unmatchedInline (st : State Suppr) : List Suppr :=
  st.supprs.filter (fun s => s.isInline && st.checked.contains s && !st.matched.contains s)

/-- the configuration of the real code: `exactInline = false`, `clearAtStart = true` -/
def realCfg (exactInline clearAtStart emitDuplicates : Bool) (nofail : List Suppr) : Cfg Suppr :=
  { same := sameParams
    hits := supprMatches exactInline
    touches := supprTouches exactInline
    fileOf := fun s => s.fileName
    markLine := supprMarkLine
    nofail := fun x m => nofail.any (fun s => supprMatches exactInline s x m)
    emitDuplicates := emitDuplicates
    clearAtStart := clearAtStart }

def initState (cmdline : List Suppr) : State Suppr := ⟨cmdline, [], [], [], [], 0, [], []⟩

end Cppcheck.RunState

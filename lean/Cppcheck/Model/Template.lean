import Cppcheck.Model.XmlEsc
/-
Text output (C26): `ErrorMessage::toString(verbose, templateFormat, templateLocation)` of lib/errorlogger.cpp,
copied call by call: the *sequential* `findAndReplace` passes, the `{inconclusive:…}` loop, the map-driven
`replace` of the empty-call-stack branch, `readCode`, the location template; the static part
(`substituteTemplateFormatStatic` = `replaceSpecialChars` + `replaceColors`); and `Spec`, the documented
meaning of a template (man/manual.md, "Format specifiers"): one simultaneous substitution of the fields.
-/
namespace Cppcheck.Template
open Cppcheck.XmlEsc

/-! ## std::string primitives -/

/-- `findAndReplace(source, searchFor, replaceWith)` (lib/utils.cpp), `searchFor` non-empty.
    `k` = bytes of the current match still to be skipped (keeps the recursion structural). -/
def farGo (pat to : Str) : Nat → Str → Str
  | _, [] => []
  | k + 1, _ :: r => farGo pat to k r
  | 0, c :: r => if pat.isPrefixOf (c :: r) then to ++ farGo pat to (pat.length - 1) r else c :: farGo pat to 0 r

def far (src pat to : Str) : Str := farGo pat to 0 src

/-- offset (counted from `i`) of the first occurrence of `pat` in the list -/
def findFrom (pat : Str) : Str → Nat → Option Nat
  | [], i => if pat.isEmpty then some i else none
  | c :: r, i => if pat.isPrefixOf (c :: r) then some i else findFrom pat r (i + 1)

/-- `s.find(pat, start)` -/
def find (pat s : Str) (start : Nat) : Option Nat :=
  if start ≤ s.length then findFrom pat (s.drop start) start else none

/-- `Path::toNativeSeparators` on a non-Windows host -/
def toNative (s : Str) : Str := s.map (fun c => if c = '\\' then '/' else c)

/-! ## pieces of `toString` -/

/-- `FileLocation::stringify(addcolumn)`; `NO_LINE` = -1 -/
def stringify (l : Loc) (addcolumn : Bool := false) : Str :=
  '[' :: (toNative l.file ++
    (if l.line ≠ -1 then ':' :: (intDec l.line ++ (if addcolumn then ':' :: natDec l.column else [])) else []) ++ [']'])

/-- `ErrorLogger::callStackToString` -/
def callStackToString : List Loc → Str
  | [] => []
  | [l] => stringify l
  | l :: r => stringify l ++ " -> ".toList ++ callStackToString r

/-- the line-ending `toString` picks for `{code}`: from the first '\r' of the text built so far -/
def endlOf (s : Str) : Str :=
  match find ['\r'] s 0 with
  | none => ['\n']
  | some pos => if (s.drop (pos + 1)).head? = some '\n' then ['\r', '\n'] else ['\r']

/-- `readCode(file, line, column, endl)`; `srcLine` = the source line after the trimming `readCode` does
    (empty when the file cannot be read or `line <= 0`) -/
def readCode (srcLine : Str) (column : Nat) (endl : Str) : Str :=
  srcLine ++ endl ++ spaces (column - 1) ++ ['^']

def mInc : Str := "{inconclusive:".toList

/-- the `while (pos1 != npos)` loop over `{inconclusive:text}`; `none` = the loop does not return.
    `brk` = the source has the guard `if (pos2 == npos) break;` (set by the translator from the working tree).
    Without the guard an unterminated `{inconclusive:` makes `pos2 - pos1 + 1` wrap: for `pos1 > 0` the count is
    huge (rest of the string), for `pos1 = 0` it is 0 — `findAndReplace(result, "", …)` then never advances.
    Every completed pass removes at least the 14 bytes of one `{inconclusive:`, so `fuel = length + 1` suffices. -/
def inconclusiveLoop (brk inc : Bool) : Nat → Str → Option Nat → Option Str
  | _, result, none => some result
  | 0, _, some _ => none
  | fuel + 1, result, some pos1 =>
    match find ['}'] result (pos1 + 1) with
    | some p2 =>
      let replaceFrom := (result.drop pos1).take (p2 - pos1 + 1)
      let replaceWith := if inc then (result.drop (pos1 + 14)).take (p2 - pos1 - 14) else []
      let result' := far result replaceFrom replaceWith
      inconclusiveLoop brk inc fuel result' (find mInc result' pos1)
    | none =>
      if brk then some result
      else if pos1 = 0 then none
      else
        let replaceFrom := result.drop pos1
        let replaceWith := if inc then result.drop (pos1 + 14) else []
        let result' := far result replaceFrom replaceWith
        inconclusiveLoop brk inc fuel result' (find mInc result' pos1)

/-- `static void replace(std::string&, const unordered_map&)`: one left-to-right pass, keys are `{…}` up to the
    first '}' (`k` = bytes still to skip; `stop` = the `break` when no '}' follows a '{') -/
def replaceMapGo (m : List (Str × Str)) : Nat → Bool → Str → Str
  | _, _, [] => []
  | k + 1, st, _ :: r => replaceMapGo m k st r
  | 0, true, c :: r => c :: replaceMapGo m 0 true r
  | 0, false, c :: r =>
    if c = '{' then
      match findFrom ['}'] r 0 with
      | none => c :: replaceMapGo m 0 true r
      | some e =>
        match m.lookup (c :: r.take (e + 1)) with
        | some v => v ++ replaceMapGo m (e + 1) false r
        | none => c :: replaceMapGo m 0 false r
    else c :: replaceMapGo m 0 false r

def replaceMap (m : List (Str × Str)) (s : Str) : Str := replaceMapGo m 0 false s

def noStackMap : List (Str × Str) :=
  [("{callstack}".toList, []), ("{file}".toList, "nofile".toList), ("{line}".toList, ['0']),
   ("{column}".toList, ['0']), ("{code}".toList, [])]

/-- one `templateLocation` line -/
def locText (src : Loc → Str) (shortMsg : Str) (tl : Str) (l : Loc) : Str :=
  let t := far tl "{file}".toList (toNative l.file)
  let t := far t "{line}".toList (intDec l.line)
  let t := far t "{column}".toList (natDec l.column)
  let t := far t "{info}".toList (if l.info = [] then shortMsg else l.info)
  far t "{code}".toList (readCode (src l) l.column (endlOf t))

/-- the file the `{code}` expansion READS: `readCode(loc.getOrigFile(), loc.line, …)` — the path cppcheck opened
    (`mOrigFileName`), never the display name (`mFileName`, which `-rp` / `setfile` rewrite).  `files path line` = the
    (trimmed) text of that line of the file at `path`, empty when it cannot be read.  The translator T6 checks that
    every `readCode` call in `toString` passes `getOrigFile()`. -/
def srcOf (files : Str → Int → Str) : Loc → Str := fun l => files l.origFile l.line

/-- the display names of a finding rewritten (what `-rp=<base>` / `FileLocation::setfile` do) -/
def rewriteDisplay (g : Str → Str) (f : Finding) : Finding :=
  { f with stack := f.stack.map (fun l => { l with file := g l.file }) }

/-- the first part of `toString`: the message template (`none`: `toString` does not return) -/
def mainText (brk : Bool) (src : Loc → Str) (f : Finding) (verbose : Bool) (tf : Str) : Option Str :=
  let idStr := if f.guideline = [] then f.id else f.guideline
  let sevS := if f.classification = [] then sevStr f.severity else f.classification
  let r := far tf "{id}".toList idStr
  match inconclusiveLoop brk f.inconclusive (r.length + 1) r (find mInc r 0) with
  | none => none
  | some r =>
    let r := far r "{severity}".toList sevS
    let r := far r "{cwe}".toList (natDec f.cwe)
    let r := far r "{message}".toList (if verbose then f.verboseMsg else f.shortMsg)
    let r := far r "{remark}".toList f.remark
    match f.stack.getLast? with
    | some last =>
      let r := far r "{callstack}".toList (callStackToString f.stack)
      let r := far r "{file}".toList (toNative last.file)
      let r := far r "{line}".toList (intDec last.line)
      let r := far r "{column}".toList (natDec last.column)
      some (far r "{code}".toList (readCode (src last) last.column (endlOf r)))
    | none => some (replaceMap noStackMap r)

/-- `ErrorMessage::toString(verbose, templateFormat, templateLocation)`; `src l` = the (trimmed) source line
    `readCode` finds for location `l`; `brk` see `inconclusiveLoop`; `none` = the call does not return -/
def toString (brk : Bool) (src : Loc → Str) (f : Finding) (verbose : Bool) (tf tl : Str) : Option Str :=
  match mainText brk src f verbose tf with
  | none => none
  | some r =>
    some (if tl ≠ [] ∧ 2 ≤ f.stack.length then r ++ f.stack.flatMap (fun l => '\n' :: locText src f.shortMsg tl l) else r)

/-! ## the static part of a template (`substituteTemplateFormatStatic`) -/

/-- `replaceSpecialChars`: `\b \n \r \t` escapes (`k` = skip counter) -/
def specialGo : Nat → Str → Str
  | _, [] => []
  | k + 1, _ :: r => specialGo k r
  | 0, c :: r =>
    if c = '\\' then
      match r.head? with
      | some 'b' => '\x08' :: specialGo 1 r
      | some 'n' => '\n' :: specialGo 1 r
      | some 'r' => '\r' :: specialGo 1 r
      | some 't' => '\t' :: specialGo 1 r
      | _ => c :: specialGo 0 r
    else c :: specialGo 0 r

def replaceSpecialChars (s : Str) : Str := specialGo 0 s

def esc (code : String) : Str := '\x1b' :: '[' :: (code.toList ++ ['m'])

/-- `replaceColors(source, erase)`; values = `toString(Color)` of lib/color.cpp: the escape sequence when
    colours are enabled (`colors`: CLICOLOR_FORCE set, or both stdout and stderr are terminals; NO_COLOR unset),
    the empty string otherwise -/
def colorMap (erase colors : Bool) : List (Str × Str) :=
  [("{reset}", "0"), ("{bold}", "1"), ("{dim}", "2"), ("{red}", "31"), ("{green}", "32"), ("{blue}", "34"),
   ("{magenta}", "35"), ("{default}", "39")].map (fun (k, v) => (k.toList, if erase || !colors then [] else esc v))

def substituteStatic (erase colors : Bool) (t : Str) : Str :=
  replaceMap (colorMap erase colors) (replaceSpecialChars t)

/-! ## Spec: the documented meaning of a template -/

/-- a template cut into literal text and `{name}` markers (`{inconclusive:text}` is the marker whose name is
    `inconclusive:text`) -/
inductive Seg where
  | lit (s : Str)
  | mk (name : Str)
  deriving DecidableEq, Repr

def Seg.flat : Seg → Str
  | .lit s => s
  | .mk n => '{' :: (n ++ ['}'])

def flatten (segs : List Seg) : Str := segs.flatMap Seg.flat

/-- literal text holds no '{'; marker names hold neither '{' nor '}' -/
def Seg.WF : Seg → Bool
  | .lit s => !s.contains '{'
  | .mk n => !n.contains '{' && !n.contains '}'

def flushLit (cur : Str) (acc : List Seg) : List Seg := if cur.isEmpty then acc else Seg.lit cur.reverse :: acc

/-- template tokenizer: `inName = some n` while inside `{…`; fails (`none`) on a '{' inside a marker or an
    unterminated marker — those templates have no documented meaning -/
def parseGo : Str → Option Str → Str → List Seg → Option (List Seg)
  | [], none, cur, acc => some (flushLit cur acc).reverse
  | [], some _, _, _ => none
  | c :: r, none, cur, acc =>
    if c = '{' then parseGo r (some []) [] (flushLit cur acc) else parseGo r none (c :: cur) acc
  | c :: r, some n, cur, acc =>
    if c = '{' then none
    else if c = '}' then parseGo r none [] (Seg.mk n.reverse :: acc)
    else parseGo r (some (c :: n)) cur acc

def parseTemplate (t : Str) : Option (List Seg) := parseGo t none [] []

/-- the value of every documented field of the message template for one finding -/
structure Env where
  id : Str
  severity : Str
  cwe : Str
  message : Str
  remark : Str
  callstack : Str
  file : Str
  line : Str
  column : Str
  code : Str
  inconclusive : Bool

def incPre : Str := "inconclusive:".toList

/-- the marker name starts with `inconclusive:` -/
def incP (n : Str) : Bool := incPre.isPrefixOf n

/-- every field but `{code}` -/
def Env.valueNoCode (e : Env) (n : Str) : Option Str :=
  if n = "id".toList then some e.id
  else if incP n then some (if e.inconclusive then n.drop 13 else [])
  else if n = "severity".toList then some e.severity
  else if n = "cwe".toList then some e.cwe
  else if n = "message".toList then some e.message
  else if n = "remark".toList then some e.remark
  else if n = "callstack".toList then some e.callstack
  else if n = "file".toList then some e.file
  else if n = "line".toList then some e.line
  else if n = "column".toList then some e.column
  else none

def Env.value (e : Env) (n : Str) : Option Str :=
  match e.valueNoCode n with
  | some v => some v
  | none => if n = "code".toList then some e.code else none

/-- simultaneous substitution: every marker is looked up once, values are never rescanned;
    an unknown marker stays as written -/
def substSeg (val : Str → Option Str) : Seg → Str
  | .lit s => s
  | .mk n => (val n).getD ('{' :: (n ++ ['}']))

def subst (val : Str → Option Str) (segs : List Seg) : Str := segs.flatMap (substSeg val)

def envOf (f : Finding) (verbose : Bool) (code : Str) : Env :=
  { id := if f.guideline = [] then f.id else f.guideline
    severity := if f.classification = [] then sevStr f.severity else f.classification
    cwe := natDec f.cwe
    message := if verbose then f.verboseMsg else f.shortMsg
    remark := f.remark
    callstack := callStackToString f.stack
    file := match f.stack.getLast? with | some l => toNative l.file | none => "nofile".toList
    line := match f.stack.getLast? with | some l => intDec l.line | none => ['0']
    column := match f.stack.getLast? with | some l => natDec l.column | none => ['0']
    code := code
    inconclusive := f.inconclusive }

/-- the `{code}` value: source line, line ending taken from the rendered text, caret under the column -/
def codeOf (src : Loc → Str) (f : Finding) (rest : Str) : Str :=
  match f.stack.getLast? with
  | some l => readCode (src l) l.column (endlOf rest)
  | none => []

def Spec.renderMain (src : Loc → Str) (f : Finding) (verbose : Bool) (segs : List Seg) : Str :=
  -- first everything but {code} (which stays as written), to fix the line ending; then {code}
  let pre := subst (envOf f verbose []).valueNoCode segs
  subst (envOf f verbose (codeOf src f pre)).value segs

def locValueNoCode (l : Loc) (shortMsg : Str) (n : Str) : Option Str :=
  if n = "file".toList then some (toNative l.file)
  else if n = "line".toList then some (intDec l.line)
  else if n = "column".toList then some (natDec l.column)
  else if n = "info".toList then some (if l.info = [] then shortMsg else l.info)
  else none

def locValue (l : Loc) (shortMsg code : Str) (n : Str) : Option Str :=
  match locValueNoCode l shortMsg n with
  | some v => some v
  | none => if n = "code".toList then some code else none

def Spec.renderLoc (src : Loc → Str) (shortMsg : Str) (segs : List Seg) (l : Loc) : Str :=
  let pre := subst (locValueNoCode l shortMsg) segs
  subst (locValue l shortMsg (readCode (src l) l.column (endlOf pre))) segs

/-- documented rendering of one finding: the message line, then one location line per call-stack entry when a
    location template is given and the finding has at least two locations -/
def Spec.render (src : Loc → Str) (f : Finding) (verbose : Bool) (segsF segsL : List Seg) : Str :=
  Spec.renderMain src f verbose segsF ++
  (if flatten segsL ≠ [] ∧ 2 ≤ f.stack.length then f.stack.flatMap (fun l => '\n' :: Spec.renderLoc src f.shortMsg segsL l) else [])

/-! ## hypotheses of the rendering theorem, as decidable predicates -/

def openFree (s : Str) : Bool := s.all (fun c => c != '{')

/-- every value `toString` substitutes *before* some other pass (everything but `{code}`, numbers and severity
    names, which never hold a '{'): id/guideline, classification, message, remark, file names, location infos -/
def fieldValues (f : Finding) (verbose : Bool) : List Str :=
  [if f.guideline = [] then f.id else f.guideline, f.classification, if verbose then f.verboseMsg else f.shortMsg, f.remark] ++
  f.stack.map (fun l => l.file) ++ f.stack.map (fun l => if l.info = [] then f.shortMsg else l.info)

def valuesOK (f : Finding) (verbose : Bool) : Bool := (fieldValues f verbose).all openFree

/-! ## the duplicate filter of `StdLogger::reportErr` (cli/cppcheckexecutor.cpp) -/

/-- findings handed to the writer of the selected format: internal ones are consumed, a finding whose *text*
    rendering was already shown is dropped (`mShownErrors`), whatever the output format is -/
def stdLoggerGo (render : Finding → Str) : List Finding → List Str → List Finding
  | [], _ => []
  | f :: r, shown =>
    if f.severity = 8 then stdLoggerGo render r shown
    else if shown.contains (render f) then stdLoggerGo render r shown
    else f :: stdLoggerGo render r (render f :: shown)

def stdLogger (render : Finding → Str) (fs : List Finding) : List Finding := stdLoggerGo render fs []

end Cppcheck.Template

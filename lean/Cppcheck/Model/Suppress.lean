import Cppcheck.Model.Glob
/-
C23 — model of the suppression matcher and of the report gate.

  lib/suppressions.h / .cpp   SuppressionList::Suppression (all fields), Suppression::isSuppressed / isMatch,
                              isWildcard / isLocal / isSameParameters, SuppressionList::addSuppression,
                              SuppressionList::isSuppressed(errmsg, global) / isSuppressedExplicitly
  lib/cppcheck.cpp            CppCheck::CppCheckLogger::reportErr (the gate), fromErrorMessage

The file-name matcher (`PathMatch::match`, owned by C31) and `Path::simplifyPath` are PARAMETERS (`Env`): every
theorem holds for all such functions, and the correspondence check runs the model with the answers the real
functions give.

The glob matcher used for error ids and symbol names is `glob`; `globFixed` (= `Glob.fixApplied`) selects the
`matchglob` before (`false`) or after (`true`) /verif/proposed/C23-matchglob.diff.
-/
namespace Cppcheck.Suppress
open Cppcheck.Wire Cppcheck.Glob

/-- which `matchglob` the suppression code calls: follows the switch `Glob.fixApplied` -/
def globFixed : Bool := fixApplied

/-- `matchglob(pattern, name)` as called from lib/suppressions.cpp (case sensitive) -/
def glob (p n : Str) : Bool := dfs globFixed false (cstr p) (cstr n)

/-- patterns on which `glob` is exactly the documented language -/
def globExact (p : Str) : Bool := globFixed || starOk (cstr p)

structure Env where
  /-- `PathMatch::match(pattern, path)` -/
  fileMatch : Str → Str → Bool
  /-- `Path::simplifyPath` -/
  simplify : Str → Str

inductive SType
  | unique | file | block | blockBegin | blockEnd | macro
  deriving DecidableEq, Repr, Inhabited

/-- `SuppressionList::Suppression`; `NO_LINE = -1` -/
structure Suppr where
  errorId : Str := []
  fileName : Str := []
  extraComment : Str := []
  fileIndex : Int := 0
  lineNumber : Int := -1
  lineBegin : Int := -1
  lineEnd : Int := -1
  column : Int := 0
  type : SType := .unique
  symbolName : Str := []
  macroName : Str := []
  hash : Nat := 0
  thisAndNextLine : Bool := false
  matched : Bool := false
  checked : Bool := false
  isInline : Bool := false
  isPolyspace : Bool := false
  deriving DecidableEq, Repr, Inhabited

/-- `SuppressionList::ErrorMessage` (certainty is not read by any matching code) -/
structure Msg where
  hash : Nat := 0
  errorId : Str := []
  /-- after `setFileName`, i.e. simplified -/
  fileName : Str := []
  lineNumber : Int := -1
  symbolNames : Str := []
  macroNames : List Str := []
  deriving DecidableEq, Repr, Inhabited

inductive Res
  | none | checked | matched
  deriving DecidableEq, Repr, Inhabited

/-- the symbol loop of `isSuppressed`: pieces between '\n'; nothing after a final '\n' -/
def symListGo : Str → Str → Bool → List Str
  | [], cur, started => if started then [cur.reverse] else []
  | c :: r, cur, _ => if c = '\n' then cur.reverse :: symListGo r [] false else symListGo r (c :: cur) true

def symList (s : Str) : List Str := symListGo s [] false

def symbolOk (s : Suppr) (m : Msg) : Bool :=
  s.symbolName.isEmpty || (symList m.symbolNames).any (glob s.symbolName)

/-- `Suppression::isSuppressed` -/
def isSuppressed (env : Env) (s : Suppr) (m : Msg) : Res :=
  if s.type = .macro then
    if !m.macroNames.contains s.macroName then .none
    else if s.hash > 0 && s.hash != m.hash then .checked
    else if !s.errorId.isEmpty && !glob s.errorId m.errorId then .checked
    else if symbolOk s m then .matched else .checked
  else
    if s.type = .unique && s.lineNumber != -1 && s.lineNumber != m.lineNumber
        && (!s.thisAndNextLine || s.lineNumber + 1 != m.lineNumber) then .none
    else if !s.fileName.isEmpty && !env.fileMatch s.fileName m.fileName then .none
    else if s.hash > 0 && s.hash != m.hash then .checked
    else if !s.errorId.isEmpty && (m.errorId.isEmpty || !glob s.errorId m.errorId) then .checked
    else if s.type = .block && (m.lineNumber < s.lineBegin || m.lineNumber > s.lineEnd) then .checked
    else if symbolOk s m then .matched else .checked

/-- `Suppression::isMatch`: result and flag updates -/
def isMatch (env : Env) (s : Suppr) (m : Msg) : Bool × Suppr :=
  match isSuppressed env s m with
  | .none => (false, s)
  | .checked => (false, { s with checked := true })
  | .matched => (true, { s with checked := true, matched := true })

def isWildcard (s : Suppr) : Bool := s.fileName.any (fun c => c = '?' || c = '*')
def isLocal (s : Suppr) : Bool := !s.fileName.isEmpty && !isWildcard s

/-- SWITCH: is /verif/proposed/C23-sameparameters.diff part of lib/suppressions.h?  `true` since /repo commit f569efa
    (`false` = the code before: `isSameParameters` ignored type, lineBegin, lineEnd and macroName; kept only for
    `addSuppression_block_dropped_counterexample`) -/
def sameParamsFixApplied : Bool := true

/-- `Suppression::isSameParameters`; `sfix = true` is the comparison after proposed/C23-sameparameters.diff -/
def isSameParametersG (sfix : Bool) (a b : Suppr) : Bool :=
  a.errorId = b.errorId && a.fileName = b.fileName && a.lineNumber = b.lineNumber &&
  a.symbolName = b.symbolName && a.hash = b.hash && a.thisAndNextLine = b.thisAndNextLine &&
  (!sfix || (a.type = b.type && a.lineBegin = b.lineBegin && a.lineEnd = b.lineEnd && a.macroName = b.macroName))

def isSameParameters (a b : Suppr) : Bool := isSameParametersG sameParamsFixApplied a b

def unmatchedId : Str := "unmatchedSuppression".toList

/-- is the entry looked at by `SuppressionList::isSuppressed(errmsg, global)`? -/
def considered (global : Bool) (m : Msg) (s : Suppr) : Bool :=
  (global || isLocal s) && (m.errorId != unmatchedId || s.errorId = m.errorId)

/-- `SuppressionList::isSuppressed(errmsg, global)`: no early exit, every considered entry is updated -/
def listIsSuppressed (env : Env) (global : Bool) (m : Msg) : List Suppr → Bool × List Suppr
  | [] => (false, [])
  | s :: r =>
    let (b, r') := listIsSuppressed env global m r
    if considered global m s then
      let (b1, s') := isMatch env s m
      (b1 || b, s' :: r')
    else (b, s :: r')

/-- `SuppressionList::isSuppressedExplicitly`: id must be textually equal, returns at the first match -/
def listIsSuppressedExplicitly (env : Env) (global : Bool) (m : Msg) : List Suppr → Bool × List Suppr
  | [] => (false, [])
  | s :: r =>
    if (global || isLocal s) && s.errorId = m.errorId then
      let (b1, s') := isMatch env s m
      if b1 then (true, s' :: r)
      else
        let (b, r') := listIsSuppressedExplicitly env global m r
        (b, s' :: r')
    else
      let (b, r') := listIsSuppressedExplicitly env global m r
      (b, s :: r')

/-! ### addSuppression -/

def isAlnum (c : Char) : Bool :=
  ('0' ≤ c && c ≤ '9') || ('a' ≤ c && c ≤ 'z') || ('A' ≤ c && c ≤ 'Z')
def isDigit (c : Char) : Bool := '0' ≤ c && c ≤ '9'

/-- `isAcceptedErrorIdChar` (bytes ≥ 0x80 are negative `char`s: rejected) -/
def isAcceptedErrorIdChar (c : Char) : Bool :=
  c = '_' || c = '-' || c = '.' || c = '*' || isAlnum c

inductive AddErr
  | ok | exists | noId | invalidId | badGlobId | badGlobFile
  deriving DecidableEq, Repr, Inhabited

/-- the id loop: every char accepted, first char not a digit -/
def idCharsOk : Str → Bool
  | [] => true
  | c :: r => isAcceptedErrorIdChar c && !isDigit c && r.all isAcceptedErrorIdChar

/-- `SuppressionList::addSuppression` -/
def addSuppressionG (sfix : Bool) (l : List Suppr) (s : Suppr) : AddErr × List Suppr :=
  if l.any (isSameParametersG sfix s) then (.exists, l)
  else if s.errorId.isEmpty && s.hash = 0 then (.noId, l)
  else if !idCharsOk s.errorId then (.invalidId, l)
  else if !isValidGlobPattern s.errorId then (.badGlobId, l)
  else if !isValidGlobPattern s.fileName then (.badGlobFile, l)
  else (.ok, l ++ [s])

def addSuppression (l : List Suppr) (s : Suppr) : AddErr × List Suppr := addSuppressionG sameParamsFixApplied l s

/-! ### the report gate: `CppCheck::CppCheckLogger::reportErr` -/

/-- the part of `::ErrorMessage` (plus the two settings-dependent predicates on it) the gate reads -/
structure Finding where
  /-- `severity == Severity::internal` -/
  internal : Bool := false
  /-- `mSettings.library.reportErrors(msg.file0)` -/
  libReports : Bool := true
  /-- `ErrorLogger::isCriticalErrorId(msg.id)` -/
  critical : Bool := false
  /-- `msg.toString(verbose, templateFormat, templateLocation)` -/
  text : Str := []
  /-- call stack: (`getfile(false)`, line), innermost last -/
  stack : List (Str × Int) := []
  file0 : Str := []
  id : Str := []
  hash : Nat := 0
  symbolNames : Str := []
  deriving DecidableEq, Repr, Inhabited

structure GCfg where
  safety : Bool := false
  emitDuplicates : Bool := false
  useGlobal : Bool := true
  /-- `mLocationMacros` -/
  locMacros : List ((Str × Int) × List Str) := []
  /-- `mRemarkComments` (file, line, text) -/
  remarks : List (Str × Int × Str) := []

/-- what reaches the downstream `mErrorLogger.reportErr` -/
structure Out where
  f : Finding
  /-- forwarded with severity rewritten to `internal` (safety mode, explicitly suppressed critical error) -/
  asInternal : Bool := false
  remark : Str := []
  deriving DecidableEq, Repr, Inhabited

structure GState where
  nomsg : List Suppr
  nofail : List Suppr
  errorList : List Str := []
  /-- `mSuppressedErrorList` (since /repo 9e24c55) -/
  supErrorList : List Str := []
  exitCode : Nat := 0
  out : List Out := []

def lookupMacros (t : List ((Str × Int) × List Str)) (k : Str × Int) : List Str :=
  match t.find? (fun e => e.1 = k) with
  | some e => e.2
  | none => []

/-- macro-name lookup of the gate + `SuppressionList::ErrorMessage::fromErrorMessage` -/
def toMsg (env : Env) (cfg : GCfg) (f : Finding) : Msg :=
  match f.stack.getLast? with
  | some (file, line) =>
    { hash := f.hash, errorId := f.id, fileName := env.simplify file, lineNumber := line,
      symbolNames := f.symbolNames, macroNames := lookupMacros cfg.locMacros (file, line) }
  | none =>
    { hash := f.hash, errorId := f.id, fileName := env.simplify f.file0, lineNumber := -1,
      symbolNames := f.symbolNames, macroNames := [] }

def remarkFor (cfg : GCfg) (f : Finding) : Str :=
  match f.stack.getLast? with
  | some (file, line) =>
    match cfg.remarks.find? (fun r => r.1 = file && r.2.1 = line) with
    | some r => r.2.2
    | none => []
  | none => []

/-- the body of `if (nomsg.isSuppressed(errorMessage, mUseGlobalSuppressions)) { … }`:
    safety mode — a suppressed critical error is still forwarded (as `internal` when the suppression names its id);
    then (since /repo cc259cb) a worker that runs without the global suppressions shows them the finding, which only
    updates their checked/matched flags -/
def safetyStep (env : Env) (cfg : GCfg) (st : GState) (f : Finding) (m : Msg) (sup : Bool) : GState :=
  let st1 : GState :=
    if sup && cfg.safety && f.critical then
      let r := listIsSuppressedExplicitly env cfg.useGlobal m st.nomsg
      { st with nomsg := r.2, exitCode := 1, out := st.out ++ [{ f := f, asInternal := r.1 }] }
    else st
  if sup && !cfg.useGlobal then { st1 with nomsg := (listIsSuppressed env true m st1.nomsg).2 } else st1

/-- `if (!nofail.isSuppressed(errorMessage) && !nomsg.isSuppressed(errorMessage)) mExitCode = 1;`
    (both calls with the default `global = true`; the second one only when the first returned false) -/
def exitStep (env : Env) (st : GState) (m : Msg) : GState :=
  let r := listIsSuppressed env true m st.nofail
  let st4 : GState := { st with nofail := r.2 }
  if r.1 then st4
  else
    let r2 := listIsSuppressed env true m st4.nomsg
    if r2.1 then { st4 with nomsg := r2.2 } else { st4 with nomsg := r2.2, exitCode := 1 }

/-- SWITCH: is /verif/proposed/C23-duptext.diff part of lib/cppcheck.cpp?  `true` since /repo commit 9e24c55: suppressed
    findings have a duplicate filter of their own.  (`false` = the code before: `mErrorList` also received the renderings
    of suppressed findings; kept only for `reported_duptext_counterexample`.) -/
def dupFixApplied : Bool := true

/-- one call of `CppCheckLogger::reportErr` (plist output is outside the model).
    `dfix = true` is the current code (since /repo 9e24c55 + 9907ad7): findings that are suppressed — here, or later by the
    executor because this logger runs without the global suppressions (`suppressedLater`) — use the duplicate filter
    `mSuppressedErrorList`, all others `mErrorList`.  `dfix = false` is the code before 9e24c55: one filter for all. -/
def reportErrG (dfix : Bool) (env : Env) (cfg : GCfg) (st : GState) (f : Finding) : GState :=
  if f.internal then { st with out := st.out ++ [{ f := f }] }
  else if !f.libReports then st
  else
    let m := toMsg env cfg f
    let r := listIsSuppressed env cfg.useGlobal m st.nomsg
    let sup := r.1
    let st2 := safetyStep env cfg { st with nomsg := r.2 } f m sup
    if f.text.isEmpty then st2
    else
      -- `suppressedLater = !suppressed && !mUseGlobalSuppressions && nomsg.isSuppressed(errorMessage)` (updates flags)
      let rl := if dfix && !sup && !cfg.useGlobal then listIsSuppressed env true m st2.nomsg else (false, st2.nomsg)
      let st2b : GState := { st2 with nomsg := rl.2 }
      let useSup := dfix && (sup || rl.1)
      if !cfg.emitDuplicates && (if useSup then st2b.supErrorList else st2b.errorList).contains f.text then st2b
      else
        let st3 : GState :=
          if cfg.emitDuplicates then st2b
          else if useSup then { st2b with supErrorList := f.text :: st2b.supErrorList }
          else { st2b with errorList := f.text :: st2b.errorList }
        if sup then st3
        else
          let st5 := exitStep env st3 m
          { st5 with out := st5.out ++ [{ f := f, remark := remarkFor cfg f }] }

/-- the gate over a whole run -/
def gateG (dfix : Bool) (env : Env) (cfg : GCfg) (nomsg nofail : List Suppr) (fs : List Finding) : GState :=
  fs.foldl (reportErrG dfix env cfg) { nomsg := nomsg, nofail := nofail }

/-- the current code -/
def reportErr (env : Env) (cfg : GCfg) (st : GState) (f : Finding) : GState := reportErrG dupFixApplied env cfg st f
def gate (env : Env) (cfg : GCfg) (nomsg nofail : List Suppr) (fs : List Finding) : GState :=
  gateG dupFixApplied env cfg nomsg nofail fs

/-! ### the second gate of a parallel run: `Executor::hasToLog` (cli/executor.cpp)

With `-j N` every worker runs a `CppCheckLogger` with `useGlobal = false`; what it forwards goes through
`Executor::hasToLog` in the parent (thread executor: same process; process executor: after the pipe), which applies the whole
`nomsg` list and has a duplicate filter of its own. -/

structure EState where
  nomsg : List Suppr
  /-- `Executor::mErrorList` -/
  errorList : List Str := []
  kept : List Out := []

/-- `Executor::hasToLog(msg)` for one message forwarded by a worker.  The executor knows no location macros
    (`nomsg.isSuppressed(msg, {})`); `isSuppressed(const ::ErrorMessage&, …)` returns false at once for an empty list.
    The rendering is taken to be the one the worker computed (templates containing `{remark}` are outside). -/
def hasToLog (env : Env) (cfg : GCfg) (st : EState) (o : Out) : Bool × EState :=
  if o.f.internal || o.asInternal then (true, st)
  else
    let m := toMsg env { cfg with locMacros := [] } o.f
    let r := if st.nomsg.isEmpty then (false, st.nomsg) else listIsSuppressed env true m st.nomsg
    let st1 : EState := { st with nomsg := r.2 }
    if r.1 then (false, st1)
    else if o.f.text.isEmpty then (false, st1)
    else if cfg.emitDuplicates then (true, st1)
    else if st1.errorList.contains o.f.text then (false, st1)
    else (true, { st1 with errorList := o.f.text :: st1.errorList })

def execStep (env : Env) (cfg : GCfg) (st : EState) (o : Out) : EState :=
  let r := hasToLog env cfg st o
  if r.1 then { r.2 with kept := r.2.kept ++ [o] } else r.2

/-- the executor's filter over everything a worker forwarded -/
def execFilter (env : Env) (cfg : GCfg) (nomsg : List Suppr) (outs : List Out) : EState :=
  outs.foldl (execStep env cfg) { nomsg := nomsg }

/-- a parallel run seen from the suppressions: worker logger without the global suppressions, then the executor
    (one worker; the order in which several workers deliver is C15's subject) -/
def parallelRun (env : Env) (cfg : GCfg) (nomsg nofail : List Suppr) (fs : List Finding) : EState :=
  let w := gate env { cfg with useGlobal := false } nomsg nofail fs
  execFilter env cfg w.nomsg w.out

/-! ### specification: the documented matching rules -/

namespace Spec

/-- documented glob (`*` any string, `?` any character) on the C-string views -/
def globMatches (p n : Str) : Bool := Glob.Spec.matchesB (cstr p) (cstr n)

def idMatches (s : Suppr) (m : Msg) : Bool :=
  s.errorId.isEmpty || globMatches s.errorId m.errorId

def hashMatches (s : Suppr) (m : Msg) : Bool := s.hash = 0 || s.hash = m.hash

def symbolMatches (s : Suppr) (m : Msg) : Bool :=
  s.symbolName.isEmpty || (symList m.symbolNames).any (globMatches s.symbolName)

def fileMatches (env : Env) (s : Suppr) (m : Msg) : Bool :=
  s.fileName.isEmpty || env.fileMatch s.fileName m.fileName

/-- where the suppression applies, by kind:
    * plain / inline `cppcheck-suppress`: the whole file set (no file), the whole file (no line), the line, or
      — `{`-on-its-own-line special case — the line and the next one;
    * `-file`: the file;  * `-begin`/`-end` pair: the closed line range in the file;
    * `-macro`: wherever the macro is used (file and line are not looked at);
    * an unpaired `-begin` / `-end` entry has no documented meaning: it never gets into a list (see
      `SuppressParse.addInline_types`) and the specification rejects it. -/
def locationMatches (env : Env) (s : Suppr) (m : Msg) : Bool :=
  match s.type with
  | .unique => fileMatches env s m &&
      (s.lineNumber = -1 || m.lineNumber = s.lineNumber || (s.thisAndNextLine && m.lineNumber = s.lineNumber + 1))
  | .file => fileMatches env s m
  | .block => fileMatches env s m && (s.lineBegin ≤ m.lineNumber && m.lineNumber ≤ s.lineEnd)
  | .macro => m.macroNames.contains s.macroName
  | .blockBegin | .blockEnd => false

/-- "suppression `s` matches finding `m`" by the rules of the manual (§Suppressions, §Inline suppressions): location by
    kind, hash, id glob, symbol glob -/
def documented (env : Env) (s : Suppr) (m : Msg) : Bool :=
  locationMatches env s m && hashMatches s m && idMatches s m && symbolMatches s m

/-- RULE TAKEN FROM THE CODE, not from the manual: a finding that carries no id at all is never hidden by an id pattern
    (comment in lib/suppressions.cpp: "a hack to allow wildcard suppressions on IDs to be marked as checked"); macro
    suppressions are exempt.  Vacuous for every finding cppcheck emits (they all have an id): see
    `isSuppressed_matched_iff_documented`. -/
def idlessRule (s : Suppr) (m : Msg) : Bool :=
  s.type = .macro || s.errorId.isEmpty || !m.errorId.isEmpty

/-- the specification the implementation is compared with: the manual's rules plus the one code rule above -/
def matchesB (env : Env) (s : Suppr) (m : Msg) : Bool :=
  documented env s m && idlessRule s m

/-- is the suppression bound to one concrete file (a file name without wildcard)? -/
def boundToOneFile (s : Suppr) : Bool :=
  !s.fileName.isEmpty && !s.fileName.contains '*' && !s.fileName.contains '?'

/-- which entries of a list are applied to a finding — two RULES TAKEN FROM THE CODE (the manual is silent on both):
    (a) division of labour in a parallel run: a worker's logger (`global = false`) applies only the entries bound to one
        concrete file, all entries are applied afterwards by the executor (`execFilter`); a single-job run applies all;
    (b) an `unmatchedSuppression` finding is only hidden by an entry that names exactly this id (so `--suppress=*` does not
        silence the report about itself).
    Stated here independently of the implementation's `considered`; `active_eq_considered` proves they agree. -/
def active (global : Bool) (m : Msg) (s : Suppr) : Bool :=
  (global || boundToOneFile s) && (m.errorId != unmatchedId || s.errorId = unmatchedId)

end Spec

end Cppcheck.Suppress

/-
C03 — the expression language on which the condition verdicts are modelled, and its C semantics.

An `Expr` is the AST of a side-effect free integer condition as the real Tokenizer builds it (lib/tokenlist.cpp AST,
printed by harness/c03.cpp): number tokens, variable tokens, unary `- ~ !`, binary arithmetic / shift / bitwise /
comparison / `&& ||`.  Every node carries the token facts the anchored code reads (`Ann`): the column (report location),
the cppcheck `ValueType` (sign, type), `Token::getKnownValue(INT)`, the first Known value when it is an INT value (what
`compareKnownValue` looks at), `values().front().intvalue`.

The semantics (`eval`) is ISO C17 on the LP64 data model (cppcheck platform `unix64`, the platform the harness sets and
the machine gcc compiles the oracle programs for): five integer ranks of 8/16/32/64/64 bits, both signs; integer
promotion, usual arithmetic conversions, conversion to a signed type modular (gcc/clang), `>>` of a negative value
arithmetic.  `none` = undefined behaviour (signed overflow in `+ - * /` and unary minus, division by zero,
`INT_MIN % -1`, shift count out of range, left shift of a negative value or out of the result type).
The types of variables and the type/value of number tokens are *parameters* of the semantics (`Sem`): they are what the
C compiler sees; what cppcheck sees is in the annotations, and `wf` (Model/CondOpposite.lean) states when the two agree.
-/
namespace Cppcheck.CondExpr

inductive Rank | char | short | int | long | llong
  deriving DecidableEq, Repr, Inhabited

def Rank.idx : Rank → Nat
  | .char => 0 | .short => 1 | .int => 2 | .long => 3 | .llong => 4

def Rank.bits : Rank → Nat
  | .char => 8 | .short => 16 | .int => 32 | .long => 64 | .llong => 64

structure Ty where
  rank : Rank
  signed : Bool
  deriving DecidableEq, Repr, Inhabited

def tInt : Ty := ⟨.int, true⟩
def tUInt : Ty := ⟨.int, false⟩

def Ty.bits (t : Ty) : Nat := t.rank.bits

def tmin (t : Ty) : Int := if t.signed then -(2 ^ (t.bits - 1)) else 0
def tmax (t : Ty) : Int := if t.signed then 2 ^ (t.bits - 1) - 1 else 2 ^ t.bits - 1

def inRange (t : Ty) (v : Int) : Prop := tmin t ≤ v ∧ v ≤ tmax t

instance (t : Ty) (v : Int) : Decidable (inRange t v) := by unfold inRange; exact inferInstance

/-- conversion of a mathematical integer to type `t` (C17 6.3.1.3; modular also for signed destinations) -/
def wrap (t : Ty) (v : Int) : Int :=
  if t.signed then (v + 2 ^ (t.bits - 1)) % 2 ^ t.bits - 2 ^ (t.bits - 1) else v % 2 ^ t.bits

/-- integer promotion: on LP64 every type below `int` fits into `int` -/
def promote (t : Ty) : Ty := if t.rank.idx < 2 then tInt else t

/-- usual arithmetic conversions (C17 6.3.1.8) -/
def uac (a b : Ty) : Ty :=
  let a := promote a
  let b := promote b
  if a = b then a
  else if a.signed = b.signed then (if a.rank.idx < b.rank.idx then b else a)
  else
    let u := if a.signed then b else a
    let s := if a.signed then a else b
    if s.rank.idx ≤ u.rank.idx then u
    else if u.bits < s.bits then s
    else ⟨s.rank, false⟩

/-! ### what cppcheck attaches to a token -/

inductive Sign | signed | unsigned | unknown
  deriving DecidableEq, Repr, Inhabited

/-- `ValueType` of a token as far as the anchored code reads it: `type` 0 bool, 1 char, 2 short, 3 int, 4 long,
    5 long long, 9 anything else -/
structure VT where
  sign : Sign
  type : Nat
  deriving DecidableEq, Repr, Inhabited

structure Ann where
  col : Nat := 0
  vt : Option VT := none
  known : Option Int := none     -- Token::getKnownValue(ValueFlow::Value::ValueType::INT)
  first : Option Int := none     -- the first Known value of values(), when it is an INT value
  front : Option Int := none     -- values().front().intvalue
  num : Option Int := none       -- number tokens: MathLib::toBigNumber(tok)
  deriving Repr, Inhabited

inductive UnOp | neg | compl | lnot
  deriving DecidableEq, Repr, Inhabited

inductive BinOp | add | sub | mul | div | mod | shl | shr | band | bor | bxor | lt | le | gt | ge | eq | ne | land | lor
  deriving DecidableEq, Repr, Inhabited

def BinOp.isCmp : BinOp → Bool
  | .lt | .le | .gt | .ge | .eq | .ne => true
  | _ => false

def BinOp.isLogic : BinOp → Bool
  | .land | .lor => true
  | _ => false

def BinOp.isShift : BinOp → Bool
  | .shl | .shr => true
  | _ => false

inductive Expr
  | lit (a : Ann) (sp : List Char)
  | var (a : Ann) (id : Nat)
  | un (a : Ann) (op : UnOp) (e : Expr)
  | bin (a : Ann) (op : BinOp) (l r : Expr)
  deriving Repr, Inhabited

def Expr.ann : Expr → Ann
  | .lit a _ => a | .var a _ => a | .un a _ _ => a | .bin a _ _ _ => a

def Expr.size : Expr → Nat
  | .lit _ _ => 1 | .var _ _ => 1 | .un _ _ e => e.size + 1 | .bin _ _ l r => l.size + r.size + 1

/-- what the C compiler knows: types of the variables, type and value of every number spelling -/
structure Sem where
  vty : Nat → Ty
  lty : List Char → Ty
  lval : List Char → Int

abbrev Env := Nat → Int

/-- static type (C17 6.5) -/
def tyOf (S : Sem) : Expr → Ty
  | .lit _ sp => S.lty sp
  | .var _ x => S.vty x
  | .un _ .lnot _ => tInt
  | .un _ _ e => promote (tyOf S e)
  | .bin _ op l r =>
    if op.isCmp || op.isLogic then tInt
    else if op.isShift then promote (tyOf S l)
    else uac (tyOf S l) (tyOf S r)

def b2i (b : Bool) : Int := if b then 1 else 0

/-- result of an arithmetic operation of type `t` with mathematical value `r` -/
def arith (t : Ty) (r : Int) : Option Int :=
  if t.signed then (if tmin t ≤ r ∧ r ≤ tmax t then some r else none) else some (wrap t r)

/-- bit pattern of a value in type `t` -/
def pat (t : Ty) (v : Int) : Nat := (v % 2 ^ t.bits).toNat

/-- binary operator other than `&& ||` on operands of types `ta`, `tb` -/
def evalBin (op : BinOp) (ta tb : Ty) (a b : Int) : Option Int :=
  if op.isShift then
    let t := promote ta
    let a' := wrap t a
    let c := wrap (promote tb) b
    if c < 0 ∨ c ≥ t.bits then none
    else if op = .shl then
      if t.signed then (if a' < 0 then none else arith t (a' * 2 ^ c.toNat))
      else some (wrap t (a' * 2 ^ c.toNat))
    else some (wrap t (a' / 2 ^ c.toNat))
  else
    let t := uac ta tb
    let a' := wrap t a
    let b' := wrap t b
    match op with
    | .add => arith t (a' + b')
    | .sub => arith t (a' - b')
    | .mul => arith t (a' * b')
    | .div => if b' = 0 then none else arith t (Int.tdiv a' b')
    | .mod => if b' = 0 then none else if t.signed ∧ a' = tmin t ∧ b' = -1 then none else arith t (Int.tmod a' b')
    | .band => some (wrap t (Int.ofNat (pat t a' &&& pat t b')))
    | .bor => some (wrap t (Int.ofNat (pat t a' ||| pat t b')))
    | .bxor => some (wrap t (Int.ofNat (pat t a' ^^^ pat t b')))
    | .lt => some (b2i (decide (a' < b')))
    | .le => some (b2i (decide (a' ≤ b')))
    | .gt => some (b2i (decide (a' > b')))
    | .ge => some (b2i (decide (a' ≥ b')))
    | .eq => some (b2i (decide (a' = b')))
    | .ne => some (b2i (decide (a' ≠ b')))
    | _ => none

def evalUn (op : UnOp) (ta : Ty) (a : Int) : Option Int :=
  match op with
  | .lnot => some (b2i (decide (a = 0)))
  | .neg => let t := promote ta; arith t (-(wrap t a))
  | .compl => let t := promote ta; some (wrap t (-(wrap t a) - 1))

/-- value of an expression; every environment is legal: a variable's value is the environment's entry converted to the
    variable's type (as a call passing that argument does) -/
def eval (S : Sem) (ρ : Env) : Expr → Option Int
  | .lit _ sp => some (wrap (S.lty sp) (S.lval sp))
  | .var _ x => some (wrap (S.vty x) (ρ x))
  | .un _ op e =>
    match eval S ρ e with
    | some a => evalUn op (tyOf S e) a
    | none => none
  | .bin _ op l r =>
    match op with
    | .land =>
      match eval S ρ l with
      | some a =>
        if a = 0 then some 0
        else match eval S ρ r with
          | some b => some (b2i (decide (b ≠ 0)))
          | none => none
      | none => none
    | .lor =>
      match eval S ρ l with
      | some a =>
        if a ≠ 0 then some 1
        else match eval S ρ r with
          | some b => some (b2i (decide (b ≠ 0)))
          | none => none
      | none => none
    | _ =>
      match eval S ρ l, eval S ρ r with
      | some a, some b => evalBin op (tyOf S l) (tyOf S r) a b
      | _, _ => none

/-- the variables of an expression -/
def Expr.vars : Expr → List Nat
  | .lit _ _ => []
  | .var _ x => [x]
  | .un _ _ e => e.vars
  | .bin _ _ l r => l.vars ++ r.vars

/-- no variable occurs -/
def Expr.closed : Expr → Bool
  | .lit _ _ => true | .var _ _ => false | .un _ _ e => e.closed | .bin _ _ l r => l.closed && r.closed

/-- `MathLib::bigint` view of a value: the 64-bit pattern read as `long long` -/
def toI64 (v : Int) : Int := (v + 2 ^ 63) % 2 ^ 64 - 2 ^ 63

/-- the `ValueType` cppcheck gives an operand of C type `t` -/
def toVT (t : Ty) : VT :=
  ⟨if t.signed then .signed else .unsigned, t.rank.idx + 1⟩

end Cppcheck.CondExpr

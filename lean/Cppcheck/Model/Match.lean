import Cppcheck.Model.Wire
/-
C33 — model of the token-pattern language.

Three executable artefacts, all total:
  * `interpB`   byte-level copy of `Token::Match` / `multiCompareImpl` / `multiComparePercent`
                (lib/token.cpp), patterns are NUL-terminated byte strings: reading past the end
                yields '\0' exactly like the C string does for the positions the C++ reads.
  * `compile`   copy of `MatchCompiler._compilePattern` / `_compileCmd` (tools/matchcompiler.py):
                pattern string ↦ straight-line program of guarded steps; `run` executes it.
  * `sem`/`lang` the documented pattern language on parsed patterns (word level; `lang` with the InternalError outcome).
  * `findWith`  the find loop shared by Token::findmatch / findsimplematch and the compiled findmatchN.
-/
namespace Cppcheck.Match
open Cppcheck.Wire

inductive TokType
  | eVariable | eType | eFunction | eKeyword | eName
  | eNumber | eString | eChar | eBoolean | eLiteral | eEnumerator
  | eArithmeticalOp | eComparisonOp | eAssignmentOp | eLogicalOp | eBitOp | eIncDecOp | eExtendedOp
  | eBracket | eLambda | eEllipsis | eOther | eNone
  deriving DecidableEq, Repr, Inhabited

def TokType.ofCode : Nat → TokType
  | 0 => .eVariable | 1 => .eType | 2 => .eFunction | 3 => .eKeyword | 4 => .eName
  | 5 => .eNumber | 6 => .eString | 7 => .eChar | 8 => .eBoolean | 9 => .eLiteral | 10 => .eEnumerator
  | 11 => .eArithmeticalOp | 12 => .eComparisonOp | 13 => .eAssignmentOp | 14 => .eLogicalOp
  | 15 => .eBitOp | 16 => .eIncDecOp | 17 => .eExtendedOp
  | 18 => .eBracket | 19 => .eLambda | 20 => .eEllipsis | 21 => .eOther | _ => .eNone

structure Tok where
  str : Str
  ty : TokType
  varId : Nat
  isName : Bool
  deriving DecidableEq, Repr, Inhabited

namespace Tok
def isNumber (t : Tok) : Bool := t.ty = .eNumber
def isArithmeticalOp (t : Tok) : Bool := t.ty = .eArithmeticalOp
def isComparisonOp (t : Tok) : Bool := t.ty = .eComparisonOp
def isAssignmentOp (t : Tok) : Bool := t.ty = .eAssignmentOp
def isBoolean (t : Tok) : Bool := t.ty = .eBoolean
def isConstOp (t : Tok) : Bool :=
  t.isArithmeticalOp || t.ty = .eLogicalOp || t.ty = .eComparisonOp || t.ty = .eBitOp
def isOp (t : Tok) : Bool := t.isConstOp || t.isAssignmentOp || t.ty = .eIncDecOp
end Tok

/-- result of a match: true / false / InternalError thrown -/
inductive Res | t | f | err
  deriving DecidableEq, Repr, Inhabited

def Res.ofBool (b : Bool) : Res := if b then .t else .f
def Res.toString : Res → String
  | .t => "1" | .f => "0" | .err => "E"

/-! ## 1. The pattern language (word level) -/

inductive Cmd
  | any | assign | bool | char | comp | num | cop | op | or | oror | str | type | name | var | varid
  deriving DecidableEq, Repr, Inhabited

def Cmd.ofStr (s : Str) : Option Cmd :=
  if s = "%any%".toList then some .any
  else if s = "%assign%".toList then some .assign
  else if s = "%bool%".toList then some .bool
  else if s = "%char%".toList then some .char
  else if s = "%comp%".toList then some .comp
  else if s = "%num%".toList then some .num
  else if s = "%cop%".toList then some .cop
  else if s = "%op%".toList then some .op
  else if s = "%or%".toList then some .or
  else if s = "%oror%".toList then some .oror
  else if s = "%str%".toList then some .str
  else if s = "%type%".toList then some .type
  else if s = "%name%".toList then some .name
  else if s = "%var%".toList then some .var
  else if s = "%varid%".toList then some .varid
  else none

/-- what a `%cmd%` accepts (documented language; `%varid%` is evaluated with `varid ≠ 0`) -/
def Cmd.eval (c : Cmd) (t : Tok) (varid : Nat) : Bool :=
  match c with
  | .any => true
  | .assign => t.isAssignmentOp
  | .bool => t.isBoolean
  | .char => t.ty = .eChar
  | .comp => t.isComparisonOp
  | .num => t.isNumber
  | .cop => t.isConstOp
  | .op => t.isOp
  | .or => t.ty = .eBitOp && t.str = ['|']
  | .oror => t.ty = .eLogicalOp && t.str = ['|', '|']
  | .str => t.ty = .eString
  | .type => t.isName && t.varId = 0
  | .name => t.isName
  | .var => t.varId ≠ 0
  | .varid => t.varId = varid

inductive Atom
  | cmd (c : Cmd)
  | lit (s : Str)
  deriving DecidableEq, Repr, Inhabited

def Atom.ofStr (s : Str) : Atom :=
  match Cmd.ofStr s with
  | some c => .cmd c
  | none => .lit s

def Atom.eval (a : Atom) (t : Tok) (varid : Nat) : Bool :=
  match a with
  | .cmd c => c.eval t varid
  | .lit s => t.str = s

inductive Word
  | cls (chars : Str)                      -- `[abc]`  : a one-character token out of the set
  | alts (as : List Atom) (opt : Bool)     -- `a|b|c` ; `opt` = an empty alternative is present ("or no token")
  | neg (s : Str)                          -- `!!s`    : anything (or nothing) but s
  | one (a : Atom)
  deriving DecidableEq, Repr, Inhabited

def splitOn (c : Char) : Str → List Str
  | [] => [[]]
  | x :: r =>
    if x = c then [] :: splitOn c r
    else match splitOn c r with
      | [] => [[x]]
      | w :: ws => (x :: w) :: ws

/-- position of the first `c` in `s`, counted like python's `find` (none = -1) -/
def findIdx (c : Char) : Str → Option Nat
  | [] => none
  | x :: r => if x = c then some 0 else (findIdx c r).map (· + 1)

/-- word classification in the order `_compilePattern` uses -/
def Word.ofStr (w : Str) : Word :=
  if w.length > 2 ∧ w.head? = some '[' ∧ w.getLast? = some ']' then
    .cls ((w.drop 1).dropLast)
  else if (match findIdx '|' w with | some (_ + 1) => true | _ => false) then
    let parts := splitOn '|' w
    .alts ((parts.filter (· ≠ [])).map Atom.ofStr) (parts.any (· = []))
  else if w.take 2 = ['!', '!'] then
    .neg (w.drop 2)
  else
    .one (Atom.ofStr w)

/-- python's `pattern.split(' ')` with the empty words skipped -/
def words (p : Str) : List Str := (splitOn ' ' p).filter (· ≠ [])

def parse (p : Str) : List Word := (words p).map Word.ofStr

def usesVarid (ws : List Word) : Bool :=
  ws.any fun
    | .alts as _ => as.any (· = .cmd .varid)
    | .one a => a = .cmd .varid
    | _ => false

/-- documented semantics: match the words against the token list (`none` = past the end). -/
def semWords : List Word → List Tok → Nat → Bool
  | [], _, _ => true
  | .cls cs :: ws, ts, v =>
    match ts with
    | [] => false
    | t :: r => (match t.str with | [c] => cs.contains c | _ => false) && semWords ws r v
  | .alts as opt :: ws, ts, v =>
    match ts with
    | [] => opt && semWords ws [] v
    | t :: r =>
      if as.any (·.eval t v) then semWords ws r v
      else opt && semWords ws (t :: r) v
  | .neg s :: ws, ts, v =>
    match ts with
    | [] => semWords ws [] v
    | t :: r => t.str ≠ s && semWords ws r v
  | .one a :: ws, ts, v =>
    match ts with
    | [] => false
    | t :: r => a.eval t v && semWords ws r v

def sem (ws : List Word) (ts : List Tok) (v : Nat) : Res :=
  if usesVarid ws ∧ v = 0 then .err else .ofBool (semWords ws ts v)

/-! ### the language with its error outcome

`semWords` is the two-valued core (what a pattern accepts for a given non-zero `varid`).  The real
matchers have a third outcome: `%varid%` evaluated while the `varid` argument is 0 throws
InternalError("Internal error. Token::Match called with varid 0.").  `lang` is the documented
language including that outcome, raised at the moment a `%varid%` alternative is evaluated against
a token (alternatives are tried from left to right, the null token evaluates nothing).
`sem` above is its coarse predecessor (error up front whenever the pattern mentions `%varid%`);
the two agree whenever `v ≠ 0` or the pattern does not use `%varid%` (`lang_eq_sem`). -/

def Atom.evalR (a : Atom) (t : Tok) (v : Nat) : Res :=
  if a = .cmd .varid ∧ v = 0 then .err else .ofBool (a.eval t v)

/-- alternatives `a|b|c`: the first one that accepts decides, an error met before that is the result -/
def altsR : List Atom → Tok → Nat → Res
  | [], _, _ => .f
  | a :: as, t, v =>
    match a.evalR t v with
    | .t => .t
    | .err => .err
    | .f => altsR as t v

def langWords : List Word → List Tok → Nat → Res
  | [], _, _ => .t
  | .cls cs :: ws, ts, v =>
    match ts with
    | [] => .f
    | t :: r => if (match t.str with | [c] => cs.contains c | _ => false) then langWords ws r v else .f
  | .alts as opt :: ws, ts, v =>
    match ts with
    | [] => if opt then langWords ws [] v else .f
    | t :: r =>
      match altsR as t v with
      | .t => langWords ws r v
      | .err => .err
      | .f => if opt then langWords ws (t :: r) v else .f
  | .neg s :: ws, ts, v =>
    match ts with
    | [] => langWords ws [] v
    | t :: r => if t.str = s then .f else langWords ws r v
  | .one a :: ws, ts, v =>
    match ts with
    | [] => .f
    | t :: r =>
      match a.evalR t v with
      | .t => langWords ws r v
      | .err => .err
      | .f => .f

/-- **the documented pattern language**: match / no match / InternalError -/
def lang (ws : List Word) (ts : List Tok) (v : Nat) : Res := langWords ws ts v

/-! ## 2. The match compiler -/

/-- a compiled comparison: `%cmd%`, or a literal with the `tokTypes` guard the compiler adds -/
inductive Cond
  | cmd (c : Cmd)
  | varidName                       -- `(tok->isName() && tok->varId() == varid)`
  | lit (s : Str) (types : List TokType)     -- `[]` = no tokType guard
  deriving DecidableEq, Repr, Inhabited

/-- `tokTypes` of tools/matchcompiler.py (checked against the file by the translator) -/
def tokTypes : List (String × List TokType) := [
  ("+", [.eArithmeticalOp]), ("-", [.eArithmeticalOp]), ("*", [.eArithmeticalOp]), ("/", [.eArithmeticalOp]),
  ("%", [.eArithmeticalOp]), (">>", [.eArithmeticalOp]), ("<<", [.eArithmeticalOp]),
  ("=", [.eAssignmentOp]), ("+=", [.eAssignmentOp]), ("-=", [.eAssignmentOp]), ("*=", [.eAssignmentOp]),
  ("/=", [.eAssignmentOp]), ("%=", [.eAssignmentOp]), ("&=", [.eAssignmentOp]), ("|=", [.eAssignmentOp]),
  ("^=", [.eAssignmentOp]),
  ("&", [.eBitOp]), ("^", [.eBitOp]), ("~", [.eBitOp]),
  ("true", [.eBoolean]), ("false", [.eBoolean]),
  ("{", [.eBracket]), ("}", [.eBracket]),
  ("<", [.eBracket, .eComparisonOp]), (">", [.eBracket, .eComparisonOp]),
  ("==", [.eComparisonOp]), ("!=", [.eComparisonOp]), ("<=", [.eComparisonOp]), (">=", [.eComparisonOp]),
  ("<=>", [.eComparisonOp]),
  ("...", [.eEllipsis]),
  (",", [.eExtendedOp]), ("?", [.eExtendedOp]), (":", [.eExtendedOp]), ("(", [.eExtendedOp]), (")", [.eExtendedOp]),
  ("[", [.eExtendedOp, .eLambda]), ("]", [.eExtendedOp, .eLambda]),
  ("++", [.eIncDecOp]), ("--", [.eIncDecOp]),
  ("asm", [.eKeyword]), ("auto", [.eKeyword, .eType]), ("break", [.eKeyword]), ("case", [.eKeyword]),
  ("const", [.eKeyword]), ("continue", [.eKeyword]), ("default", [.eKeyword]), ("do", [.eKeyword]),
  ("else", [.eKeyword]), ("enum", [.eKeyword]), ("extern", [.eKeyword]), ("for", [.eKeyword]),
  ("goto", [.eKeyword]), ("if", [.eKeyword]), ("inline", [.eKeyword]), ("register", [.eKeyword]),
  ("restrict", [.eKeyword]), ("return", [.eKeyword]), ("sizeof", [.eKeyword]), ("static", [.eKeyword]),
  ("struct", [.eKeyword]), ("switch", [.eKeyword]), ("typedef", [.eKeyword]), ("union", [.eKeyword]),
  ("volatile", [.eKeyword]), ("while", [.eKeyword]), ("void", [.eKeyword, .eType]),
  ("&&", [.eLogicalOp]), ("!", [.eLogicalOp])]

def lookupTypes (s : Str) : List (String × List TokType) → List TokType
  | [] => []
  | (k, tys) :: r => if k.toList = s then tys else lookupTypes s r

def Cond.ofAtom : Atom → Cond
  | .cmd .varid => .varidName
  | .cmd c => .cmd c
  | .lit s => .lit s (lookupTypes s tokTypes)

def Cond.eval (c : Cond) (t : Tok) (varid : Nat) : Bool :=
  match c with
  | .cmd c => c.eval t varid
  | .varidName => t.isName && t.varId = varid
  | .lit s [] => t.str = s
  | .lit s tys => tys.contains t.ty && t.str = s

inductive Step
  | next                          -- `tok = tok->next();`            (tok is known non-null here)
  | nextSafe                      -- `tok = tok ? tok->next() : nullptr;`
  | checkVarid                    -- `if (varid==0U) throw InternalError(...)`
  | cls (chars : Str)             -- `if (!tok || tok->str().size()!=1U || !strchr("chars", tok->str()[0])) return false;`
  | require (cs : List Cond)      -- `if (!tok || !(c1 || c2 ...)) return false;`
  | optional (cs : List Cond)     -- `if (tok && (c1 || ...)) tok = tok->next();`
  | reject (s : Str)              -- `if (tok && tok->str() == "s") return false;`
  deriving DecidableEq, Repr, Inhabited

abbrev Prog := List Step

/-- goto-mode carried between words by `_compilePattern` (`gotoNextToken`) -/
inductive Goto | none | next | nextSafe
  deriving DecidableEq, Repr, Inhabited

def Goto.steps : Goto → List Step
  | .none => [] | .next => [.next] | .nextSafe => [.nextSafe]

def wordMentionsVarid (w : Str) : Bool :=
  let v := "%varid%".toList
  (List.range (w.length + 1)).any fun i => (w.drop i).take v.length = v

/-- compile the remaining words; `g` = pending goto, `chk` = the varid check was already emitted -/
def compileWords (hasVarid : Bool) : List Str → Goto → Bool → Prog
  | [], _, _ => []
  | w :: ws, g, chk =>
    let pre := g.steps
    let needChk := hasVarid && wordMentionsVarid w && !chk
    let chkSteps := if needChk then [Step.checkVarid] else []
    let chk' := chk || needChk
    match Word.ofStr w with
    | .cls cs => pre ++ chkSteps ++ [.cls cs] ++ compileWords hasVarid ws .next chk'
    | .alts as opt =>
      if opt then pre ++ chkSteps ++ [.optional (as.map Cond.ofAtom)] ++ compileWords hasVarid ws .none chk'
      else pre ++ chkSteps ++ [.require (as.map Cond.ofAtom)] ++ compileWords hasVarid ws .next chk'
    | .neg s => pre ++ chkSteps ++ [.reject s] ++ compileWords hasVarid ws .nextSafe chk'
    | .one a => pre ++ chkSteps ++ [.require [Cond.ofAtom a]] ++ compileWords hasVarid ws .next chk'

def compile (p : Str) (hasVarid : Bool) : Prog :=
  compileWords hasVarid (words p) .none false

/-- run a compiled program; `ts = []` is the null token -/
def run : Prog → List Tok → Nat → Res
  | [], _, _ => .t
  | .next :: p, ts, v => run p (ts.drop 1) v
  | .nextSafe :: p, ts, v => run p (ts.drop 1) v
  | .checkVarid :: p, ts, v => if v = 0 then .err else run p ts v
  | .cls cs :: p, ts, v =>
    match ts with
    | [] => .f
    | t :: _ => (match t.str with | [c] => if cs.contains c then run p ts v else .f | _ => .f)
  | .require cs :: p, ts, v =>
    match ts with
    | [] => .f
    | t :: _ => if cs.any (·.eval t v) then run p ts v else .f
  | .optional cs :: p, ts, v =>
    match ts with
    | [] => run p ts v
    | t :: r => if cs.any (·.eval t v) then run p r v else run p ts v
  | .reject s :: p, ts, v =>
    match ts with
    | [] => run p ts v
    | t :: _ => if t.str = s then .f else run p ts v

/-- the compiled `findmatchN(start, [end])`: index of the first position where the program matches.
    `stop` = number of tokens before `end` (the scan stops there), `none` = no end token -/
def findFrom (p : Prog) (v : Nat) : List Tok → Nat → Nat → Option Nat ⊕ Unit
  | [], _, _ => .inl none
  | t :: r, idx, budget =>
    match budget with
    | 0 => .inl none
    | b + 1 =>
      match run p (t :: r) v with
      | .t => .inl (some idx)
      | .err => .inr ()
      | .f => findFrom p v r (idx + 1) b

/-! ### the find loop

`for (tok = start; tok && tok != end; tok = tok->next()) if (MATCH(tok)) return tok; return nullptr;`
— the same loop in lib/token.cpp (`findmatchImpl`, `findsimplematchImpl`, each with and without
`end`) and in the code `_compileFindPattern` emits; only `MATCH` differs.  An InternalError thrown
by `MATCH` leaves the loop.  `findFrom` above is this loop for the compiled matcher with an
accumulator (`findFrom_eq_findWith`). -/

/-- result of a find: position relative to `start` / `nullptr` / InternalError -/
inductive Find | hit (i : Nat) | none | err
  deriving DecidableEq, Repr, Inhabited

def Find.succ : Find → Find
  | .hit i => .hit (i + 1)
  | r => r

def Find.toString : Find → String
  | .hit i => ToString.toString i | .none => "N" | .err => "E"

/-- the find loop over any matcher `m`; `budget` = number of tokens in front of `end` -/
def findWith (m : List Tok → Res) : List Tok → Nat → Find
  | [], _ => .none
  | _ :: _, 0 => .none
  | t :: r, b + 1 =>
    match m (t :: r) with
    | .t => .hit 0
    | .err => .err
    | .f => (findWith m r b).succ

/-- budget of a call whose `start` is token number `s` of a list of `n` tokens; `e` = number of the
    `end` token (`none`: the form without `end`; `e = n`: `end == nullptr`; `e < s`: `end` lies in
    front of `start` and is never reached) -/
def endBudget (n s : Nat) (e : Option Nat) : Nat :=
  match e with
  | none => n - s
  | some e => if s ≤ e then e - s else n - s

def findFromStr : Option Nat ⊕ Unit → String
  | .inl (some i) => toString i | .inl none => "N" | .inr () => "E"

/-! ## 3. Byte-level interpreter (`Token::Match`) -/

/-- C string view: character at offset `i`, '\0' past the end -/
def at0 (s : Str) (i : Nat) : Char := s.getD i '\x00'

/-- outcome of `multiComparePercent`: 1, -1, throw, or "continue with haystack advanced" (0xFFFF) -/
inductive PctRes
  | one | minus | thrw | cont (rest : Str)

/-- `haystack` points at '%'. Mirrors the switch on the first letter and the fixed skips. -/
def multiComparePercent (t : Tok) (hay : Str) (varid : Nat) : PctRes :=
  let h := hay.drop 1
  let fin (matched : Bool) (h' : Str) : PctRes :=
    if matched then .one
    else if at0 h' 0 = '|' then .cont (h'.drop 1) else .minus
  match at0 h 0 with
  | 'v' =>
    if at0 h 3 = '%' then fin (t.varId ≠ 0) (h.drop 4)
    else if varid = 0 then .thrw
    else fin (t.varId = varid) (h.drop 6)
  | 't' => fin (t.isName && t.varId = 0) (h.drop 5)
  | 'a' =>
    if at0 h 3 = '%' then .one
    else fin t.isAssignmentOp (h.drop 7)
  | 'n' =>
    if at0 h 4 = '%' then fin t.isName (h.drop 5)
    else fin t.isNumber (h.drop 4)
  | 'c' =>
    let h1 := h.drop 1
    if at0 h1 0 = 'h' then fin (t.ty = .eChar) (h1.drop 4)
    else if at0 h1 1 = 'p' then fin t.isConstOp (h1.drop 3)
    else fin t.isComparisonOp (h1.drop 4)
  | 's' => fin (t.ty = .eString) (h.drop 4)
  | 'b' => fin t.isBoolean (h.drop 5)
  | 'o' =>
    let h1 := h.drop 1
    if at0 h1 1 = '%' then
      if at0 h1 0 = 'p' then fin t.isOp (h1.drop 2)
      else fin (t.ty = .eBitOp && t.str = ['|']) (h1.drop 2)
    else fin (t.ty = .eLogicalOp && t.str = ['|', '|']) (h1.drop 4)
  | _ => .thrw

/-- skip to just after the next '|' of the current word; `none` if the word ends first -/
def skipToBar : Str → Option Str
  | [] => none
  | c :: r => if c = ' ' then none else if c = '|' then some r else skipToBar r

/-- `multiCompareImpl`: 1 / 0 / -1 / throw.  `np` = rest of the needle still to compare,
    `atStart` = (needlePointer == needle).  Fuel = haystack length bound (each iteration consumes
    at least one haystack byte, or returns). -/
inductive MC | one | zero | minus | thrw
  deriving DecidableEq, Repr

def multiCompareLoop (t : Tok) (varid : Nat) : Nat → Str → Str → Bool → MC
  | 0, _, _, _ => .minus
  | fuel + 1, hay, np, atStart =>
    let h0 := at0 hay 0
    let h1 := at0 hay 1
    if atStart ∧ h0 = '%' ∧ h1 ≠ '|' ∧ h1 ≠ '\x00' ∧ h1 ≠ ' ' ∧ h1 ≠ '=' then
      match multiComparePercent t hay varid with
      | .one => .one
      | .minus => .minus
      | .thrw => .thrw
      | .cont rest => multiCompareLoop t varid fuel rest t.str true
    else if h0 = '|' then
      if np = [] then .one
      else multiCompareLoop t varid fuel (hay.drop 1) t.str true
    else if at0 np 0 = h0 then
      if np = [] then .one
      else multiCompareLoop t varid fuel (hay.drop 1) (np.drop 1) false
    else if h0 = ' ' ∨ h0 = '\x00' then
      if atStart then .zero
      else if np = [] then .one else .minus
    else
      -- the do-while: advance at least one byte, stop at word end (-1) or after the next '|'
      match skipToBar (hay.drop 1) with
      | none => .minus
      | some rest => multiCompareLoop t varid fuel rest t.str true

def multiCompare (t : Tok) (hay : Str) (varid : Nat) : MC :=
  multiCompareLoop t varid (hay.length + 2) hay t.str (decide (t.str = t.str))

def skipSpaces : Str → Str
  | ' ' :: r => skipSpaces r
  | s => s

/-- drop the rest of the current word (`while (*p && *p != ' ') ++p;`) -/
def skipWord : Str → Str
  | [] => []
  | c :: r => if c = ' ' then c :: r else skipWord r

/-- `strchr(p, ' ')`: the suffix starting at the first space, `none` if there is none -/
def toSpace : Str → Option Str
  | [] => none
  | c :: r => if c = ' ' then some (c :: r) else toSpace r

def chrInFirstWord (c : Char) : Str → Bool
  | [] => false
  | x :: r => if x = ' ' then false else if x = c then true else chrInFirstWord c r

/-- the `[..]` scan: returns (chrFound, count of ']', rest at `temp`) -/
def classScan (c : Char) : Str → Nat → Bool × Nat × Str
  | [], n => (false, n, [])
  | x :: r, n =>
    if x = ' ' then (false, n, x :: r)
    else if x = ']' then classScan c r (n + 1)
    else if x = c then (true, n, x :: r)
    else classScan c r n

def firstWordEquals : Str → Str → Bool
  | s, [] => (at0 s 0 = ' ') || s = []
  | [], _ :: _ => false
  | a :: s, b :: w => if a = b then firstWordEquals s w else false

/-- `Token::Match` main loop; fuel bounds the pattern bytes (every iteration consumes ≥ 1). -/
def interpLoop : Nat → Str → List Tok → Nat → Res
  | 0, _, _, _ => .t
  | fuel + 1, p0, ts, v =>
    let p := skipSpaces p0
    if p = [] then .t
    else
      match ts with
      | [] =>
        if at0 p 0 = '!' ∧ at0 p 1 = '!' ∧ at0 p 2 ≠ '\x00' then interpLoop fuel (skipWord p) [] v
        else
          -- a word with a trailing empty alternative matches "no token"
          let w := p.takeWhile (· ≠ ' ')
          if ¬(at0 p 0 = '[' ∧ chrInFirstWord ']' p) ∧ w.length > 1 ∧ w.getLast? = some '|' then
            interpLoop fuel (skipWord p) [] v
          else .f
      | t :: r =>
        if at0 p 0 = '[' ∧ chrInFirstWord ']' p then
          match t.str with
          | [c] =>
            let (found, cnt, temp) := classScan c (p.drop 1) 0
            let found := found || (cnt > 1 && c = ']')
            if !found then .f
            else match toSpace temp with
              | none => .t
              | some p' => interpLoop fuel p' r v
          | _ => .f
        else if at0 p 0 = '!' ∧ at0 p 1 = '!' ∧ at0 p 2 ≠ '\x00' then
          let p2 := p.drop 2
          if firstWordEquals p2 t.str then .f
          else match toSpace p2 with
            | none => .t
            | some p' => interpLoop fuel p' r v
        else
          match multiCompare t p v with
          | .thrw => .err
          | .zero => interpLoop fuel (skipWord p) (t :: r) v
          | .minus => .f
          | .one =>
            match toSpace p with
            | none => .t
            | some p' => interpLoop fuel p' r v

def interpB (p : Str) (ts : List Tok) (v : Nat) : Res :=
  if p = [] then .t else interpLoop (p.length + 1) p ts v

/-- `Token::simpleMatch` (pattern_len = strlen): exact words separated by single spaces -/
def simpleLoop : Nat → Str → List Tok → Bool
  | 0, _, _ => true
  | fuel + 1, cur, ts =>
    if cur = [] then true
    else
      let w := cur.takeWhile (· ≠ ' ')
      let rest := cur.dropWhile (· ≠ ' ')
      match ts with
      | [] => false
      | t :: r =>
        if t.str ≠ w then false
        else match rest with
          | [] => true
          | _ :: rest' => simpleLoop fuel rest' r

def simpleMatchB (p : Str) (ts : List Tok) : Bool :=
  match ts with
  | [] => false
  | _ => simpleLoop (p.length + 1) p ts

/-- `Token::findmatch(start, pattern, [end], varid)` (lib/token.cpp `findmatchImpl`) -/
def findInterp (p : Str) (v : Nat) : List Tok → Nat → Find :=
  findWith (fun ts => interpB p ts v)

/-- `Token::findsimplematch(start, pattern, pattern_len, [end])` (`findsimplematchImpl`) -/
def findSimpleInterp (p : Str) : List Tok → Nat → Find :=
  findWith (fun ts => .ofBool (simpleMatchB p ts))

/-! ## 4. Well-formed patterns (decidable; every pattern literal in lib/*.cpp is checked) -/

def isCmdOrPlain (a : Str) : Bool :=
  match Cmd.ofStr a with
  | some _ => true
  | none =>
    -- a literal: no pattern metacharacters except the literal operators "%" and "%="
    a ≠ [] && !a.contains '|' && !a.contains ' ' &&
      (a.head? ≠ some '%' || a = ['%'] || a = ['%', '='])

def wordWF (w : Str) : Bool :=
  match Word.ofStr w with
  | .cls _ => true
  | .alts _ _ =>
    let parts := splitOn '|' w
    -- the interpreter must classify the word as alternatives too, only a trailing empty
    -- alternative, every other part a command or a plain literal
    !(w.take 2 = ['!', '!']) && !(w.head? = some '[' && w.contains ']')
      && parts.dropLast.all isCmdOrPlain
      && (match parts.getLast? with | some l => l = [] || isCmdOrPlain l | none => false)
  | .neg s => s ≠ [] && !s.contains '|'
  | .one _ =>
    isCmdOrPlain w && !(w.head? = some '[' && w.contains ']') && !w.contains '|'

def patternWF (p : Str) : Bool := (words p).all wordWF

/-- simpleMatch patterns: non-empty, single spaces, and every word is compiled as a plain literal -/
def simplePatternWF (p : Str) : Bool :=
  p ≠ [] && (splitOn ' ' p).all fun w =>
    w ≠ [] && (match Word.ofStr w with | .one (.lit _) => true | _ => false)

/-! ## 5. Decidable side conditions used as theorem hypotheses (reported by the driver for every
    explored case) -/

/-- token-type invariant the compiled literal guards rely on, plus "only names carry a varid" -/
def TokWF (t : Tok) : Bool :=
  (lookupTypes t.str tokTypes = [] || (lookupTypes t.str tokTypes).contains t.ty)
  && (t.varId = 0 || t.isName)

/-- the pattern is a C string: it contains no NUL byte (a `const char*` ends at the first NUL, the
    model's `List Char` would carry on behind it) -/
def noNul (p : Str) : Bool := p.all (· ≠ '\x00')

/-- token text the interpreter handles like the documented language: no blank, no NUL.
    (`Token::Match` compares `tok->str().c_str()` bytewise against the pattern: a blank inside the
    token is taken for the pattern's word separator, and a NUL ends `c_str()`.)  The empty text is
    allowed. -/
def TokStrOK (t : Tok) : Bool := t.str.all (fun c => c ≠ ' ' && c ≠ '\x00')

def wordUsesVarid : Word → Bool
  | .alts as _ => as.any (· = .cmd .varid)
  | .one a => a = .cmd .varid
  | _ => false

end Cppcheck.Match
